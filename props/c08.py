"""C08 -- loading is deterministic under every thread schedule.

A case carries the bytes of a PDF file written here plus the abstract view of it that the model works on (what
every loading task reads: `entries`; for an encrypted file also what decryption makes of every object: `crypt`).  The harness loads the bytes under every merge order (hook H1), under real
rayon pools and with the sequential build; the model computes the document for every order from the entries."""
import hashlib
import os
import struct
import propcheck
import vlib
from sxg import *


# ------------------------------------------------------------------------------------------
# objects: python values -> PDF syntax and case language
# ------------------------------------------------------------------------------------------
def pdf(o):
    t = o[0]
    if t == 'null':
        return b'null'
    if t == 'b':
        return b'true' if o[1] else b'false'
    if t == 'i':
        return str(o[1]).encode()
    if t == 'n':
        return b'/' + o[1]
    if t == 's':
        return b'(' + o[1] + b')'
    if t == 'h':
        return b'<' + o[1].hex().encode() + b'>'
    if t == 'a':
        return b'[' + b' '.join(pdf(x) for x in o[1]) + b']'
    if t == 'd':
        return b'<<' + b''.join(b'/' + k + b' ' + pdf(v) for k, v in o[1]) + b'>>'
    if t == 'ref':
        return b'%d %d R' % (o[1], o[2])
    raise ValueError(o)


def sx(o):
    t = o[0]
    if t == 'null':
        return NULL
    if t == 'b':
        return B(o[1])
    if t == 'i':
        return I(o[1])
    if t == 'n':
        return N(o[1])
    if t == 's':
        return S(o[1])
    if t == 'h':
        return H(o[1])
    if t == 'a':
        return A([sx(x) for x in o[1]])
    if t == 'd':
        return D([(k, sx(v)) for k, v in o[1]])
    if t == 'ref':
        return REF(o[1], o[2])
    raise ValueError(o)




# ------------------------------------------------------------------------------------------
# standard security handler (ISO 32000-1 7.6.3): revision 3 (RC4, 128 bit) and revision 4 (AESV2), pure python;
# checked against the crate: files encrypted here are opened by Document::load_mem with the expected plaintext
# ------------------------------------------------------------------------------------------
PAD = bytes.fromhex('28BF4E5E4E758A4164004E56FFFA01082E2E00B6D0683E802F0CA9FE6453697A')


def md5(b):
    return hashlib.md5(b).digest()


def rc4(key, data):
    s = list(range(256))
    j = 0
    n = len(key)
    for i in range(256):
        j = (j + s[i] + key[i % n]) & 255
        s[i], s[j] = s[j], s[i]
    out = bytearray(len(data))
    i = j = 0
    for k, c in enumerate(data):
        i = (i + 1) & 255
        j = (j + s[i]) & 255
        s[i], s[j] = s[j], s[i]
        out[k] = c ^ s[(s[i] + s[j]) & 255]
    return bytes(out)


# ---- AES-128 encryption (FIPS 197), table driven ----
def _tables():
    sbox = [0] * 256
    p = q = 1
    while True:
        p = p ^ ((p << 1) & 255) ^ (0x1b if p & 0x80 else 0)
        q ^= q << 1
        q ^= q << 2
        q ^= q << 4
        q &= 255
        if q & 0x80:
            q ^= 0x09
        x = q ^ (q << 1 | q >> 7) & 255 ^ (q << 2 | q >> 6) & 255 ^ (q << 3 | q >> 5) & 255 ^ (q << 4 | q >> 4) & 255
        sbox[p] = (x ^ 0x63) & 255
        if p == 1:
            break
    sbox[0] = 0x63
    return sbox


SBOX = _tables()
XT = [((x << 1) ^ (0x1b if x & 0x80 else 0)) & 255 for x in range(256)]
M2 = [XT[SBOX[x]] for x in range(256)]
M3 = [XT[SBOX[x]] ^ SBOX[x] for x in range(256)]


def aes128_key_schedule(key):
    w = [list(key[4 * i:4 * i + 4]) for i in range(4)]
    rcon = 1
    for i in range(4, 44):
        t = list(w[i - 1])
        if i % 4 == 0:
            t = [SBOX[t[1]] ^ rcon, SBOX[t[2]], SBOX[t[3]], SBOX[t[0]]]
            rcon = XT[rcon]
        w.append([a ^ b for a, b in zip(w[i - 4], t)])
    return [sum(w[4 * r:4 * r + 4], []) for r in range(11)]


def aes128_encrypt_block(rk, block):
    s = [b ^ k for b, k in zip(block, rk[0])]
    for r in range(1, 11):
        # SubBytes + ShiftRows: column c, row i comes from column (c + i) % 4
        t = [s[4 * ((c + i) & 3) + i] for c in range(4) for i in range(4)]
        if r < 10:
            u = []
            for c in range(4):
                a0, a1, a2, a3 = t[4 * c:4 * c + 4]
                u += [M2[a0] ^ M3[a1] ^ SBOX[a2] ^ SBOX[a3],
                      SBOX[a0] ^ M2[a1] ^ M3[a2] ^ SBOX[a3],
                      SBOX[a0] ^ SBOX[a1] ^ M2[a2] ^ M3[a3],
                      M3[a0] ^ SBOX[a1] ^ SBOX[a2] ^ M2[a3]]
        else:
            u = [SBOX[x] for x in t]
        k = rk[r]
        s = [a ^ b for a, b in zip(u, k)]
    return bytes(s)


def aes128_cbc_encrypt(key, iv, data):
    """IV || CBC(PKCS#5 padded data)"""
    rk = aes128_key_schedule(key)
    n = 16 - len(data) % 16
    data = data + bytes([n]) * n
    out = bytearray(iv)
    prev = iv
    for i in range(0, len(data), 16):
        prev = aes128_encrypt_block(rk, bytes(a ^ b for a, b in zip(data[i:i + 16], prev)))
        out += prev
    return bytes(out)


assert aes128_encrypt_block(aes128_key_schedule(bytes(range(16))), bytes.fromhex('00112233445566778899aabbccddeeff')).hex() == \
    '69c4e0d86a7b0430d8cdb78070b4c55a'
assert rc4(b'Key', b'Plaintext').hex().upper() == 'BBF316E8D940AF0AD3'


def pad_pw(pw):
    return (pw + PAD)[:32]


class Handler:
    """kind: 'rc4' = V 2 R 3 Length 128; 'aes' = V 4 R 4 AESV2.  user password given, owner password b'owner'."""
    def __init__(self, kind, user, id0, perms=-4, owner=b'owner'):
        self.kind = kind
        self.R = 3 if kind == 'rc4' else 4
        n = 16
        h = md5(pad_pw(owner))
        for _ in range(50):
            h = md5(h)
        okey = h[:n]
        x = rc4(okey, pad_pw(user))
        for i in range(1, 20):
            x = rc4(bytes(k ^ i for k in okey), x)
        self.O = x
        self.P = perms
        h = md5(pad_pw(user) + self.O + struct.pack('<I', perms & 0xffffffff) + id0)
        for _ in range(50):
            h = md5(h[:n])
        self.key = h[:n]
        h = md5(PAD + id0)
        x = rc4(self.key, h)
        for i in range(1, 20):
            x = rc4(bytes(k ^ i for k in self.key), x)
        self.U = x + b'\x00' * 16

    def obj_key(self, num, gen):
        salt = b'sAlT' if self.kind == 'aes' else b''
        return md5(self.key + num.to_bytes(4, 'little')[:3] + gen.to_bytes(2, 'little') + salt)[:16]

    def encrypt(self, num, gen, data, iv=None):
        k = self.obj_key(num, gen)
        if self.kind == 'rc4':
            return rc4(k, data)
        return aes128_cbc_encrypt(k, iv, data)

    def dict_entries(self):
        """entries of the encryption dictionary, as (key, python object) pairs of props/c08.py's object language"""
        e = [(b'Filter', ('n', b'Standard'))]
        if self.kind == 'rc4':
            e += [(b'V', ('i', 2)), (b'R', ('i', 3)), (b'Length', ('i', 128))]
        else:
            e += [(b'V', ('i', 4)), (b'R', ('i', 4)), (b'Length', ('i', 128)),
                  (b'CF', ('d', [(b'StdCF', ('d', [(b'CFM', ('n', b'AESV2')), (b'AuthEvent', ('n', b'DocOpen')), (b'Length', ('i', 16))]))])),
                  (b'StmF', ('n', b'StdCF')), (b'StrF', ('n', b'StdCF'))]
        e += [(b'O', ('h', self.O)), (b'U', ('h', self.U)), (b'P', ('i', self.P))]
        return e


WORDS = [b'A', b'B', b'Kind', b'Val', b'Font', b'Page', b'X1', b'Next']


def rand_obj(rng, depth=0):
    r = rng.random()
    if depth >= 2 or r < 0.45:
        k = rng.randrange(7)
        if k == 0:
            return ('i', rng.choice([0, 1, -1, 7, 42, 100000, -2147483648, 9007199254740993]))
        if k == 1:
            return ('n', rng.choice(WORDS))
        if k == 2:
            return ('s', rng.choice([b'', b'hello', b'a b c', b'x' * 20]))
        if k == 3:
            return ('h', rng.choice([b'', b'\x00\xff', b'AB']))
        if k == 4:
            return ('b', rng.random() < 0.5)
        if k == 5:
            return ('ref', rng.randint(1, 30), 0)
        return ('null',)
    if r < 0.75:
        keys = rng.sample(WORDS, rng.randint(0, 3))
        return ('d', [(k, rand_obj(rng, depth + 1)) for k in keys])
    return ('a', [rand_obj(rng, depth + 1) for _ in range(rng.randint(0, 3))])


# ------------------------------------------------------------------------------------------
# physical objects
# ------------------------------------------------------------------------------------------
class Phys:
    """one `N 0 obj ... endobj` in the file.  kind:
       ('obj', o) | ('stm', extra_dict_entries, data, length) | ('objstm', index, broken [, length]) | ('garbage',)
       length: ('direct', n) | ('ref', num, resolved: bool)   -- resolved: num is a Normal entry holding len(data)
               | ('wrong', num, value)   -- num is a Normal entry holding the integer value != len(data): see parse_wrong_length
       index: list of (num, obj | None)   -- None: offset out of bounds"""
    def __init__(self, num, kind, gen=0):
        self.num = num
        self.gen = gen       # generation in the object header (the xref entry always says 0; the reader does not compare)
        self.kind = kind
        self.offset = None
        self.parsed = None   # case-language text of the expected parse


def objstm_data(index):
    bodies = []
    pos = 0
    offs = []
    for num, o in index:
        if o is None:
            offs.append(None)
            continue
        b = pdf(o) + b' '
        offs.append(pos)
        bodies.append(b)
        pos += len(b)
    body = b''.join(bodies)
    nums = []
    for (num, o), off in zip(index, offs):
        nums.append(b'%d %d' % (num, off if off is not None else len(body) + 50))
    head = b' '.join(nums) + b' '
    return head + body, len(head)


def parse_wrong_length(data, value):
    """what parser::stream makes of `data \\n endstream \\n endobj` when the Length it resolved while parsing is `value`:
    None = the object fails (negative: nom Failure), False = a Dictionary (the bytes after `value` bytes are not [eol] endstream, or the
    file ends before), bytes = a Stream with that content (a wrong length that still lands in front of an endstream)"""
    if value < 0:
        return None
    after = data + b'\nendstream\nendobj\n'
    if value > len(after) - len(b'endstream\nendobj\n'):
        # inside `endstream`, in front of `endobj`, or far beyond the end of the file (nothing in between is generated)
        assert value <= len(after) - 7 or value >= 10 ** 8
        return False
    rest = after[value:]
    for e in (b'\r\n', b'\n', b'\r'):
        if rest.startswith(e):
            rest = rest[len(e):]
            break
    return after[:value] if rest.startswith(b'endstream') else False


def crypt_strings(o, f):
    """the object with every string written in hexadecimal form, its bytes replaced by f(bytes)"""
    t = o[0]
    if t in ('s', 'h'):
        return ('h', f(o[1]))
    if t == 'a':
        return ('a', [crypt_strings(x, f) for x in o[1]])
    if t == 'd':
        return ('d', [(k, crypt_strings(v, f)) for k, v in o[1]])
    return o


class Enc:
    """how a file is encrypted: handler, whether the empty password opens it, the object number of the encryption dictionary
    (None: a direct object of the trailer), the Phys whose AES ciphertext is cut to a length that is no multiple of 16"""
    def __init__(self, rng, kind, opens=True, dict_num=None, damaged=()):
        self.id0 = bytes(rng.randrange(256) for _ in range(16))
        self.h = Handler(kind, b'' if opens else b'secret', self.id0, perms=rng.choice([-4, -44, -3904]))
        self.kind = kind
        self.opens = opens
        self.dict_num = dict_num
        self.damaged = damaged
        self.rng = rng
        self.dec = []        # case text: ((ID GEN) ENCRYPTED PLAIN|err)
        self.osm = []        # case text: (xCONTENT MEMBERS)

    def data(self, p, b):
        iv = bytes(self.rng.randrange(256) for _ in range(16))
        return self.h.encrypt(p.num, p.gen, b, iv)

    def obj(self, p, o):
        """(encrypted object, what decrypt_object makes of it)"""
        return crypt_strings(o, lambda b: self.data(p, b)), crypt_strings(o, lambda b: b)


def layout(rng, phys, xref, root, mark=True, compressed=None, enc=None, model_skipped=False):
    """phys: list of Phys in physical order; xref: dict key -> Phys | 'raw' (an offset into garbage).
    compressed: None = classic xref table; dict number -> container key = cross-reference stream with those
    Compressed entries.  enc: None or an Enc: strings and stream bodies are written encrypted (strings in hexadecimal form), the
    trailer gets Encrypt and ID, the case its (crypt ..) part.  Returns (file bytes, case text)."""
    out = bytearray(b'%PDF-1.5\n')
    bm = b'\xbb\xad\xc0\xde'     # Document::new()'s default stays when line 2 is not a binary mark
    if mark:
        bm = b'\xe2\xe3\xcf\xd3'
        out += b'%' + bm + b'\n'
    for p in phys:
        p.offset = len(out)
        k = p.kind
        oid = OID(p.num, p.gen)
        if enc and k[0] in ('stm', 'objstm'):
            emit_encrypted_stream(rng, out, p, enc)
        elif k[0] == 'encdict':
            # the encryption dictionary: never encrypted, skipped by decrypt, removed afterwards
            o = ('d', enc.h.dict_entries())
            out += b'%d %d obj\n' % (p.num, p.gen) + pdf(o) + b'\nendobj\n'
            p.parsed = L('obj', oid, sx(o))
        elif k[0] == 'obj' and enc:
            eo, po = enc.obj(p, k[1])
            out += b'%d %d obj\n' % (p.num, p.gen) + pdf(eo) + b'\nendobj\n'
            p.parsed = L('obj', oid, sx(eo))
            if eo != po:
                enc.dec.append(L(oid, sx(eo), sx(po)))
        elif k[0] == 'obj':
            out += b'%d %d obj\n' % (p.num, p.gen) + pdf(k[1]) + b'\nendobj\n'
            p.parsed = L('obj', oid, sx(k[1]))
        elif k[0] == 'garbage':
            out += b'this is not an object\n'
            p.parsed = 'fail'
        elif k[0] in ('stm', 'objstm'):
            if k[0] == 'objstm':
                data, first = objstm_data(k[1])
                entries = [(b'Type', ('n', b'ObjStm')), (b'N', ('i', len(k[1])))]
                if not k[2]:
                    entries.append((b'First', ('i', first)))
                length = k[3] if len(k) > 3 else ('direct', len(data))
                if k[2]:
                    members = 'none'
                else:
                    members = L('m', *[L(OID(num, 0), sx(o)) for num, o in k[1] if o is not None])
            else:
                entries, data, length = list(k[1]), k[2], k[3]
                members = 'none'
            if length[0] == 'direct':
                lobj = ('i', length[1])
            else:
                lobj = ('ref', length[1], 0)
            pos = rng.randint(0, len(entries))
            entries.insert(pos, (b'Length', lobj))
            head = b'%d %d obj\n' % (p.num, p.gen) + pdf(('d', entries)) + b'\nstream\n'
            out += head
            start = len(out)
            out += data + b'\nendstream\nendobj\n'
            if length[0] == 'direct' and length[1] < 0:
                p.parsed = 'fail'
            elif length[0] == 'wrong':
                got = parse_wrong_length(data, length[2])
                if got is None:
                    p.parsed = 'fail'
                elif got is False:
                    # `take(length)` is not followed by endstream: the parser's alt falls back to the dictionary alone
                    p.parsed = L('obj', oid, sx(('d', entries)))
                else:
                    assert k[0] == 'stm'
                    entries[pos] = (b'Length', ('i', len(got)))
                    p.parsed = L('stm', oid, sx(('d', entries)), xb(got), 'none', members)
            elif length[0] == 'direct' or length[2]:
                n = length[1] if length[0] == 'direct' else len(data)
                assert n == len(data)
                entries[pos] = (b'Length', ('i', n))
                p.parsed = L('stm', oid, sx(('d', entries)), xb(data), 'none', members)
            else:
                if k[0] == 'objstm':
                    members = L('m')       # ObjectStream::new on an empty content: Ok, no members (First is not looked at)
                p.parsed = L('stm', oid, sx(('d', entries)), xb(b''), str(start), members)
        else:
            raise ValueError(k)
    garbage_at = len(out)
    out += b'%% filler\nnot an object\n'
    maxkey = max(list(xref) + list(compressed or {}))
    xref_at = len(out)
    entries = []
    rows = []
    for key in range(maxkey + 1):
        t = xref.get(key)
        if t is None:
            if compressed and key in compressed:
                rows.append((2, compressed[key], 0))
            else:
                rows.append((0, 0, 65535))
            continue
        off = garbage_at + 1 if t == 'raw' else t.offset
        rows.append((1, off, 0))
        entries.append(L(str(key), str(off), 'fail' if t == 'raw' else t.parsed))
    size = maxkey + 1
    def with_encrypt(trailer):
        if enc:
            e = ('ref', enc.dict_num, 0) if enc.dict_num is not None else ('d', enc.h.dict_entries())
            trailer.insert(rng.randint(0, len(trailer)), (b'Encrypt', e))
            trailer.insert(rng.randint(0, len(trailer)), (b'ID', ('a', [('h', enc.id0), ('h', enc.id0[::-1])])))
        return trailer
    if compressed is None:
        out += b'xref\n0 %d\n' % size
        for ty, a, b in rows:
            out += b'%010d %05d %s \n' % (a, b, b'n' if ty == 1 else b'f')
        trailer = with_encrypt([(b'Size', ('i', size)), (b'Root', ('ref', root, 0))])
        out += b'trailer\n' + pdf(('d', trailer)) + b'\nstartxref\n%d\n%%%%EOF' % xref_at
    else:
        # cross-reference stream, not listed in itself; Length and W come last so that removing them keeps the order
        body = b''.join(bytes([ty]) + a.to_bytes(4, 'big') + b.to_bytes(2, 'big') for ty, a, b in rows)
        trailer = with_encrypt([(b'Type', ('n', b'XRef')), (b'Size', ('i', size)), (b'Root', ('ref', root, 0))])
        full = trailer + [(b'W', ('a', [('i', 1), ('i', 4), ('i', 2)])), (b'Length', ('i', len(body)))]
        out += b'%d 0 obj\n' % (size + 5) + pdf(('d', full)) + b'\nstream\n' + body + b'\nendstream\nendobj\n'
        out += b'startxref\n%d\n%%%%EOF' % xref_at
    meta = [xb(b'1.5'), xb(bm), sx(('d', trailer)), str(maxkey), '1' if enc else '0']
    if compressed:
        # a number with a Normal entry has no Compressed entry (one entry per number in the table)
        meta.append(L('xc', *[L(str(n), str(c)) for n, c in sorted(compressed.items()) if n not in xref]))
    parts = [xb(bytes(out)), L('meta', *meta), L('entries', *entries)]
    if model_skipped:
        # the runner answers (model-skipped): the case is decided on the implementation alone (see SPEC['compare'])
        parts.append(L('model', 'skipped'))
    if enc:
        parts.append(L('crypt', '1' if enc.opens else '0', L('dec', *enc.dec), L('osm', *enc.osm)))
    case = L('case', *parts)
    return bytes(out), case


def emit_encrypted_stream(rng, out, p, enc):
    """a stream or object stream of an encrypted file: the dictionary's strings and the body are encrypted with the key of the
    object's header id; the expected parse carries the ciphertext, enc.dec what decrypt_object makes of it (set_content
    rewrites Length in place), enc.osm what ObjectStream::new finds in the plaintext"""
    k = p.kind
    oid = OID(p.num, p.gen)
    if k[0] == 'objstm':
        data, first = objstm_data(k[1])
        entries = [(b'Type', ('n', b'ObjStm')), (b'N', ('i', len(k[1])))]
        if not k[2]:
            entries.append((b'First', ('i', first)))
            members = L('m', *[L(OID(num, 0), sx(o)) for num, o in k[1] if o is not None])
        else:
            members = 'none'
        enc.osm.append(L(xb(data), members))
        length = ('direct', None)
    else:
        entries, data, length = list(k[1]), k[2], k[3]
    ct = enc.data(p, data)
    damaged = p in enc.damaged and enc.kind == 'aes'
    if damaged:
        ct = ct[:len(ct) - rng.randint(1, 15)]
    ed, pd = enc.obj(p, ('d', entries))
    eentries, pentries = list(ed[1]), list(pd[1])
    if length[0] == 'direct':
        lobj = ('i', len(ct))
    else:
        lobj = ('ref', length[1], 0)
    pos = rng.randint(0, len(entries))
    eentries.insert(pos, (b'Length', lobj))
    out += b'%d %d obj\n' % (p.num, p.gen) + pdf(('d', eentries)) + b'\nstream\n'
    start = len(out)
    out += ct + b'\nendstream\nendobj\n'
    if length[0] == 'direct' or length[2]:
        # the parser knows the length (a reference to an integer object under a Normal entry is followed while parsing)
        eentries[pos] = (b'Length', ('i', len(ct)))
        seen, plain = ct, data
        p.parsed = L('stm', oid, sx(('d', eentries)), xb(ct), 'none', 'none')
    else:
        # the length lives inside an (encrypted, hence unexpanded) object stream or nowhere: the body is never read
        seen, plain = b'', b''
        p.parsed = L('stm', oid, sx(('d', eentries)), xb(b''), str(start), 'none')
    pentries.insert(pos, (b'Length', ('i', len(plain))))
    enc.dec.append(L(oid, L('st', sx(('d', eentries)), xb(seen)), 'err' if damaged else L('st', sx(('d', pentries)), xb(plain))))


# ------------------------------------------------------------------------------------------
# families
# ------------------------------------------------------------------------------------------
def gen_random(rng, nstreams, agree, tier):
    """nstreams object streams over a small pool of member numbers; plain objects, some colliding with members;
    ordinary streams with direct / resolved / unresolved (defined only inside object streams) / dangling lengths"""
    nplain = rng.randint(1, 5)
    nstm = rng.randint(0, 4)
    total = nplain + nstm + nstreams
    keys = list(range(1, total + 1))
    rng.shuffle(keys)
    plain_keys, stm_keys, os_keys = keys[:nplain], keys[nplain:nplain + nstm], keys[nplain + nstm:]
    pool = list(range(total + 1, total + 1 + rng.randint(1, 5)))       # numbers that live only inside object streams
    collide = rng.sample(plain_keys + stm_keys, min(len(plain_keys + stm_keys), rng.randint(0, 2)))
    len_nums = []       # member numbers used as stream lengths
    phys = []
    xref = {}
    datas = {}
    # ordinary streams first (their lengths may point into the pool)
    int_holder = None
    for k in stm_keys:
        data = rng.choice([b'stream data 1', b'BT /F1 12 Tf ET', b'x', b'0123456789' * 3])
        extra = [(b'Kind', ('n', b'Content'))] if rng.random() < 0.5 else []
        r = rng.random()
        if r < 0.25:
            length = ('direct', len(data))
        elif r < 0.35:
            data = b''
            length = ('direct', 0)
        elif r < 0.45 and plain_keys and int_holder is None:
            int_holder = (plain_keys[0], len(data))
            length = ('ref', plain_keys[0], True)
        elif r < 0.9:
            num = rng.choice(pool)
            len_nums.append((num, len(data)))
            length = ('ref', num, False)
        else:
            length = ('ref', total + 40, False)      # dangling
        phys.append(Phys(k, ('stm', extra, data, length)))
    for k in plain_keys:
        held = int_holder and int_holder[0] == k
        o = ('i', int_holder[1]) if held else rand_obj(rng)
        # a number that object streams also define, present under another generation: members are not added (61ef95a)
        gen = rng.choice([0, 2, 65535]) if (k in collide and not held) else 0
        phys.append(Phys(k, ('obj', o), gen))
    # object streams
    bodies = {}
    for k in os_keys:
        nm = rng.randint(0, 4)
        cands = pool + collide + ([rng.choice(os_keys)] if rng.random() < 0.15 else [])
        index = []
        for _ in range(nm):
            num = rng.choice(cands)
            lens = [l for (n, l) in len_nums if n == num]
            if lens and rng.random() < 0.85:
                # a number used as a stream length: the right value, or (unless the blocks must agree) another one
                o = ('i', lens[0])
                if not agree and rng.random() < 0.5:
                    o = ('i', rng.choice([0, 1, 5, lens[0] + 1, -3, 10 ** 7]))
            else:
                o = rand_obj(rng)
            if agree:
                o = bodies.setdefault(num, o)
            if rng.random() < 0.05:
                o = None
            index.append((num, o))
        phys.append(Phys(k, ('objstm', index, rng.random() < 0.04)))
    rng.shuffle(phys)
    for p in phys:
        xref[p.num] = p
    if rng.random() < 0.1:
        xref[total + 1 + len(pool) + 3] = 'raw'
    root = rng.choice(plain_keys)
    compressed = None
    if os_keys and rng.random() < 0.5:
        # a cross-reference stream that places some numbers in a container: usually one that holds the number,
        # sometimes one that does not, a key that is no object stream, or a number that is also a Normal entry (ignored: the
        # table has one entry per number, the Normal one is written)
        compressed = {}
        holders = {}
        for p in phys:
            if p.kind[0] == 'objstm':
                for num, o in p.kind[1]:
                    holders.setdefault(num, []).append(p.num)
        for num in pool + [total + 30]:
            r = rng.random()
            if r < 0.65 and holders.get(num):
                compressed[num] = rng.choice(holders[num])
            elif r < 0.8:
                compressed[num] = rng.choice(keys)
            elif r < 0.85:
                compressed[num] = total + 20
        if not compressed:
            compressed = {total + 30: os_keys[0]}
    return layout(rng, phys, xref, root, mark=rng.random() < 0.8, compressed=compressed)


def gen_dup_headers(rng):
    """several xref keys whose objects carry the same header id (the later key wins in the BTreeMap), two keys for one
    offset, an object stream reached twice, a zero-length stream later replaced by a reference to another one"""
    phys = []
    xref = {}
    v = rng.randrange(4)
    a = Phys(1, ('obj', ('d', [(b'Kind', ('n', b'First'))])))
    data = b'zero length stream body'
    z1 = Phys(2, ('stm', [], data, ('ref', 20, False)))
    z2 = Phys(3, ('stm', [(b'Kind', ('n', b'Other'))], b'another body', ('ref', 21, False)))
    os1 = Phys(4, ('objstm', [(20, ('i', len(data))), (21, ('i', 7)), (9, ('s', b'from 4'))], False))
    os2 = Phys(5, ('objstm', [(21, ('i', 12)), (20, ('i', 4)), (9, ('s', b'from 5'))], False))
    phys = [a, z1, z2, os1, os2]
    for p in phys:
        xref[p.num] = p
    if v == 0:
        # key 6 -> an object whose header says 2: replaces the zero-length stream by a reference to stream 3
        r = Phys(2, ('obj', ('ref', 3, 0)))
        phys.append(r)
        xref[6] = r
    elif v == 1:
        # the same object stream through two keys; the same plain object through two keys
        xref[7] = os1
        xref[8] = a
    elif v == 2:
        # header id differs from the key: key 6 holds "9 0 obj", also defined in both object streams
        r = Phys(9, ('obj', ('s', b'normal entry wins')))
        phys.append(r)
        xref[6] = r
    else:
        # a later key redefines the container id with a plain object: the members are still merged
        r = Phys(4, ('obj', ('n', b'Shadow')))
        phys.append(r)
        xref[9] = r
    rng.shuffle(phys)
    compressed = rng.choice([None, {20: 5}, {20: 5, 21: 5, 9: 5}, {21: 4, 20: 4}])
    return layout(rng, phys, xref, 1, mark=True, compressed=compressed)


def gen_same_header(rng, big=0, variant=None):
    """object streams whose `N 0 obj` header number differs from the cross-reference entry number that leads to them, and
    several entries leading to DIFFERENT object streams that carry the SAME header number (a container re-listed under a new
    slot without renumbering).  The blocks are keyed by the entry number: a reader that keys them by the header number gets
    equal sort keys and merges in completion order.  big > 0: one container holds `big` members and the other two, so that the
    workers of a real pool finish in the opposite of the cross-reference order."""
    v = rng.randrange(6) if variant is None else variant
    cat = Phys(1, ('obj', ('d', [(b'Type', ('n', b'Catalog'))])))
    data = b'body of the zero length stream'
    z = Phys(2, ('stm', [], data, ('ref', 20, False)))            # its Length lives only inside the object streams
    plain = Phys(3, ('obj', rand_obj(rng)))
    phys = [cat, z, plain]
    xref = {1: cat, 2: z, 3: plain}
    def members(tag, n_extra=0, first=False):
        ms = [(9, ('s', b'from ' + tag)), (20, ('i', len(data) if first else rng.choice([4, 7, len(data) + 1])))]
        if rng.random() < 0.5:
            ms.append((30 + rng.randrange(3), ('n', tag)))
        ms += [(1000 + j, ('i', j)) for j in range(n_extra)]
        if rng.random() < 0.5 and not n_extra:
            rng.shuffle(ms)
        return ms
    if v == 0:
        # two entries, two containers, one header number (that of the first entry / of the second / of neither)
        k1, k2 = rng.choice([(4, 5), (4, 7), (5, 8)])
        h = rng.choice([k1, k2, 6, 12])
        specs = [(k1, h, b'first'), (k2, h, b'second')]
    elif v == 1:
        # three containers with one header number
        h = rng.choice([4, 5, 6, 11])
        specs = [(4, h, b'first'), (5, h, b'second'), (6, h, b'third')]
    elif v == 2:
        # header numbers exchanged: entry 4 leads to "5 0 obj", entry 5 to "4 0 obj" (no tie, but the other order)
        specs = [(4, 5, b'first'), (5, 4, b'second')]
    elif v == 3:
        # headers descending while the entries ascend, one of them far away
        specs = [(4, 40, b'first'), (5, 7, b'second'), (6, 5, b'third')]
    elif v == 4:
        # a tie between two of three, the third sorts before them by header and after them by entry
        specs = [(4, 9, b'first'), (5, 9, b'second'), (7, 4, b'third')]
    else:
        # the header number is that of a plain object listed under its own entry (which comes later: it replaces the container)
        specs = [(4, 3, b'first'), (5, 3, b'second')] if rng.random() < 0.5 else [(4, 8, b'first'), (5, 8, b'second'), (8, 8, b'third')]
    sizes = [0] * len(specs)
    if big:
        sizes[rng.choice([0, 0, 0, len(specs) - 1])] = big        # mostly: the container met first is the slow one
    for (key, h, tag), n_extra in zip(specs, sizes):
        p = Phys(h, ('objstm', members(tag, n_extra, first=(key == specs[0][0])), False))
        phys.append(p)
        xref[key] = p
    head, tail = phys[:3], phys[3:]
    if not big or rng.random() < 0.5:
        rng.shuffle(phys)
    compressed = None
    r = rng.random()
    if r < 0.6:
        keys = [k for k, _, _ in specs]
        hs = [h for _, h, _ in specs]
        compressed = {}
        for num in (9, 20, 30, 31):
            q = rng.random()
            if q < 0.4:
                compressed[num] = rng.choice(keys)                # named by the entry number (what the table means)
            elif q < 0.7:
                compressed[num] = rng.choice(hs)                  # a container number that is only a header number
            elif q < 0.8:
                compressed[num] = 3
        if not compressed:
            compressed = {9: keys[-1]}
    return layout(rng, phys, xref, 1, mark=True, compressed=compressed)


def enc_len(kind, n):
    """length of the ciphertext of n bytes"""
    return n if kind == 'rc4' else 16 + 16 * (n // 16 + 1)


def gen_encrypted(rng, kind, big=0, variant=None):
    """an ENCRYPTED file (RC4 128 bit or AESV2) that the empty user password opens -- Document::load_mem decrypts it and only then
    expands the object streams -- with 2..5 object streams that share object numbers with different bodies.
    variant 0: object streams numbered like their entries; 1: two object streams with ONE object number and different
    generations (equal block keys); 2: header numbers differ from the entry numbers and sort the other way round;
    3: the user password is not empty (nothing is decrypted, nothing expanded); 4: AES ciphertext of one stream cut (load fails);
    5: the encryption dictionary is a direct object of the trailer.  big > 0: one object stream (mostly the first in the order
    of the objects map) has `big` members more, so that on a real pool it would be finished last."""
    v = rng.randrange(6) if variant is None else variant
    nos = rng.randint(2, 5)
    nplain = rng.randint(1, 3)
    nstm = rng.randint(0, 3)
    total = 1 + nplain + nstm + nos + 1
    keys = list(range(2, total + 1))
    rng.shuffle(keys)
    plain_keys, stm_keys, os_keys, enc_key = keys[:nplain], keys[nplain:nplain + nstm], sorted(keys[nplain + nstm:-1]), keys[-1]
    shared = list(range(total + 1, total + 1 + rng.randint(1, 3)))     # numbers that several object streams hold
    direct = v == 5
    cat = Phys(1, ('obj', ('d', [(b'Type', ('n', b'Catalog')), (b'Lang', ('s', b'en-US'))])))
    phys = [cat]
    xref = {1: cat}
    collide = {}
    int_holder = None
    for k in stm_keys:
        data = rng.choice([b'stream data 1', b'BT /F1 12 Tf (text) Tj ET', b'x', b'0123456789abcdef', b'0123456789' * 5])
        extra = [(b'Kind', ('n', b'Content'))] if rng.random() < 0.5 else []
        if rng.random() < 0.4:
            extra.append((b'Title', ('s', rng.choice([b'a title', b'', b'sixteen byte str.']))))
        r = rng.random()
        if r < 0.45:
            length = ('direct', None)
        elif r < 0.55:
            data, length = b'', ('direct', None)
        elif r < 0.7 and int_holder is None:
            int_holder = (plain_keys[0], enc_len(kind, len(data)))
            length = ('ref', plain_keys[0], True)
        elif r < 0.92:
            length = ('ref', rng.choice(shared), False)       # defined only inside the object streams: never resolved
        else:
            length = ('ref', total + 40, False)                # dangling
        p = Phys(k, ('stm', extra, data, length))
        phys.append(p)
        xref[k] = p
    for k in plain_keys:
        if int_holder and int_holder[0] == k:
            p = Phys(k, ('obj', ('i', int_holder[1])))
        else:
            o = rng.choice([('s', b'a string'), ('d', [(b'Name', ('s', b'plain %d' % k)), (b'Next', ('ref', rng.choice(shared), 0))]),
                            ('a', [('h', b'\x00\xff\x10'), ('i', k), ('s', b'')]), rand_obj(rng)])
            gen = 0
            if rng.random() < 0.35:
                gen = rng.choice([0, 2, 65535])        # a number that object streams also hold, present under this generation
                collide[k] = gen
            p = Phys(k, ('obj', o), gen)
        phys.append(p)
        xref[k] = p
    # the object streams: (entry key, header number, header generation)
    specs = [(k, k, 0) for k in os_keys]
    if v == 1:
        specs[1] = (os_keys[1], os_keys[0], rng.choice([1, 7]))
        if nos >= 4 and rng.random() < 0.5:
            specs[3] = (os_keys[3], os_keys[2], 3)
    elif v == 2:
        hs = [total + 10 + j for j in range(nos)]
        hs.reverse()
        if rng.random() < 0.5:
            rng.shuffle(hs)
        specs = [(k, h, 0) for k, h in zip(os_keys, hs)]
    order = sorted(range(nos), key=lambda j: (specs[j][1], specs[j][2]))       # the order of the objects map
    sizes = [0] * nos
    if big:
        sizes[order[0] if rng.random() < 0.8 else order[-1]] = big
    holders = {}
    containers = []
    for j, (key, h, g) in enumerate(specs):
        tag = b'container %d %d' % (h, g)
        ms = []
        for num in shared:
            if rng.random() < 0.85:
                ms.append((num, rng.choice([('d', [(b'From', ('i', h)), (b'Gen', ('i', g)), (b'Text', ('s', tag))]), ('s', tag),
                                            ('i', 100 * h + g), ('a', [('i', h), ('n', b'V%d' % j)])])))
        for num in collide:
            if rng.random() < 0.5:
                ms.append((num, ('s', b'superseded, ' + tag)))
        if rng.random() < 0.15 and not direct:
            ms.append((enc_key, ('n', b'NotTheEncryptionDictionary')))
        if rng.random() < 0.1:
            ms.append((rng.choice(os_keys), ('n', b'MemberNumberedLikeAContainer')))
        ms += [(100 * h + i, rand_obj(rng)) for i in range(rng.randint(0, 3))]
        if ms and rng.random() < 0.1:
            ms.append((ms[0][0], ('n', b'SecondEntryOfTheSameStream')))
        if rng.random() < 0.05 and not sizes[j]:
            ms.append((total + 60, None))                      # offset out of bounds
        if not sizes[j]:
            rng.shuffle(ms)
        ms += [(1000 * (j + 1) + i, ('i', i)) for i in range(sizes[j])]
        for num, _ in ms:
            holders.setdefault(num, []).append((key, h))
        p = Phys(h, ('objstm', ms, rng.random() < 0.04 and not sizes[j]), g)
        containers.append(p)
        phys.append(p)
        xref[key] = p
    if not direct:
        e = Phys(enc_key, ('encdict',))
        phys.append(e)
        xref[enc_key] = e
    if not big or rng.random() < 0.5:
        rng.shuffle(phys)
    compressed = None
    if rng.random() < 0.6:
        # a cross-reference stream placing the shared numbers: in an object stream that holds them (named by its header number --
        # what the expansion after decryption compares with -- or by its entry number), in one that does not, in no object stream
        compressed = {}
        for num in shared + [total + 50]:
            r = rng.random()
            hs = holders.get(num)
            if r < 0.6 and hs:
                compressed[num] = rng.choice(hs)[1]
            elif r < 0.7 and hs:
                compressed[num] = rng.choice(hs)[0]
            elif r < 0.8:
                compressed[num] = rng.choice(specs)[1]
            elif r < 0.85:
                compressed[num] = total + 20
        if not compressed:
            compressed = {total + 50: specs[0][1]}
    damaged = ()
    if v == 4:
        cands = [p for p in phys if p.kind[0] == 'objstm' or (p.kind[0] == 'stm' and p.kind[3][0] == 'direct')]
        damaged = (rng.choice(cands),)
    enc = Enc(rng, kind, opens=(v != 3), dict_num=None if direct else enc_key, damaged=damaged)
    return layout(rng, phys, xref, 1, mark=rng.random() < 0.8, compressed=compressed, enc=enc)


def gen_indirect_lengths(rng, n, nos, mode=None):
    """n ordinary streams and nos OBJECT STREAMS whose Length is `k 0 R`, k a Normal entry holding the integer: the reader follows
    the reference while it parses the object (Reader::get_object, with a cycle-detection set made for that ONE object), so every
    one of them is complete -- and every object stream expanded -- when its task returns, wherever the task runs.  Some length
    objects hold a WRONG value (too short, too long, zero, beyond the file: `take(length)` is not followed by endstream and the
    object is the Dictionary alone; one byte too long: a Stream with the end-of-line in it; negative: the object fails), some are
    shared by several streams (right for one, wrong for another), some lengths are found only after the parallel phase (a reference
    to a reference; a number that lives in an object stream; dangling).  What a task returns must not depend on which tasks ran
    before it in the same rayon job: the document is the same for every pool size.
    mode: where the length objects are in the cross-reference order -- 'last', 'first', 'pair' (right after their stream), 'shuffle'."""
    mode = mode or rng.choice(['last', 'last', 'first', 'pair', 'shuffle'])
    DATA = [b'stream data 1', b'BT /F1 12 Tf (indirect) Tj ET', b'x', b'0123456789' * 3, b'q 1 0 0 1 5 5 cm Q']
    items = []           # ('stm'|'objstm', spec..., lenspec) in logical order; the numbers are given afterwards
    ndam = max(2, n // 8)
    dam_at = set(rng.sample(range(n), min(n, ndam)))
    if n >= 8:
        dam_at.add(rng.randrange(n - 3, n))       # one near the end: behind many other lookups of its job
    # places of the object streams among the ordinary ones: spread, most of them late
    os_at = sorted(rng.randrange(n // 2 if rng.random() < 0.7 else 0, n + 1) for _ in range(nos))
    os_dam = set(rng.sample(range(nos), rng.choice([0, 1, 1, 2]) if nos >= 3 else 0))
    os_unres = set(j for j in range(nos) if j not in os_dam and rng.random() < 0.08)
    seq = []
    j = 0
    for i in range(n + 1):
        while j < nos and os_at[j] == i:
            seq.append(('objstm', j))
            j += 1
        if i < n:
            seq.append(('stm', i))
    # numbers: 1 = catalog; then per mode
    nlen_shared = {}      # data length -> number of a length object that several streams share
    phys = []
    xref = {}
    cat = Phys(1, ('obj', ('d', [(b'Type', ('n', b'Catalog'))])))
    phys.append(cat)
    xref[1] = cat
    count = len(seq)
    base_members = 3 * count + 40           # member numbers live above every entry number
    slots = {}                               # item index -> (own key, key of its length object)
    if mode == 'last':
        for t in range(count):
            slots[t] = (2 + t, 2 + count + t)
    elif mode == 'first':
        for t in range(count):
            slots[t] = (2 + count + t, 2 + t)
    elif mode == 'pair':
        for t in range(count):
            slots[t] = (2 + 2 * t, 3 + 2 * t)
    else:
        ks = list(range(2, 2 + 2 * count))
        rng.shuffle(ks)
        own = sorted(ks[:count]) if rng.random() < 0.5 else ks[:count]
        for t in range(count):
            slots[t] = (own[t], ks[count + t])
    spare = 2 + 2 * count                    # further numbers: second hop of a chain, plain objects
    extra_keys = iter(range(spare, spare + count + 20))
    via_num = base_members - 2               # a member of the first object stream: a length known only after the merge
    holders = {}
    zero_budget = rng.randint(0, 4)          # how many streams wait for the zero-length pass (<= 4: every order is tried)
    for t, (what, idx) in enumerate(seq):
        key, lkey = slots[t]
        if what == 'stm':
            data = rng.choice(DATA)
            extra = [(b'Kind', ('n', b'Content'))] if rng.random() < 0.3 else []
            r = rng.random()
            if r > 0.97 and zero_budget > 0:
                zero_budget -= 1
                data = b''           # Length 0, resolved: content empty, no start position, on the zero-length list all the same
            if idx in dam_at:
                wrong = rng.choice([len(data) - 1, len(data) - 3, len(data) + 2, len(data) + 3, len(data) + 10, 0, 10 ** 8,
                                    len(data) + 1, -1] if len(data) >= 3 else [len(data) + 2, len(data) + 5, 10 ** 8, len(data) + 1])
                if wrong == len(data):
                    wrong = len(data) + 2
                if wrong < 0 and rng.random() < 0.5:
                    wrong = 10 ** 8          # a failing object now and then only
                length = ('wrong', lkey, wrong)
                lobj = Phys(lkey, ('obj', ('i', wrong)))
            elif r < 0.06 and zero_budget > 0 and data:
                # Length -> a reference -> the integer: not an integer while parsing, followed by the zero-length pass
                zero_budget -= 1
                hop = next(extra_keys)
                length = ('ref', lkey, False)
                lobj = Phys(lkey, ('obj', ('ref', hop, 0)))
                h = Phys(hop, ('obj', ('i', rng.choice([len(data), len(data), 4, 10 ** 8, -2]))))
                phys.append(h)
                xref[hop] = h
            elif r < 0.10 and zero_budget > 0 and data and nos:
                zero_budget -= 1
                length = ('ref', via_num, False)      # lives in an object stream
                lobj = None
            elif r < 0.12 and zero_budget > 0 and data:
                zero_budget -= 1
                length = ('ref', base_members - 1, False)     # dangling
                lobj = None
            elif r < 0.2:
                length = ('direct', len(data))
                lobj = Phys(lkey, ('obj', rand_obj(rng)))
            elif r < 0.45 and len(data) in nlen_shared:
                length = ('ref', nlen_shared[len(data)], True)
                lobj = Phys(lkey, ('obj', rand_obj(rng)))
            elif r < 0.5 and nlen_shared and idx not in dam_at:
                # the length object of ANOTHER stream, right for that one and wrong for this one
                other, num = rng.choice(sorted(nlen_shared.items()))
                if other != len(data) and other <= len(data) + 10 and parse_wrong_length(data, other) is False:
                    length = ('wrong', num, other)
                else:
                    length = ('ref', num, True) if other == len(data) else ('direct', len(data))
                lobj = Phys(lkey, ('obj', rand_obj(rng)))
            else:
                length = ('ref', lkey, True)
                lobj = Phys(lkey, ('obj', ('i', len(data))))
                nlen_shared.setdefault(len(data), lkey)
            p = Phys(key, ('stm', extra, data, length))
        else:
            ms = [(base_members + 3 * idx + q, rand_obj(rng)) for q in range(rng.randint(2, 3))]
            if idx == 0:
                ms.append((via_num, ('i', rng.choice([13, 4, 1]))))
            if rng.random() < 0.2:
                ms.append((base_members + 3 * rng.randrange(nos), ('s', b'also in object stream %d' % idx)))
            for num, _ in ms:
                holders.setdefault(num, []).append(key)
            data, _ = objstm_data(ms)
            if idx in os_dam:
                wrong = rng.choice([len(data) - 1, len(data) + 2, 0, 10 ** 8, -1, len(data) - 5])
                length = ('wrong', lkey, wrong)
                lobj = Phys(lkey, ('obj', ('i', wrong)))
            elif idx in os_unres:
                length = ('ref', via_num if idx else base_members - 1, False)
                lobj = Phys(lkey, ('obj', rand_obj(rng)))
            elif rng.random() < 0.15:
                length = ('direct', len(data))
                lobj = Phys(lkey, ('obj', rand_obj(rng)))
            else:
                length = ('ref', lkey, True)
                lobj = Phys(lkey, ('obj', ('i', len(data))))
            p = Phys(key, ('objstm', ms, False, length))
        phys.append(p)
        xref[key] = p
        if lobj is not None:
            phys.append(lobj)
            xref[lkey] = lobj
    if rng.random() < 0.6:
        rng.shuffle(phys)
    compressed = None
    if nos and rng.random() < 0.5:
        compressed = {}
        for num, hs in holders.items():
            r = rng.random()
            if r < 0.8:
                compressed[num] = rng.choice(hs)
            elif r < 0.9:
                compressed[num] = rng.choice(list(xref))
        if not compressed:
            compressed = {base_members + 7: 1}
    return layout(rng, phys, xref, 1, mark=True, compressed=compressed)


def gen_many_object_streams(rng, count, model_skipped):
    """`count` tiny object streams of one member each (a second one in every 97th): more object streams than any limit a
    reader might count them against while its workers run.  model_skipped: the model's list-based maps need half a minute for
    such a file; the quick tier decides the case on the implementation alone (direct verdict: the loads under both forced block
    orders, on every pool and by the sequential build are one document), the thorough tier also compares with the model"""
    cat = Phys(1, ('obj', ('d', [(b'Type', ('n', b'Catalog'))])))
    phys = [cat]
    xref = {1: cat}
    base = count + 100
    for j in range(count):
        key = 2 + j
        ms = [(base + j, ('i', j))]
        if j % 97 == 0:
            ms.append((base + count + j, ('n', b'Second')))
        p = Phys(key, ('objstm', ms, False))
        phys.append(p)
        xref[key] = p
    return layout(rng, phys, xref, 1, mark=True, compressed=None, model_skipped=model_skipped)


def gen_cases(rng, tier):
    quick = tier == 'quick'
    cases = []
    plan = []
    # (number of object streams, how many cases)
    for ns, n in ((0, 4), (1, 6), (2, 30), (3, 30), (4, 24), (5, 6), (6, 3)) if quick else \
                 ((0, 20), (1, 40), (2, 400), (3, 400), (4, 300), (5, 80), (6, 30), (8, 10)):
        plan += [ns] * n
    for ns in plan:
        agree = rng.random() < 0.3
        _, case = gen_random(rng, ns, agree, tier)
        cases.append((case, {'kind': 'streams-%d%s' % (ns, '-agree' if agree else ''), 'nontrivial': ns >= 2}))
    for _ in range(12 if quick else 120):
        _, case = gen_dup_headers(rng)
        cases.append((case, {'kind': 'dup-headers', 'nontrivial': True}))
    # header number != entry number (drawn last: the cases above stay what they were)
    for v in range(6):
        for _ in range(2 if quick else 40):
            _, case = gen_same_header(rng, 0, v)
            cases.append((case, {'kind': 'same-header-%d' % v, 'nontrivial': True}))
    for k in range(3 if quick else 30):
        _, case = gen_same_header(rng, rng.choice([1000, 1500]), k % 2)
        cases.append((case, {'kind': 'same-header-big', 'nontrivial': True}))
    # encrypted files: the object streams are expanded after decryption (drawn last: the cases above stay what they were)
    for kind in ('rc4', 'aes'):
        for v in range(6):
            for _ in range(2 if quick else 30):
                _, case = gen_encrypted(rng, kind, 0, v)
                cases.append((case, {'kind': 'encrypted-%s-%d' % (kind, v), 'nontrivial': True}))
        for k in range(3 if quick else 24):
            _, case = gen_encrypted(rng, kind, rng.choice([1000, 1500]), (0, 1, 2)[k % 3])
            cases.append((case, {'kind': 'encrypted-%s-big' % kind, 'nontrivial': True}))
    # many streams and object streams whose Length is an indirect object (drawn last: the cases above stay what they were)
    sizes = [(6, 2), (8, 3), (12, 3), (20, 4), (40, 5), (12, 2), (30, 6), (16, 1), (9, 0)]
    modes = ['last', 'first', 'pair', 'shuffle']
    k = 0
    for _ in range(1 if quick else 25):
        for n, nos in sizes:
            _, case = gen_indirect_lengths(rng, n, nos, modes[k % 4] if k % 3 else 'last')
            k += 1
            cases.append((case, {'kind': 'indirect-lengths', 'nontrivial': True}))
    for n, nos in ((150, 8), (600, 24)) if quick else ((100, 7), (150, 8), (200, 12), (300, 9), (400, 16), (600, 24)) * 3:
        _, case = gen_indirect_lengths(rng, n, nos, modes[k % 4] if k % 2 else 'last')
        k += 1
        cases.append((case, {'kind': 'indirect-lengths-many', 'nontrivial': True}))
    # more object streams than a reader might be willing to expand
    _, case = gen_many_object_streams(rng, MANY_OBJECT_STREAMS, model_skipped=quick)
    cases.append((case, {'kind': 'object-streams-%d%s' % (MANY_OBJECT_STREAMS, '-model-skipped' if quick else ''), 'nontrivial': True}))
    return cases


MANY_OBJECT_STREAMS = 4200
MODEL_SKIPPED = '(model-skipped)'


def compare(model_out, impl_out):
    """textual equality; a case the generator marked (model skipped) has no model answer: it counts as decided by the direct
    verdict alone (the runner prints MODEL_SKIPPED only for that mark, the implementation must still have produced a result)"""
    if model_out == MODEL_SKIPPED:
        return impl_out.startswith('(res ')
    return model_out == impl_out


SPEC = {
    'gen_parts': ['Consts'],
    'allowed_axioms': (),
    'runner': 'c08',
    'bin': 'c08',
    'hooks': True,
    'gen_cases': gen_cases,
    'compare': compare,
    'impl_shards': 8,
    'rule': 'hand-written PDF files (classic xref table or a cross-reference stream whose Compressed entries name right, wrong '
            'and non-existent containers; objects in shuffled physical order) with 0..6 (thorough: ..8) '
            'object streams over a small pool of object numbers (shared numbers with equal and with different bodies, '
            'numbers that are also Normal entries, members out of bounds, broken and empty object streams), ordinary '
            'streams whose Length is direct / zero / a resolvable reference / a reference defined only inside object '
            'streams (possibly with several values, negative or beyond the file) / dangling, unreadable entries, several '
            'xref keys for one header id or one offset; object streams whose `N 0 obj` header number differs from their xref entry '
            'number: two or three entries leading to different object streams with the SAME header number (that of one of the entries, of '
            'a plain object, of no entry), header numbers exchanged or descending against the entries, the contested member '
            '(different bodies, also the Length of a zero-length stream) placed by Compressed entries in an entry number or in a '
            'number that is only a header number, and a container of 1000-1500 members beside one of two so that real pools finish '
            'against the xref order; every case is loaded under every permutation of the blocks '
            '(<= 6 blocks: all, <= 720) and of the zero-length ids (<= 4: all) through hook H1, 8 times on each rayon '
            'pool of 1,2,3,4,8,16 threads, and by the --no-default-features build; non-trivial = at least two object streams; '
            'ENCRYPTED files (standard security handler written in python: RC4 128 bit and AESV2; empty user password, so that '
            'Document::load_mem decrypts and only then expands the object streams inside decrypt_raw) with 2..5 object streams sharing '
            'object numbers with different bodies, numbers also present as plain objects under generation 0 / 2 / 65535, a member numbered '
            'like the encryption dictionary or like a container, classic table or cross-reference stream placing the shared numbers in a '
            'holder / a non-holder / nowhere, two object streams with one object number and different generations, header numbers differing '
            'from the entry numbers, a non-empty user password (nothing decrypted), cut AES ciphertext (the load fails), a direct encryption '
            'dictionary, strings in plain objects and stream dictionaries, stream lengths direct / zero / resolvable / defined only inside '
            'the encrypted object streams, and a container of 1000-1500 members that is first in the order of the objects map beside small ones; '
            'INDIRECT LENGTHS: files of 6..40 (and of 100..600) streams plus 0..6 (7..24) object streams whose Length is `k 0 R`, k a Normal '
            'entry holding the integer (resolved by the task itself while it parses), the length objects after / before / beside their streams '
            'or shuffled in the cross-reference order, length objects shared by several streams (right for one, wrong for another), WRONG '
            'values (too short, too long, zero, beyond the file: the object is the Dictionary alone; one too long: a Stream ending in the '
            'end-of-line; negative: the object fails) on ordinary and on object streams, lengths found only by the zero-length pass (reference '
            'to a reference, a member of an object stream, dangling), object streams whose Length is unresolved (no members): what a task '
            'returns must not depend on the tasks that ran before it in the same rayon job; ONE file of 4200 one-member object streams (more '
            'than a reader-side limit counted by racing workers would expand): quick tier decided on the implementation alone '
            '(model-skipped, see notes), thorough tier also against the model',
    'extra_trusted': [
        'C08: rayon runs every task exactly once, `collect` keeps source order, and appends made while holding a '
        'std::sync::Mutex are atomic (the schedules of the model are exactly: any cut into jobs, any order of the '
        'atomic appends); lopdf itself has #![forbid(unsafe_code)]',
        'C08: hook H1 (src/verif_hooks.rs, cfg(lopdf_verif)) only reorders complete appended blocks; with no permutation '
        'set it returns the vectors untouched',
        'C08: the per-task parse results (`entries` of a case) are computed by the generator, not by a model of the parser; '
        'a wrong expectation shows as a correspondence failure',
        'C08: for encrypted files what decrypt_object and ObjectStream::new return (`crypt` of a case) is computed by the generator '
        '(its own RC4 / AES-128-CBC / MD5 key derivation, which the crate must agree with to open the file at all); the theorems hold '
        'for every such pair of functions',
    ],
    'partial_note': 'That rayon + Mutex realise only the schedules of the model (each task once, atomic appends, '
                    'order-preserving collect) is an assumption about rayon and std, not proved here; it is sampled by '
                    'the real-pool runs.  Parsing of the individual objects is outside this property (C02), and so is what '
                    'decrypt_object computes (C05): both are inputs of the model.  The expansion of the object streams of an '
                    'encrypted file (Document::decrypt_raw) is sequential code: there is no order to enumerate through a hook, it is '
                    'compared across real pools and with the sequential build.',
}


def _seq_oracle():
    """the sequential reader (no rayon feature) built from the same harness source; the parallel bin finds it next to itself"""
    exe, log = vlib.build_harness('c08', 'seq', True)
    return exe, log


def run(ctx):
    exe, log = _seq_oracle()
    if exe is None:
        print(log[-3000:])
        ctx.notes.append('sequential oracle build failed')
    if ctx.tier == 'quick':
        ctx.notes.append('model-skipped: 1 case (kind object-streams-%d-model-skipped: the file of %d object streams) is decided by the '
                         'direct verdict on the implementation alone in the quick tier -- every forced order, every pool and the sequential '
                         'build give one document --; the thorough tier also compares it with the model' % (MANY_OBJECT_STREAMS, MANY_OBJECT_STREAMS))
    return propcheck.standard_check(ctx, SPEC)


def replay(ctx, r):
    """./check C08 --replay FILE : rebuild both harness configurations, run the recorded case on implementation and model"""
    import json
    case = r.get('case')
    if not case:
        print(json.dumps(r, indent=1))
        return 1
    _seq_oracle()
    impl, log = vlib.build_harness(SPEC['bin'], None, True)
    if impl is None:
        print(log[-3000:])
        return 1
    runner, _ = vlib.build_runner(SPEC['runner'])
    io = vlib.run_lines(impl, [case])[0]
    print('impl :', io)
    out, verdict = vlib.split_impl(io)
    bad = verdict.startswith('FAIL')
    if runner:
        mo = vlib.run_lines(runner, [case])[0]
        print('model:', mo)
        bad = bad or not compare(mo, out)
    return 1 if bad else 0


MANIFEST = {
    'level_text': 'Machine-checked proof (Coq) over a model of the loading phase of Reader::read and ObjectStream::new '
                  '(tasks per xref entry, atomic appends to the two shared vectors in arbitrary order, any cut of the entry '
                  'range into jobs, then collect / sort by xref key / only-add merge preferring the container the xref names / zero-length pass): for every file '
                  'and every schedule the loaded document equals the sequential one (C08_par_eq_seq), two schedules give '
                  'the same document (C08_schedule_independent), the zero-length pass commutes (C08_zero_len_commutes); '
                  'the whole load of an encrypted file -- decryption and the expansion of the object streams inside decrypt_raw, a '
                  'second only-add merge after the parallel phase -- equals the sequential one for every decrypt / object-stream function '
                  '(C08_full_par_eq_seq) and that expansion is the reader\'s merge on the container numbers (C08_enc_expansion_as_reader); '
                  'for the merge as it was before the repair the same under the hypothesis that object streams agree on '
                  'shared numbers (C08_pinned_*) and a refutation without it (C08_refuted_pinned).  Tied to the crate by '
                  'loading generated files under every block permutation through hook H1, on rayon pools of '
                  '1,2,3,4,8,16 threads and with the sequential build; encrypted files (RC4, AESV2) on the pools and the sequential build.',
    'level_note': 'Trusted: Coq kernel; hand-written model tied by correspondence; the schedule model (rayon runs each task '
                  'once, order-preserving collect, Mutex-atomic appends) is an assumption about rayon/std; per-object '
                  'parsing and decryption are supplied by the generator; hook H1; extraction/OCaml driver; Rust harness.  No axioms.',
    'technique': 'Coq proof (Permutation induction, uniqueness of strictly sorted lists, commutation of the stream-fixing '
                 'step via a simulation relation) + exhaustive schedule enumeration through a merge-order hook',
    'design_ref': 'DESIGN.md 6 C08',
}


def witness_case():
    """the refutation witness of Props/C08.v (C08_refuted_pinned): two object streams, both holding object 10"""
    import random
    phys = [Phys(1, ('obj', ('d', [(b'Type', ('n', b'Catalog'))]))),
            Phys(2, ('objstm', [(10, ('i', 1))], False)),
            Phys(3, ('objstm', [(10, ('i', 2))], False))]
    xref = {p.num: p for p in phys}
    return layout(random.Random(0), phys, xref, 1, mark=True)[1]


def witness_case_c07():
    """the same two object streams, the cross-reference stream placing object 10 in the second one"""
    import random
    phys = [Phys(1, ('obj', ('d', [(b'Type', ('n', b'Catalog'))]))),
            Phys(2, ('objstm', [(10, ('i', 1))], False)),
            Phys(3, ('objstm', [(10, ('i', 2))], False))]
    xref = {p.num: p for p in phys}
    return layout(random.Random(0), phys, xref, 1, mark=True, compressed={10: 3})[1]
