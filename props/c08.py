"""C08 -- loading is deterministic under every thread schedule.

A case carries the bytes of a PDF file written here plus the abstract view of it that the model works on (what
every loading task reads: `entries`).  The harness loads the bytes under every merge order (hook H1), under real
rayon pools and with the sequential build; the model computes the document for every order from the entries."""
import os
import propcheck
import vlib
from sxg import *


# ------------------------------------------------------------------------------------------
# objects: python values -> PDF syntax and case language
# ------------------------------------------------------------------------------------------
def pdf(o):
    t = o[0]
    if t == 'null':
        return b'null'
    if t == 'b':
        return b'true' if o[1] else b'false'
    if t == 'i':
        return str(o[1]).encode()
    if t == 'n':
        return b'/' + o[1]
    if t == 's':
        return b'(' + o[1] + b')'
    if t == 'h':
        return b'<' + o[1].hex().encode() + b'>'
    if t == 'a':
        return b'[' + b' '.join(pdf(x) for x in o[1]) + b']'
    if t == 'd':
        return b'<<' + b''.join(b'/' + k + b' ' + pdf(v) for k, v in o[1]) + b'>>'
    if t == 'ref':
        return b'%d %d R' % (o[1], o[2])
    raise ValueError(o)


def sx(o):
    t = o[0]
    if t == 'null':
        return NULL
    if t == 'b':
        return B(o[1])
    if t == 'i':
        return I(o[1])
    if t == 'n':
        return N(o[1])
    if t == 's':
        return S(o[1])
    if t == 'h':
        return H(o[1])
    if t == 'a':
        return A([sx(x) for x in o[1]])
    if t == 'd':
        return D([(k, sx(v)) for k, v in o[1]])
    if t == 'ref':
        return REF(o[1], o[2])
    raise ValueError(o)


WORDS = [b'A', b'B', b'Kind', b'Val', b'Font', b'Page', b'X1', b'Next']


def rand_obj(rng, depth=0):
    r = rng.random()
    if depth >= 2 or r < 0.45:
        k = rng.randrange(7)
        if k == 0:
            return ('i', rng.choice([0, 1, -1, 7, 42, 100000, -2147483648, 9007199254740993]))
        if k == 1:
            return ('n', rng.choice(WORDS))
        if k == 2:
            return ('s', rng.choice([b'', b'hello', b'a b c', b'x' * 20]))
        if k == 3:
            return ('h', rng.choice([b'', b'\x00\xff', b'AB']))
        if k == 4:
            return ('b', rng.random() < 0.5)
        if k == 5:
            return ('ref', rng.randint(1, 30), 0)
        return ('null',)
    if r < 0.75:
        keys = rng.sample(WORDS, rng.randint(0, 3))
        return ('d', [(k, rand_obj(rng, depth + 1)) for k in keys])
    return ('a', [rand_obj(rng, depth + 1) for _ in range(rng.randint(0, 3))])


# ------------------------------------------------------------------------------------------
# physical objects
# ------------------------------------------------------------------------------------------
class Phys:
    """one `N 0 obj ... endobj` in the file.  kind:
       ('obj', o) | ('stm', extra_dict_entries, data, length) | ('objstm', index, broken) | ('garbage',)
       length: ('direct', n) | ('ref', num, resolved: bool)   -- resolved: num is a Normal entry holding len(data)
       index: list of (num, obj | None)   -- None: offset out of bounds"""
    def __init__(self, num, kind, gen=0):
        self.num = num
        self.gen = gen       # generation in the object header (the xref entry always says 0; the reader does not compare)
        self.kind = kind
        self.offset = None
        self.parsed = None   # case-language text of the expected parse


def objstm_data(index):
    bodies = []
    pos = 0
    offs = []
    for num, o in index:
        if o is None:
            offs.append(None)
            continue
        b = pdf(o) + b' '
        offs.append(pos)
        bodies.append(b)
        pos += len(b)
    body = b''.join(bodies)
    nums = []
    for (num, o), off in zip(index, offs):
        nums.append(b'%d %d' % (num, off if off is not None else len(body) + 50))
    head = b' '.join(nums) + b' '
    return head + body, len(head)


def layout(rng, phys, xref, root, mark=True, compressed=None):
    """phys: list of Phys in physical order; xref: dict key -> Phys | 'raw' (an offset into garbage).
    compressed: None = classic xref table; dict number -> container key = cross-reference stream with those
    Compressed entries.  Returns (file bytes, case text)."""
    out = bytearray(b'%PDF-1.5\n')
    bm = b'\xbb\xad\xc0\xde'     # Document::new()'s default stays when line 2 is not a binary mark
    if mark:
        bm = b'\xe2\xe3\xcf\xd3'
        out += b'%' + bm + b'\n'
    for p in phys:
        p.offset = len(out)
        k = p.kind
        oid = OID(p.num, p.gen)
        if k[0] == 'obj':
            out += b'%d %d obj\n' % (p.num, p.gen) + pdf(k[1]) + b'\nendobj\n'
            p.parsed = L('obj', oid, sx(k[1]))
        elif k[0] == 'garbage':
            out += b'this is not an object\n'
            p.parsed = 'fail'
        elif k[0] in ('stm', 'objstm'):
            if k[0] == 'objstm':
                data, first = objstm_data(k[1])
                entries = [(b'Type', ('n', b'ObjStm')), (b'N', ('i', len(k[1])))]
                if not k[2]:
                    entries.append((b'First', ('i', first)))
                length = ('direct', len(data))
                if k[2]:
                    members = 'none'
                else:
                    members = L('m', *[L(OID(num, 0), sx(o)) for num, o in k[1] if o is not None])
            else:
                entries, data, length = list(k[1]), k[2], k[3]
                members = 'none'
            if length[0] == 'direct':
                lobj = ('i', length[1])
            else:
                lobj = ('ref', length[1], 0)
            pos = rng.randint(0, len(entries))
            entries.insert(pos, (b'Length', lobj))
            head = b'%d %d obj\n' % (p.num, p.gen) + pdf(('d', entries)) + b'\nstream\n'
            out += head
            start = len(out)
            out += data + b'\nendstream\nendobj\n'
            if length[0] == 'direct' and length[1] < 0:
                p.parsed = 'fail'
            elif length[0] == 'direct' or length[2]:
                n = length[1] if length[0] == 'direct' else len(data)
                assert n == len(data)
                entries[pos] = (b'Length', ('i', n))
                p.parsed = L('stm', oid, sx(('d', entries)), xb(data), 'none', members)
            else:
                p.parsed = L('stm', oid, sx(('d', entries)), xb(b''), str(start), members)
        else:
            raise ValueError(k)
    garbage_at = len(out)
    out += b'%% filler\nnot an object\n'
    maxkey = max(list(xref) + list(compressed or {}))
    xref_at = len(out)
    entries = []
    rows = []
    for key in range(maxkey + 1):
        t = xref.get(key)
        if t is None:
            if compressed and key in compressed:
                rows.append((2, compressed[key], 0))
            else:
                rows.append((0, 0, 65535))
            continue
        off = garbage_at + 1 if t == 'raw' else t.offset
        rows.append((1, off, 0))
        entries.append(L(str(key), str(off), 'fail' if t == 'raw' else t.parsed))
    size = maxkey + 1
    if compressed is None:
        out += b'xref\n0 %d\n' % size
        for ty, a, b in rows:
            out += b'%010d %05d %s \n' % (a, b, b'n' if ty == 1 else b'f')
        trailer = [(b'Size', ('i', size)), (b'Root', ('ref', root, 0))]
        out += b'trailer\n' + pdf(('d', trailer)) + b'\nstartxref\n%d\n%%%%EOF' % xref_at
    else:
        # cross-reference stream, not listed in itself; Length and W come last so that removing them keeps the order
        body = b''.join(bytes([ty]) + a.to_bytes(4, 'big') + b.to_bytes(2, 'big') for ty, a, b in rows)
        trailer = [(b'Type', ('n', b'XRef')), (b'Size', ('i', size)), (b'Root', ('ref', root, 0))]
        full = trailer + [(b'W', ('a', [('i', 1), ('i', 4), ('i', 2)])), (b'Length', ('i', len(body)))]
        out += b'%d 0 obj\n' % (size + 5) + pdf(('d', full)) + b'\nstream\n' + body + b'\nendstream\nendobj\n'
        out += b'startxref\n%d\n%%%%EOF' % xref_at
    meta = [xb(b'1.5'), xb(bm), sx(('d', trailer)), str(maxkey), '0']
    if compressed:
        # a number with a Normal entry has no Compressed entry (one entry per number in the table)
        meta.append(L('xc', *[L(str(n), str(c)) for n, c in sorted(compressed.items()) if n not in xref]))
    case = L('case', xb(bytes(out)), L('meta', *meta), L('entries', *entries))
    return bytes(out), case


# ------------------------------------------------------------------------------------------
# families
# ------------------------------------------------------------------------------------------
def gen_random(rng, nstreams, agree, tier):
    """nstreams object streams over a small pool of member numbers; plain objects, some colliding with members;
    ordinary streams with direct / resolved / unresolved (defined only inside object streams) / dangling lengths"""
    nplain = rng.randint(1, 5)
    nstm = rng.randint(0, 4)
    total = nplain + nstm + nstreams
    keys = list(range(1, total + 1))
    rng.shuffle(keys)
    plain_keys, stm_keys, os_keys = keys[:nplain], keys[nplain:nplain + nstm], keys[nplain + nstm:]
    pool = list(range(total + 1, total + 1 + rng.randint(1, 5)))       # numbers that live only inside object streams
    collide = rng.sample(plain_keys + stm_keys, min(len(plain_keys + stm_keys), rng.randint(0, 2)))
    len_nums = []       # member numbers used as stream lengths
    phys = []
    xref = {}
    datas = {}
    # ordinary streams first (their lengths may point into the pool)
    int_holder = None
    for k in stm_keys:
        data = rng.choice([b'stream data 1', b'BT /F1 12 Tf ET', b'x', b'0123456789' * 3])
        extra = [(b'Kind', ('n', b'Content'))] if rng.random() < 0.5 else []
        r = rng.random()
        if r < 0.25:
            length = ('direct', len(data))
        elif r < 0.35:
            data = b''
            length = ('direct', 0)
        elif r < 0.45 and plain_keys and int_holder is None:
            int_holder = (plain_keys[0], len(data))
            length = ('ref', plain_keys[0], True)
        elif r < 0.9:
            num = rng.choice(pool)
            len_nums.append((num, len(data)))
            length = ('ref', num, False)
        else:
            length = ('ref', total + 40, False)      # dangling
        phys.append(Phys(k, ('stm', extra, data, length)))
    for k in plain_keys:
        held = int_holder and int_holder[0] == k
        o = ('i', int_holder[1]) if held else rand_obj(rng)
        # a number that object streams also define, present under another generation: members are not added (61ef95a)
        gen = rng.choice([0, 2, 65535]) if (k in collide and not held) else 0
        phys.append(Phys(k, ('obj', o), gen))
    # object streams
    bodies = {}
    for k in os_keys:
        nm = rng.randint(0, 4)
        cands = pool + collide + ([rng.choice(os_keys)] if rng.random() < 0.15 else [])
        index = []
        for _ in range(nm):
            num = rng.choice(cands)
            lens = [l for (n, l) in len_nums if n == num]
            if lens and rng.random() < 0.85:
                # a number used as a stream length: the right value, or (unless the blocks must agree) another one
                o = ('i', lens[0])
                if not agree and rng.random() < 0.5:
                    o = ('i', rng.choice([0, 1, 5, lens[0] + 1, -3, 10 ** 7]))
            else:
                o = rand_obj(rng)
            if agree:
                o = bodies.setdefault(num, o)
            if rng.random() < 0.05:
                o = None
            index.append((num, o))
        phys.append(Phys(k, ('objstm', index, rng.random() < 0.04)))
    rng.shuffle(phys)
    for p in phys:
        xref[p.num] = p
    if rng.random() < 0.1:
        xref[total + 1 + len(pool) + 3] = 'raw'
    root = rng.choice(plain_keys)
    compressed = None
    if os_keys and rng.random() < 0.5:
        # a cross-reference stream that places some numbers in a container: usually one that holds the number,
        # sometimes one that does not, a key that is no object stream, or a number that is also a Normal entry (ignored: the
        # table has one entry per number, the Normal one is written)
        compressed = {}
        holders = {}
        for p in phys:
            if p.kind[0] == 'objstm':
                for num, o in p.kind[1]:
                    holders.setdefault(num, []).append(p.num)
        for num in pool + [total + 30]:
            r = rng.random()
            if r < 0.65 and holders.get(num):
                compressed[num] = rng.choice(holders[num])
            elif r < 0.8:
                compressed[num] = rng.choice(keys)
            elif r < 0.85:
                compressed[num] = total + 20
        if not compressed:
            compressed = {total + 30: os_keys[0]}
    return layout(rng, phys, xref, root, mark=rng.random() < 0.8, compressed=compressed)


def gen_dup_headers(rng):
    """several xref keys whose objects carry the same header id (the later key wins in the BTreeMap), two keys for one
    offset, an object stream reached twice, a zero-length stream later replaced by a reference to another one"""
    phys = []
    xref = {}
    v = rng.randrange(4)
    a = Phys(1, ('obj', ('d', [(b'Kind', ('n', b'First'))])))
    data = b'zero length stream body'
    z1 = Phys(2, ('stm', [], data, ('ref', 20, False)))
    z2 = Phys(3, ('stm', [(b'Kind', ('n', b'Other'))], b'another body', ('ref', 21, False)))
    os1 = Phys(4, ('objstm', [(20, ('i', len(data))), (21, ('i', 7)), (9, ('s', b'from 4'))], False))
    os2 = Phys(5, ('objstm', [(21, ('i', 12)), (20, ('i', 4)), (9, ('s', b'from 5'))], False))
    phys = [a, z1, z2, os1, os2]
    for p in phys:
        xref[p.num] = p
    if v == 0:
        # key 6 -> an object whose header says 2: replaces the zero-length stream by a reference to stream 3
        r = Phys(2, ('obj', ('ref', 3, 0)))
        phys.append(r)
        xref[6] = r
    elif v == 1:
        # the same object stream through two keys; the same plain object through two keys
        xref[7] = os1
        xref[8] = a
    elif v == 2:
        # header id differs from the key: key 6 holds "9 0 obj", also defined in both object streams
        r = Phys(9, ('obj', ('s', b'normal entry wins')))
        phys.append(r)
        xref[6] = r
    else:
        # a later key redefines the container id with a plain object: the members are still merged
        r = Phys(4, ('obj', ('n', b'Shadow')))
        phys.append(r)
        xref[9] = r
    rng.shuffle(phys)
    compressed = rng.choice([None, {20: 5}, {20: 5, 21: 5, 9: 5}, {21: 4, 20: 4}])
    return layout(rng, phys, xref, 1, mark=True, compressed=compressed)


def gen_same_header(rng, big=0, variant=None):
    """object streams whose `N 0 obj` header number differs from the cross-reference entry number that leads to them, and
    several entries leading to DIFFERENT object streams that carry the SAME header number (a container re-listed under a new
    slot without renumbering).  The blocks are keyed by the entry number: a reader that keys them by the header number gets
    equal sort keys and merges in completion order.  big > 0: one container holds `big` members and the other two, so that the
    workers of a real pool finish in the opposite of the cross-reference order."""
    v = rng.randrange(6) if variant is None else variant
    cat = Phys(1, ('obj', ('d', [(b'Type', ('n', b'Catalog'))])))
    data = b'body of the zero length stream'
    z = Phys(2, ('stm', [], data, ('ref', 20, False)))            # its Length lives only inside the object streams
    plain = Phys(3, ('obj', rand_obj(rng)))
    phys = [cat, z, plain]
    xref = {1: cat, 2: z, 3: plain}
    def members(tag, n_extra=0, first=False):
        ms = [(9, ('s', b'from ' + tag)), (20, ('i', len(data) if first else rng.choice([4, 7, len(data) + 1])))]
        if rng.random() < 0.5:
            ms.append((30 + rng.randrange(3), ('n', tag)))
        ms += [(1000 + j, ('i', j)) for j in range(n_extra)]
        if rng.random() < 0.5 and not n_extra:
            rng.shuffle(ms)
        return ms
    if v == 0:
        # two entries, two containers, one header number (that of the first entry / of the second / of neither)
        k1, k2 = rng.choice([(4, 5), (4, 7), (5, 8)])
        h = rng.choice([k1, k2, 6, 12])
        specs = [(k1, h, b'first'), (k2, h, b'second')]
    elif v == 1:
        # three containers with one header number
        h = rng.choice([4, 5, 6, 11])
        specs = [(4, h, b'first'), (5, h, b'second'), (6, h, b'third')]
    elif v == 2:
        # header numbers exchanged: entry 4 leads to "5 0 obj", entry 5 to "4 0 obj" (no tie, but the other order)
        specs = [(4, 5, b'first'), (5, 4, b'second')]
    elif v == 3:
        # headers descending while the entries ascend, one of them far away
        specs = [(4, 40, b'first'), (5, 7, b'second'), (6, 5, b'third')]
    elif v == 4:
        # a tie between two of three, the third sorts before them by header and after them by entry
        specs = [(4, 9, b'first'), (5, 9, b'second'), (7, 4, b'third')]
    else:
        # the header number is that of a plain object listed under its own entry (which comes later: it replaces the container)
        specs = [(4, 3, b'first'), (5, 3, b'second')] if rng.random() < 0.5 else [(4, 8, b'first'), (5, 8, b'second'), (8, 8, b'third')]
    sizes = [0] * len(specs)
    if big:
        sizes[rng.choice([0, 0, 0, len(specs) - 1])] = big        # mostly: the container met first is the slow one
    for (key, h, tag), n_extra in zip(specs, sizes):
        p = Phys(h, ('objstm', members(tag, n_extra, first=(key == specs[0][0])), False))
        phys.append(p)
        xref[key] = p
    head, tail = phys[:3], phys[3:]
    if not big or rng.random() < 0.5:
        rng.shuffle(phys)
    compressed = None
    r = rng.random()
    if r < 0.6:
        keys = [k for k, _, _ in specs]
        hs = [h for _, h, _ in specs]
        compressed = {}
        for num in (9, 20, 30, 31):
            q = rng.random()
            if q < 0.4:
                compressed[num] = rng.choice(keys)                # named by the entry number (what the table means)
            elif q < 0.7:
                compressed[num] = rng.choice(hs)                  # a container number that is only a header number
            elif q < 0.8:
                compressed[num] = 3
        if not compressed:
            compressed = {9: keys[-1]}
    return layout(rng, phys, xref, 1, mark=True, compressed=compressed)


def gen_cases(rng, tier):
    quick = tier == 'quick'
    cases = []
    plan = []
    # (number of object streams, how many cases)
    for ns, n in ((0, 4), (1, 6), (2, 30), (3, 30), (4, 24), (5, 6), (6, 3)) if quick else \
                 ((0, 20), (1, 40), (2, 400), (3, 400), (4, 300), (5, 80), (6, 30), (8, 10)):
        plan += [ns] * n
    for ns in plan:
        agree = rng.random() < 0.3
        _, case = gen_random(rng, ns, agree, tier)
        cases.append((case, {'kind': 'streams-%d%s' % (ns, '-agree' if agree else ''), 'nontrivial': ns >= 2}))
    for _ in range(12 if quick else 120):
        _, case = gen_dup_headers(rng)
        cases.append((case, {'kind': 'dup-headers', 'nontrivial': True}))
    # header number != entry number (drawn last: the cases above stay what they were)
    for v in range(6):
        for _ in range(2 if quick else 40):
            _, case = gen_same_header(rng, 0, v)
            cases.append((case, {'kind': 'same-header-%d' % v, 'nontrivial': True}))
    for k in range(3 if quick else 30):
        _, case = gen_same_header(rng, rng.choice([1000, 1500]), k % 2)
        cases.append((case, {'kind': 'same-header-big', 'nontrivial': True}))
    return cases


SPEC = {
    'gen_parts': ['Consts'],
    'allowed_axioms': (),
    'runner': 'c08',
    'bin': 'c08',
    'hooks': True,
    'gen_cases': gen_cases,
    'impl_shards': 8,
    'rule': 'hand-written PDF files (classic xref table or a cross-reference stream whose Compressed entries name right, wrong '
            'and non-existent containers; objects in shuffled physical order) with 0..6 (thorough: ..8) '
            'object streams over a small pool of object numbers (shared numbers with equal and with different bodies, '
            'numbers that are also Normal entries, members out of bounds, broken and empty object streams), ordinary '
            'streams whose Length is direct / zero / a resolvable reference / a reference defined only inside object '
            'streams (possibly with several values, negative or beyond the file) / dangling, unreadable entries, several '
            'xref keys for one header id or one offset; object streams whose `N 0 obj` header number differs from their xref entry '
            'number: two or three entries leading to different object streams with the SAME header number (that of one of the entries, of '
            'a plain object, of no entry), header numbers exchanged or descending against the entries, the contested member '
            '(different bodies, also the Length of a zero-length stream) placed by Compressed entries in an entry number or in a '
            'number that is only a header number, and a container of 1000-1500 members beside one of two so that real pools finish '
            'against the xref order; every case is loaded under every permutation of the blocks '
            '(<= 6 blocks: all, <= 720) and of the zero-length ids (<= 4: all) through hook H1, 8 times on each rayon '
            'pool of 1,2,3,4,8,16 threads, and by the --no-default-features build; non-trivial = at least two object streams',
    'extra_trusted': [
        'C08: rayon runs every task exactly once, `collect` keeps source order, and appends made while holding a '
        'std::sync::Mutex are atomic (the schedules of the model are exactly: any cut into jobs, any order of the '
        'atomic appends); lopdf itself has #![forbid(unsafe_code)]',
        'C08: hook H1 (src/verif_hooks.rs, cfg(lopdf_verif)) only reorders complete appended blocks; with no permutation '
        'set it returns the vectors untouched',
        'C08: the per-task parse results (`entries` of a case) are computed by the generator, not by a model of the parser; '
        'a wrong expectation shows as a correspondence failure',
    ],
    'partial_note': 'That rayon + Mutex realise only the schedules of the model (each task once, atomic appends, '
                    'order-preserving collect) is an assumption about rayon and std, not proved here; it is sampled by '
                    'the real-pool runs.  Parsing of the individual objects is outside this property (C02).',
}


def _seq_oracle():
    """the sequential reader (no rayon feature) built from the same harness source; the parallel bin finds it next to itself"""
    exe, log = vlib.build_harness('c08', 'seq', True)
    return exe, log


def run(ctx):
    exe, log = _seq_oracle()
    if exe is None:
        print(log[-3000:])
        ctx.notes.append('sequential oracle build failed')
    return propcheck.standard_check(ctx, SPEC)


def replay(ctx, r):
    """./check C08 --replay FILE : rebuild both harness configurations, run the recorded case on implementation and model"""
    import json
    case = r.get('case')
    if not case:
        print(json.dumps(r, indent=1))
        return 1
    _seq_oracle()
    impl, log = vlib.build_harness(SPEC['bin'], None, True)
    if impl is None:
        print(log[-3000:])
        return 1
    runner, _ = vlib.build_runner(SPEC['runner'])
    io = vlib.run_lines(impl, [case])[0]
    print('impl :', io)
    out, verdict = vlib.split_impl(io)
    bad = verdict.startswith('FAIL')
    if runner:
        mo = vlib.run_lines(runner, [case])[0]
        print('model:', mo)
        bad = bad or mo != out
    return 1 if bad else 0


MANIFEST = {
    'level_text': 'Machine-checked proof (Coq) over a model of the loading phase of Reader::read and ObjectStream::new '
                  '(tasks per xref entry, atomic appends to the two shared vectors in arbitrary order, any cut of the entry '
                  'range into jobs, then collect / sort by xref key / only-add merge preferring the container the xref names / zero-length pass): for every file '
                  'and every schedule the loaded document equals the sequential one (C08_par_eq_seq), two schedules give '
                  'the same document (C08_schedule_independent), the zero-length pass commutes (C08_zero_len_commutes); '
                  'for the merge as it was before the repair the same under the hypothesis that object streams agree on '
                  'shared numbers (C08_pinned_*) and a refutation without it (C08_refuted_pinned).  Tied to the crate by '
                  'loading generated files under every block permutation through hook H1, on rayon pools of '
                  '1,2,3,4,8,16 threads and with the sequential build.',
    'level_note': 'Trusted: Coq kernel; hand-written model tied by correspondence; the schedule model (rayon runs each task '
                  'once, order-preserving collect, Mutex-atomic appends) is an assumption about rayon/std; per-object '
                  'parsing is supplied by the generator; hook H1; extraction/OCaml driver; Rust harness.  No axioms.',
    'technique': 'Coq proof (Permutation induction, uniqueness of strictly sorted lists, commutation of the stream-fixing '
                 'step via a simulation relation) + exhaustive schedule enumeration through a merge-order hook',
    'design_ref': 'DESIGN.md 6 C08',
}


def witness_case():
    """the refutation witness of Props/C08.v (C08_refuted_pinned): two object streams, both holding object 10"""
    import random
    phys = [Phys(1, ('obj', ('d', [(b'Type', ('n', b'Catalog'))]))),
            Phys(2, ('objstm', [(10, ('i', 1))], False)),
            Phys(3, ('objstm', [(10, ('i', 2))], False))]
    xref = {p.num: p for p in phys}
    return layout(random.Random(0), phys, xref, 1, mark=True)[1]


def witness_case_c07():
    """the same two object streams, the cross-reference stream placing object 10 in the second one"""
    import random
    phys = [Phys(1, ('obj', ('d', [(b'Type', ('n', b'Catalog'))]))),
            Phys(2, ('objstm', [(10, ('i', 1))], False)),
            Phys(3, ('objstm', [(10, ('i', 2))], False))]
    xref = {p.num: p for p in phys}
    return layout(random.Random(0), phys, xref, 1, mark=True, compressed={10: 3})[1]
