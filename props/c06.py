"""C06 -- the standard security handler agrees with the ISO 32000 algorithms.
The extracted specification coq/Spec/Crypto/Iso.v (runner c06) is the independent implementation:
documents it encrypts are opened by lopdf, documents lopdf encrypts are opened by it, and re-encrypting with
lopdf's random choices must reproduce lopdf's output byte for byte."""
import propcheck, vlib, pwaid
from sxg import *

PERM_BITS = [2, 3, 4, 5, 8, 9, 10, 11]


def rbytes(rng, n):
    return bytes(rng.randrange(256) for _ in range(n))


def rascii(rng, n):
    return bytes(rng.randrange(0x21, 0x7f) for _ in range(n))


# ------------------------------------------------------------------------------------------
# documents (every stream carries a direct Length equal to its data: what a conforming file has)
# ------------------------------------------------------------------------------------------
def gen_string(rng):
    k = rng.random()
    if k < 0.12:
        b = b''
    elif k < 0.3:
        b = rbytes(rng, rng.choice([1, 5, 15, 16, 17, 31, 32, 33, 48]))
    elif k < 0.8:
        b = rascii(rng, rng.randint(1, 40))
    else:
        b = rbytes(rng, rng.randint(16, 70))
    return (H if rng.random() < 0.25 else S)(b)


def gen_value(rng, depth):
    k = rng.random()
    if depth > 0 and k < 0.18:
        return A([gen_value(rng, depth - 1) for _ in range(rng.randint(0, 4))])
    if depth > 0 and k < 0.36:
        return D(gen_entries(rng, depth - 1))
    if k < 0.75:
        return gen_string(rng)
    return rng.choice([I(rng.randint(-5, 500)), N('Name'), NULL, B(True), REF(rng.randint(1, 9))])


def gen_entries(rng, depth, typ=None):
    keys = rng.sample(['A', 'B', 'Title', 'Author', 'Kids', 'K', 'V', 'T', 'Contents', 'Z1', 'Z2'], rng.randint(0, 5))
    ent = [(k, gen_value(rng, depth)) for k in keys]
    if typ is not None:
        ent.insert(rng.randint(0, len(ent)), ('Type', N(typ)))
    return ent


def gen_stream(rng, cf_names, kind):
    n = rng.choice([0, 1, 15, 16, 17, 32, 33, 64, 100, 200]) if rng.random() < 0.8 else rng.randint(200, 900)
    content = rbytes(rng, n) if rng.random() < 0.6 else rascii(rng, n)
    ent = []
    if kind == 'metadata':
        ent.append(('Type', N('Metadata')))
        ent.append(('Subtype', N('XML')))
    elif kind == 'xref':
        ent.append(('Type', N('XRef')))
        ent.append(('Info', gen_string(rng)))
    elif kind == 'crypt':
        name = rng.choice(cf_names + ['Identity'])
        flt = rng.choice([N('Crypt'), A([N('Crypt')]), A([N('Crypt'), N('ASCIIHexDecode')])])
        ent.append(('Filter', flt))
        ent.append(('DecodeParms', D([('Type', N('CryptFilterDecodeParms')), ('Name', N(name))])))
    elif kind == 'crypt-noparms':
        ent.append(('Filter', N('Crypt')))
    elif kind == 'crypt-array':
        # two filters, the decode parameters as the parallel array (7.3.8.2, Table 5)
        # Crypt first or second: the decode parameters sit at the position Crypt has among the filters
        if rng.random() < 0.5:
            ent.append(('Filter', A([N('Crypt'), N('ASCIIHexDecode')])))
            ent.append(('DecodeParms', A([D([('Name', N(cf_names[-1]))]), NULL])))
        else:
            ent.append(('Filter', A([N('ASCIIHexDecode'), N('Crypt')])))
            ent.append(('DecodeParms', A([D([('Name', N(cf_names[0]))]), D([('Name', N(cf_names[-1]))])])))
    elif kind == 'embedded':
        ent.append(('Type', N('EmbeddedFile')))
    elif kind == 'dictstr':
        ent.append(('Desc', S(rascii(rng, rng.randint(1, 30)))))
        if rng.random() < 0.5:
            ent.append(('Params', D([('CheckSum', H(rbytes(rng, 16))), ('Size', I(n))])))
    ent.insert(rng.randint(0, len(ent)), ('Length', I(len(content))))
    return ST(ent, content)


def gen_doc(rng, cf_names, feats_allowed, force=None, small=False):
    """(doc text, features)"""
    nobj = rng.randint(1, 3) if small else rng.randint(2, 8)
    ids = rng.sample(range(1, 40), nobj + 1)
    gens = [rng.choice([0, 0, 0, 1, 7, 65535]) for _ in ids]
    objects = []
    feats = set()
    cat = (ids[0], 0)
    for i, g in list(zip(ids, gens))[1:]:
        k = rng.random()
        kind = None
        if k < 0.3:
            o = gen_stream(rng, cf_names, 'plain')
        elif k < 0.38:
            kind = 'metadata'
        elif k < 0.43:
            kind = 'xref'
        elif k < 0.52 and cf_names:
            kind = 'crypt'
        elif k < 0.55 and cf_names:
            kind = 'crypt-noparms'
        elif k < 0.63:
            kind = 'dictstr'
        elif k < 0.67:
            kind = 'metadata-dict'
        elif k < 0.8:
            o = D(gen_entries(rng, 2))
        elif k < 0.9:
            o = A([gen_value(rng, 2) for _ in range(rng.randint(0, 5))])
        else:
            o = gen_string(rng)
        if kind is not None:
            if kind not in feats_allowed:
                o = gen_stream(rng, cf_names, 'plain')
            elif kind == 'metadata-dict':
                o = D(gen_entries(rng, 1, 'Metadata') + [('Note', S(rascii(rng, 9)))])
                feats.add(kind)
            else:
                o = gen_stream(rng, cf_names, kind)
                feats.add(kind)
        objects.append(((i, g), o))
    if force:
        objects[0] = (objects[0][0], gen_stream(rng, cf_names, force))
    objects.append((cat, D([('Type', N('Catalog')), ('Lang', S(b'en-US'))])))
    rng.shuffle(objects)
    trailer = [('Root', REF(*cat)), ('ID', A([S(rbytes(rng, 16)), S(rbytes(rng, 16))])), ('Size', I(max(ids) + 1))]
    max_id = max(ids) + rng.choice([0, 0, 0, 3])
    return DOC('1.7', b'', trailer, objects, max_id), feats


# ------------------------------------------------------------------------------------------
# versions, passwords
# ------------------------------------------------------------------------------------------
def gen_perms(rng):
    k = rng.random()
    if k < 0.3:
        return sum(1 << b for b in PERM_BITS)
    if k < 0.4:
        return 0
    return sum(1 << b for b in PERM_BITS if rng.random() < 0.5)


def CFS(pairs):
    return L('cfs', *[L(xb(n), f) for n, f in pairs])


KEY_LENGTHS = [40, 48, 56, 64, 72, 80, 88, 96, 104, 112, 120, 128]


def gen_version(rng, kind, kl=None):
    """-> (ver builder given (owner, user), pw limit, cf names, features)"""
    perms = gen_perms(rng)
    if kind == 'v1':
        return (lambda o, u: L('v1', xb(o), xb(u), str(perms))), 32, [], set()
    if kind == 'v2':
        kl = kl or rng.choice(KEY_LENGTHS)
        return (lambda o, u: L('v2', xb(o), xb(u), str(kl), str(perms))), 32, [], set()
    em = rng.random() < 0.6
    if kind in ('v4-eff', 'v4-dparr'):
        # two crypt filters with different methods; the second one is used by EFF / by one stream's DecodeParms array
        cfs = CFS([('StdCF', 'aesv2'), ('Other', 'rc4')])
        return (lambda o, u: L('v4', '1' if em else '0', cfs, xb(b'StdCF'), xb(b'StdCF'), xb(o), xb(u), str(perms))), 32, \
            ['StdCF', 'Other'], {'eff' if kind == 'v4-eff' else 'dp-array'}
    methods = ['aesv2', 'aesv2', 'rc4', 'id'] if kind == 'v4' else (['aesv3'] if rng.random() < 0.7 else ['aesv3', 'id'])
    names = ['StdCF']
    if rng.random() < 0.5:
        names += rng.sample(['Alt', 'A', 'Zed', 'Ident'], rng.randint(1, 2))
    pairs = [(n, rng.choice(methods)) for n in names]
    pick = lambda: rng.choice([p[0] for p in pairs]) if rng.random() < 0.85 else 'Identity'
    stmf, strf = pick(), pick()
    feats = set()
    if 'Identity' in (stmf, strf):
        feats.add('identity-name')
    if any(m == 'id' for _, m in pairs):
        feats.add('cfm-none')
    cfs = CFS(pairs)
    cfn = [p[0] for p in pairs]
    if kind == 'v4':
        return (lambda o, u: L('v4', '1' if em else '0', cfs, xb(stmf), xb(strf), xb(o), xb(u), str(perms))), 32, cfn, feats
    fek = rbytes(rng, 32)
    tag = 'r5' if kind == 'r5' else 'v5'
    return (lambda o, u: L(tag, '1' if em else '0', cfs, xb(fek), xb(stmf), xb(strf), xb(o), xb(u), str(perms))), 127, cfn, feats


# ------------------------------------------------------------------------------------------
# cases
# ------------------------------------------------------------------------------------------
ALL_FEATS = {'metadata', 'xref', 'crypt', 'crypt-noparms', 'dictstr', 'metadata-dict'}


# 'noowner': NO owner password and a non-empty user password (Algorithm 3 a: the user password is used instead), one small
# document for V 1, for V 2 with every key length 40, 48, .., 128, and for V 4 with an RC4 and with an AES crypt filter
NOOWNER = [('v1', None)] + [('v2', kl) for kl in KEY_LENGTHS] + [('v4', None), ('v4', None)]


def plan(tier):
    # '2b': revision 6 documents whose Algorithm 2.B runs end exactly on (or next to) the boundary of the exit test
    if tier == 'quick':
        return [('v1', 6), ('v2', 10), ('v4', 22), ('r5', 6), ('v5', 1), ('v4-eff', 1), ('v4-dparr', 3), ('direct', 2), ('len256', 2),
                ('2b', 3), ('noowner', len(NOOWNER))]
    return [('v1', 150), ('v2', 400), ('v4', 700), ('r5', 200), ('v5', 40), ('v4-eff', 10), ('v4-dparr', 10), ('direct', 20),
            ('len256', 20), ('2b', 24), ('noowner', 6 * len(NOOWNER))]


CLASSES_2B = ['eq', 'eq', 'eq', 'below', 'above', 'eq64', 'r64', 'any']


def want_2b(rng, j):
    """the classes wanted of the four hashes (user validation, user key, owner validation, owner key)"""
    if j == 0:
        return ['eq'] * 4
    if j == 1:
        w = ['below', 'above', 'eq', rng.choice(['below', 'above'])]
        rng.shuffle(w)
        return w
    if j == 2:
        w = ['eq', 'r64', rng.choice(['above', 'below']), 'eq']
        rng.shuffle(w)
        return w
    return [rng.choice(CLASSES_2B) for _ in range(4)]


def run_each(exe, lines, timeout):
    """every line in a process of its own, all at once (the few lines that cost tens of seconds each)"""
    import concurrent.futures
    if not lines:
        return []
    with concurrent.futures.ThreadPoolExecutor(min(12, len(lines))) as ex:
        return [r[0] for r in ex.map(lambda l: vlib.run_lines(exe, [l], timeout=timeout), lines)]


def cost_of(line_pws, flags, vkind):
    """rough cost of a case line in the extracted specification: Algorithm 2.B hashes x bytes per round"""
    if vkind != 'v5':
        return 0
    c = 0 if 'noreenc' in flags else 4 * 150
    for kind, p, _ in line_pws:
        c += (3 if kind == 'right' else 2) * (104 + min(len(p), 127))
    return c


def gen_cases(rng, tier):
    impl, _ = vlib.build_harness(SPEC['bin'], None, False)
    runner, _ = vlib.build_runner(SPEC['runner'])
    specs = []
    for kind, n in plan(tier):
        for j in range(n):
            # len256: a V 5 dictionary with the entry Length 256 that Acrobat / qpdf write (fixed in /repo d4c3304: it was
            # refused with InvalidKeyLength); mostly revision 5, whose hash is cheap in the extracted specification
            vkind = rng.choice(['v1', 'v2', 'v4', 'r5']) if kind == 'direct' else \
                (('v5' if tier != 'quick' and rng.random() < 0.2 else 'r5') if kind == 'len256' else
                 ('v5' if kind == '2b' else (NOOWNER[j % len(NOOWNER)][0] if kind == 'noowner' else kind)))
            mk, limit, cf_names, vfeats = gen_version(rng, vkind, NOOWNER[j % len(NOOWNER)][1] if kind == 'noowner' else None)
            r56 = vkind in ('r5', 'v5')
            # revision 5 (cheap hash): the first two documents have a user / an owner password of more than 127 bytes in
            # multi-byte characters; '2b' and the quick tier's revision 6 document: short passwords (a hash of a long one
            # costs 10 s in the extracted specification)
            force = ['user-straddle', 'owner-straddle'][j] if kind == 'r5' and j < 2 else \
                ('short' if kind == '2b' and (tier == 'quick' or rng.random() < 0.7) else ('noowner' if kind == 'noowner' else None))
            pwset = pwaid.gen_pw_set(rng, limit, r56, force, maxlen=(50 if vkind == 'v5' and tier == 'quick' else None))
            sforce = {'v4-eff': 'embedded', 'v4-dparr': 'crypt-array'}.get(kind)
            doc, feats = gen_doc(rng, cf_names, ALL_FEATS if sforce is None else set(), sforce, small=(kind == 'noowner'))
            rnd = [rbytes(rng, 16), rbytes(rng, 16), rbytes(rng, 4)]
            ivs = [rbytes(rng, 16) for _ in range(90)]
            opts = {'v4-eff': [L('eff', xb(b'Other'))], 'direct': ['direct'],
                    'len256': ['len256'] + (['direct'] if rng.random() < 0.3 else [])}.get(kind, [])
            if kind == 'direct':
                vfeats = vfeats | {'direct-encrypt'}
            if kind == 'len256':
                vfeats = vfeats | {'v5-length-256'}
            specs.append({'kind': kind, 'vkind': vkind, 'doc': doc, 'mk': mk, 'pwset': pwset, 'rnd': rnd, 'ivs': ivs, 'opts': opts,
                          'feats': feats | vfeats, 'special': bool(opts) or sforce is not None,
                          'want2b': want_2b(rng, j) if kind == '2b' else None, 'seed2b': rbytes(rng, 8)})
    # password preparation: the crate's own, through the harness (an oracle; see pwaid.py)
    P = pwaid.prepare_texts(impl, [(s['pwset']['r56'], t) for s in specs for t in [s['pwset']['user'], s['pwset']['owner']] + s['pwset']['cands']])
    for s in specs:
        f = pwaid.finalize(s['pwset'], P)
        s['pw'] = f
        s['feats'] = s['feats'] | f['feats']
        s['ver'] = s['mk'](f['owner'][1], f['user'][1])           # prepared bytes: what the specification reads
        s['ver_text'] = s['mk'](f['owner'][0], f['user'][0])      # the texts: what lopdf's API takes
    # Algorithm 2.B aid: salts for Algorithms 8 / 9 that put the four hashes on the boundary of the exit test
    aimed = [s for s in specs if s['kind'] == '2b']
    if impl:
        res = run_each(impl, [L('find2b', xb(s['pw']['user'][1]), xb(s['pw']['owner'][1]), L('want', *s['want2b']), xb(s['seed2b']))
                              for s in aimed], 600)
        for s, r in zip(aimed, res):
            toks = vlib.split_impl(r)[0].split()
            if toks and toks[0] == '(found':
                s['rnd'] = [bytes.fromhex(toks[1][1:]), bytes.fromhex(toks[2][1:]), s['rnd'][2]]
                s['feats'] = s['feats'] | {'2b-' + h + '-' + c for h, c in zip(['uv', 'uk', 'ov', 'ok'], s['want2b']) if c != 'any'}
    for s in specs:
        tail = [L('rnd', *[xb(b) for b in s['rnd']]), L('ivs', *[xb(b) for b in s['ivs']])]
        s['enc'] = L('enc', s['doc'], s['ver'], *tail, *([L('opts', *s['opts'])] if s['opts'] else []))
        iopts = s['opts'] + ([L('aim2b', 'any')] if s['kind'] == '2b' else [])
        s['enc_text'] = L('enc', s['doc'], s['ver_text'], *tail, *([L('opts', *iopts)] if iopts else []))
    if not (impl and runner):
        return [(s['enc'], {'kind': 'enc-' + s['kind'], 'nontrivial': True}) for s in specs]
    impl_raw = [vlib.split_impl(l) for l in vlib.run_lines(impl, [s['enc_text'] for s in specs], timeout=900, shards=8)]
    impl_enc = [r[0] for r in impl_raw]
    # the revision 6 documents cost 20-40 s each in the extracted specification (four Algorithm 2.B hashes): each in a
    # process of its own beside the sharded rest
    heavy = [i for i, s in enumerate(specs) if s['vkind'] == 'v5']
    light = [i for i, s in enumerate(specs) if s['vkind'] != 'v5']
    import concurrent.futures
    with concurrent.futures.ThreadPoolExecutor(2) as ex:
        fh = ex.submit(run_each, runner, [specs[i]['enc'] for i in heavy], 1400)
        fl = ex.submit(vlib.run_lines, runner, [specs[i]['enc'] for i in light], 1400, 8)
        iso_enc = [None] * len(specs)
        for i, r in zip(heavy, fh.result()):
            iso_enc[i] = r
        for i, r in zip(light, fl.result()):
            iso_enc[i] = r
    # the other direction judged directly (revisions 2-4): the specification's O / U for the request and its Algorithm 6 / 7
    # on every password against the dictionary lopdf wrote; the answer travels in the case line, the harness compares
    r4 = [i for i, s in enumerate(specs) if s['vkind'] in ('v1', 'v2', 'v4') and impl_enc[i].startswith('(encdoc ')]
    refs = vlib.run_lines(runner, [L('isoref', specs[i]['ver'], impl_enc[i][len('(encdoc '):-1],
                                      L('pws', *[xb(p) for _, p, _ in specs[i]['pw']['pws']])) for i in r4], 1400, 8)
    for i, r in zip(r4, refs):
        specs[i]['isoref'] = r if r.startswith('(isoref ') else None
    cases = []
    for s, ie, me, iraw in zip(specs, impl_enc, iso_enc, impl_raw):
        if not (ie.startswith('(encdoc ') and me.startswith('(encdoc ')):
            # lopdf refuses the parameters / the specification did not answer: shown as a disagreement of the enc line
            cases.append((s['enc'], {'kind': 'encfail-' + s['kind'], 'nontrivial': True, 'feats': sorted(s['feats'])}, 0))
            continue
        implenc, isoenc = ie[len('(encdoc '):-1], me[len('(encdoc '):-1]
        pws = s['pw']['pws']
        feats = set(s['feats'])
        if 'aimed=' in iraw[1] and not iraw[1].endswith('aimed=none'):
            feats.add('2b-lopdf-salts-on-boundary')
        tags = {'kind': s['kind'], 'nontrivial': True, 'feats': sorted(feats), 'no_owner': not s['pw']['has_owner']}
        if s['vkind'] in ('v1', 'v2', 'v4'):
            tags['isoref'] = s.get('isoref') is not None
        if s['kind'] == '2b':
            # one line per right password (user: three hashes, owner: two); thorough: also the re-encryption with lopdf's
            # salts (which the aid chose on the boundary as well) and a wrong password
            rights = [p for p in pws if p[0] == 'right'][:2]
            parts = [([p], ['noreenc']) for p in rights]
            if tier != 'quick':
                parts += [([], [])] + [([p], ['noreenc']) for p in pws if p[0] == 'wrong'][:1]
        elif s['vkind'] == 'v5':
            # Algorithm 2.B costs seconds per hash in the extracted specification: one line per piece of work
            parts = [([], [])] + [([p], ['noreenc']) for p in pws[:3]]
        elif s['special']:
            # features lopdf's writer cannot express (EFF, direct encryption dictionary) or that the spec-side document
            # alone carries: only the direction specification -> lopdf is meaningful beyond plain opening
            parts = [(pws, ['noreenc'] if s['kind'] != 'v4-dparr' else [])]
        else:
            parts = [(pws, [])]
        for ps, fl in parts:
            # (raw ..) is the seventh element whenever an (isoref ..) follows: both sides find them by position / by tag
            raw = [L('raw', *[xb(t) for _, _, t in ps])] if any(p != t for _, p, t in ps) or s.get('isoref') else []
            ref = [s['isoref']] if s.get('isoref') else []
            cases.append((L('case', s['doc'], s['ver'], isoenc, implenc,
                            L('pws', *[L(k, xb(p)) for k, p, _ in ps]), L('flags', *fl), *raw, *ref), tags, cost_of(ps, fl, s['vkind'])))
    # the model runs the lines in 8 processes, line i in process i mod 8: the expensive lines (revision 6) first, so that
    # they spread -- the eight most expensive one per process, the cheapest of them where the next ones will be added
    heavy = sorted([c for c in cases if c[2] > 0], key=lambda c: -c[2])
    heavy = heavy[:8][::-1] + heavy[8:]
    return [(c[0], c[1]) for c in heavy + [c for c in cases if c[2] == 0]]


def classify(line, tags, model_out, impl_out, verdict):
    """known-finding classes, decided on the INPUT: none is open (eff-ignored, decodeparms-array and direct-encrypt-dict
    are fixed in /repo: 0fbc00d, f8740d3, fbda92c; their generators stay in the plan as ordinary cases)"""
    return None


SPEC = {
    'gen_parts': ['Crypto', 'Consts'],
    'allowed_axioms': (),
    'runner': 'c06',
    'bin': 'c06',
    'gen_cases': gen_cases,
    'classify': classify,
    'rule': 'random documents (strings nested in arrays/dictionaries and in stream dictionaries, literal and hexadecimal, empty, '
            '15/16/17/32/33-byte, binary; streams incl. empty, Metadata, XRef, per-stream Crypt filters with and without DecodeParms; '
            'sparse ids, non-zero generations) x {V1; V2 40..128; V4 with V2/AESV2/None crypt filters; R5; V5(R6)} x StmF/StrF '
            'chosen among the CF names and the predefined Identity x EncryptMetadata x conforming permission words x passwords '
            '(Unicode texts: ASCII, Latin-1 and the specials of PDFDocEncoding for revisions 2-4; Cyrillic, kana, CJK extension B, '
            'Latin-1 and texts SASLprep changes for revisions 5-6; empty user, no owner, short, >32, >127 bytes incl. 128..200 '
            'bytes of multi-byte characters with the 127-byte cut inside a character (two revision 5 documents of every run by '
            'construction), owner = user, equal after truncation) + further right passwords (differing beyond the cut only) '
            'and wrong ones (differing in the last character that counts; the empty one); the texts go to lopdf, the bytes the '
            'crate\'s own preparation makes of them (harness line `prep`) are the passwords of the specification side; '
            '3 (thorough 24) revision 6 documents whose salts a search with the sha2/aes crates chose so that the Algorithm 2.B '
            'runs of the user validation / user key / owner validation / owner key hash end exactly on the boundary of the '
            'exit test (last byte = round - 32), one below it, after a round just above it, in the 64th round -- in the '
            'document the specification encrypts (explicit salts) and in the one lopdf encrypts (re-drawn until a hash is on '
            'the boundary); '
            'each document is encrypted by the extracted ISO specification (explicit randomness) and by lopdf; lopdf opens the '
            'former, the specification the latter, with every password; the specification re-encrypts with the random choices '
            'read back from lopdf\'s output and must reproduce it byte for byte (O, U, OE, UE, Perms, P, V, R, Length, CF, StmF, '
            'StrF read with the standard\'s defaults; every object); for revisions 2-4 the direction lopdf -> standard is also judged '
            'directly: the extracted specification is asked (runner line isoref) for the O value of Algorithm 3 and the U value of '
            'Algorithm 4 / 5 of the request and for the answer of its Algorithms 6 and 7 to every password against the dictionary '
            'lopdf wrote; the harness fails the case when lopdf\'s O or U differ or when the standard authenticates anything but the '
            'user password as user and the owner password -- the user password when there is none -- as owner; 15 (thorough 90) '
            'small documents have NO owner password and a non-empty user password: V 1, V 2 with every key length 40..128, V 4; '
            'non-trivial = every case',
    'extra_trusted': ['C06: Gallina MD5 / SHA-256/384/512 / AES-128/256 / RC4 (RFC 1321, FIPS 180-4, FIPS 197, RFC 6229, SP 800-38A '
                      'vectors as Examples) are the primitives of the specification; their correctness is by vectors and by the '
                      'differential runs against the md-5, sha2, aes crates, not by proof',
                      'C06: password preparation (PDFDocEncoding / SASLprep) is an oracle: the harness prepares the Unicode texts with '
                      'the crate\'s own preparation and hands the prepared bytes to the specification side (for revisions 5-6 the '
                      'result is compared with the stringprep crate\'s saslprep)',
                      'C06: the Algorithm 2.B boundary search (harness/src/pwaid.rs, sha2 + aes crates) only chooses inputs; it is not '
                      'part of any verdict'],
    'partial_note': 'MD5/SHA-2/RC4 correctness by published vectors + differential runs, not by proof (the laws the theorems use -- '
                    'AES inverse, MD5 and SHA-2 output sizes -- are proved); password preparation is an oracle (the prepared bytes of '
                    'non-ASCII texts are taken from the crate)',
    'impl_timeout': 1200,
    'model_timeout': 1500,
    'model_shards': 8,      # vlib shards only when there are >= 4 lines per shard
}


def run(ctx):
    return propcheck.standard_check(ctx, SPEC)


MANIFEST = {
    'level_text': 'Machine-checked refinement proofs (Coq) between the executable model of lopdf\'s standard security handler '
                  '(written from the Rust source) and an independent transcription of ISO 32000-1/-2 7.6 in the standard\'s own '
                  'formulation (Algorithms 1, 1.A, 2, 2.A, 2.B, 3-13, crypt filter selection incl. EFF and DecodeParms arrays, the '
                  'rule saying what is encrypted): algorithm by algorithm lopdf computes what the standard defines (keys, O, U, OE, '
                  'UE, Perms, per-object keys, ciphertexts), every difference in formulation being a lemma; Algorithm 13 / 2.A in '
                  'both directions on every Perms a conforming writer can produce.  Both interoperability statements of the '
                  'property are theorems for revisions 2-6, general in the document, the request, the random choices and the '
                  'position of the encryption dictionary (indirect or direct): a document encrypted by the standard\'s writer is '
                  'opened by Document::decrypt, a document encrypted by try_from + Document::encrypt is opened by the standard\'s '
                  'reader, user and owner password, plaintext recovered (composed from the algorithm-level refinements, the '
                  'standard\'s own consistency, the object-level theorems and the dictionary / trailer / object-map glue).  The '
                  'EXTRACTED specification is the independent implementation: on every generated case lopdf opens what it '
                  'encrypted, it opens what lopdf encrypted, and it reproduces lopdf\'s output byte for byte from the random '
                  'choices read back (V1, V2 40..128, V4 RC4/AESV2/None, R5, R6).',
    'level_note': 'Partial: MD5, SHA-2, RC4 against their standards by published vectors and differential runs, not by proof (AES '
                  'decryption inverting encryption, the MD5 and the SHA-2 output sizes ARE proved for the Gallina instances, so the '
                  'document theorems hold for them with no hypothesis on the primitives); an owner (R2-4) / user (R5/6) password that also passes the other '
                  'check is excluded (cryptographic); password preparation (PDFDocEncoding/SASLprep) is an oracle (the '
                  'specification side gets the bytes the crate prepares from the Unicode texts). No open known finding (EFF, DecodeParms arrays, direct encryption dictionary, Length 256 on V 5 fixed in /repo). '
                  'Trusted: Coq kernel, translator part Crypto, extraction. No axioms.',
    'technique': 'Coq refinement proofs model-vs-standard + extracted specification as independent implementation in a two-way '
                 'differential check + direct property evaluation on the crate',
    'design_ref': 'DESIGN.md 6 C06',
}
