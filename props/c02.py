"""C02 -- well-formed PDFs from any producer load to their content.

Cases
  (write style adoc) / (writem style (parts) adoc)  stage 1: the extracted reference writer, one or several cross-reference sections
  (load xBYTES (ids) <expected>)   produced in two stages: the generator draws (style, abstract document), the EXTRACTED
                                   reference writer (coq/Spec/RefWriter.v) turns them into bytes and into the expected content;
                                   the harness feeds the bytes to the real Document::load_mem
  (xrefstream dict content)        Model/Xref.v decode_xref_stream   vs  lopdf::xref::decode_xref_stream
  (xreftable bytes)                Model/Xref.v xref_and_trailer_table vs the table parser inside load_mem
  (objstm dict content)            Model/ObjStm.v objstm_new          vs  ObjectStream::new
  (asset name)                     the files of /repo/assets load
  (loadz BYTES (ids) <expected>)   files written HERE the way present-day producers write them: object streams of 3..200 near-identical
                                   objects and the cross-reference stream compressed by a real deflate encoder (Python zlib, level 1/6/9,
                                   fixed / dynamic Huffman codes, several blocks; 5:1 .. 65:1), Predictor 12 on the cross-reference
                                   stream; expected content computed here; model side: LoaderExt.load_ext on the Gallina inflate
  (objstmz dict BYTES n)           such an object stream alone: ObjectStream::new must answer its n members
"""
import os, re
import propcheck, vlib
from sxg import *
from objgen import rbytes, rbyte

# ------------------------------------------------------------------------------------------------
# styles
# ------------------------------------------------------------------------------------------------
COMMENTS = [b'', b' a comment', b'endobj', b'endstream', b'%%EOF', b'startxref', b'(', b'<<', b' 1 0 obj', b'\xff\x00\x80', b'%PDF']


def g_filler(rng, p, must=False, ws_only=False):
    """p = probability of a non-empty filler"""
    items = []
    if must or rng.random() < p:
        for _ in range(rng.choice([1, 1, 1, 2, 3])):
            if not ws_only and rng.random() < 0.25:
                items.append(L('c', xb(rng.choice(COMMENTS)), str(rng.randint(0, 2))))
            else:
                items.append(L('w', str(rng.randint(0, 5))))
    return L(*items)


def g_ws(rng, p, nul_ok=True):
    if rng.random() >= p:
        return L()
    ks = [0, 1, 2, 3, 4, 5] if nul_ok else [0, 1, 2, 3, 4]
    return L(*[str(rng.choice(ks)) for _ in range(rng.choice([1, 1, 2, 3]))])


def g_nstyle(rng, name, wild):
    out = []
    for b in name:
        if rng.random() < wild * 0.5:
            out.append(L('h', str(rng.randint(0, 1)), str(rng.randint(0, 1))))
        else:
            out.append('p')
    return out


RAWCR = [False]      # known finding C02-raw-eol: raw CR / CR LF spellings of LF are drawn only in the 'rawcr' profile


def g_lch(rng, b, wild):
    if rng.random() >= wild:
        return 'raw'
    opts = ['raw', L('oct', '1'), L('oct', '2'), L('oct', '3'), 'ign']
    if b == 0x0a:
        opts += ['short']
        if RAWCR[0]:
            opts += ['cr', 'crlf', 'cr', 'crlf']
    if b in (0x0d, 0x09, 0x08, 0x0c, 0x28, 0x29, 0x5c):
        opts += ['short', 'short']
    return rng.choice(opts)


def g_sstyle(rng, s, wild):
    if rng.random() < 0.35:
        hp = []
        for _ in s:
            hp.append(L(g_ws(rng, wild * 0.4), str(rng.randint(0, 1)), g_ws(rng, wild * 0.3), str(rng.randint(0, 1))))
        return L('hex', L(*hp), g_ws(rng, wild * 0.5), str(rng.randint(0, 1)))
    lp = []
    for b in s:
        conts = L(*[str(rng.randint(0, 2)) for _ in range(1 if rng.random() < wild * 0.15 else 0)])
        lp.append(L(conts, g_lch(rng, b, wild)))
    tail = L(*[str(rng.randint(0, 2)) for _ in range(1 if rng.random() < wild * 0.15 else 0)])
    return L('lit', L(*lp), tail)


def canon_real(rng):
    """a decimal with at most 6 significant digits in Rust's Display form (so that printing the loaded f32 gives it back)"""
    while True:
        ip = rng.choice([0, 0, 1, 7, 12, 100, 612, 792, rng.randint(0, 9999)])
        nd = rng.choice([0, 0, 1, 2, 3])
        if len(str(ip)) + nd > 6:
            continue
        fr = ''
        if nd:
            fr = '%0*d' % (nd, rng.randint(1, 10 ** nd - 1))
            fr = fr.rstrip('0')
        if ip == 0 and not fr:
            return '0'
        neg = rng.random() < 0.3
        return ('-' if neg else '') + str(ip) + ('.' + fr if fr else '')


class G:
    """draws an object together with its style"""
    def __init__(self, rng, wild, ids, deep_parens=False, high=False):
        self.rng = rng
        self.high = high          # strings with many bytes >= 0x80 (the 'png' profiles)
        self.wild = wild          # 0 = lopdf-like spellings, 1 = every freedom
        self.ids = ids
        self.deep = deep_parens

    def fill(self, must=False):
        return g_filler(self.rng, self.wild * 0.5, must and self.rng.random() < 0.5)

    def name(self):
        while True:
            n = rbytes(self.rng, 8).replace(b'\x00', b'')
            return n

    def string(self):
        rng = self.rng
        r = rng.random()
        if self.high and r < 0.6:
            return bytes(rng.choice([rng.randint(0x80, 0xff), rng.randint(0xf0, 0xff), rng.getrandbits(8)]) for _ in range(rng.randint(1, 48)))
        if r < 0.4:
            return rbytes(rng, 16)
        if r < 0.7:
            alpha = [0x28, 0x29, 0x28, 0x29, 0x5c, 0x0d, 0x0a, 0x0a, 0x61, 0x30, 0x37, 0x38, 0x6e, 0x09]
            return bytes(rng.choice(alpha) for _ in range(rng.randint(0, 14)))
        if r < 0.8:
            d = rng.choice([1, 2, 5, 20, 99, 100]) if not self.deep else rng.choice([101, 102, 130])
            return b'(' * d + rbytes(rng, 4) + b')' * d
        return rbytes(rng, 40)

    def obj(self, depth, allow_null=True):
        rng = self.rng
        kinds = ['bool', 'int', 'int', 'real', 'name', 'name', 'str', 'str', 'ref']
        if allow_null:
            kinds.append('null')
        if depth > 0:
            kinds += ['arr', 'dict', 'arr', 'dict']
        k = rng.choice(kinds)
        w = self.wild
        if k == 'null':
            return NULL, 'def'
        if k == 'bool':
            return B(rng.random() < 0.5), 'def'
        if k == 'int':
            z = rng.choice([0, 1, -1, 7, 42, -300, 2 ** 31, -2 ** 31, 2 ** 63 - 1, -2 ** 63, rng.randint(-10 ** 6, 10 ** 6)])
            st = L('int', str(int(rng.random() < w * 0.3)), str(rng.choice([0, 0, 1, 3]) if rng.random() < w * 0.5 else 0))
            return I(z), st
        if k == 'real':
            r = canon_real(rng)
            st = L('real', str(int(rng.random() < w * 0.3)), str(rng.choice([0, 1, 2]) if rng.random() < w * 0.4 else 0),
                   str(rng.choice([0, 1, 3]) if rng.random() < w * 0.4 else 0), str(int(rng.random() < w * 0.5)))
            return R(r), st
        if k == 'name':
            n = self.name()
            return N(n), L('name', *g_nstyle(rng, n, w))
        if k == 'str':
            s = self.string()
            if rng.random() < 0.2 * (1 - w) + 0.05:
                return rng.choice([S, H])(s), 'def'
            return rng.choice([S, H])(s), L('str', g_sstyle(rng, s, w))
        if k == 'ref':
            i = rng.choice(self.ids + [rng.randint(1, 300)])
            g = 0 if rng.random() < 0.8 else rng.choice([1, 65535])
            st = 'def' if rng.random() > w else L('ref', str(rng.choice([0, 0, 2])), str(rng.choice([0, 0, 1])),
                                                 self.fill(True), self.fill(True))
            return REF(i, g), st
        if k == 'arr':
            items = [self.obj(depth - 1) for _ in range(rng.choice([0, 1, 2, 3, 6]))]
            return A([o for o, _ in items]), L('arr', self.fill(), *[L(s, self.fill()) for _, s in items])
        if k == 'dict':
            return self.dict(depth)

    def dict(self, depth, extra=()):
        rng = self.rng
        keys = []
        for _ in range(rng.choice([0, 1, 2, 4])):
            kk = self.name()
            if kk not in keys and kk not in (b'Type', b'Length', b'Filter', b'DecodeParms', b'Size', b'W', b'Index', b'Prev',
                                             b'XRefStm', b'Encrypt', b'Linearized'):
                keys.append(kk)
        ents = [(kk, ) + self.obj(depth - 1, allow_null=True) for kk in keys]
        for k, o, s in extra:
            ents.insert(rng.randint(0, len(ents)), (k, o, s))
        return (D([(k, o) for k, o, _ in ents]),
                L('dict', self.fill(), *[L(L(*g_nstyle(rng, k, self.wild)), self.fill(), s, self.fill()) for k, _, s in ents]))

    def istyle(self, ostyle):
        rng = self.rng
        if self.wild == 0:
            return L(L(), L(), L(L('w', '1')), L(L('w', '1')), L(L('w', '1')), ostyle, L(), '0', '1')
        return L(self.fill(True), self.fill(True), self.fill(), self.fill(), g_filler(rng, 0.7), ostyle, self.fill(),
                 str(rng.randint(0, 1)), rng.choice(['none', '0', '1', '2']))


AHX = [False]        # the 'ahx' profile draws ASCIIHexDecode on most structural streams (repaired finding C02-asciihex, /repo 695e965)
PNG = [False]        # the 'png' profiles: every structural stream is Flate-encoded with a PNG predictor


def g_row_types(rng):
    """PNG filter type per row (None Sub Up Average Paeth), consumed cyclically by the reference writer"""
    m = rng.random()
    if m < 0.08:
        return []                                   # all rows None
    if m < 0.35:
        return [rng.randint(0, 4)]                  # one type for every row (what most producers do)
    if m < 0.55:
        return [rng.choice([3, 4]) if rng.random() < 0.7 else rng.randint(0, 4) for _ in range(rng.randint(2, 6))]
    return [rng.randint(0, 4) for _ in range(rng.randint(2, 12))]


def g_pred(rng):
    return L('pred', str(rng.randint(0, 5)), str(rng.choice([1, 2, 3, 4, 5, 7, 8, 16, 31])), L(*[str(t) for t in g_row_types(rng)]),
             str(rng.choice([0, 0, 0, 1, 2, 3])), str(int(rng.random() < 0.2)), str(int(rng.random() < 0.3)))


def g_sfilter(rng, wild):
    if AHX[0] and rng.random() < 0.6:
        return L('ahx', str(rng.randint(0, 1)), L(*[str(rng.randint(0, 40)) for _ in range(rng.randint(0, 5))]))
    if PNG[0]:
        return rng.choice([L('flate', str(rng.choice([0, 1, 4, 30, 65534])), g_pred(rng)), L('flate', '0', g_pred(rng)),
                           L('a85flate', str(rng.choice([0, 7, 65534])), g_pred(rng))])
    if rng.random() > wild:
        return 'none'
    def pred():
        if rng.random() < 0.4:
            return 'none'
        return g_pred(rng)
    return rng.choice(['none', 'a85', L('flate', str(rng.choice([0, 1, 4, 30, 65534])), pred()),
                       L('a85flate', str(rng.choice([0, 7, 65534])), pred()),
                       L('ahx', str(rng.randint(0, 1)), L(*[str(rng.randint(0, 40)) for _ in range(rng.randint(0, 5))]))])


def g_secs(rng, size, used, wild, skip0=False):
    """a legal partition into subsections: covers 0 and every used number; skip0 (cross-reference streams only, 7.5.8): object 0 is
    not listed and no sub-section runs over a gap, so that every listed entry is in use"""
    if skip0:
        secs = []
        for n in sorted(set(u for u in used if 0 < u < size)):
            if secs and secs[-1][0] + secs[-1][1] == n and rng.random() < 0.8:
                secs[-1] = (secs[-1][0], secs[-1][1] + 1)
            else:
                secs.append((n, 1))
        return secs
    if rng.random() > wild:
        return [(0, size)]
    nums = sorted(set([0] + [u for u in used if u < size]))
    mode = rng.choice(['runs', 'cuts', 'single'])
    if mode == 'single':
        return [(0, size)]
    if mode == 'cuts':
        cuts = sorted(set([0, size] + [rng.randint(1, size - 1) for _ in range(rng.randint(1, 4))])) if size > 1 else [0, size]
        return [(a, b - a) for a, b in zip(cuts, cuts[1:])]
    secs = []
    for n in nums:      # maximal runs of used numbers, sometimes extended over a gap
        if secs and secs[-1][0] + secs[-1][1] == n:
            secs[-1] = (secs[-1][0], secs[-1][1] + 1)
        elif secs and rng.random() < 0.3:
            secs[-1] = (secs[-1][0], n - secs[-1][0] + 1)
        else:
            secs.append((n, 1))
    return secs


def g_xstyle(rng, g, xkind, xid, secs, tstyle, wild, narrow):
    """the style of one cross-reference section; narrow: prefer W [0 n m] / W [0 n 0] (the writer keeps a zero width only where
    every listed entry has the default value)"""
    secs_sx = L(*[L(str(a), str(b)) for a, b in secs])
    if xkind == 'table':
        nent = sum(c for _, c in secs)
        return L('table', secs_sx, L(*[str(rng.randint(0, 2)) for _ in range(rng.choice([0, 1, nent]))]), str(rng.randint(0, 2)),
                 L(*[str(rng.randint(0, 2)) for _ in range(len(secs))]), L(*[str(rng.randint(0, 1)) for _ in range(len(secs))]),
                 g.fill(), tstyle, g.fill())
    w = [rng.choice([0, 1, 1, 2, 3, 4, 5, 8]), rng.choice([0, 1, 2, 3, 4, 4, 5, 8]), rng.choice([0, 0, 1, 2, 3, 8])]
    if narrow:
        w[0] = rng.choice([0, 0, 0, 1, 2])
        w[2] = rng.choice([0, 0, 1, 2])
    return L('stream', str(xid), str(w[0]), str(w[1]), str(w[2]), secs_sx, str(rng.randint(0, 1)), g_sfilter(rng, max(wild, 0.5)),
             str(rng.randint(0, 1)), g.istyle(tstyle))


def g_runs(rng, nums, split=0.2):
    """sub-sections listing exactly the numbers [nums]: maximal runs, sometimes cut"""
    secs = []
    for n in sorted(set(nums)):
        if secs and secs[-1][0] + secs[-1][1] == n and rng.random() >= split:
            secs[-1] = (secs[-1][0], secs[-1][1] + 1)
        else:
            secs.append((n, 1))
    return secs


def g_sxblock(rng, wild):
    return L(str(rng.randint(0, 2)) if wild else '1', str(rng.choice([0, 0, 1, 2]) if wild else 0), str(rng.choice([0, 0, 1]) if wild else 0),
             str(rng.randint(0, 2)) if wild else '1', rng.choice(['none', '0', '1', '2']) if wild else '1')


def gen_parts(rng, profile, g, wild, objs, ostms, comp, cont_ids, members_of, spare, tstyle):
    """a file of 2-3 parts (objects + cross-reference section with Prev), see Spec/RefWriter.v ref_write_multi: every part lists
    the objects it holds; a later part may list an object of an earlier part again (same entry) and, with profile['redef'],
    earlier parts hold superseded definitions of objects that a later part defines.  Returns (parts sx, xids, tags)"""
    tops = [o[0] for o in objs if o[0] not in comp] + list(cont_ids)
    k = min(len(tops), rng.choice([2, 2, 3]))
    rng.shuffle(tops)
    cuts = sorted(rng.sample(range(1, len(tops)), k - 1)) if k > 1 else []
    groups = [tops[a:b] for a, b in zip([0] + cuts, cuts + [len(tops)])]
    defines = [set(gr) | set(m for c in gr if c in members_of for m in members_of[c]) for gr in groups]
    mode = profile['xref']
    parts, xids = [], []
    listed_before = set()       # numbers with an in-use entry in an earlier section
    nredef = nrelist = 0
    for i, gr in enumerate(groups):
        has_cont = any(c in members_of for c in gr)
        xkind = 'stream' if has_cont or mode == 'stream' else 'table' if mode == 'table' else rng.choice(['table', 'stream'])
        xid = None
        if xkind == 'stream':
            xid = spare.pop()
            xids.append(xid)
        later = set().union(*defines[i + 1:]) if i + 1 < len(groups) else set()
        olds = []
        later -= set(members_of)         # a container is not an object of the document: no superseded containers
        if profile.get('redef') and later and rng.random() < 0.8:
            for n in rng.sample(sorted(later), min(len(later), rng.choice([1, 1, 2]))):
                if rng.random() < 0.3:
                    content = rbytes(rng, 20)
                    d, _ = g.dict(1, [(b'Length', I(len(content)), 'def')])
                    o = L('st', d, xb(content))
                else:
                    o, _ = g.obj(2, allow_null=False)
                    if rng.random() < 0.5:
                        o = D([(b'Superseded', o)])
                olds.append((n, o))
        here = set(defines[i]) | set(n for n, _ in olds) | ({xid} if xid else set())
        relist = []
        if i > 0 and listed_before - here and rng.random() < 0.6:
            cand = sorted(listed_before - here)
            relist = rng.sample(cand, min(len(cand), rng.choice([1, 1, 2, 3])))
        nredef += len(olds)
        nrelist += len(relist)
        if i == 0:
            size = max(here) + 1
            narrow = xkind == 'stream' and rng.random() < 0.3
            secs = g_secs(rng, size, sorted(here), max(wild, 0.5), narrow)
        else:
            narrow = True
            lst = set(here) | set(relist)
            if rng.random() < 0.2:
                lst.add(0)
            secs = g_runs(rng, lst)
        xs = g_xstyle(rng, g, xkind, xid, secs, tstyle, wild, narrow and not has_cont)
        order = [n for n in gr] + [n for n, _ in olds]
        rng.shuffle(order)
        parts.append(L('part', L(*[str(n) for n in gr]), L(*[L(str(n), o) for n, o in olds]), L(*[str(n) for n in relist]),
                       L(*[str(n) for n in order]), xs, g_sxblock(rng, wild)))
        listed_before |= here
    return L(*parts), xids, (len(groups), nredef, nrelist)


def gen_write(rng, profile):
    """returns (write line, tags)"""
    wild = {'plain': 0.0, 'mild': 0.4, 'wild': 1.0}[profile['lex']]
    RAWCR[0] = profile.get('rawcr', False)
    AHX[0] = profile.get('ahx', False)
    PNG[0] = png = profile.get('png', False)
    n = rng.choice([1, 2, 3, 5, 8, 12])
    if profile.get('multi'):
        n = rng.choice([3, 5, 8])
    if png:
        n = rng.choice([3, 5, 8, 12])
    nums = rng.sample(range(1, max(3 * n, 20)), n)
    if png and rng.random() < 0.5 and 1 not in nums:
        nums[rng.randrange(n)] = 1
    g = G(rng, wild, nums, deep_parens=profile.get('deep', False), high=png)
    big = None
    objs = []      # (num, gen, objsx, ostyle, is_stream)
    lens = []
    free_nums = [k for k in range(1, max(3 * n, 20) + 8) if k not in nums]
    rng.shuffle(free_nums)
    skip0 = profile.get('skip0', False) or (profile['xref'] == 'stream' and not png and rng.random() < 0.15)
    gen0 = skip0 and rng.random() < 0.6          # every generation 0: the third field of a cross-reference stream may have width 0
    for num in nums:
        gen = 0 if gen0 or rng.random() < 0.8 else rng.choice([1, 2, 65535])
        r = rng.random()
        if png and profile.get('big') and big is None:
            # a file above 32 KiB: the offsets behind this stream have bytes >= 0x80
            content = bytes([rng.getrandbits(8)]) * rng.randint(32500, 34000) if rng.random() < 0.7 else bytes(rng.getrandbits(8) for _ in range(rng.randint(32500, 60000)))
            d, ds = g.dict(1, [(b'Length', I(len(content)), 'def')])
            objs.append((num, gen, L('st', d, xb(content)), ds, True))
            big = num
            continue
        if png and r < 0.3 and rng.random() < 0.6:
            r = 0.3 + rng.random() * 0.7         # fewer streams, more candidates for the object streams
            gen = 0
        if r < 0.3:
            content = rng.choice([b'', b'BT /F1 12 Tf (Hi) Tj ET', rbytes(rng, 60), b'endstream', b'\r', b'\n', b'x\r\n', b'\r\nendstream\nendobj\n',
                                  bytes(rng.getrandbits(8) for _ in range(rng.randint(0, 300)))])
            if rng.random() < 0.5 and free_nums and profile.get('indirect_length', True):
                ln = free_nums.pop()
                lgen = 0 if gen0 or rng.random() < 0.8 else 3
                lens.append((ln, lgen, I(len(content)), 'def', False))
                length = (b'Length', REF(ln, lgen), 'def')
            else:
                length = (b'Length', I(len(content)), 'def')
            extra = [length]
            if rng.random() < 0.3:
                extra.append((b'Type', N(rng.choice([b'XObject', b'Metadata', b'Font'])), 'def'))
            if rng.random() < 0.2:
                extra.append((b'Filter', N(b'FlateDecode'), 'def'))
            d, ds = g.dict(2, extra)
            objs.append((num, gen, L('st', d, xb(content)), ds, True))
        elif r < 0.7:
            extra = [(b'Type', N(rng.choice([b'Catalog', b'Page', b'Pages', b'Font'])), 'def')] if rng.random() < 0.5 else []
            d, ds = g.dict(3, extra)
            objs.append((num, gen, d, ds, False))
        else:
            o, s = g.obj(3, allow_null=True)
            objs.append((num, gen, o, s, False))
    objs += lens
    all_nums = [o[0] for o in objs]
    # trailer
    tr = [(b'Root', REF(nums[0], 0), 'def')]
    if rng.random() < 0.5:
        tr.append((b'Info', REF(rng.choice(all_nums), 0), 'def'))
    if profile['xref'] != 'table':
        RAWCR[0] = False
    if rng.random() < 0.4:
        i1, i2 = rbytes(rng, 16), rbytes(rng, 16)
        tr.append((b'ID', A([H(i1), H(i2)]), L('arr', L(), L(L('str', g_sstyle(rng, i1, wild)), L()), L(L('str', g_sstyle(rng, i2, wild)), L()))))
    tstyle = L('dict', g.fill(), *[L(L(*g_nstyle(rng, k, wild)), g.fill(), s, g.fill()) for k, _, s in tr] + [L(L(), g.fill(), 'def', g.fill())])
    adoc = L('adoc', xb(rng.choice(['1.4', '1.7', '1.5', '2.0', '1.3 ', '1.4%x'])), D([(k, o) for k, o, _ in tr]),
             L('objs', *[L(OID(num, gen), o) for num, gen, o, _, _ in objs]))
    # object streams and cross-reference form
    xkind = profile['xref']
    ostms = []
    extra_ids = []
    spare = [k for k in free_nums]
    if xkind in ('stream', 'mixed') and profile.get('objstm', False):
        cands = [o for o in objs if o[1] == 0 and not o[4]]
        rng.shuffle(cands)
        ngroups = rng.choice([1, 1, 2])
        for gi in range(ngroups):
            if not cands or not spare:
                break
            take = rng.randint(1, len(cands)) if gi == ngroups - 1 else rng.randint(1, max(1, len(cands) // 2))
            members, cands = cands[:take], cands[take:]
            cid = spare.pop()
            extra_ids.append(cid)
            nul_ok = True      # NUL in the index of an object stream: repaired by e4317dc
            items = [L(m[3], g_ws(rng, wild * 0.5, True), g_ws(rng, wild * 0.4, nul_ok), g_ws(rng, wild * 0.4, nul_ok)) for m in members]
            ostms.append(L(str(cid), L(*[str(m[0]) for m in members]), L(*items), g_ws(rng, wild * 0.5, nul_ok), g_sfilter(rng, max(wild, 0.5)),
                           str(rng.randint(0, 1)), g.istyle('def')))
    comp = set()
    for o in ostms:
        comp |= set(int(x) for x in re.match(r'\(\d+ \(([\d ]*)\)', o).group(1).split())
    if profile.get('multi'):
        members_of = {}
        for o in ostms:
            m = re.match(r'\((\d+) \(([\d ]*)\)', o)
            members_of[int(m.group(1))] = [int(x) for x in m.group(2).split()]
        spare = [k for k in spare if k > 0] + [max(all_nums + extra_ids + spare) + 1 + j for j in range(3)]
        parts, xids, (nparts, nredef, nrelist) = gen_parts(rng, profile, g, wild, objs, ostms, comp, list(extra_ids), members_of, spare, tstyle)
        extra_ids += xids
        junk = b''
        if rng.random() < wild * 0.5:
            junk = rng.choice([b'\n', b'\xef\xbb\xbf', b'junk before the header\r\n', b'%!PS-Adobe\n'])
        binary = 'none' if rng.random() < 0.4 else L(xb(rng.choice([b'\xe2\xe3\xcf\xd3', b'\xff\xfe\xfd\xfc'])), str(rng.randint(0, 2)))
        dummy = L('table', L(), L(), '1', L(), L(), L(), 'def', L())
        style = L('style', xb(junk), str(rng.randint(0, 2)) if wild else '1', binary, L(),
                  L(*[L(str(num), g.istyle(s)) for num, gen, o, s, st in objs if num not in comp]),
                  L(*ostms), dummy, '1', '0', '0', '1', '1')
        tags = {'kind': 'load-multi%d-%s-%s%s%s%s' % (nparts, xkind, profile['lex'], '-objstm' if ostms else '', '-redef' if nredef else '',
                                                     '-relist' if nrelist else ''), 'ignore': extra_ids, 'nontrivial': True}
        return L('writem', style, parts, adoc), tags
    used = all_nums + extra_ids
    if xkind == 'stream':
        xid = spare.pop() if spare else max(used) + 1
        used.append(xid)
        extra_ids.append(xid)
    size = max(used) + 1
    secs = g_secs(rng, size, used, max(wild, 0.5), skip0 and xkind == 'stream')
    xs = g_xstyle(rng, g, xkind, xid if xkind == 'stream' else None, secs, tstyle, wild, skip0)
    order = [o[0] for o in objs if o[0] not in comp] + [e for e in extra_ids if xkind != 'stream' or e != xid]
    if rng.random() < 0.7:
        rng.shuffle(order)
    if big is not None and rng.random() < 0.8:
        order.remove(big)
        order.insert(rng.choice([0, 0, 1]) if order else 0, big)
    junk = b''
    if rng.random() < wild * 0.5:
        junk = rng.choice([b'\n', b'\xef\xbb\xbf', b'junk before the header\r\n', b'%!PS-Adobe\n', rbytes(rng, 30).replace(b'%PDF-', b'')])
    binary = 'none' if rng.random() < 0.4 else L(xb(rng.choice([b'\xe2\xe3\xcf\xd3', b'\xff\xfe\xfd\xfc', b'\x80\x81'])), str(rng.randint(0, 2)))
    style = L('style', xb(junk), str(rng.randint(0, 2)) if wild else '1', binary, L(*[str(k) for k in order]),
              L(*[L(str(num), g.istyle(s)) for num, gen, o, s, st in objs if num not in comp]),
              L(*ostms), xs,
              str(rng.randint(0, 2)) if wild else '1', str(rng.choice([0, 0, 1, 2]) if wild else 0), str(rng.choice([0, 0, 1]) if wild else 0),
              str(rng.randint(0, 2)) if wild else '1', rng.choice(['none', '0', '1', '2']) if wild else '1')
    tags = {'kind': 'load-%s-%s%s%s%s' % (xkind, profile['lex'], '-objstm' if ostms else '', ('-png-big' if big is not None else '-png') if png else '',
                                          '-skip0' if skip0 and xkind == 'stream' else ''), 'ignore': extra_ids, 'nontrivial': True}
    return L('write', style, adoc), tags


PROFILES = [
    ({'lex': 'plain', 'xref': 'table'}, 1), ({'lex': 'mild', 'xref': 'table'}, 3), ({'lex': 'wild', 'xref': 'table'}, 4),
    ({'lex': 'plain', 'xref': 'stream'}, 1), ({'lex': 'mild', 'xref': 'stream'}, 2), ({'lex': 'wild', 'xref': 'stream'}, 3),
    ({'lex': 'plain', 'xref': 'stream', 'objstm': True}, 1), ({'lex': 'mild', 'xref': 'stream', 'objstm': True}, 3),
    ({'lex': 'wild', 'xref': 'stream', 'objstm': True}, 4),
    ({'lex': 'wild', 'xref': 'table', 'rawcr': True}, 1), ({'lex': 'wild', 'xref': 'stream', 'objstm': True, 'rawcr': True}, 1),
    ({'lex': 'mild', 'xref': 'table', 'deep': True}, 1), ({'lex': 'mild', 'xref': 'stream', 'objstm': True, 'ahx': True}, 1),
    ({'lex': 'plain', 'xref': 'stream', 'objstm': True, 'png': True}, 1), ({'lex': 'mild', 'xref': 'stream', 'objstm': True, 'png': True}, 2),
    ({'lex': 'mild', 'xref': 'stream', 'png': True, 'big': True}, 1), ({'lex': 'plain', 'xref': 'stream', 'objstm': True, 'png': True, 'big': True}, 1),
    ({'lex': 'mild', 'xref': 'stream', 'skip0': True}, 2), ({'lex': 'plain', 'xref': 'stream', 'skip0': True}, 1),
    # several cross-reference sections linked by Prev: disjoint object sets, objects listed again, superseded definitions
    ({'lex': 'mild', 'xref': 'table', 'multi': True}, 1), ({'lex': 'mild', 'xref': 'table', 'multi': True, 'redef': True}, 2),
    ({'lex': 'plain', 'xref': 'stream', 'multi': True, 'redef': True}, 1), ({'lex': 'mild', 'xref': 'stream', 'multi': True, 'objstm': True}, 1),
    ({'lex': 'mild', 'xref': 'mixed', 'multi': True, 'objstm': True, 'redef': True}, 2), ({'lex': 'wild', 'xref': 'mixed', 'multi': True, 'redef': True}, 1),
]


# ------------------------------------------------------------------------------------------------
# direct cases for the models
# ------------------------------------------------------------------------------------------------
def be(w, v):
    return (v % (256 ** w)).to_bytes(w, 'big') if w else b''


def gen_xrefstream(rng):
    w = [rng.choice([0, 1, 1, 2, 3, 4, 5, 8]), rng.choice([0, 1, 2, 3, 4, 5, 8]), rng.choice([0, 1, 2, 3, 8])]
    nsec = rng.choice([1, 1, 2, 3])
    idx, data = [], b''
    for _ in range(nsec):
        start = rng.choice([0, 1, 5, 100, 2 ** 32 - 2, 2 ** 32, 2 ** 63 - 2, -1, -2 ** 63, rng.randint(0, 50)])
        cnt = rng.choice([0, 1, 2, 3, 6])
        idx += [start, cnt]
        for _ in range(cnt):
            t = rng.choice([0, 1, 1, 2, 2, 3, 255, 256])
            data += be(w[0], t) + be(w[1], rng.choice([0, 1, 17, 2 ** 32 - 1, 2 ** 32 + 5, rng.getrandbits(40)])) + \
                be(w[2], rng.choice([0, 0, 1, 65535, 65536, 70000]))
    size = rng.choice([0, 1, 10, 2 ** 32 + 3, -1, sum(idx[1::2])])
    ents = [(b'Type', N(b'XRef')), (b'Size', I(size)), (b'W', A([I(x) for x in w]))]
    if rng.random() < 0.7:
        ents.append((b'Index', A([I(x) for x in idx])))
    else:
        # default Index [0 Size]
        cnt = max(0, min(size, 8))
        data = b''.join(be(w[0], rng.choice([0, 1, 2])) + be(w[1], rng.getrandbits(16)) + be(w[2], rng.choice([0, 1]))
                        for _ in range(cnt if size < 100 else 3))
    ents.append((b'Length', I(len(data))))
    if rng.random() < 0.5:
        ents.append((b'Root', REF(1, 0)))
    rng.shuffle(ents)
    m = rng.random()
    if m < 0.45:
        dmg = rng.choice(['short', 'long', 'now', 'wshort', 'wneg', 'wtype', 'wreal', 'idxodd', 'idxneg', 'idxhuge', 'idxtype', 'nosize',
                          'sizetype', 'wzero', 'whuge', 'w4'])
        if dmg == 'short' and data:
            data = data[:rng.randrange(len(data))]
        elif dmg == 'long':
            data += rbytes(rng, 9)
        elif dmg == 'now':
            ents = [e for e in ents if e[0] != b'W']
        elif dmg == 'wshort':
            ents = [(k, A([I(1), I(2)]) if k == b'W' else v) for k, v in ents]
        elif dmg == 'wneg':
            ww = list(w)
            ww[rng.randrange(3)] = -1
            ents = [(k, A([I(x) for x in ww]) if k == b'W' else v) for k, v in ents]
        elif dmg == 'wtype':
            ents = [(k, rng.choice([I(3), N(b'x'), A([I(1), N(b'a'), I(1)])]) if k == b'W' else v) for k, v in ents]
        elif dmg == 'wreal':
            ents = [(k, A([I(1), R('2'), I(1)]) if k == b'W' else v) for k, v in ents]
        elif dmg == 'idxodd':
            ents = [(k, A([I(x) for x in idx + [7]]) if k == b'Index' else v) for k, v in ents]
        elif dmg == 'idxneg':
            ents = [(k, A([I(3), I(-4)] + [I(x) for x in idx]) if k == b'Index' else v) for k, v in ents]
        elif dmg == 'idxhuge':
            ents = [(k, A([I(0), I(rng.choice([10 ** 6, 2 ** 62, 2 ** 63 - 1]))]) if k == b'Index' else v) for k, v in ents]
        elif dmg == 'idxtype':
            ents = [(k, rng.choice([I(3), A([I(0), N(b'a')]), A([R('0'), I(1)])]) if k == b'Index' else v) for k, v in ents]
        elif dmg == 'nosize':
            ents = [e for e in ents if e[0] != b'Size']
        elif dmg == 'sizetype':
            ents = [(k, rng.choice([R('3'), N(b'x'), REF(1, 0)]) if k == b'Size' else v) for k, v in ents]
        elif dmg == 'wzero':
            ents = [(k, A([I(0), I(0), I(0)]) if k == b'W' else v) for k, v in ents]
        elif dmg == 'whuge':
            ents = [(k, A([I(1), I(rng.choice([9, 17, 1000, 2 ** 40])), I(1)]) if k == b'W' else v) for k, v in ents]
        elif dmg == 'w4':
            ents = [(k, A([I(x) for x in w] + [I(9)]) if k == b'W' else v) for k, v in ents]
    return L('xrefstream', D(ents), xb(data)), {'kind': 'xrefstream', 'nontrivial': True}


def gen_xreftable(rng):
    eol = lambda: rng.choice([b'\n', b'\r\n', b'\r'])
    e2 = lambda: rng.choice([b' \n', b' \r', b'\r\n'])
    out = b'xref' + eol()
    nsec = rng.choice([1, 1, 2, 3])
    total = 0
    for _ in range(nsec):
        start = rng.choice([0, 1, 3, 10, 2 ** 32 - 1, 2 ** 32, 2 ** 64 - 1, rng.randint(0, 40)])
        cnt = rng.choice([0, 1, 2, 4])
        total = max(total, (start + cnt) % 2 ** 32)
        out += b'%d %d' % (start, cnt if rng.random() < 0.9 else cnt + 1) + rng.choice([b'', b'', b' ']) + eol()
        for _ in range(cnt):
            off = rng.choice([0, 9, 17, 2 ** 32 - 1, rng.randint(0, 99999)])
            gen = rng.choice([0, 0, 1, 65535, 65535])
            out += b'%010d %05d %s' % (off, gen, rng.choice([b'n', b'n', b'f'])) + e2()
    size = rng.choice([total, total, 0, 5])
    tr = rng.choice([b'trailer\n<< /Size %d >>', b'trailer<</Size %d/Root 1 0 R>>', b'trailer %% c\n<< /Root 1 0 R /Size %d >>',
                     b'trailer\r\n<</Size %d/Info 2 0 R/ID[<00><ff>]>>'])
    out += tr % size
    m = rng.random()
    if m < 0.5:
        dmg = rng.choice(['e21', 'e19', 'kind', 'gen6', 'off11', 'offbig', 'genbig', 'nosp', 'kw', 'kwsp', 'notrailer', 'nosize', 'sizetype',
                          'comment', 'neg', 'countbig', 'emptysec', 'junk', 'flip', 'startbig', 'nosec'])
        if dmg == 'e21':
            out = out.replace(b' n \n', b' n \r\n', 1).replace(b' n\r\n', b' n \r\n', 1)
        elif dmg == 'e19':
            out = out.replace(b' n \n', b' n\n', 1).replace(b' f \r', b' f\r', 1)
        elif dmg == 'kind':
            out = out.replace(b' n', rng.choice([b' x', b' N', b' F']), 1)
        elif dmg == 'gen6':
            out = re.sub(rb' (\d{5}) n', rb' 0\1 n', out, 1)
        elif dmg == 'off11':
            out = re.sub(rb'(\d{10}) (\d{5})', rb'0\1 \2', out, 1)
        elif dmg == 'offbig':
            out = re.sub(rb'(\d{10}) (\d{5})', rb'4294967296 \2', out, 1)
        elif dmg == 'genbig':
            out = re.sub(rb'(\d{10}) (\d{5}) n', rng.choice([rb'\1 65536 n', rb'\1 99999 n', rb'\1 4294967295 n', rb'\1 4294967296 n']), out, 1)
        elif dmg == 'nosp':
            out = re.sub(rb'(\d{10}) (\d{5})', rb'\1\2', out, 1)
        elif dmg == 'kw':
            out = rng.choice([b'Xref', b'xre', b' xref', b'xrefs']) + out[4:]
        elif dmg == 'kwsp':
            out = b'xref ' + out[4:]
        elif dmg == 'notrailer':
            out = out[:out.index(b'trailer')] + rng.choice([b'', b'trailor<<>>', b'<< /Size 3 >>'])
        elif dmg == 'nosize':
            out = re.sub(rb'/Size \d+', b'', out)
        elif dmg == 'sizetype':
            out = re.sub(rb'/Size \d+', rng.choice([b'/Size 3.0', b'/Size (3)', b'/Size 4 0 R', b'/Size -2']), out)
        elif dmg == 'comment':
            out = out.replace(b'trailer', b'% a comment\ntrailer', 1)
        elif dmg == 'neg':
            out = re.sub(rb'\n(\d+) (\d+)', rb'\n-\1 \2', out, 1)
        elif dmg == 'countbig':
            out = re.sub(rb'(\n|\r)(\d+) (\d+)', rb'\g<1>\2 4294967296', out, 1)
        elif dmg == 'emptysec':
            out = out.replace(b'trailer', b'7 0\ntrailer', 1)
        elif dmg == 'junk':
            out = out.replace(b'trailer', rng.choice([b'garbage\ntrailer', b'0000000009 00000 n\ntrailer', b'\x00\x0c\ttrailer']), 1)
        elif dmg == 'flip' and len(out) > 8:
            b = bytearray(out)
            i = rng.randrange(4, len(b))
            b[i] = rng.choice([0x20, 0x0a, 0x0d, 0x30, 0x6e, 0x66, 0x2b, 0x2d, 0x00])
            out = bytes(b)
        elif dmg == 'startbig':
            out = re.sub(rb'(\n|\r)(\d+) (\d+)', rb'\g<1>18446744073709551616 \3', out, 1)
        elif dmg == 'nosec':
            out = b'xref\ntrailer\n<< /Size 1 >>'
    for bad in (b'startxref', b'%%EOF', b'/Prev', b'/XRefStm', b'/Encrypt'):
        out = out.replace(bad, b'x')
    return L('xreftable', xb(out)), {'kind': 'xreftable', 'nontrivial': True}


OS_OBJS = [b'5', b'-3', b'3.5', b'/Name', b'(str)', b'<48>', b'[1 2 3]', b'<</K 1>>', b'<< /A [ 1 0 R ] /B (x) >>', b'null', b'true',
           b'1 0 R', b'[', b'<<', b')', b'', b'<</K 1>>stream', b'%c\n7']


def gen_objstm(rng):
    n = rng.choice([0, 1, 2, 3, 5])
    nums = [rng.choice([1, 2, 3, 9, 4294967295, 4294967296, rng.randint(1, 60)]) for _ in range(n)]
    bodies = [rng.choice(OS_OBJS) for _ in range(n)]
    seps = [rng.choice([b' ', b'\n', b'\r\n', b'', b'\x00']) for _ in range(n)]
    offs, pos = [], 0
    for b, s in zip(bodies, seps):
        offs.append(pos)
        pos += len(b) + len(s)
    hsep = lambda: rng.choice([b' ', b' ', b'\n', b'\r\n', b'\t', b'\x0c', b'  ', b'\x0b'])
    hdr = b''.join(b'%d' % a + hsep() + b'%d' % o + hsep() for a, o in zip(nums, offs))
    first = len(hdr)
    payload = hdr + b''.join(b + s for b, s in zip(bodies, seps))
    ents = [(b'Type', N(b'ObjStm')), (b'N', I(n)), (b'First', I(first))]
    m = rng.random()
    if m < 0.55:
        dmg = rng.choice(['nofirst', 'firsttype', 'firstneg', 'firstbig', 'firstsmall', 'non', 'ntype', 'nwrong', 'utf8', 'nbsp', 'nul', 'plus', 'minus',
                          'odd', 'offbig', 'empty', 'dup', 'u2028', 'alpha', 'lenmatch', 'bigoff'])
        if dmg == 'nofirst':
            ents = [e for e in ents if e[0] != b'First']
        elif dmg == 'firsttype':
            ents = [(k, rng.choice([R('3'), N(b'x'), REF(1, 0)]) if k == b'First' else v) for k, v in ents]
        elif dmg == 'firstneg':
            ents = [(k, I(-1) if k == b'First' else v) for k, v in ents]
        elif dmg == 'firstbig':
            ents = [(k, I(rng.choice([len(payload) + 1, len(payload), 2 ** 40, 2 ** 63 - 1])) if k == b'First' else v) for k, v in ents]
        elif dmg == 'firstsmall':
            ents = [(k, I(max(0, first - rng.randint(1, 3))) if k == b'First' else v) for k, v in ents]
        elif dmg == 'non':
            ents = [e for e in ents if e[0] != b'N']
        elif dmg == 'ntype':
            ents = [(k, rng.choice([R('3'), N(b'x')]) if k == b'N' else v) for k, v in ents]
        elif dmg == 'nwrong':
            ents = [(k, I(n + rng.choice([-1, 1, 2 ** 62])) if k == b'N' else v) for k, v in ents]
        elif dmg in ('utf8', 'nbsp', 'nul', 'plus', 'minus', 'u2028', 'alpha') and hdr:
            rep = {'utf8': rng.choice([b'\xff', b'\xc0\x80', b'\xed\xa0\x80', b'\xe2\x82']), 'nbsp': b'\xc2\xa0', 'nul': b'\x00', 'plus': b' +',
                   'minus': b' -', 'u2028': rng.choice([b'\xe2\x80\xa8', b'\xe3\x80\x80', b'\xc2\x85', b'\xe1\x9a\x80', b'\xe2\x80\x8b']),
                   'alpha': rng.choice([b'a', b'\xc3\xa9', b'1e2 '])}[dmg]
            i = rng.randrange(len(hdr))
            # keep First pointing at the first object: replace one separator / insert
            if dmg in ('plus', 'minus'):
                hdr2 = hdr[:i] + hdr[i:].replace(b' ', rep, 1)
            else:
                hdr2 = hdr[:i] + rep + hdr[i + 1:]
            payload = hdr2 + payload[first:]
            ents = [(k, I(len(hdr2)) if k == b'First' else v) for k, v in ents]
        elif dmg == 'odd':
            payload = b'7 ' + payload
            ents = [(k, I(first + 2) if k == b'First' else v) for k, v in ents]
        elif dmg == 'offbig' and n:
            payload = payload.replace(b'%d' % offs[-1] + b' ', b'%d ' % (len(payload) - first + rng.choice([0, 1, 100])), 1)
        elif dmg == 'empty':
            payload = b''
        elif dmg == 'dup' and n >= 2:
            pass
        elif dmg == 'bigoff' and n:
            payload = payload.replace(b' %d' % offs[-1], b' 4294967295', 1)
    if rng.random() < 0.3:
        ents.append((b'Length', I(len(payload))))
    rng.shuffle(ents)
    return L('objstm', D(ents), xb(payload)), {'kind': 'objstm', 'nontrivial': True}


def gen_objstm_overlap(rng):
    """members that share bytes (the overlap limit of ObjectStream::new, /repo fix of C04-objstm-shared-offsets): k pairs whose
    offsets lie inside one long object or where no object starts; k and the lengths are drawn around the limit
    MAX_MEMBER_OVERLAP * |content| so that both answers (the members / InvalidObjectStream) occur"""
    k = rng.randint(1, 12)
    m = rng.choice([5, 20, 60, 90, 150, 400])
    shape = rng.choice(['string', 'array', 'fail', 'stairs', 'mixed'])
    if shape == 'string':
        body = b'(' + b'a' * m + b')' + rng.choice([b'', b' ', b'\n%c\n'])
        offs = [0] * k
    elif shape == 'array':
        body = b'[' + b'0 ' * (m // 2) + b']'
        offs = [rng.choice([0, 0, 0, 1, 3]) for _ in range(k)]
    elif shape == 'fail':
        body = rng.choice([b'[' + b'0 ' * (m // 2), b'(' + b'a' * m, b'<<' + b'/K 1' * (m // 4)])
        offs = [rng.choice([0, 0, 1]) for _ in range(k)]
    elif shape == 'stairs':
        d = rng.randint(2, 10)
        body = b'[' * d + b'0 ' * (m // 2) + b']' * d
        offs = [i % d for i in range(k)]
    else:
        body = b'(' + b'a' * m + b') [' + b'1 ' * (m // 3) + b'] /N'
        offs = [rng.choice([0, 0, m + 3, m + 3, len(body) - 2, 1]) for _ in range(k)]
    hsep = lambda: rng.choice([b' ', b' ', b'\n', b'\x00'])
    hdr = b''.join(b'%d' % rng.randint(1, 40) + hsep() + b'%d' % o + hsep() for o in offs)
    payload = hdr + body
    ents = [(b'Type', N(b'ObjStm')), (b'N', I(k)), (b'First', I(len(hdr)))]
    rng.shuffle(ents)
    return L('objstm', D(ents), xb(payload)), {'kind': 'objstm', 'nontrivial': True}


def gen_ahx(rng):
    """ASCIIHexDecode: legal encodings (either case, white-space anywhere, odd final digit, EOD, anything after EOD) with the
    plain text for the direct verdict; and damaged ones (illegal characters, no EOD) for the correspondence"""
    data = bytes(rng.getrandbits(8) for _ in range(rng.choice([0, 1, 2, 3, 8, 40])))
    ws = [b' ', b'\n', b'\r', b'\t', b'\x0c', b'\x00', b'\r\n']
    out = b''
    for i, b in enumerate(data):
        h = ('%02X' if rng.random() < 0.5 else '%02x') % b
        if rng.random() < 0.3:
            h = h[0].swapcase() + h[1]
        if rng.random() < 0.2:
            out += rng.choice(ws)
        if i == len(data) - 1 and b % 16 == 0 and rng.random() < 0.5:
            out += h[:1].encode()
            break
        out += h[:1].encode() + (rng.choice(ws) if rng.random() < 0.15 else b'') + h[1:].encode()
    if rng.random() < 0.3:
        out += rng.choice(ws)
    m = rng.random()
    if m < 0.55:
        out += b'>' + rng.choice([b'', b'', b'\n', b'zz not hex', b'>', b'41'])
        return L('ahx', xb(out), xb(data)), {'kind': 'ahx', 'nontrivial': True}
    if m < 0.7:
        return L('ahx', xb(out), 'none'), {'kind': 'ahx-noeod', 'nontrivial': True}
    bad = rng.choice([b'g', b'G', b'/', b':', b'@', b'`', b'<', b'~', b'\x0b', b'\x80', b'\xff', b'x'])
    i = rng.randint(0, len(out))
    out = out[:i] + bad + out[i:] + rng.choice([b'>', b''])
    return L('ahx', xb(out), 'none'), {'kind': 'ahx-bad', 'nontrivial': True}


# ------------------------------------------------------------------------------------------------
# files as present-day producers write them: REAL deflate (seeded C02/p1).  The reference writer's Flate encoder writes
# stored blocks (its output is never shorter than its input); here the structural streams -- object streams of 3..200
# near-identical objects (annotations, font descriptors, pages, structure elements, widths arrays, strings, numbers) and the
# cross-reference stream, with and without the PNG Up predictor every producer applies to it -- are compressed by zlib at level
# 1 / 6 / 9 with fixed or dynamic Huffman codes, one or several deflate blocks: 5:1 .. 65:1.  The expected content is computed
# here from the same values; the model side reads the file with LoaderExt.load_ext on the Gallina inflate (Spec/Inflate.v).
# ------------------------------------------------------------------------------------------------
import zlib


def XB(b):
    """a long bytes argument as a list of atoms of at most 256 bytes (Base/Sx.v reads one atom in quadratic time)"""
    b = bytes(b)
    if len(b) <= 256:
        return xb(b)
    return L(*[xb(b[i:i + 256]) for i in range(0, len(b), 256)])


REGULAR = set(range(33, 127)) - set(b'()<>[]{}/%')


def v_tokens(v):
    t = v[0]
    if t == 'i':
        return [b'%d' % v[1]]
    if t == 'r':
        return [v[1].encode()]
    if t == 'n':
        return [b'/' + v[1]]
    if t == 's':
        return [b'(' + v[1].replace(b'\\', b'\\\\').replace(b'(', b'\\(').replace(b')', b'\\)').replace(b'\r', b'\\r') + b')']
    if t == 'h':
        return [b'<' + v[1].hex().encode() + b'>']
    if t == 'ref':
        return [b'%d' % v[1], b'%d' % v[2], b'R']
    if t == 'b':
        return [b'true' if v[1] else b'false']
    if t == 'null':
        return [b'null']
    if t == 'a':
        return [b'['] + [tok for x in v[1] for tok in v_tokens(x)] + [b']']
    if t == 'd':
        return [b'<<'] + [tok for k, x in v[1] for tok in [b'/' + k] + v_tokens(x)] + [b'>>']
    raise ValueError(t)


def v_pdf(v, sep=b' ', tight=True):
    """tight: a separator only where two regular characters would meet"""
    out = b''
    for tok in v_tokens(v):
        if out and ((out[-1] in REGULAR and tok[0] in REGULAR) or not tight):
            out += sep
        out += tok
    return out


def v_sx(v):
    t = v[0]
    if t == 'i':
        return I(v[1])
    if t == 'r':
        return R(v[1])
    if t == 'n':
        return N(v[1])
    if t in ('s', 'h'):
        return S(v[1])
    if t == 'ref':
        return REF(v[1], v[2])
    if t == 'b':
        return B(v[1])
    if t == 'null':
        return NULL
    if t == 'a':
        return A([v_sx(x) for x in v[1]])
    if t == 'd':
        return D([(k, v_sx(x)) for k, x in v[1]])
    raise ValueError(t)


def vi(n): return ('i', n)
def vn(n): return ('n', n)
def vref(n, g=0): return ('ref', n, g)
def va(*xs): return ('a', list(xs))
def vd(*kv): return ('d', list(kv))


def z_templates(rng):
    """a family of near-identical objects: returns f(i) -> value"""
    k = rng.choice(['annot', 'fontdesc', 'page', 'struct', 'widths', 'zeros', 'string', 'hexstring', 'number', 'dest', 'outline', 'mixed'])
    a, b = rng.randint(1, 400), rng.randint(1, 400)
    uri = rng.choice([b'http://example.org/', b'https://www.example.com/a/rather/long/path/to/a/document.html#section-', b'mailto:someone@example.org?subject='])
    if k == 'annot':
        return k, lambda i: vd((b'Type', vn(b'Annot')), (b'Subtype', vn(b'Link')), (b'Border', va(vi(0), vi(0), vi(0))),
                               (b'Rect', va(vi(a), vi(b + 14 * (i % 50)), vi(a + 120), vi(b + 14 * (i % 50) + 12))),
                               (b'A', vd((b'S', vn(b'URI')), (b'URI', ('s', uri + b'%d' % i)))), (b'P', vref(2)))
    if k == 'fontdesc':
        return k, lambda i: vd((b'Type', vn(b'FontDescriptor')), (b'FontName', vn(b'ABCDEF+Font%d' % i)), (b'Flags', vi(32)),
                               (b'FontBBox', va(vi(-100), vi(-200), vi(1000), vi(900))), (b'ItalicAngle', vi(0)), (b'Ascent', vi(900)),
                               (b'Descent', vi(-200)), (b'CapHeight', vi(700)), (b'StemV', vi(80)), (b'MissingWidth', ('r', '500.5')))
    if k == 'page':
        return k, lambda i: vd((b'Type', vn(b'Page')), (b'Parent', vref(2)), (b'MediaBox', va(vi(0), vi(0), vi(612), vi(792))),
                               (b'Resources', vd((b'Font', vd((b'F1', vref(a + 500)))), (b'ProcSet', va(vn(b'PDF'), vn(b'Text'))))),
                               (b'Contents', vref(1000 + i)), (b'Rotate', vi(0)), (b'Tabs', vn(b'S')))
    if k == 'struct':
        return k, lambda i: vd((b'Type', vn(b'StructElem')), (b'S', vn(rng.choice([b'P', b'P', b'P', b'Span']))), (b'P', vref(a + 600)),
                               (b'Pg', vref(b + 700)), (b'K', vi(i)))
    if k == 'widths':
        cnt = rng.choice([40, 40, 150])
        return k, lambda i: va(*([vi(500)] * cnt + [vi(i)]))
    if k == 'zeros':
        cnt = rng.choice([60, 250])
        return k, lambda i: vd((b'Id', vi(i)), (b'Data', va(*([vi(0)] * cnt))))
    if k == 'string':
        return k, lambda i: ('s', b'Lorem ipsum dolor sit amet, consectetur adipiscing elit %d (sed do) eiusmod \\ tempor' % i)
    if k == 'hexstring':
        return k, lambda i: ('h', b'\xfe\xff' + ''.join('Title %d' % i).encode('utf-16-be'))
    if k == 'number':
        return k, lambda i: vi(100000 + i)
    if k == 'dest':
        return k, lambda i: va(vref(a + i), vn(b'XYZ'), vi(72), vi(720), ('null',))
    if k == 'outline':
        return k, lambda i: vd((b'Title', ('s', b'Chapter %d' % i)), (b'Parent', vref(a + 800)), (b'Prev', vref(a + 801 + i)),
                               (b'Next', vref(a + 803 + i)), (b'Dest', va(vref(b + 900), vn(b'Fit'))), (b'C', va(('r', '0.5'), vi(0), vi(0))),
                               (b'F', vi(0)), (b'Open', ('b', False)))
    f1, f2 = z_templates(rng)[1], z_templates(rng)[1]
    return k, lambda i: (f1 if i % 2 else f2)(i)


def z_deflate(rng, data):
    """a zlib stream for [data] from a real encoder: level 1 / 6 / 9 (dynamic Huffman codes), Z_FIXED (fixed codes), Z_RLE,
    Z_HUFFMAN_ONLY, small windows, several blocks (Z_FULL_FLUSH / Z_SYNC_FLUSH in the middle: an empty stored block)"""
    m = rng.random()
    if m < 0.45:
        return zlib.compress(data, rng.choice([1, 6, 6, 9, 9]))
    level = rng.choice([1, 6, 9])
    wbits = rng.choice([15, 15, 12, 9])
    strategy = rng.choice([zlib.Z_DEFAULT_STRATEGY] * 5 + [zlib.Z_FIXED, zlib.Z_FIXED, zlib.Z_RLE, zlib.Z_FILTERED, zlib.Z_HUFFMAN_ONLY])
    c = zlib.compressobj(level, zlib.DEFLATED, wbits, rng.choice([9, 8, 1]), strategy)
    out = b''
    cuts = sorted(rng.sample(range(len(data) + 1), min(len(data), rng.choice([0, 0, 1, 3]))))
    pos = 0
    for cut in cuts:
        out += c.compress(data[pos:cut]) + c.flush(rng.choice([zlib.Z_FULL_FLUSH, zlib.Z_SYNC_FLUSH]))
        pos = cut
    return out + c.compress(data[pos:]) + c.flush()


def z_filter_entries(rng, parms=None):
    ents = [(b'Filter', vn(b'FlateDecode') if rng.random() < 0.7 else va(vn(b'FlateDecode')))]
    if parms:
        ents.append((b'DecodeParms', parms))
    return ents


def z_objstm(rng, members, spell):
    """members: (num, value).  Returns (container dictionary entries, compressed data, plain length)"""
    isep = rng.choice([b' ', b' ', b'\n'])
    msep = rng.choice([b'\n', b' ', b'\r\n', b'\r'])
    idx, body = b'', b''
    for num, v in members:
        idx += b'%d%s%d%s' % (num, isep, len(body), isep)
        body += spell(v) + msep
    if rng.random() < 0.3:
        idx = idx[:-1] + rng.choice([b'\n', b'\r\n', b'  '])
    plain = idx + body
    data = z_deflate(rng, plain)
    ents = [(b'Type', vn(b'ObjStm')), (b'N', vi(len(members))), (b'First', vi(len(idx)))] + z_filter_entries(rng) + [(b'Length', vi(len(data)))]
    return ents, data, len(plain)


def z_members(rng, n, first_num):
    _, f = z_templates(rng)
    stride = rng.choice([1, 1, 1, 2])
    return [(first_num + stride * i, f(i)) for i in range(n)]


def gen_objstmz(rng):
    n = rng.choice([3, 20, 40, 60, 60, 90, 120, 200])
    members = z_members(rng, n, rng.randint(1, 50))
    sep = rng.choice([b' ', b' ', b'\n'])
    tight = rng.random() < 0.7
    ents, data, plain_len = z_objstm(rng, members, lambda v: v_pdf(v, sep, tight))
    if rng.random() < 0.5:
        ents = [e for e in ents if e[0] != b'Length']
    ratio = plain_len / len(data)
    tags = {'kind': 'objstmz-r%s' % ('lt4' if ratio < 4 else '4to8' if ratio < 8 else '8to20' if ratio < 20 else 'gt20'), 'nontrivial': True}
    return L('objstmz', D([(k, v_sx(v)) for k, v in ents]), XB(data), str(len(dict(members)))), tags


def gen_zfile(rng):
    """a whole file: catalog, pages and a few streams as plain objects, 0..3 Flate-compressed object streams of near-identical
    members, a Flate-compressed cross-reference stream (W [1 n m], with or without Predictor 12, Index written or not)"""
    sep = rng.choice([b' ', b' ', b'\n'])
    tight = rng.random() < 0.7
    spell = lambda v: v_pdf(v, sep, tight)
    eol = rng.choice([b'\n', b'\n', b'\r\n', b'\r'])
    shape = rng.choice(['objstm', 'objstm', 'objstm', 'toponly', 'small'])
    tops = {1: vd((b'Type', vn(b'Catalog')), (b'Pages', vref(2))), 2: vd((b'Type', vn(b'Pages')), (b'Kids', va()), (b'Count', vi(0)))}
    nxt = 3
    ostms = []     # (container number, members)
    ratios = []
    if shape == 'toponly':
        for num, v in z_members(rng, rng.choice([40, 80, 150]), nxt):
            tops[num] = v
        nxt = max(tops) + 1
    else:
        for _ in range(rng.choice([1, 1, 2, 3])):
            n = rng.choice([3, 3]) if shape == 'small' else rng.choice([20, 40, 60, 60, 90, 120, 200])
            ms = z_members(rng, n, nxt)
            nxt = max(m[0] for m in ms) + 1
            ostms.append((nxt, ms))
            nxt += 1
    streams = {}
    for _ in range(rng.choice([0, 1, 2])):
        content = rng.choice([b'BT /F1 12 Tf 72 720 Td (Hello) Tj ET\n' * rng.choice([1, 30]), b'q 1 0 0 1 0 0 cm Q\n' * 50, b''])
        ents = []
        if rng.random() < 0.6 and content:
            content = zlib.compress(content, 9)
            ents.append((b'Filter', vn(b'FlateDecode')))
        num, nxt = nxt, nxt + 1
        # Length direct, or a reference to an integer object: a plain one (found while the stream is parsed) or a member of a
        # compressed object stream (7.5.7 allows it for every stream but an object stream; found after the object streams are expanded)
        m = rng.random()
        if m < 0.5:
            streams[num] = (ents + [(b'Length', vi(len(content)))], content, None)
        else:
            ln, nxt = nxt, nxt + 1
            if m < 0.75 or not ostms:
                tops[ln] = vi(len(content))
            else:
                rng.choice(ostms)[1].append((ln, vi(len(content))))
            streams[num] = (ents + [(b'Length', vi(len(content)))], content, ln)
    used = set(tops) | set(streams) | set(c for c, _ in ostms) | set(m[0] for _, ms in ostms for m in ms)
    xid = max(used) + 1 + rng.choice([0, 0, 3])
    out = bytearray(b'%PDF-' + rng.choice([b'1.5', b'1.6', b'1.7', b'2.0']) + eol)
    version = bytes(out[5:8])
    if rng.random() < 0.7:
        out += b'%\xe2\xe3\xcf\xd3' + eol
    offs, comp = {}, {}
    order = sorted(tops) + sorted(streams)
    body_objs = [(n, 'top') for n in sorted(tops)] + [(n, 'stream') for n in sorted(streams)] + [(c, 'ostm') for c, _ in ostms]
    if rng.random() < 0.4:
        rng.shuffle(body_objs)
    for num, what in body_objs:
        offs[num] = len(out)
        out += b'%d 0 obj' % num + eol
        if what == 'top':
            out += spell(tops[num]) + eol
        else:
            if what == 'stream':
                ents, data, ln = streams[num]
                if ln is not None:
                    ents = [(k, vref(ln) if k == b'Length' else v) for k, v in ents]
            else:
                ms = dict(ostms)[num]
                ents, data, plain_len = z_objstm(rng, ms, spell)
                ratios.append(plain_len / len(data))
                for i, (m, _) in enumerate(ms):
                    comp[m] = (num, i)
            out += spell(('d', ents)) + eol + b'stream' + rng.choice([b'\n', b'\r\n']) + data + rng.choice([b'', eol]) + b'endstream' + eol
        out += b'endobj' + eol
    # the cross-reference stream
    offs[xid] = len(out)
    size = xid + 1
    w1 = max(rng.choice([2, 3, 4, 4]), (max(len(out), xid).bit_length() + 7) // 8)
    w2 = rng.choice([1, 2, 2])
    rows, idx = [], []
    listed = sorted(set(offs) | set(comp) | {0})
    full = rng.random() < 0.6
    nums = list(range(size)) if full else listed
    for n in nums:
        if n in offs:
            rows.append(b'\x01' + offs[n].to_bytes(w1, 'big') + bytes(w2))
        elif n in comp:
            rows.append(b'\x02' + comp[n][0].to_bytes(w1, 'big') + comp[n][1].to_bytes(w2, 'big'))
        else:
            rows.append(b'\x00' + bytes(w1) + (b'\xff' * w2 if n == 0 else bytes(w2)))
        if idx and idx[-1][0] + idx[-1][1] == n:
            idx[-1][1] += 1
        else:
            idx.append([n, 1])
    width = 1 + w1 + w2
    raw = b''.join(rows)
    parms = None
    if rng.random() < 0.6:
        prev = bytes(width)
        pr = b''
        for r in rows:
            pr += b'\x02' + bytes((x - y) % 256 for x, y in zip(r, prev))
            prev = r
        raw = pr
        parms = vd((b'Columns', vi(width)), (b'Predictor', vi(12)))
    xdata = z_deflate(rng, raw)
    trailer = [(b'Root', vref(1))]
    if rng.random() < 0.5:
        trailer.append((b'Info', vref(rng.choice(sorted(tops)))))
    if rng.random() < 0.5:
        i1, i2 = bytes(rng.getrandbits(8) for _ in range(16)), bytes(rng.getrandbits(8) for _ in range(16))
        trailer.append((b'ID', va(('h', i1), ('h', i2))))
    xents = [(b'Type', vn(b'XRef')), (b'Size', vi(size)), (b'W', va(vi(1), vi(w1), vi(w2)))]
    if not (full and rng.random() < 0.7):
        xents.append((b'Index', va(*[vi(x) for p in idx for x in p])))
    xents += trailer + z_filter_entries(rng, parms) + [(b'Length', vi(len(xdata)))]
    out += b'%d 0 obj' % xid + eol + spell(('d', xents)) + eol + b'stream' + rng.choice([b'\n', b'\r\n']) + xdata + eol + b'endstream' + eol + b'endobj' + eol
    out += b'startxref' + eol + b'%d' % offs[xid] + eol + b'%%EOF' + rng.choice([b'', eol])
    # what the file defines
    objs = dict((n, v_sx(v)) for n, v in tops.items())
    for n, (ents, data, _) in streams.items():
        objs[n] = L('st', D([(k, v_sx(v)) for k, v in ents]), xb(data))
    for _, ms in ostms:
        for n, v in ms:
            objs[n] = v_sx(v)
    tr = sorted(trailer + [(b'Size', vi(size))])
    expected = L('loaded', xb(version), D([(k, v_sx(v)) for k, v in tr]), L('objs', *[L(OID(n, 0), objs[n]) for n in sorted(objs)]))
    ignore = [c for c, _ in ostms] + [xid]
    r = min(ratios) if ratios else 0
    kind = 'loadz-%s%s%s' % (shape, '-pred' if parms else '', ('-r%s' % ('lt4' if r < 4 else '4to8' if r < 8 else '8to20' if r < 20 else 'gt20')) if ratios else '')
    return L('loadz', XB(bytes(out)), L(*[str(i) for i in ignore]), expected), {'kind': kind, 'ignore': ignore, 'nontrivial': True}


# ------------------------------------------------------------------------------------------------
def stage1(write_cases):
    """run the extracted reference writer; returns load cases"""
    runner, log = vlib.build_runner('c02')
    if runner is None:
        raise RuntimeError('runner build failed: ' + log[-500:])
    outs = vlib.run_lines(runner, [c for c, _ in write_cases], timeout=900, shards=16)
    res = []
    for (c, tags), o in zip(write_cases, outs):
        if not o.startswith('(file '):
            tags = dict(tags, kind='write-' + o.strip('()')[:12], nontrivial=False, write=c)
            res.append((L('skipped'), tags))      # keeps the count honest; both sides answer badcase
            continue
        sp = o.index(' ', 6)
        k = o[o.rindex(' (known') + 8:-2].split()
        o = o[:o.rindex(' (known')] + ')'
        hexbytes, expected = o[6:sp], o[sp + 1:-1]
        tags = dict(tags, write=c, known_raw_eol=(k[0] == '1'), known_deep=(k[1] == '1'), known_ahx=(k[2] == '1'))
        if k[2] == '1':
            tags['kind'] += '-ahx'
        if k[0] == '1':
            tags['kind'] += '-rawcr'
        if k[1] == '1':
            tags['kind'] += '-deep' 
        res.append((L('load', hexbytes, L(*[str(i) for i in tags['ignore']]), expected), tags))
    return res


def gen_cases(rng, tier):
    n = 260 if tier == 'quick' else 8000
    m = 120 if tier == 'quick' else 4000
    writes = []
    profs = [p for p, w in PROFILES for _ in range(w)]
    for _ in range(n):
        writes.append(gen_write(rng, rng.choice(profs)))
    cases = stage1(writes)
    for name in ('example.pdf', 'Incremental.pdf', 'unicode.pdf'):     # AnnotationDemo.pdf is an empty file in the pinned tree
        cases.append((L('asset', name), {'kind': 'asset', 'nontrivial': True}))
    for _ in range(m):
        cases.append(gen_xrefstream(rng))
        cases.append(gen_xreftable(rng))
        cases.append(gen_objstm(rng))
    for _ in range(m // 2):
        cases.append(gen_objstm_overlap(rng))
    for _ in range(m // 2):
        cases.append(gen_ahx(rng))
    for _ in range(40 if tier == 'quick' else 1200):
        cases.append(gen_zfile(rng))
    for _ in range(30 if tier == 'quick' else 900):
        cases.append(gen_objstmz(rng))
    return cases


def classify(line, tags, model_out, impl_out, verdict):
    """known finding classes, decided on the INPUT: Known_raw_eol (coq/Spec/RefWriter.v) evaluated by the extracted writer"""
    if tags.get('known_raw_eol'):
        return 'C02-raw-eol'
    if tags.get('known_deep'):
        return 'C02-deep-parens'
    return None


def compare(model, impl):
    if model == impl:
        return True
    if model.startswith('(loaded') and impl.startswith('(loaderr'):
        return False
    return vlib.compare_canon_reals(model, impl)


SPEC = {
    'gen_parts': ['Lex', 'Filters', 'ObjStmC'],
    'allowed_axioms': (),
    'runner': 'c02',
    'bin': 'c02',
    'gen_cases': gen_cases,
    'compare': compare,
    'classify': classify,
    'partial_note': 'rung 1 and rung 2 complete (every spelling of every object incl. fillers in composites, indirect objects, trailer; the two open '
                    'findings excluded by their classes); rung 3: C02_full is a theorem against LoaderExt.load_ext on the Gallina decoders for every '
                    'single-section file of the reference writer (cross-reference table or stream of any W / Index / filter chain / PNG predictor, any '
                    'number of object streams under any filter chain incl. predictors, Length direct, by reference to a top-level integer (eager) or to '
                    'an integer kept in an object stream (deferred)); files of several sections (Prev): the Prev loop, newest-entry-wins and the three '
                    'passes of the reader over the merged table are proved format-independently (C02_prev_chain, C02_merge_newest_wins, '
                    'C02_load_chain_frame); that the parts ref_write_multi lays out form such a chain and load to the document is proved for every file '
                    'without object streams (C02_loads_multi_mixed), for one-part files with object streams (C02_loads_multi_objstm_partial) and for files '
                    'of any number of parts with object streams in any of them (C02_loads_multi_objstm; C02_full_all is the union); the statement '
                    'without a domain (C02_loads_multi_partial, a Definition) is false: C02_loads_multi_partial_needs_domain; outside the domains: a '
                    'superseded definition of a number that is a member of an object stream (part_dom) and a table part that lists a type-2 entry again',
    'rule': '(style, abstract document) pairs: 1-12 objects of every kind nested to depth 3 with adversarial bytes in names and strings, '
            'streams with direct or indirect Length; styles randomise fillers (6 white-space bytes, comments with every EOL), name escapes, '
            'literal/hex string spellings (octal 1-3 digits, short escapes, ignored backslash, continuations, raw EOLs, hex white-space, odd '
            'digit), number spellings, object order, xref table sectioning and entry EOLs or xref stream W/Index/filters/PNG predictor, object '
            'streams, junk before the header; cross-reference streams that do not list object 0 with W [0 n m] / W [0 n 0]; files of 2-3 '
            'parts whose cross-reference sections (tables, streams, mixed) are linked by Prev, with disjoint object sets, objects listed '
            'again at the same offset and superseded definitions in earlier parts; '
            'bytes come from the extracted reference writer and go to Document::load_mem; plus files in the layout of present-day '
            'producers whose object streams (3-200 near-identical dictionaries / arrays / strings) and cross-reference stream (with and '
            'without Predictor 12) are compressed by a real deflate encoder (zlib level 1/6/9, fixed and dynamic Huffman codes, several '
            'blocks, 5:1 to 65:1), read by the implementation and by the loader model on the Gallina inflate; plus the asset '
            'files; plus valid and malformed inputs for decode_xref_stream, the xref table parser and ObjectStream::new against their models; '
            'non-trivial = the reference writer produced a file / every direct case; distinct = distinct case text',
    'extra_trusted': ['C02: the reference writer coq/Spec/RefWriter.v is the specification of "a syntactically valid PDF file" (written from '
                      'ISO 32000-1 7.2-7.5); reals are drawn as decimals of at most 6 significant digits, for which f32 parsing and Display '
                      'are exact (Rust std)'],
}

MANIFEST = {
    'level_text': 'rung 1 (DESIGN.md 9) complete: decode_xref_stream, the cross-reference table parser and ObjectStream::new are '
                  'inverses of the specification encoders for all field widths, Index partitions, sectionings and end-of-line choices; '
                  'ASCIIHexDecode round trips; rung 2: for every style tree of the reference writer (fillers at every token boundary, every '
                  'spelling of names, strings incl. raw balanced parentheses, integers, reals (value-preserving), references, arrays and '
                  'dictionaries at any nesting the parser allows) parser::direct_object, the indirect-object parser and the trailer parser '
                  'return the denoted object; rung 3 (C02_full): Reader::read (Model/LoaderExt.v load_ext, conservative over Model/Loader.v) loads '
                  'every single-section reference file -- cross-reference table or stream (any W / Index / filter chain / predictor), object '
                  'streams (any members, spellings, filter chains, predictors), Length direct or by reference (eager and deferred), junk before '
                  'the header, any object order / sectioning / end-of-lines -- to exactly the objects (by value), trailer and version it defines; '
                  'files of several sections linked by Prev (ref_write_multi: objects listed again, superseded definitions): Prev loop and '
                  'merge proved format-independently; C02_loads_multi_mixed: every such file whose parts end with a cross-reference TABLE or a '
                  'cross-reference STREAM (any W / Index / filter chain; mixed chains; Length direct or a reference into any part) loads '
                  'to exactly the objects the document defines (by value) plus the cross-reference stream objects, and to its trailer '
                  'entries; the superseded bodies are not delivered; with object streams: a one-part file of ref_write_multi is the '
                  'single-section file of the part\'s style (C02_multi_one_part_is_single); C02_loads_multi_objstm: a file of ANY number of parts '
                  'with object streams in ANY of them (type-2 entries in the merged table, members listed again, Length direct / through a '
                  'top-level integer of any part / through a member of an object stream of any part) loads to exactly the objects (by value), '
                  'trailer and version it defines -- the invariant of the parts with type-2 entries (every member of a finished part is named '
                  'by the type-2 entry of its container) and the reader\'s three passes on the merged table for any buffer; C02_full_all states '
                  'the union of all proved files with the conclusion of C02_full; the writer\'s merged table names every member of an object '
                  'stream in its own container and every current definition at its place whatever later parts supersede '
                  '(C02_multi_members_named, C02_multi_known_keeps_current)',
    'level_note': 'the statement for the whole style space of ref_write_multi without a domain (C02_loads_multi_partial, a Definition) is FALSE: '
                  'C02_loads_multi_partial_needs_domain -- write_parts accepts a superseded definition of a member\'s number when a later part '
                  'merely names the number, a defect of the reference writer\'s style space that the generator never draws; the domain clause '
                  'part_dom (a superseded definition is one of a top-level object) excludes it; also outside: a table part that lists a type-2 '
                  'entry again (a table cannot express one); every other file of ref_write / ref_write_multi is covered by C02_full, '
                  'C02_loads_multi_mixed, C02_loads_multi_objstm (union: C02_full_all; notes/C02.md round 7); open findings C02-raw-eol (raw CR '
                  'in literal strings) and C02-deep-parens (nesting above 100) are excluded by decidable classes on the input',
    'technique': 'Coq proofs over Gallina models of xref.rs / parser_aux.rs / object_stream.rs / the xref table parser / the token '
                 'parsers; differential check of the models on valid and malformed inputs; reference PDF writer in Gallina '
                 '(Spec/RefWriter.v) extracted to OCaml feeds Document::load_mem and Model/Loader.v',
    'design_ref': 'DESIGN.md 6 C02',
}


def run(ctx):
    return propcheck.standard_check(ctx, SPEC)
