"""C17 -- bookmarks become a well-formed outline that reads back."""
import sys
import propcheck
from sxg import *

sys.setrecursionlimit(max(sys.getrecursionlimit(), 20000))   # chains of 1000 bookmarks in the thorough tier

PALETTE = ['0', '1', '0.5', '0.25', '0.75']


# ------------------------------------------------------------------------------------------
# documents with 1..n pages
# ------------------------------------------------------------------------------------------
def gen_doc(rng, npages, sparse=False):
    """page tree of random shape over npages pages; returns (objects, trailer, max_id, pages_in_order, cat_id, spare)"""
    # tree shape: split the pages recursively
    def shape(n, depth):
        if n == 1 and (depth > 0 and rng.random() < 0.8):
            return ('leaf',)
        if depth >= 3 or n <= 1 or rng.random() < 0.3:
            return ('node', [('leaf',) for _ in range(n)])
        parts = []
        left = n
        while left > 0:
            k = rng.randint(1, left)
            parts.append(shape(k, depth + 1) if k > 1 or rng.random() < 0.5 else ('leaf',))
            left -= k
        return ('node', parts)
    t = shape(npages, 0)
    if t[0] == 'leaf':
        t = ('node', [t])
    def count(t):
        return 1 if t[0] == 'leaf' else 1 + sum(count(k) for k in t[1])
    n_nodes = count(t)
    extra = rng.randint(0, 3)
    total = n_nodes + 1 + extra
    if sparse:
        nums = sorted(rng.sample(range(1, 4 * total + 10), total))
    else:
        nums = list(range(1, total + 1))
    rng.shuffle(nums)
    it = iter(nums)
    objects = []
    pages = []
    def emit(t, parent):
        me = (next(it), 0)
        if t[0] == 'leaf':
            pages.append(me)
            objects.append((me, D([('Type', N('Page')), ('Parent', REF(*parent)),
                                   ('MediaBox', A([I(0), I(0), I(612), I(792)]))])))
        else:
            kids = [emit(k, me) for k in t[1]]
            ent = [('Type', N('Pages')), ('Kids', A([REF(*k) for k in kids])),
                   ('Count', I(sum(1 for _ in kids)))]
            if parent is not None:
                ent.append(('Parent', REF(*parent)))
            objects.append((me, D(ent)))
        return me
    root = emit(t, None)
    cat = (next(it), 0)
    cat_entries = [('Type', N('Catalog')), ('Pages', REF(*root))]
    objects.append((cat, D(cat_entries)))
    spare = []
    for _ in range(extra):
        oid = (next(it), 0)
        spare.append(oid)
        objects.append((oid, rng.choice([I(5), S(b'junk'), D([('Type', N('Font'))]), A([])])))
    max_id = max(i for (i, _), _ in objects)
    return objects, [('Root', REF(*cat))], max_id, pages, cat, spare, cat_entries


# ------------------------------------------------------------------------------------------
# titles
# ------------------------------------------------------------------------------------------
def rand_char(rng, cls):
    while True:
        if cls == 'ascii':
            c = rng.randint(0, 127) if rng.random() < 0.1 else rng.randint(32, 126)
        elif cls == 'latin':
            c = rng.randint(128, 0x24f)
        elif cls == 'bmp':
            c = rng.choice([rng.randint(0x250, 0xffff), rng.randint(0x4e00, 0x9fff), 0xfeff, 0xfffe, 0xffff,
                            0xfffd, 0x2828, 0x2929, 0x5c5c, 0x0d0a, 0xd7ff, 0xe000])
        else:
            c = rng.choice([rng.randint(0x10000, 0x10ffff), 0x10000, 0x10ffff, 0x1f600, 0x1f4a9, 0x20000])
        if not (0xd800 <= c <= 0xdfff):
            return c


def rand_title(rng):
    r = rng.random()
    n = rng.choice([0, 1, 1, 2, 3, 5, 8, 13, 30])
    if r < 0.35:
        return [rand_char(rng, 'ascii') for _ in range(n)]
    if r < 0.45:
        # ASCII with PDF-string specials
        return [ord(rng.choice('()\\\r\n\t(a)%/<>[]')) for _ in range(n)]
    if r < 0.6:
        return [rand_char(rng, rng.choice(['ascii', 'latin'])) for _ in range(max(n, 1))]
    if r < 0.75:
        return [rand_char(rng, 'bmp') for _ in range(max(n, 1))]
    if r < 0.9:
        return [rand_char(rng, 'astral') for _ in range(max(n, 1))]
    t = [rand_char(rng, rng.choice(['ascii', 'latin', 'bmp', 'astral'])) for _ in range(max(n, 1))]
    if rng.random() < 0.3:
        t = [0xfeff] + t          # a title that itself starts with the byte order mark character
    if rng.random() < 0.2:
        t = [0xfe, 0xff] + t      # "thorn y-diaeresis": looks like a BOM in Latin-1, is not ASCII
    return t


def distinct_titles(rng, n):
    seen = set()
    out = []
    while len(out) < n:
        t = tuple(rand_title(rng))
        if t in seen:
            t = t + (rng.randint(33, 126), rng.randint(0x100, 0x2ff))
            if t in seen:
                continue
        seen.add(t)
        out.append(list(t))
    return out


def T(cps):
    return L('t', *[str(c) for c in cps])


# ------------------------------------------------------------------------------------------
# forests
# ------------------------------------------------------------------------------------------
def gen_forest(rng, n, shape):
    """returns parent[] (None for roots) and kids lists over nodes 0..n-1 in *sibling order*"""
    parent = [None] * n
    for k in range(n):
        if k == 0:
            continue
        if shape == 'chain':
            parent[k] = k - 1 if rng.random() < 0.9 else None
        elif shape == 'wide':
            parent[k] = None if rng.random() < 0.5 else rng.choice([p for p in range(k) if parent[p] is None])
        elif shape == 'flat':
            parent[k] = None
        else:
            parent[k] = None if rng.random() < 0.25 else rng.randrange(k)
    kids = [[] for _ in range(n)]
    roots = []
    order = list(range(n))
    for k in order:
        (roots if parent[k] is None else kids[parent[k]]).append(k)
    # shuffle sibling orders so that node numbers carry no information
    rng.shuffle(roots)
    for ks in kids:
        rng.shuffle(ks)
    return roots, kids


def linearise(rng, roots, kids, mode):
    """an order of addition: a node after its parent, siblings in sibling order"""
    n = len(kids)
    if mode == 'preorder':
        out = []
        def go(ns):
            for k in ns:
                out.append(k)
                go(kids[k])
        go(roots)
        return out
    if mode == 'bfs':
        out = []
        q = list(roots)
        while q:
            k = q.pop(0)
            out.append(k)
            q.extend(kids[k])
        return out
    # random interleaving
    out = []
    nxt = {None: 0}
    ready = [None]  # parents that still have un-emitted children
    lists = {None: roots}
    for k in range(n):
        lists[k] = kids[k]
    while ready:
        p = rng.choice(ready)
        i = nxt[p]
        k = lists[p][i] if i < len(lists[p]) else None
        if k is None:
            ready.remove(p)
            continue
        nxt[p] = i + 1
        out.append(k)
        nxt[k] = 0
        ready.append(k)
    return out


DEPTH_OK = 257      # OUTLINE_DEPTH_LIMIT + 1 (src/outlines.rs): highest forest get_outlines reads back


WIDE_STYLES = ('each1', 'mixed', 'spread', 'spread-chain')


def wide_forest(rng, style, P):
    """shallow forests with MANY parent items on one sibling list (nesting depth 2..4, far below the First-nesting limit;
    what is large is the number of items that have children):
      each1        P chapters, one section each
      mixed        P chapters with 1..3 sections each, childless chapters sprinkled between them
      spread       P chapters with one section each, and P // 2 sections with one subsection each under the LAST chapter
      spread-chain as spread, and P // 4 subsections with one paragraph each under the last section (depth 4)
    returns roots, kids (sibling order = list order)"""
    kids = []
    def node():
        kids.append([])
        return len(kids) - 1
    def level(parent_list, count, fan):
        made = []
        for _ in range(count):
            k = node()
            parent_list.append(k)
            for _ in range(fan()):
                kids[k].append(node())
            made.append(k)
        return made
    roots = []
    if style == 'each1':
        level(roots, P, lambda: 1)
    elif style == 'mixed':
        for _ in range(P):
            while rng.random() < 0.3:
                roots.append(node())                       # a leaf chapter
            level(roots, 1, lambda: rng.choice([1, 1, 2, 3]))
    else:
        chapters = level(roots, P, lambda: 1)
        last = chapters[-1]
        sections = level(kids[last], P // 2, lambda: 1)
        if style == 'spread-chain':
            level(kids[sections[-1]], P // 4, lambda: 1)
    return roots, kids


# ------------------------------------------------------------------------------------------
# named destinations: `Dests` / `Names`->`Dests` in the catalog.  get_toc runs get_named_destinations on the tree before it
# walks the outline; the outline build_outline writes never uses a name, so a tree must not change the table of contents --
# unless get_named_destinations refuses it (Err), which ends get_toc (domain restriction of the read-back clause, notes/C17.md)
# ------------------------------------------------------------------------------------------
NT_VALID = ['flat-direct', 'flat-ref', 'tree', 'tree', 'names-ref', 'old-style', 'title-keys', 'deep-256', 'deep-257',
            'dag-small', 'tol-kid-number', 'tol-kid-nondict', 'tol-trailing-key', 'tol-value-scalar', 'tol-value-refscalar',
            'tol-direct-array', 'tol-both']
NT_REFUSED = ['cyc-self', 'cyc-two', 'cyc-ancestor', 'kids-notarray', 'names-notarray', 'value-noD', 'value-D-notarray',
              'value-D-short', 'refvalue-noD', 'refarray-short', 'key-notstring', 'deep-258', 'dag-over-budget']


def name_tree(rng, style, pages, first_free, titles, nbuilt):
    """returns (catalog entries, extra objects, highest id used).  nbuilt = number of objects build_outline will add at most."""
    nxt = [first_free - 1]
    extra = []
    def new_id():
        nxt[0] += 1
        return (nxt[0], 0)
    def put(o):
        i = new_id()
        extra.append((i, o))
        return i
    def pg():
        return REF(*rng.choice(pages))
    def dest_arr(short=None):
        if short is not None:
            return A([pg()][:short])
        return rng.choice([A([pg(), N('Fit')]), A([pg(), N('XYZ'), I(0), I(792), NULL]), A([pg(), N('FitH'), R('100.5')]),
                           A([I(0), N('Fit')])])
    keyno = [0]
    def stored(t):
        # the Title bytes build_outline writes for the string t (Bookmark::new / outline_child)
        if all(c < 128 for c in t):
            return bytes(t)
        return b'\xfe\xff' + ''.join(chr(c) for c in t).encode('utf-16-be')
    def key():
        keyno[0] += 1
        k = ('n%03d' % keyno[0]).encode() + bytes(rng.randint(33, 126) for _ in range(rng.randint(0, 4)))
        return rng.choice([S(k), S(k), H(k)])
    def value():
        r = rng.random()
        if r < 0.35:
            return REF(*put(dest_arr()))
        if r < 0.65:
            return REF(*put(D([('D', dest_arr())] + ([('Type', N('Whatever'))] if rng.random() < 0.2 else []))))
        return D([('D', dest_arr())])
    def names_arr(n):
        out = []
        for _ in range(n):
            out += [key(), value()]
        return out
    def leaf(n=None):
        ent = [('Names', A(names_arr(rng.randint(0, 4) if n is None else n)))]
        if rng.random() < 0.5:
            ent.insert(0, ('Limits', A([S(b'a'), S(b'z')])))
        return ent
    def tree(depth):
        if depth == 0 or rng.random() < 0.3:
            return leaf()
        return [('Kids', A([REF(*put(D(tree(depth - 1)))) for _ in range(rng.randint(1, 3))]))]
    def chain(levels):
        """root + `levels` nested Kids levels; the last node is a leaf"""
        cur = leaf(1)
        for _ in range(levels):
            cur = [('Kids', A([REF(*put(D(cur)))]))]
        return cur
    def attach_as(root_ent, how=None):
        how = how or rng.choice(['dests-direct', 'dests-ref', 'names-direct', 'names-ref', 'names-refref'])
        if how == 'dests-direct':
            return [('Dests', D(root_ent))]
        if how == 'dests-ref':
            return [('Dests', REF(*put(D(root_ent))))]
        if how == 'names-direct':
            return [('Names', D([('Dests', D(root_ent))] + ([('EmbeddedFiles', D([('Names', A([]))]))] if rng.random() < 0.3 else [])))]
        if how == 'names-ref':
            return [('Names', D([('Dests', REF(*put(D(root_ent))))]))]
        return [('Names', REF(*put(D([('Dests', REF(*put(D(root_ent))))]))))]
    root = None
    how = None
    if style == 'flat-direct':
        root, how = leaf(rng.randint(1, 5)), rng.choice(['dests-direct', 'names-direct'])
    elif style == 'flat-ref':
        root, how = leaf(rng.randint(1, 5)), rng.choice(['dests-ref', 'names-ref', 'names-refref'])
    elif style == 'tree':
        root = [('Kids', A([REF(*put(D(tree(2)))) for _ in range(rng.randint(1, 3))]))]
        if rng.random() < 0.3:
            root += leaf()                                   # a node with both Kids and Names
    elif style == 'title-keys':
        # every bookmark title (as stored) is ALSO a destination name, pointing somewhere else: to another page, to a
        # non-page, or with another fit type -- the outline's explicit destinations must win
        ents = []
        for t, p in titles:
            others = [q for q in pages if q != p] or [p]
            tgt = rng.choice(others + others + [(first_free + 900, 0)])
            arr = A([REF(*tgt), rng.choice([N('Fit'), N('FitB'), N('XYZ')])])
            v = rng.choice([REF(*put(arr)), REF(*put(D([('D', arr)]))), D([('D', arr)])])
            ents += [rng.choice([S, S, H])(stored(t)), v]
        lf = [('Names', A(ents + names_arr(rng.randint(0, 2))))]
        root = rng.choice([lf, [('Kids', A([REF(*put(D(lf)))]))], [('Kids', A([REF(*put(D(leaf(1)))), REF(*put(D(lf)))]))]])
    elif style == 'names-ref':
        root, how = tree(2), 'names-refref'
    elif style == 'old-style':
        # PDF 1.1: Dests is a dictionary name -> destination, no Kids / Names keys
        root = [('d%d' % k, rng.choice([dest_arr(), D([('D', dest_arr())])])) for k in range(rng.randint(0, 4))]
        how = rng.choice(['dests-direct', 'dests-ref'])
    elif style in ('deep-256', 'deep-257', 'deep-258'):
        # NAME_TREE_DEPTH_LIMIT = 256 (src/destinations.rs): kids are entered at depth 0..255, so root + 256 levels is read
        # and root + 257 levels is refused
        root = chain({'deep-256': 255, 'deep-257': 256, 'deep-258': 257}[style])
    elif style in ('dag-small', 'dag-over-budget'):
        # the same leaf listed many times: the kid budget is objects.len() of the document that is read
        lf = put(D(leaf(1)))
        total = first_free + 8 + nbuilt            # more than the document can hold after the build
        reps = rng.randint(2, 4) if style == 'dag-small' else total + rng.randint(1, 40)
        root = [('Kids', A([REF(*lf)] * reps))]
    elif style == 'tol-kid-number':
        root = [('Kids', A([I(7), REF(*put(D(leaf()))), N('x'), NULL]))]
    elif style == 'tol-kid-nondict':
        root = [('Kids', A([REF(*put(I(3))), REF(*put(A([]))), REF(nxt[0] + 700, 0), REF(*put(D(leaf())))]))]
    elif style == 'tol-trailing-key':
        root = [('Names', A(names_arr(rng.randint(0, 3)) + [key()]))]
    elif style == 'tol-value-scalar':
        root = [('Names', A([key(), I(4), key(), N('Fit'), key(), NULL] + names_arr(1)))]
    elif style == 'tol-value-refscalar':
        root = [('Names', A([key(), REF(*put(I(9))), key(), REF(nxt[0] + 800, 0), key(), REF(*put(S(b'str')))] + names_arr(1)))]
    elif style == 'tol-direct-array':
        root = [('Names', A([key(), dest_arr(), key(), A([])] + names_arr(1)))]     # a direct array value is skipped, not read
    elif style == 'tol-both':
        root = [('Kids', A([REF(*put(D(leaf())))])), ('Names', A(names_arr(2)))]
    elif style == 'cyc-self':
        me = new_id()
        extra.append((me, D([('Kids', A([REF(*me)]))])))
        return rng.choice([[('Dests', REF(*me))], [('Names', D([('Dests', REF(*me))]))]]), extra, nxt[0]
    elif style == 'cyc-two':
        a, b = new_id(), new_id()
        extra.append((a, D([('Kids', A([REF(*put(D(leaf()))), REF(*b)]))])))
        extra.append((b, D([('Kids', A([REF(*a)]))] + leaf())))
        return [('Dests', REF(*a))], extra, nxt[0]
    elif style == 'cyc-ancestor':
        top = new_id()
        mid = put(D([('Kids', A([REF(*put(D([('Kids', A([REF(*top)]))])))]))]))
        extra.append((top, D([('Kids', A([REF(*put(D(leaf()))), REF(*mid)]))])))
        return [('Names', D([('Dests', REF(*top))]))], extra, nxt[0]
    elif style == 'kids-notarray':
        root = [('Kids', rng.choice([I(5), D([]), N('k'), REF(*put(A([])))]))] + leaf()    # also a reference: as_array()? is not followed
    elif style == 'names-notarray':
        root = [('Names', rng.choice([I(5), D([]), S(b'x'), REF(*put(A([])))]))]
    elif style == 'value-noD':
        root = [('Names', A(names_arr(rng.randint(0, 2)) + [key(), D([('X', I(1))])] + names_arr(1)))]
    elif style == 'value-D-notarray':
        root = [('Names', A([key(), D([('D', rng.choice([I(1), S(b'other'), REF(*put(dest_arr()))]))])]))]
    elif style == 'value-D-short':
        root = [('Names', A(names_arr(1) + [key(), D([('D', dest_arr(short=rng.randint(0, 1)))])]))]
    elif style == 'refvalue-noD':
        root = [('Names', A([key(), REF(*put(D([('S', N('GoTo'))])))]))]
    elif style == 'refarray-short':
        root = [('Names', A([key(), REF(*put(dest_arr(short=rng.randint(0, 1))))]))]
    elif style == 'key-notstring':
        root = [('Names', A([rng.choice([N('name'), I(1), NULL]), rng.choice([D([('D', dest_arr())]), REF(*put(dest_arr()))])]))]
    else:
        raise ValueError(style)
    if style in NT_REFUSED and style not in ('deep-258', 'dag-over-budget') and rng.random() < 0.4:
        # the refused node below a healthy root
        root = [('Kids', A([REF(*put(D(leaf()))), REF(*put(D(root)))]))]
    return attach_as(root, how), extra, nxt[0]


def gen_bookmark_case(rng, kind, tier, deep_n=None, wide=None, ntree=None):
    big = tier != 'quick'
    npages = rng.choice([1, 1, 2, 3, 5, 8] + ([20, 40] if big else []))
    objects, trailer, max_id, pages, cat, spare, cat_entries = gen_doc(rng, npages, sparse=rng.random() < 0.4)
    n = rng.choice([1, 1, 2, 3, 4, 6, 9, 14] + ([30, 60] if big else []))
    shape = rng.choice(['random', 'random', 'random', 'chain', 'wide', 'flat'])
    if kind == 'deep':
        # a strict chain plus a few side branches: height deep_n, around the First-nesting limit of get_outlines
        n = deep_n + rng.randint(0, 3)
        roots = [0]
        kids = [[] for _ in range(n)]
        for k in range(1, deep_n):
            kids[k - 1].append(k)
        for k in range(deep_n, n):
            kids[rng.randrange(deep_n - 1)].append(k)
        for ks in kids:
            rng.shuffle(ks)
        titles = [[0x41 + k % 26, 0x100 + k] for k in range(n)]
    elif kind == 'widepar':
        roots, kids = wide_forest(rng, wide[0], wide[1])
        n = len(kids)
        # short distinct titles, ASCII (stored as they are) and non-ASCII (stored as UTF-16BE) alternating
        titles = [[0x43] + [ord(c) for c in str(k)] if k % 3 else [0x41 + k % 26, 0x100 + k] for k in range(n)]
    else:
        roots, kids = gen_forest(rng, n, shape)
        titles = distinct_titles(rng, n)
    page_of = [rng.choice(pages) for _ in range(n)]
    adjust = 1
    reload = 1
    wf = True
    # zero-page parents (fixed up by adjust_zero_pages): only nodes with children
    if kind in ('zero', 'noadjust') or (kind == 'widepar' and len(wide) > 2 and wide[2]):
        for k in range(n):
            if kids[k] and rng.random() < 0.6:
                page_of[k] = (0, 0)
    if kind == 'noadjust':
        adjust = 0
        wf = not any(p == (0, 0) for p in page_of)
    if kind == 'dup':
        if n >= 2:
            a, b = rng.sample(range(n), 2)
            titles[a] = list(titles[b])
        wf = n < 2
    if kind == 'nonpage':
        k = rng.randrange(n)
        page_of[k] = rng.choice([cat, (max_id + 50, 0), (0, 0), (0, 7)] + spare)
        if kids[k] and page_of[k][0] == 0:
            pass  # becomes a zero-page parent, fixed up
        else:
            wf = False
    order = linearise(rng, roots, kids, rng.choice(['preorder', 'bfs', 'random', 'random', 'random'] if kind != 'widepar' else
                                                   ['preorder', 'bfs', 'random']))
    idof = {}
    ops = []
    parent = {}
    for p in range(n):
        for c in kids[p]:
            parent[c] = p
    orphan_ops = 0
    for k in order:
        # orphans: bookmarks whose parent id does not exist (yet); ignored by build_outline
        if kind == 'orphan' and rng.random() < 0.25:
            cur = len(ops) + 1
            bad = rng.choice([0, cur, cur + 1, cur + 7, 4000000000])
            ops.append((rand_title(rng) + [0x2603, 0x2603, orphan_ops + 0x100], rng.choice(pages), bad))
            orphan_ops += 1
            if rng.random() < 0.4:
                # a child of the orphan: attached to it, equally unreachable
                ops.append((rand_title(rng) + [0x2604, 0x2603, orphan_ops + 0x100], rng.choice(pages), cur))
                orphan_ops += 1
        idof[k] = len(ops) + 1
        ops.append((titles[k], page_of[k], idof[parent[k]] if k in parent else None))
    # expected table of contents: preorder of the forest, levels, page numbers
    pnum = {p: i + 1 for i, p in enumerate(pages)}
    def eff(k):
        p = page_of[k]
        if not adjust or p[0] != 0 or not kids[k]:
            return p
        for c in kids[k]:
            q = eff(c)
            if q[0] != 0:
                return q
        return (0, 0)
    rows = []
    def pre(ns, lvl):
        for k in ns:
            rows.append((lvl, titles[k], eff(k)))
            pre(kids[k], lvl + 1)
    pre(roots, 1)
    if any(p not in pnum for _, _, p in rows):
        wf = False
    if kind == 'stale':
        # max_id below the real maximum: new ids collide with existing objects (not a document of the property)
        max_id = rng.randint(0, max_id - 1)
        wf = False
        reload = 0
    if kind == 'rootbroken':
        trailer = rng.choice([[], [('Root', I(3))], [('Root', REF(max_id + 9, 0))], [('Root', REF(*pages[0]))]])
        reload = 0
        wf = False
    if kind == 'rootchain':
        # Root -> reference object -> catalog: get_object_mut follows the chain
        hop = (max_id + 1, 0)
        max_id += 1
        objects.append((hop, REF(*cat)))
        trailer = [('Root', REF(*hop))]
        reload = 0
    if kind == 'hasoutlines':
        # the catalog already has an Outlines entry: it is replaced
        objects = [(i, o) if i != cat else (i, D(cat_entries + [('Outlines', REF(*pages[0]))])) for i, o in objects]
    refused = False
    if ntree is not None:
        # a name tree in the catalog (objects numbered above max_id, which is raised: build_outline numbers from max_id + 1)
        first_free = max([max_id] + [i for (i, _), _ in objects]) + 1
        ents, extra, top = name_tree(rng, ntree, pages, first_free, list(zip(titles, page_of))[:12], 1 + 2 * len(ops))
        objects = [(i, o) if i != cat else (i, o[:-1] + ' ' + ' '.join(L(xb(k), v) for k, v in ents) + ')') for i, o in objects]
        objects += extra
        if kind != 'stale':
            max_id = max(max_id, top)
        refused = ntree in NT_REFUSED
    rng.shuffle(objects)
    doc = DOC('1.5', b'', trailer + [('Size', I(max_id + 1))] if rng.random() < 0.5 else trailer, objects, max_id)
    opsx = L('ops', *[L('add', T(t), str(rng.randint(0, 3)),
                        L('c', xb(rng.choice(PALETTE)), xb(rng.choice(PALETTE)), xb(rng.choice(PALETTE))),
                        OID(*p), 'none' if par is None else str(par)) for (t, p, par) in ops])
    # ndbad: every hypothesis of the read-back clause holds but get_named_destinations refuses the catalog's name tree
    exp = L('ndbad' if refused else 'wf', *[L('row', str(l), T(t), str(pnum[p])) for (l, t, p) in rows]) if wf else L('mal')
    case = L('case', doc, opsx, L('flags', str(adjust), str(reload)), exp)
    if ntree is not None:
        return case, {'kind': ('wf-' if wf else 'mal-') + ('ndbad-' if refused else 'nd-') + ntree, 'nontrivial': True}
    if kind == 'widepar':
        return case, {'kind': 'wf-widepar-' + wide[0], 'nontrivial': True, 'parents': wide[1], 'bookmarks': n}
    if kind == 'deep':
        return case, {'kind': 'wf-deep-ok' if deep_n <= DEPTH_OK else 'wf-deep-known', 'nontrivial': True}
    return case, {'kind': ('wf-' if wf else 'mal-') + kind, 'nontrivial': n >= 2}


# ------------------------------------------------------------------------------------------
# hand-built outlines (no bookmark added): exercise every branch of the reader model
# ------------------------------------------------------------------------------------------
def gen_reader_case(rng, tier, named=False):
    npages = rng.choice([1, 2, 3, 5])
    objects, trailer, max_id, pages, cat, spare, cat_entries = gen_doc(rng, npages)
    nxt = [max_id]
    def new_id():
        nxt[0] += 1
        return (nxt[0], 0)
    def title_obj():
        r = rng.random()
        cps = rand_title(rng)
        if r < 0.3:
            b = bytes(c for c in cps if c < 128)
        elif r < 0.5:
            b = b'\xfe\xff' + ''.join(chr(c) for c in cps).encode('utf-16-be')
            if rng.random() < 0.2:
                b = b[:-1]                                  # odd length
            if rng.random() < 0.2:
                b = b + rng.choice([b'\xd8\x00', b'\xdc\x00', b'\xd8\x00\x00\x41'])  # lone surrogates
        elif r < 0.65:
            b = b'\xff\xfe' + ''.join(chr(c) for c in cps).encode('utf-16-le')
            if rng.random() < 0.2:
                b = b[:-1]
        elif r < 0.8:
            b = ''.join(chr(c) for c in cps).encode('utf-8')
        else:
            b = bytes(rng.choice([0x41, 0x80, 0xbf, 0xc2, 0xc0, 0xe0, 0xa0, 0xed, 0x9f, 0xf0, 0x90, 0xf4, 0x8f, 0xf5, 0xff, 0xfe])
                      for _ in range(rng.randint(0, 7)))
        if rng.random() < 0.1:
            tid = new_id()
            objects.append((tid, rng.choice([S(b), S(b), I(7)])))
            return REF(*tid)
        return rng.choice([S(b), S(b), S(b), H(b)]) if rng.random() < 0.95 else rng.choice([I(3), N('T')])
    def dest_obj():
        pg = rng.choice(pages + [cat, (nxt[0] + 500, 0)]) if rng.random() < 0.2 else rng.choice(pages)
        r = rng.random()
        if r < 0.7:
            d = A([REF(*pg), N('Fit')])
        elif r < 0.8:
            d = A([REF(*pg), N('XYZ'), I(0), I(0), NULL])
        elif r < 0.85:
            d = A([I(0), N('Fit')])                        # page given by number: not a reference
        elif r < 0.9 or (named and r < 0.97):
            d = S(rng.choice([b'named', b'named', b'other', b'missing'])) if named else S(b'named')
        elif r < 0.93:
            d = rng.choice([A([]), A([REF(*pg)])])         # short array: panics (C13's finding)
        else:
            d = rng.choice([I(1), N('X'), NULL])
        if rng.random() < 0.15:
            did = new_id()
            objects.append((did, d))
            d = REF(*did)
        return d
    def build(depth, parent):
        """returns list of (id, dict entries) siblings"""
        k = rng.randint(1, 3 if depth < 2 else 1)
        ids = [new_id() for _ in range(k)]
        for j, me in enumerate(ids):
            ent = [('Parent', REF(*parent))]
            if rng.random() < 0.95:
                ent.append(('Title', title_obj()))
            r = rng.random()
            if r < 0.5:
                act = [('S', rng.choice([N('GoTo'), N('GoTo'), N('GoToR'), N('URI'), S(b'GoTo')])), ('D', dest_obj())]
                if rng.random() < 0.1:
                    act = act[:1]
                if rng.random() < 0.5:
                    aid = new_id()
                    objects.append((aid, D(act)))
                    ent.append(('A', REF(*aid)))
                else:
                    ent.append(('A', D(act)))
            elif r < 0.9:
                ent.append(('Dest', dest_obj()))
            if j > 0:
                ent.append(('Prev', REF(*ids[j - 1])))
            if j + 1 < k:
                ent.append(('Next', REF(*ids[j + 1])))
            if depth < 3 and rng.random() < 0.4:
                sub = build(depth + 1, me)
                r2 = rng.random()
                ent.append(('First', REF(*sub[0])))
                ent.append(('Last', REF(*sub[-1])))
            elif rng.random() < 0.05:
                ent.append(('First', rng.choice([I(1), REF(nxt[0] + 900, 0), D([('Title', S(b'inline')), ('Dest', dest_obj())])])))
            items.append((me, ent, parent))
        return ids
    items = []
    oid = new_id()
    top = build(0, oid)
    kind = 'reader'
    if rng.random() < 0.35:
        # cyclic links: get_outlines gives up with ReferenceLimit once objects.len() references were followed
        # (or First nests deeper than OUTLINE_DEPTH_LIMIT) instead of looping
        kind = 'reader-cyclic'
        me, ent, par = rng.choice(items)
        key = rng.choice(['Next', 'Next', 'First'])
        ent[:] = [e for e in ent if e[0] != key]
        if key == 'Next':
            target = rng.choice([me, rng.choice(items)[0], top[0]])
        else:
            target = rng.choice([me, par if par != oid else me, top[0]])
        ent.append((key, REF(*target)))
    for me, ent, _ in items:
        objects.append((me, D(ent)))
    oent = [('Type', N('Outlines')), ('First', REF(*top[0])), ('Last', REF(*top[-1]))]
    if rng.random() < 0.1:
        oent = [('Type', N('Outlines'))]
    objects.append((oid, D(oent)))
    cat_extra = []
    if named:
        # string destinations resolved through the name tree: the stored destination gets the item's Title (visible to a later
        # item with the same name); 'named' twice: IndexMap::insert replaces; an unreadable tree now and then
        kind += '-named'
        def nd_val(pg):
            arr = A([REF(*pg), N('Fit')]) if rng.random() < 0.8 else A([REF(*pg)])
            r = rng.random()
            if r < 0.4:
                i = new_id(); objects.append((i, arr)); return REF(*i)
            if r < 0.7:
                i = new_id(); objects.append((i, D([('D', arr)]))); return REF(*i)
            return D([('D', arr)])
        names = []
        for k in [b'named', b'other'] + ([b'named'] if rng.random() < 0.3 else []) + [b'k%d' % j for j in range(rng.randint(0, 2))]:
            names += [S(k), nd_val(rng.choice(pages + [cat]))]
        if rng.random() < 0.1:
            names += [N('notastring'), D([('D', A([REF(*pages[0]), N('Fit')]))])]
        lf = new_id()
        objects.append((lf, D([('Names', A(names))])))
        rootn = D([('Kids', A([REF(*lf)] + ([REF(*lf)] if rng.random() < 0.2 else [])))]) if rng.random() < 0.6 else D([('Names', A(names))])
        cat_extra = rng.choice([[('Dests', rootn)], [('Names', D([('Dests', rootn)]))]])
    objects = [(i, o) if i != cat else (i, D(cat_entries + cat_extra + [('Outlines', REF(*oid))])) for i, o in objects]
    rng.shuffle(objects)
    doc = DOC('1.5', b'', trailer, objects, nxt[0])
    case = L('case', doc, L('ops'), L('flags', '1', '1'), L('mal'))
    return case, {'kind': kind, 'nontrivial': True}


def gen_cases(rng, tier):
    n = 260 if tier == 'quick' else 8000
    kinds = ['plain'] * 6 + ['zero'] * 3 + ['orphan'] * 2 + ['hasoutlines', 'rootchain',
             'dup', 'nonpage', 'noadjust', 'stale', 'rootbroken']
    cases = []
    for k in range(n):
        if rng.random() < 0.2:
            cases.append(gen_reader_case(rng, tier))
        else:
            cases.append(gen_bookmark_case(rng, rng.choice(kinds), tier))
    # forests around the First-nesting limit of get_outlines: height 257 reads back, 258 and more do not (known finding)
    for deep_n in [DEPTH_OK - 1, DEPTH_OK, DEPTH_OK + 1, DEPTH_OK + 1 + rng.randint(1, 60)] + ([400, 1000] if tier != 'quick' else []):
        cases.append(gen_bookmark_case(rng, 'deep', tier, deep_n=deep_n))
    # no bookmark at all
    objects, trailer, max_id, pages, cat, spare, _ = gen_doc(rng, 2)
    cases.append((L('case', DOC('1.5', b'', trailer, objects, max_id), L('ops'), L('flags', '1', '1'), L('mal')),
                  {'kind': 'mal-empty', 'nontrivial': False}))
    # wide, SHALLOW forests (drawn last: the cases above stay what they were): more items WITH CHILDREN on one sibling list
    # than OUTLINE_DEPTH_LIMIT, nesting depth 2..4 -- the depth test of get_outlines must count nesting, not parents met
    lim = DEPTH_OK - 1
    wides = [('each1', lim - 1), ('each1', lim), ('each1', lim + 1), ('each1', lim + 2), ('each1', 260), ('each1', 300),
             ('each1', 600), ('mixed', rng.randint(260, 400)), ('mixed', rng.randint(400, 600)),
             ('spread', 200), ('spread', lim), ('spread-chain', 200), ('each1', rng.randint(260, 600), True),
             ('spread', rng.randint(150, 250), True)]
    if tier != 'quick':
        wides += [(rng.choice(WIDE_STYLES), rng.randint(100, 700), rng.random() < 0.2) for _ in range(120)]
        wides += [('each1', 2000), ('mixed', 1500), ('spread', 1000), ('spread-chain', 1000)]
    for w in wides:
        cases.append(gen_bookmark_case(rng, 'widepar', tier, wide=w))
    # catalogs WITH name trees (drawn after everything else): every valid / tolerated style must read back, every refused
    # style must give Err (and nothing else); plus hand-built outlines whose string destinations go through the tree
    reps = 1 if tier == 'quick' else 25
    for _ in range(reps):
        for st in NT_VALID + NT_REFUSED:
            cases.append(gen_bookmark_case(rng, rng.choice(['plain', 'plain', 'zero', 'orphan', 'hasoutlines']), tier, ntree=st))
        for st in rng.sample(NT_VALID, 6) + rng.sample(NT_REFUSED, 4):
            cases.append(gen_bookmark_case(rng, rng.choice(kinds), tier, ntree=st))
        for k in ['plain', 'plain', 'zero', 'orphan', 'hasoutlines', 'plain']:
            cases.append(gen_bookmark_case(rng, k, tier, ntree='title-keys'))
        for _ in range(14):
            cases.append(gen_reader_case(rng, tier, named=True))
    return cases


import re
_ADD = re.compile(r'\(add \(t[^)]*\) \d+ \(c [^)]*\) \(\d+ \d+\) (none|\d+)\)')


def forest_height(line):
    """height of the forest the ops of a case line denote (orphans and their descendants hang nowhere)"""
    depth = {}
    h = 0
    for k, m in enumerate(_ADD.finditer(line), start=1):
        par = m.group(1)
        if par == 'none':
            depth[k] = 1
        else:
            p = int(par)
            if 1 <= p < k and p in depth:
                depth[k] = depth[p] + 1
        h = max(h, depth.get(k, 0))
    return h


def classify(line, tags, model_out, impl_out, verdict):
    # decided on the input alone: too_deep in coq/Proofs/OutlineProofsProps.v
    if forest_height(line) > DEPTH_OK:
        return 'C17-deep-outline'
    return None


SPEC = {
    'classify': classify,
    'gen_parts': ['Consts', 'QueryC'],
    'allowed_axioms': (),
    'runner': 'c17',
    'bin': 'c17',
    'gen_cases': gen_cases,
    'rule': 'random bookmark forests (random/chain/wide/flat, 1..60 nodes) linearised in preorder, breadth-first or a random '
            'parent-before-child interleaving, distinct titles over ASCII (incl. PDF string specials), Latin, BMP (incl. U+FEFF, '
            'U+2828) and astral characters, any page of generated page trees with 1..40 pages, zero-page parents fixed by '
            'adjust_zero_pages, orphans; malformed stream: duplicate titles, non-page targets, no adjust, stale max_id, broken '
            'Root, chains of height 256/257 (read back) and 258+ (known finding), wide shallow forests (255..600 chapters that each have '
            'sections on ONE sibling list, 200 chapters + 100 sections with subsections under the last, depth 2..4, 500..1200 bookmarks (thorough tier: 120 more with 100..700 parents and four with 3000..5000 bookmarks), '
            'some with zero-page parents; in memory and after save_to + load_mem), plus hand-built outlines exercising every branch of the '
            'reader incl. cyclic First/Next links (reference budget / depth limit); catalogs WITH named destinations (Dests direct / '
            'indirect, Names->Dests direct / indirect / doubly indirect; flat, 2-3 level trees with Limits, PDF 1.1 name->destination '
            'dictionaries, names equal to bookmark titles, chains of 256 / 257 (read) and 258 (refused) levels, a leaf listed 2-4 times '
            '(read) or more often than the document has objects (refused), tolerated ill-typed entries (non-reference kids, kids that '
            'are not dictionaries, dangling kids, trailing key, scalar / dangling / direct-array values), refused trees (Kids cycles of '
            'length 1, 2, through an ancestor; Kids / Names not arrays; value without D, D not an array, D shorter than 2; key not a '
            'string), each beside plain / zero-page / orphan / replaced-Outlines bookmark forests: the first group must read back, the '
            'second must answer Err) and hand-built outlines whose string destinations resolve through the name tree; '
            'non-trivial = at least 2 bookmarks or a hand-built outline or a catalog with a name tree; distinct = distinct case text',
    'extra_trusted': [
        'C17: Rust std str::is_ascii / encode_utf16 / String::from_utf16_lossy / from_utf8_lossy behave as Model/Outline.v and '
        'Model/Toc.v state; tied by the differential runs over ASCII, Latin, BMP and astral titles',
        'C17: get_named_destinations is C13\'s model (Model/Query.v nd_walk, proved total there), called by Model/TocNamed.v as '
        'get_outlines calls it; tied here by the differential runs over catalogs with valid, tolerated and refused name trees',
        'C17: HashMap bookmark_table / processed are modelled as association lists (only keyed access is observable)',
    ],
}


def run(ctx):
    return propcheck.standard_check(ctx, SPEC)


MANIFEST = {
    'level_text': 'Machine-checked proof (Coq) over hand-written models of add_bookmark / outline_child / build_outline and of '
                  'get_outlines / get_outline / get_toc: every sequence of add_bookmark calls leaves the table holding the forest '
                  'the calls denote (children in call order under the right parent, unknown-parent bookmarks nowhere); build_outline '
                  'on any such table returns objects whose First/Last/Next/Prev/Parent/Count/Title/A/F and action S/D are those of '
                  'the forest numbered in preorder from max_id+1 (fresh, pairwise distinct ids, max_id updated, nothing else '
                  'changed, no panic below 2^32, fuel = height); the title bytes decode back for every Unicode string; after the '
                  'README attach step get_toc returns exactly the preorder (titles, level = depth+1, page numbers, same order, no '
                  'error entry) for distinct titles, page targets and ANY catalog -- get_toc is modelled with its call of get_named_destinations '
                  '(C13\'s model, imported): a Dests / Names tree of whatever content does not influence the rows, and get_toc answers Err '
                  'exactly when get_named_destinations refuses the tree (malformed or deeper than 257 levels: outside the domain of the '
                  'read-back clause, proved in both directions and replayed) --, within one unit of fuel per '
                  'bookmark and within the reference budget; and the same table of contents and page list after a save/load '
                  'round trip, as a composition lemma over the C01 statement (objects equal up to number normalisation), whose premises are '
                  'discharged with C01_full (C17_reads_back_after_save_load_table / _after_save_load / _forest_after_save_load): the document '
                  'build_outline + attach produce is proved to stay in C01\'s domain (created objects are well-formed dictionaries under fresh '
                  'numbers), so the file save writes loads and get_toc of the loaded document is the same preorder -- table format for every '
                  'page tree, stream format (one more object after the reload) for page trees meeting C12\'s hypotheses. Forests '
                  'higher than OUTLINE_DEPTH_LIMIT+1 = 257 levels are a proved-and-replayed known finding (C17-deep-outline: '
                  'get_toc answers Err). adjust_zero_pages is proved to turn a table holding a forest into one holding the specified '
                  'fixed-up forest (first child with a page, recursively), the denoted forest has distinct ids and height <= number '
                  'of calls, and the whole pipeline calls -> adjust_zero_pages -> build_outline -> attach -> get_toc is composed; for '
                  'page trees meeting the hypotheses of C12 the page list is unchanged by the build, so the numbers are the original ones. '
                  'Tied to the implementation by differential runs through the public API incl. save_to + load_mem on every case.',
    'level_note': 'Trusted: Coq kernel; translator (DEREF_LIMIT, PAGE_TREE_DEPTH_LIMIT, OUTLINE_DEPTH_LIMIT and the budget/depth '
                  'shape anchors of get_outlines); hand-written models tied by correspondence (observable: bookmark table, all '
                  'objects after build_outline + attach, get_toc rows and error count, before and after reload); Rust std '
                  'is_ascii / encode_utf16 / from_utf16_lossy / from_utf8_lossy as modelled in Model/Outline.v and Model/Toc.v; '
                  'get_named_destinations = C13\'s Model/Query.v (tied there and, through get_toc, here); a catalog whose name tree '
                  'get_named_destinations refuses is outside the read-back theorem (get_toc = Err, proved); stack exhaustion of the '
                  'native recursions is outside the model; extraction/OCaml driver; Rust harness. No axioms; the reload theorem '
                  'takes the C01 round-trip statement as explicit premises.',
    'technique': 'Coq proof by refinement to a numbered forest (loop invariant of outline_child, invariant of add_bookmark, '
                 'fuel/budget/depth-indexed simulation of the First/Next walk) + differential correspondence',
    'design_ref': 'DESIGN.md 6 C17; notes/C17.md',
}
