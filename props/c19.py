"""C19 -- saving reports sink failures and ignores sink chunking."""
import re
import propcheck, vlib
from sxg import *
from objgen import ObjGen, rbytes

KINDS = ['other', 'brokenpipe', 'denied', 'wouldblock', 'timedout', 'writezero', 'eof', 'oom', 'invaliddata', 'storagefull']
# (the model and the harness also know 'isadir' and 'filetoolarge': what the real devices of the save(path) cases answer)
BUF = 8192   # std::io::DEFAULT_BUF_SIZE, the capacity of the BufWriter in Document::save(path)
BIG_MIN, BIG_MAX = 65537, 300000   # 'huge' documents: stream payloads of more than 64 KiB
BIG_TOTAL = 320000                 # ... all of them together (the extracted model recurses once per output byte: 8 MiB stack / 16)
BIG_EDGES = [65537, 65538, 65536 + 4096, 65536 + 4097, 65536 + 8192, 2 * 65536, 2 * 65536 + 1, 3 * 65536 + 1, 4 * 65536, 4 * 65536 + 1, BIG_MAX]


# ---------------------------------------------------------------------------------------------
# documents
# ---------------------------------------------------------------------------------------------
class Gen(ObjGen):
    """random objects; reals from a fixed list of f32 Display strings (what the bytes are is not C19's concern,
    so no round trip through Rust is needed to spell them)"""
    REALS = ['0', '-0', '0.5', '-1.25', '3.1415927', '612', '1000000', '0.000001', '-123456.79', '16777216',
             '340282350000000000000000000000000000000', '0.1', '9223372000000000000']

    def __init__(self, rng):
        ObjGen.__init__(self, rng, None, allow_ref=True)

    def real(self):
        return R(self.rng.choice(self.REALS))


def catalog_objs():
    return [((1, 0), D([('Type', N('Catalog')), ('Pages', REF(2, 0))])),
            ((2, 0), D([('Type', N('Pages')), ('Kids', A([REF(3, 0)])), ('Count', I(1))])),
            ((3, 0), D([('Type', N('Page')), ('Parent', REF(2, 0)), ('MediaBox', A([I(0), I(0), I(612), I(792)]))]))]


def gen_doc(rng, g, size):
    """size: 'tiny' (0-2 objects), 'small' (page tree + a few), 'medium' (20-60 objects with streams),
    'large' (as medium plus streams of 2-4 KiB and one larger than the 8 KiB write buffer of save(path): output of 20-40 KiB),
    'huge' (page tree, a few objects, one to three streams of 65 537 .. 300 000 bytes, sometimes one of exactly 65 536)"""
    objs = []
    pads = []
    if isinstance(size, tuple):
        size, big = size
    if size == 'tiny':
        n = rng.choice([0, 1, 1, 2])
        ids = rng.sample(range(1, 9), n)
        for i in ids:
            objs.append(((i, rng.choice([0, 0, 0, 3])), g.obj(rng.choice([0, 1]))))
    else:
        objs = catalog_objs()
        n = rng.randint(0, 4) if size in ('small', 'huge') else rng.randint(20, 60)
        used = {1, 2, 3}
        if size == 'huge':
            for ln in big:
                i = max(used) + rng.choice([1, 1, 2])
                used.add(i)
                pads.append((i, ln, rng.randrange(1 << 30)))
        if size == 'large':
            # big streams are described, not spelled out (the harness generates their content): lengths around the buffer
            # capacity on purpose; their object numbers are reserved here
            for ln in [rng.randint(2000, 4000), rng.choice([BUF - 1, BUF, BUF + 1, BUF + rng.randint(2, 3000)]), rng.randint(2000, 4000)] + \
                      [rng.randint(1000, 6000) for _ in range(rng.randint(0, 2))]:
                i = max(used) + rng.choice([1, 1, 2])
                used.add(i)
                pads.append((i, ln, rng.randrange(1 << 30)))
        for _ in range(n):
            i = rng.choice([max(used) + 1, max(used) + 1, max(used) + rng.randint(2, 4)])
            used.add(i)
            gen = rng.choice([0, 0, 0, 0, 1, 65535])
            r = rng.random()
            if r < 0.3:
                content = rbytes(rng, 60) if rng.random() < 0.7 else bytes(rng.randint(0, 255) for _ in range(rng.randint(0, 300)))
                ent = [('Length', I(len(content)))]
                if rng.random() < 0.2:
                    ent.append(('Type', N(rng.choice(['XObject', 'XRef', 'ObjStm', 'Metadata']))))
                objs.append(((i, gen), ST(ent, content)))
            elif r < 0.4:
                objs.append(((i, gen), D([('Type', N(rng.choice(['Font', 'XRef', 'ObjStm', 'Annot']))), ('K', g.obj(1))])))
            elif r < 0.45:
                objs.append(((i, gen), D([('Linearized', I(1)), ('L', I(1234))])))
            else:
                objs.append(((i, gen), g.obj(rng.choice([0, 1, 2, 3]))))
    top = max([i for (i, _), _ in objs] + [i for i, _, _ in pads] + [0])
    r = rng.random()
    max_id = top if r < 0.75 else (top + rng.randint(1, 5) if r < 0.9 else max(0, top - rng.randint(1, 2)))
    trailer = []
    if size != 'tiny' or rng.random() < 0.5:
        trailer.append(('Root', REF(1, 0)))
    if rng.random() < 0.3:
        trailer.append(('Size', I(rng.choice([max_id + 1, 0, 7, 99999]))))
    if rng.random() < 0.3:
        trailer.append(('ID', A([H(rbytes(rng, 16)), H(rbytes(rng, 16))])))
    if rng.random() < 0.15:
        trailer.append(('Filter', N('ASCIIHexDecode')))
    if rng.random() < 0.15:
        trailer.insert(0, ('Index', A([I(0), I(1)])))
    if rng.random() < 0.2:
        trailer.append(('Info', D([('Producer', S(b'c19'))])))
    version = rng.choice(['1.4', '1.5', '1.7', '2.0'])
    mark = rng.choice([b'', b'', bytes([0xBB, 0xAD, 0xC0, 0xDE]), bytes(rng.randint(128, 255) for _ in range(rng.randint(1, 6)))])
    return g.finish(DOC(version, mark, trailer, objs, max_id)), L('pad', *[L(str(i), str(ln), str(sd)) for i, ln, sd in pads])


def big_lengths(rng, first=None):
    """payload lengths of a huge document: above 64 KiB each, BIG_TOTAL together at most"""
    lens = [first or (rng.choice(BIG_EDGES) if rng.random() < 0.5 else rng.randint(BIG_MIN, BIG_MAX))]
    while rng.random() < 0.5 and BIG_TOTAL - sum(lens) >= BIG_MIN and len(lens) < 3:
        lens.append(rng.randint(BIG_MIN, min(BIG_MAX, BIG_TOTAL - sum(lens))))
    if rng.random() < 0.3 and BIG_TOTAL - sum(lens) >= 65536:
        lens.append(65536)       # the longest payload that is not "more than 64 KiB"
    rng.shuffle(lens)
    return lens


PAD_ALPHABET = b"abcdefghijklmnopqrstuvwxyz0123456789 ()<>[]/%\\\n\r\x00\xff"
_pad_cache = {}


def pad_content(ln, seed):
    """the payload the harness generates for (pad (id ln seed)) -- same generator as pad_content in harness/src/bin/c19.rs;
    used only to find where the payload lies in the reference output"""
    if (ln, seed) not in _pad_cache:
        M = (1 << 64) - 1
        st = (seed * 6364136223846793005 + 1442695040888963407) & M
        out = bytearray(ln)
        n = len(PAD_ALPHABET)
        for i in range(ln):
            st = (st * 6364136223846793005 + 1442695040888963407) & M
            out[i] = PAD_ALPHABET[(st >> 33) % n]
        _pad_cache[(ln, seed)] = bytes(out)
    return _pad_cache[(ln, seed)]


def payload_spans(fullhex, pad):
    """[(start, length)] of the big payloads in the complete output"""
    full = bytes.fromhex(fullhex[1:])
    spans = []
    for e in re.findall(r'\((\d+) (\d+) (\d+)\)', pad):
        ln, seed = int(e[1]), int(e[2])
        if ln < 65536:
            continue
        at = full.find(b'stream\n' + pad_content(ln, seed) + b'\nendstream')
        if at < 0:
            raise RuntimeError('C19 generator: the payload of (pad %s) is not in the reference output' % (e,))
        spans.append((at + 7, ln))
    return spans


def parts(hexatom):
    """x<hex> -> (f x.. x.. ...) with atoms of at most 256 bytes"""
    h = hexatom[1:]
    if len(h) <= 512:
        return hexatom
    return L('f', *['x' + h[i:i + 512] for i in range(0, len(h), 512)])


def base_doc():
    """previous revision for incremental saves"""
    objs = catalog_objs() + [((4, 0), ST([('Length', I(11))], b'BT (x) Tj ET')), ((5, 0), S(b'old'))]
    return DOC('1.5', bytes([0xE2, 0xE3, 0xCF, 0xD3]), [('Root', REF(1, 0)), ('Info', REF(5, 0))], objs, 5), L('pad')


# ---------------------------------------------------------------------------------------------
# scripts
# ---------------------------------------------------------------------------------------------
def r_accept(k): return L('a', str(k))
def r_fail(kind): return L('f', kind)


def soft_script(rng, total):
    """soft answers whose quota exceeds total"""
    style = rng.choice(['one', 'small', 'mixed', 'big', 'pattern'])
    pat = {'one': [1], 'small': [1, 2, 3], 'mixed': [1, 7, 64, 2, 500], 'big': [4096], 'pattern': [rng.randint(1, 9) for _ in range(rng.randint(1, 4))]}[style]
    p_int = rng.choice([0, 0.05, 0.3])
    out = []
    q = 0
    i = 0
    while q <= total + 8 and len(out) < 6000:
        if rng.random() < p_int:
            out.extend(['i'] * rng.choice([1, 1, 2, 5]))
        k = pat[i % len(pat)]
        i += 1
        out.append(r_accept(k))
        q += k
    return out


def hard_resp(rng, sticky=0.0):
    """a hard answer: given ONCE (the sink is healthy again afterwards, so a swallowed error shows up as a hole and an Ok), or,
    with probability `sticky`, at every later call as well (a writer that retries it never comes back)"""
    r = rng.random()
    h = r_fail(rng.choice(KINDS)) if r < 0.6 else ('z' if r < 0.85 else r_accept(0))
    return L('st', h) if rng.random() < sticky else h


def any_script(rng, total):
    """soft prefix of random quota, a hard answer, then arbitrary answers (the sink 'recovers')"""
    s = soft_script(rng, total)
    cutn = rng.randint(0, len(s))
    s = s[:cutn] + [hard_resp(rng, 0.2)]
    for _ in range(rng.choice([0, 0, 1, 3, 6])):
        s.append(rng.choice([r_accept(rng.randint(1, 50)), 'i', 'z', r_fail(rng.choice(KINDS)), r_accept(1)]))
    return s


def big_soft_script(rng, total, entries=0):
    """soft answers for big outputs: accepts of about a thousand bytes and more (the model's qwrite_all measures the rest of
    the buffer once per answer), quota above total; `entries`: at least so many answers (a call-driven sink uses one per call)"""
    pat = rng.choice([[4096], [8192], [65536], [65537], [1, 4095], [3000, 1, 1, 5000], [total + 9],
                      [rng.randint(1000, 70000) for _ in range(3)], [rng.randint(500, 3000), rng.randint(1, 9)]])
    p_int = rng.choice([0, 0.05, 0.3])
    out = []
    q = 0
    i = 0
    while q <= total + 8 or len(out) < entries:
        if rng.random() < p_int:
            out.append(rng.choice(['i', L('rep', str(rng.randint(2, 40)), 'i')]))
        k = pat[i % len(pat)]
        i += 1
        out.append(r_accept(k))
        q += k
    return out


def big_chunks(rng, quick):
    """how the model cuts a big output into write_all calls (its recursion depth is the longest call and the number of calls;
    its running time grows with the number of answers used per call)"""
    return L('chunks', *[str(k) for k in rng.choice([[4096], [8192, 1], [5000, 0, 3000], [1024]] + ([] if quick else [[65536], [70000, 2000]]))])


def big_tails(rng):
    """what the sink answers once the writer reaches the chosen offset: (tail, sticky-or-hard?) lists of answers"""
    k = lambda: rng.choice(KINDS)
    rp = lambda n: L('rep', str(n), 'i')
    return [
        ['z'],                                                                  # ONE zero-length write, healthy afterwards
        [L('st', 'z')],                                                         # zero-length writes for ever
        [r_fail(k())],                                                          # one hard error, healthy afterwards
        [L('st', r_fail(k()))],                                                 # hard errors for ever
        [rp(rng.choice([1, 7, 300, 4000]))],                                    # an Interrupted burst: retried, Ok
        [rp(rng.randint(1, 50)), rng.choice(['z', L('st', 'z'), r_accept(0), L('st', r_accept(0))])],   # burst, then Ok(0)
        [r_accept(1), r_accept(1), 'i', r_accept(3), rng.choice([r_fail(k()), L('st', r_fail(k()))])],  # short writes, hard error
        [r_accept(1), rp(3), r_accept(2), r_accept(4096), r_accept(1), r_accept(70000), 'i'],          # short writes only: Ok
    ]


def big_positions(rng, spans, total, quick):
    """(core, rest): offsets of the complete output at which the sink's answers change -- inside the payloads of more than
    64 KiB: first byte, middle, last byte, the bytes around them, the multiples of 4096 / 8192 / 65536 counted from the start of
    the payload and from the start of the output, random ones"""
    core, rest = set(), set()
    for s0, ln in spans:
        core |= {s0, s0 + ln // 2, s0 + ln - 1, s0 + 65536, s0 + 65535}
        rest |= {s0 - 1, s0 + 1, s0 + ln - 2, s0 + ln, s0 + ln + 1, s0 + 65537}
        for B in (4096, 8192, 65536):
            rel = list(range(1, (ln - 1) // B + 1))                    # s0 + k*B inside the payload
            absk = list(range(s0 // B + 1, (s0 + ln - 1) // B + 1))    # k*B inside the payload
            if B != 65536:
                few = 2 if quick else 8
                rel = rel[:1] + rel[-1:] + rng.sample(rel, min(few, len(rel)))
                absk = absk[:1] + absk[-1:] + rng.sample(absk, min(few, len(absk)))
            for k in rel:
                rest |= {s0 + k * B - 1, s0 + k * B, s0 + k * B + 1}
            for k in absk:
                rest |= {k * B - 1, k * B}
            if absk:
                core.add(absk[0] * B)
        for _ in range(3 if quick else 30):
            rest.add(s0 + rng.randrange(ln))
    core = sorted(p for p in core if 0 <= p <= total)
    rest = sorted(p for p in rest if 0 <= p <= total and p not in core)
    return core, rest


def chunks(rng, one_call=100000):
    """how the model cuts the output into write_all calls.  `one_call`: the size that stands for "everything in one call"; for
    outputs of tens of KiB a smaller one is used in sweeps, because the model's qwrite_all measures the rest of the call's
    buffer for every answer of the script (6000 one-byte answers x 30 KiB x 40 positions = minutes)"""
    return L('chunks', *[str(k) for k in rng.choice([[1], [2, 3], [0, 5, 1], [one_call], [7, 0, 0, 2], [1, 1, 64],
                                                     [rng.randint(0, 40) for _ in range(rng.randint(1, 5))] + [3]])])


# ---------------------------------------------------------------------------------------------
# cases
# ---------------------------------------------------------------------------------------------
def ref_pass(exe, items):
    """items: list of (cfgwords, (doc, pad), prevhex) -> list of dict(full, state, ids, cut, sizes) or None"""
    lines = [L('case', L('cfg', *cw), doc[0], prev, 'x', '0', L('chunks'), L('ref'), doc[1]) for cw, doc, prev in items]
    out = vlib.run_lines(exe, lines, timeout=600, shards=8)
    res = []
    for o in out:
        o = vlib.split_impl(o)[0]
        m = re.fullmatch(r'\(ref ok (x[0-9a-f]*) \(state (\d+) (\(d.*\))\) (\(ids[ 0-9]*\)) (-?\d+) (\(sizes[ 0-9]*\)) (-|\d+)\)', o)
        if not m or int(m.group(5)) < 0:
            res.append(None)
            continue
        res.append({'full': m.group(1), 'max_id': m.group(2), 'trailer': m.group(3), 'ids': m.group(4), 'cut': m.group(5),
                    'sizes': m.group(6), 'top': m.group(7)})
    return res


def path_positions(rng, total, cut, quick):
    """room (bytes the device takes before it fails) for the save(path) sweeps: every offset for short outputs, otherwise the
    offsets where the behaviour can change -- around the ends, the mutation point and the multiples of the buffer capacity
    (before them a flush inside save_internal sees the failure, in the last partial buffer only into_inner's flush does)
    -- plus random ones"""
    if total <= (400 if quick else 1000):
        return list(range(0, total + 2))
    ps = {0, 1, 2, total - 2, total - 1, total, total + 1, cut - 1, cut, cut + 1,
          cut - BUF - 1, cut - BUF, cut - BUF + 1, total - BUF - 1, total - BUF, total - BUF + 1}
    k = 1
    while k * BUF <= total + BUF:
        ps |= {k * BUF - 1, k * BUF, k * BUF + 1}
        k += 1
    for _ in range(16 if quick else 200):
        ps.add(rng.randrange(total))
    # the last partial buffer: failures that only the final flush meets
    last = (total // BUF) * BUF
    for _ in range(4 if quick else 40):
        ps.add(rng.randint(min(last, total - 1), total - 1))
    return sorted(p for p in ps if 0 <= p <= total + 1)


def probe_devices(exe, prev):
    """which failing devices this machine offers to the harness: {'full': bool, 'limit': bool}"""
    doc = base_doc()[0]
    mk = lambda job: L('case', L('cfg', 'table', 'plain', '5', L('d'), L('ids'), '5'), doc, 'x', prev, '0', L('chunks'), job)
    out = vlib.run_lines(exe, [mk(L('path', 'full', L('sizes'))), mk(L('path', L('limit', '10'), L('sizes')))], timeout=120)
    ok = [not vlib.split_impl(o)[0].startswith('(nodevice') for o in out]
    return {'full': ok[0], 'limit': ok[1]}


RULE_BASE = None


def gen_cases(rng, tier):
    global RULE_BASE
    exe, log = vlib.build_harness('c19')
    if exe is None:
        return []
    g = Gen(rng)
    quick = tier == 'quick'
    plan = [('tiny', 8 if quick else 120), ('small', 8 if quick else 150), ('medium', 4 if quick else 80), ('large', 2 if quick else 16)]
    docs = []
    for size, n in plan:
        for _ in range(n):
            docs.append((size, gen_doc(rng, g, size)))
    # stream payloads of more than 64 KiB (the first always holds the shortest such payload)
    for j in range(1 if quick else 10):
        # (quick tier: two payloads, about 150 KiB together; the model needs some 10 ms per save of that size)
        lens = [BIG_MIN, rng.randint(BIG_MIN, 100000)] if j == 0 else big_lengths(rng)
        docs.append(('huge', gen_doc(rng, g, ('huge', lens))))
    # previous revisions for the incremental configurations (one per xref format)
    prevs = ref_pass(exe, [((m, 'plain'), base_doc(), 'x') for m in ('table', 'stream')])
    prev_of = {'table': prevs[0]['full'], 'stream': prevs[1]['full']}
    dev = probe_devices(exe, prevs[0]['full'])
    if RULE_BASE is None:
        RULE_BASE = SPEC['rule']
    SPEC['rule'] = RULE_BASE + ('' if dev['full'] else ' [/dev/full is missing or accepts writes on this machine: the full-device cases were SKIPPED]') \
        + ('' if dev['limit'] else ' [RLIMIT_FSIZE cannot be set on this machine: the failing-file sweeps of save(path) were SKIPPED]')
    items = []
    for size, doc in docs:
        for m in ('table', 'stream'):
            for k in ('plain', 'inc'):
                if k == 'inc' and size in ('medium', 'large') and rng.random() < 0.5:
                    continue
                if k == 'inc' and size == 'huge' and not quick and rng.random() < 0.5:
                    continue
                prev = prev_of[m] if k == 'inc' else 'x'
                if k == 'inc' and rng.random() < 0.3:
                    # bytes before the file header (offsets are then relative to the first %PDF-, /repo bb85a17)
                    prev = xb(rng.choice([b'junk\n', b'\x00\x00', b'%PD %PDF', b'GET / HTTP/1.0\r\n\r\n'])) + prev[1:]
                items.append((size, m, k, doc, prev))
    refs = ref_pass(exe, [((m, k), doc, prev) for _, m, k, doc, prev in items])
    cases = []
    for (size, m, k, doc, prev), ref in zip(items, refs):
        tag = '%s-%s-%s' % (m, k, size)
        if ref is None:
            # no reference output: the save to a sink that takes everything failed, panicked or did not return
            cases.append((L('case', L('cfg', m, k, '0', L('d'), L('ids'), '-'), doc[0], prev, 'x', '0', L('chunks', '1'), L('perfect'), doc[1]),
                          {'kind': tag + '-perfect-sink', 'nontrivial': True}))
            continue
        total = (len(ref['full']) - 1) // 2
        cfg = L('cfg', m, k, ref['max_id'], ref['trailer'], ref['ids'], ref['top'])
        full_parts = parts(ref['full'])
        def case(job, ch=None):
            return L('case', cfg, doc[0], prev, full_parts, ref['cut'], ch or chunks(rng), job, doc[1])
        if size == 'huge':
            spans = payload_spans(ref['full'], doc[1])
            # soft sinks (short writes and Interrupted bursts inside the payloads): Ok and every byte
            cases.append((case(L('onelen', 'call', L('script', *big_soft_script(rng, total, 600))), big_chunks(rng, quick)),
                          {'kind': tag + '-soft-call', 'nontrivial': True}))
            cases.append((case(L('onelen', 'pos', L('script', *big_soft_script(rng, total))), big_chunks(rng, quick)),
                          {'kind': tag + '-soft-pos', 'nontrivial': True}))
            # Ok(0), hard errors (once / for ever), Interrupted bursts, short writes at offsets inside the payloads
            core, rest = big_positions(rng, spans, total, quick)
            tails = big_tails(rng)
            T = lambda ts: L('tails', *[L('t', *t) for t in ts])
            at = lambda ps: L('at', *[str(p) for p in ps])
            for half in (tails[:4], tails[4:]):
                cases.append((case(L('sweepat', L('script', *big_soft_script(rng, total)), T(half), at(core)), big_chunks(rng, quick)),
                              {'kind': tag + '-payload-core', 'nontrivial': True}))
            n = 2 if quick else 4
            for i in range(n):
                some = [tails[1], rng.choice([tails[0], tails[5], tails[2], tails[3], tails[6]])] if quick else \
                       [tails[1], rng.choice([tails[0], tails[5]]), rng.choice([tails[2], tails[3], tails[6]])]
                cases.append((case(L('sweepat', L('script', *big_soft_script(rng, total)), T(some), at(rest[i::n])), big_chunks(rng, quick)),
                              {'kind': tag + '-payload-offsets', 'nontrivial': True}))
            if dev['limit'] and ref['sizes'] != '(sizes)':
                ps = path_positions(rng, total, int(ref['cut']), quick)
                ps = sorted(set(ps[::(5 if quick else 2)]) | {s0 + d for s0, ln in spans for d in (0, ln - 1, 65536)})
                cases.append((case(L('psweep', ref['sizes'], L('at', *[str(p) for p in ps])), L('chunks', '1')),
                              {'kind': tag + '-path-limit-sweep', 'nontrivial': True}))
            continue
        # (1) soft sinks, call-driven: Ok and every byte, whatever the short-write pattern
        for _ in range(2 if quick else 4):
            cases.append((case(L('one', 'call', L('script', *soft_script(rng, total)))), {'kind': tag + '-soft-call', 'nontrivial': True}))
        cases.append((case(L('one', 'pos', L('script', *soft_script(rng, total)))), {'kind': tag + '-soft-pos', 'nontrivial': True}))
        # (2) arbitrary scripts with hard answers, positional
        for _ in range(3 if quick else 8):
            cases.append((case(L('one', 'pos', L('script', *any_script(rng, total)))), {'kind': tag + '-hard-pos', 'nontrivial': True}))
        # (3) failure at every offset (small outputs) / sampled offsets (larger ones)
        nsweeps = 1 if quick else 3
        for _ in range(nsweeps):
            if size in ('medium', 'large'):
                step = max(1, total // (40 if quick else 400))
                lo = rng.randrange(step)
            else:
                # short outputs: one failure at EVERY offset (incremental saves: of the previous revision's bytes as well)
                step, lo = 1, 0
            job = L('sweep', L('script', *soft_script(rng, total)), hard_resp(rng, 0.25), str(lo), str(total), str(step))
            cases.append((case(job, chunks(rng, 100000 if step == 1 else 512)),
                          {'kind': tag + ('-sweep-all' if step == 1 else '-sweep-sampled'), 'nontrivial': True}))
        # (4) Document::save(path) / IncrementalDocument::save(path) on real files whose device fails
        sizes = ref['sizes']
        if sizes == '(sizes)':
            continue
        fixed = L('chunks', '1')
        cases.append((case(L('path', 'file', sizes), fixed), {'kind': tag + '-path-file', 'nontrivial': True}))
        cases.append((case(L('path', 'dir', sizes), fixed), {'kind': tag + '-path-dir', 'nontrivial': True}))
        if dev['full']:
            cases.append((case(L('path', 'full', sizes), fixed), {'kind': tag + '-path-devfull', 'nontrivial': True}))
        if dev['limit']:
            ps = path_positions(rng, total, int(ref['cut']), quick)
            cases.append((case(L('psweep', sizes, L('at', *[str(p) for p in ps])), fixed),
                          {'kind': tag + '-path-limit-sweep', 'nontrivial': True}))
    return cases


SPEC = {
    'gen_parts': ['Consts'],
    'allowed_axioms': (),
    'runner': 'c19',
    'bin': 'c19',
    'gen_cases': gen_cases,
    'rule': 'generated documents (0-60 objects incl. streams, skipped XRef/ObjStm/Linearized objects, sparse ids, generations, '
            'wrong max_id, stale Size/Filter/Index in the trailer, four versions, binary marks) x {xref table, xref stream} x '
            '{Document::save_to, IncrementalDocument::save_to} against scripted std::io::Write sinks: short writes 1..k, '
            'Interrupted bursts, Ok(0), hard errors of 10 ErrorKinds, sinks that recover after a failure; ONE failure (the sink is healthy '
            'again afterwards, so a swallowed error shows as Ok with a hole) or, for a quarter of the sweeps, a failure repeated for ever, injected at '
            'EVERY byte offset of the complete output for tiny/small documents (plain and incremental, the previous revision\'s bytes included) '
            'and at sampled offsets for larger ones; '
            'documents with one to three stream payloads of 65 537 .. 300 000 bytes (quick tier: 65 537 and one of 65 537 .. 100 000; a payload of '
            'exactly 65 536 beside them in some) x both formats x plain/incremental: at the first, middle and last byte of each payload, the bytes around them, '
            'the multiples of 65536 and sampled multiples of 4096 and 8192 counted from the payload start and from the output start, and random offsets inside, the sink '
            'answers Ok(0) once / Ok(0) for ever / a hard error once / for ever / an Interrupted burst of up to 4000 / a burst then Ok(0) / '
            'short writes then a hard error / short writes only; short-write and Interrupted patterns over the whole payload; RLIMIT_FSIZE limits inside the payloads; '
            'a save that does not return is a violation: the sink aborts a writer that is still offering bytes after 10 000 consecutive answers without progress, '
            'and a save running for more than 30 s is abandoned and reported; a document whose reference save (perfect sink) fails, panics or hangs is a failing case of its own; '
            'the model is given the implementation\'s own reference output cut into arbitrary write_all calls; '
            'after each run the document must be in its original state or exactly that of a successful save (an IncrementalDocument: no raise of max_id, '
            'previous bytes and previous document untouched) with version, mark and objects unchanged, and '
            'each run is followed by a re-save of the same document object to a healthy sink which must load back to the reference content; '
            'Document::save(path) and IncrementalDocument::save(path) (BufWriter<File> + into_inner) on the same documents, outputs from '
            '100 bytes to 40 KiB (below and above the 8 KiB buffer, streams of capacity-1/capacity/capacity+1 bytes): a healthy temporary '
            'file, a directory path (File::create fails), /dev/full (every write fails), and temporary files under RLIMIT_FSIZE = p '
            '(the kernel takes p bytes, then every write fails with EFBIG) for every p on short outputs and for p around 0, the mutation '
            'point, every multiple of 8192, the last partial buffer and the end on long ones; the model (Model/SinkBuf.v) is run with the '
            'write_all buffer sizes measured on the implementation; '
            'non-trivial = every case; distinct = distinct case text',
    'extra_trusted': ['C19: std::io::Write::write_all (retry on Interrupted, WriteZero on Ok(0), advance on short write) transcribed from the std source',
                      'C19: std::io::BufWriter (capacity 8192; write_all buffers or flushes then writes through; flush_buf = the write_all loop on the '
                      'buffer; into_inner flushes and reports the error; Drop flushes and discards it) transcribed from the std source/documentation',
                      'C19: the kernel\'s RLIMIT_FSIZE behaviour (short write up to the limit, EFBIG afterwards) and /dev/full (ENOSPC) as failing devices',
                      'C19: the complete output fed to the model is the implementation\'s own (perfect sink); what the bytes ARE is C01/C03\'s concern',
                      'C19: for outputs above 64 KiB the model answers with result + delivered LENGTH (its printer is not stack-safe for 300 KB atoms); that the '
                      'delivered bytes are a prefix of the reference output is checked by the harness directly',
                      'C19: "never returns" is decided by bounds: 10 000 consecutive sink answers without progress, or 30 s of wall time for one save'],
    'partial_note': 'stream format: the BYTES of a re-save differ from a pristine save in the cross-reference stream object (new object '
                    'number, Size, Index), so byte identity is proved up to that object only (C19_resave_stream_partial, '
                    'C19_incremental_resave_stream_partial); that the re-saved file LOADS to the same content is proved by composition '
                    '(plain: C19_resave_after_failure_loads with C01; incremental: C19_incremental_resave_after_failure_loads with C07, '
                    'for updates in the domain of C07\'s history step) and evaluated on the implementation for every case',
    'model_shards': 16,
    'impl_shards': 8,
    'model_timeout': 3600,   # thorough tier on a busy machine (quick: a few seconds per shard)
    'impl_timeout': 3600,
}


def run(ctx):
    return propcheck.standard_check(ctx, SPEC)


MANIFEST = {
    'level_text': 'Machine-checked proof (Coq) about the model of CountingWrite + std write_all + the ?-chained write sequence of '
                  'save_internal, for EVERY list of write_all buffers and EVERY sink script: a sink without hard failures receives '
                  'every byte in order with result Ok and an exact counter under all short-write/Interrupted patterns and all '
                  're-chunkings (C19_chunking_irrelevant); Ok is returned iff the sink holds the complete output and delivered bytes '
                  'are always a prefix (C19_ok_iff_complete); a hard answer (error or Ok(0)) is returned as that very error '
                  '(C19_failure_is_error_and_prefix, C19_failure_at_position); the counter read before each call equals the bytes '
                  'really delivered (C19_counter_exact); a failed save leaves the document either untouched or with exactly the '
                  'bookkeeping mutation of a successful one (C19_failed_save_residue, C19_resave_table, C19_resave_stream_partial); the '
                  'incremental path is observably the plain one (C19_incremental_is_plain); all of it instantiated at Model/Save.v '
                  '(C19_save_*). Document::save(path) = File::create?, save_internal into a BufWriter, into_inner()? (Model/SinkBuf.v): '
                  'for every capacity, call list and file script Ok is returned iff no underlying write failed -- the final flush '
                  'included -- and only with the complete file, the error is that of the first failure, the file always holds a prefix '
                  '(C19_save_path_ok_iff_complete, C19_save_path_full_device, C19_save_path_residue). '
                  'Re-save clause, composed with C01_full: whatever state a failed save_to / save(path) leaves (for any recorded ids), the document is '
                  'still in C01\'s domain, a re-save in either format loads, and the loaded document is same_doc to the ORIGINAL document '
                  '(C19_resave_after_failure_loads, C19_resave_after_failed_save_path_loads). '
                  'IncrementalDocument::save_to with state (save_inc_with): the previous bytes never change, new_document is the original '
                  '(no raise of max_id here) or mutated exactly as by a successful save (C19_incremental_failed_save_residue); a re-save '
                  'issues the same calls (table) / the same bytes up to the cross-reference stream object (stream) '
                  '(C19_incremental_resave, C19_incremental_resave_stream_partial); composed with C07\'s byte-level history: the re-save '
                  'succeeds, is again a step of the history and loads to the overlay a pristine incremental save loads to, up to the number '
                  'of the cross-reference stream object (C19_incremental_resave_after_failure_loads). '
                  'Tied to the real save_to by differential runs with scripted sinks at every failure offset, and to the real '
                  'save(path) by runs on a healthy file, a directory, /dev/full and RLIMIT_FSIZE-limited files.',
    'level_note': 'Trusted: Coq kernel; std write_all and BufWriter transcriptions; hand-written model tied by correspondence (result class, '
                  'delivered bytes, max_id/trailer after the save, byte-identity of the re-save; directly on the implementation: version, mark, objects, '
                  'previous bytes and previous document untouched by any save); extraction/OCaml driver; Rust harness. '
                  'What the saved bytes are and that they load back is C01 (composed: Proofs/ComposeSink.v, for documents of C01\'s domain below 4 GiB); '
                  'the re-save clause is also checked end-to-end on the implementation. No axioms.',
    'technique': 'Coq proof by induction over sink scripts and call lists + differential correspondence with fault-injecting sinks',
    'design_ref': 'DESIGN.md 6 C19',
}
