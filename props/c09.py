"""C09 -- stream filters decode as specified; compression is lossless.

Reference encoders live here (ISO 32000 7.4.3 ASCII85, PNG 1.2 section 6 filters, PDF/TIFF LZW with
EarlyChange 0/1, zlib from the Python standard library); they generate the inputs, the plain data they
started from is the expected decoding.  The model's third-party oracles (inflate / lzw / deflate) are
answered in the case itself: by the reference (the plain data the reference encoder was given) for legal
streams, by flate2 / weezl through `c09 --oracle` for flate2's compressed bytes and for damaged streams."""
import zlib
import propcheck, vlib
from sxg import *

# ------------------------------------------------------------------------------------------
# reference encoders
# ------------------------------------------------------------------------------------------
def a85_encode(data, rng=None, use_z=True, eod=True, ws=0.0, trailing=b''):
    """ISO 32000 7.4.3: 4 bytes -> 5 digits base 85 ('!'..'u'), all-zero group -> 'z',
    final n bytes (1..3) -> n+1 digits of the zero-padded group, then '~>'"""
    out = bytearray()
    def sep():
        if rng is not None and ws and rng.random() < ws:
            out.extend(rng.choice([b' ', b'\n', b'\r\n', b'\t', b'\x0c', b'  ', b'\x00']))   # ISO 32000-1 table 1
    for i in range(0, len(data), 4):
        g = data[i:i + 4]
        n = len(g)
        v = int.from_bytes(g + bytes(4 - n), 'big')
        if n == 4 and v == 0 and use_z:
            sep(); out.append(ord('z')); continue
        ds = []
        for _ in range(5):
            ds.append(v % 85); v //= 85
        ds.reverse()
        for d in ds[:n + 1]:
            sep(); out.append(33 + d)
    sep()
    if eod:
        out.extend(b'~>')
    out.extend(trailing)
    return bytes(out)


def paeth(a, b, c):
    p = a + b - c
    pa, pb, pc = abs(p - a), abs(p - b), abs(p - c)
    if pa <= pb and pa <= pc:
        return a
    if pb <= pc:
        return b
    return c


def png_predict(t, left, above, ul):
    if t == 0: return 0
    if t == 1: return left
    if t == 2: return above
    if t == 3: return (left + above) // 2
    return paeth(left, above, ul)


def png_encode_row(t, bpp, prior, raw):
    """Filt(x) = Raw(x) - Pred(Raw(x-bpp), Prior(x), Prior(x-bpp)), bytes before the first pixel are 0"""
    out = bytearray()
    for i, x in enumerate(raw):
        left = raw[i - bpp] if i >= bpp else 0
        ul = prior[i - bpp] if i >= bpp else 0
        out.append((x - png_predict(t, left, prior[i], ul)) & 255)
    return bytes(out)


def png_encode_frame(types, bpp, rows):
    out = bytearray()
    prior = bytes(len(rows[0])) if rows else b''
    for t, raw in zip(types, rows):
        out.append(t)
        out.extend(png_encode_row(t, bpp, prior, raw))
        prior = raw
    return bytes(out)


def lzw_encode(data, early=1):
    """PDF LZWDecode / TIFF LZW: MSB first, 9..12 bit codes, 256 = clear, 257 = EOD.  The decoder adds its
    table entry one code later than the encoder; the code width grows when the decoder's next free code
    plus `early` reaches 2^width."""
    CLEAR, EOD = 256, 257
    bits = []
    state = {'width': 9, 'next': 258}
    def emit(code):
        w = state['width']
        for k in range(w - 1, -1, -1):
            bits.append((code >> k) & 1)
    def bump():
        state['next'] += 1
        if state['next'] - 1 + early >= (1 << state['width']) and state['width'] < 12:
            state['width'] += 1
    table = {bytes([i]): i for i in range(256)}
    emit(CLEAR)
    w = b''
    for c in data:
        wc = w + bytes([c])
        if wc in table:
            w = wc
            continue
        emit(table[w])
        table[wc] = state['next']
        bump()
        if state['next'] >= 4093:
            emit(CLEAR)
            table = {bytes([i]): i for i in range(256)}
            state['width'] = 9
            state['next'] = 258
        w = bytes([c])
    if w:
        emit(table[w])
        bump()
    emit(EOD)
    while len(bits) % 8:
        bits.append(0)
    out = bytearray()
    for i in range(0, len(bits), 8):
        v = 0
        for b in bits[i:i + 8]:
            v = (v << 1) | b
        out.append(v)
    return bytes(out)


def lzw_decode(data, early=1):
    """reference decoder (used to self-check the encoder)"""
    CLEAR, EOD = 256, 257
    out = bytearray()
    pos = 0
    nbits = len(data) * 8
    width = 9
    table = [bytes([i]) for i in range(256)] + [None, None]
    prev = None
    while pos + width <= nbits:
        code = 0
        for k in range(width):
            code = (code << 1) | ((data[(pos + k) >> 3] >> (7 - ((pos + k) & 7))) & 1)
        pos += width
        if code == CLEAR:
            table = table[:258]; width = 9; prev = None; continue
        if code == EOD:
            break
        if prev is None:
            entry = table[code]
        else:
            if code < len(table):
                entry = table[code]
            elif code == len(table):
                entry = prev + prev[:1]
            else:
                raise ValueError('bad code')
            table.append(prev + entry[:1])
        out.extend(entry)
        prev = entry
        if len(table) + early >= (1 << width) and width < 12:
            width += 1
    return bytes(out)


# ------------------------------------------------------------------------------------------
# building streams
# ------------------------------------------------------------------------------------------
FL, LZ, A8 = 'FlateDecode', 'LZWDecode', 'ASCII85Decode'
ALL_CHAINS = [[a] for a in (FL, LZ, A8)] + [[a, b] for a in (FL, LZ, A8) for b in (FL, LZ, A8)] + \
             [[a, b, c] for a in (FL, LZ, A8) for b in (FL, LZ, A8) for c in (FL, LZ, A8)]


def rand_bytes(rng, n, kind=None):
    kind = kind or rng.choice(['random', 'text', 'zeros', 'runs', 'small'])
    if kind == 'random':
        return bytes(rng.getrandbits(8) for _ in range(n))
    if kind == 'text':
        words = [b'BT', b'ET', b'/F1 12 Tf', b'(Hello) Tj', b'0 0 1 rg', b'100 200 Td', b'q', b'Q', b'1 0 0 1 0 0 cm']
        out = bytearray()
        while len(out) < n:
            out.extend(rng.choice(words)); out.append(10)
        return bytes(out[:n])
    if kind == 'zeros':
        return bytes(n)
    if kind == 'runs':
        out = bytearray()
        while len(out) < n:
            out.extend(bytes([rng.getrandbits(8)]) * rng.randint(1, 9))
        return bytes(out[:n])
    return bytes(rng.choice([0, 1, 2, 254, 255, 128]) for _ in range(n))


def divisors(n):
    return [d for d in range(1, n + 1) if n % d == 0]


class Built:
    """a stream under construction: dictionary entries, content, oracle table, expected plain data"""
    def __init__(self):
        self.orc = []          # (tag, in, out)
        self.tags = set()


def pick_geometry(rng, length, free):
    """(colors, bpc, columns, nrows) with colors*bpc/8*columns*nrows == length; when `free` the caller will
    generate data of the returned size instead"""
    if free:
        colors = rng.choice([1, 1, 2, 3, 4, 5])
        bpc = rng.choice([8, 8, 16])
        columns = rng.choice([1, 2, 3, 4, 5, 7, 8, 16, 31])
        nrows = rng.choice([0, 1, 1, 2, 3, 4, 6])
        return colors, bpc, columns, nrows
    cands = []
    for colors in (1, 2, 3, 4):
        for bpc in (8, 16):
            bpp = colors * bpc // 8
            if length % bpp == 0:
                cands.append((colors, bpc))
    colors, bpc = rng.choice(cands)         # (1, 8) always qualifies
    pixels = length // (colors * bpc // 8)
    if pixels == 0:
        return colors, bpc, rng.choice([1, 3, 8]), 0
    nrows = rng.choice(divisors(pixels)[:12])
    return colors, bpc, pixels // nrows, nrows


def predictor_stage(rng, b, data, free, parm_entries):
    """choose predictor parameters for one Flate/LZW stage, return the bytes to compress.
    data is the stage's decoded output (ignored when free: then fresh data of a fitting size is returned too)"""
    pred = rng.choice([10, 11, 12, 13, 14, 15])
    colors, bpc, columns, nrows = pick_geometry(rng, len(data), free)
    bpp = colors * bpc // 8
    bpr = bpp * columns
    if free:
        data = rand_bytes(rng, bpr * nrows)
    rows = [data[i * bpr:(i + 1) * bpr] for i in range(nrows)]
    if pred == 15 or rng.random() < 0.3:
        types = [rng.randint(0, 4) for _ in rows]
    else:
        types = [pred - 10] * len(rows)
    for t in types:
        b.tags.add('png%d' % t)
    b.tags.add('bpp%d' % bpp)
    ent = [('Predictor', I(pred))]
    if columns != 1 or rng.random() < 0.5:
        ent.append(('Columns', I(columns)))
    if colors != 1 or rng.random() < 0.3:
        ent.append(('Colors', I(colors)))
    if bpc != 8 or rng.random() < 0.3:
        ent.append(('BitsPerComponent', I(bpc)))
    rng.shuffle(ent)
    parm_entries.extend(ent)
    return png_encode_frame(types, bpp, rows), data


def build_chain(rng, chain, form, plain_len=None, a85_opts=None, force_ec='any', plain_kind=None, pred=True):
    """returns (dict entries, content, orc list, plain, tags).  form: 'dict' | 'array' | 'none'"""
    b = Built()
    n = len(chain)
    # decide per stage parameters first (innermost stage = last filter gets free geometry)
    want_pred = [pred and f != A8 and form != 'none' and rng.random() < 0.7 for f in chain]
    if form == 'dict':
        # one dictionary: only legal for a single filter
        assert n == 1
    plain = rand_bytes(rng, plain_len if plain_len is not None else rng.choice([0, 1, 2, 3, 4, 5, 7, 8, 9, 16, 33, 64, 100, 257]), plain_kind)
    data = plain
    parms = [None] * n
    for i in range(n - 1, -1, -1):
        f = chain[i]
        ent = []
        if f == A8:
            o = dict(a85_opts or {})
            if not o:
                o = {'use_z': rng.random() < 0.85, 'eod': rng.random() < 0.85, 'ws': rng.choice([0, 0, 0.05, 0.3]),
                     'trailing': rng.choice([b'', b'', b'', b'\n', b'\r\n'])}
            if not o.get('eod', True):
                b.tags.add('a85-noeod')
            if o.get('ws'):
                b.tags.add('a85-ws')
            if len(data) % 4:
                b.tags.add('a85-partial%d' % (len(data) % 4))
            enc = a85_encode(data, rng, **o)
            if b'z' in enc:
                b.tags.add('a85-z')
            data = enc
        else:
            payload = data
            if want_pred[i]:
                free = (i == n - 1)
                payload, newdata = predictor_stage(rng, b, data, free, ent)
                if free:
                    plain = newdata
                    data = newdata
            if f == FL:
                level = rng.choice([0, 1, 6, 9])
                enc = zlib.compress(payload, level)
                b.orc.append(('f', enc, payload))
                b.tags.add('flate-l%d' % level)
            else:
                ec = rng.choice([None, 0, 1]) if form != 'none' else None
                if force_ec != 'any':
                    ec = force_ec
                early = 1 if ec is None else ec
                if ec is not None:
                    ent.append(('EarlyChange', I(ec)))
                enc = lzw_encode(payload, early)
                b.orc.append(('l%d' % early, enc, payload))
                b.tags.add('lzw-e%s' % ec)
                if len(payload) > 300:
                    b.tags.add('lzw-10bit')
            data = enc
        parms[i] = ent
    entries = []
    if n == 1 and rng.random() < 0.6:
        entries.append(('Filter', N(chain[0])))
    else:
        entries.append(('Filter', A([N(f) for f in chain])))
    any_parms = any(parms[i] for i in range(n))
    if form == 'dict' and any_parms:
        entries.append(('DecodeParms', D(parms[0])))
        b.tags.add('parms-dict')
    elif form == 'array' and (any_parms or rng.random() < 0.3):
        entries.append(('DecodeParms', A([D(p) if p or rng.random() < 0.3 else NULL for p in parms])))
        b.tags.add('parms-array')
    if rng.random() < 0.7:
        entries.append(('Length', I(len(data) if rng.random() < 0.8 else rng.randint(0, 999))))
    if rng.random() < 0.3:
        entries.insert(0, ('Type', N('XObject')))
    rng.shuffle(entries)
    b.tags.add('chain%d' % n)
    return entries, data, b.orc, plain, b.tags


def orc_sx(orc):
    return L('orc', *[L(t, xb(i), xb(o)) for (t, i, o) in orc])


class Pending:
    """a case whose oracle table still needs answers from the harness oracle mode (queries) or from the Gallina
    encoders of Spec/LzwSpec.v / Spec/ZlibStoredSpec.v through the extracted runner (spec_queries)"""
    def __init__(self, make, queries, tags, spec_queries=()):
        self.make = make          # answers(dict (tag,in)->out, and ('spec', line)->out) -> case line
        self.queries = queries    # list of (tag, in)
        self.tags = tags
        self.spec_queries = list(spec_queries)   # runner lines (case lzwenc ..) / (case zenc ..)


def stream_case(entries, content, orc, expect, newc, plain_only=None):
    ex = L('plain', xb(expect)) if expect is not None else (L('plainonly', xb(plain_only)) if plain_only is not None else L('none'))
    return L('case', 'stream', ST(entries, content), orc_sx(orc), ex, xb(newc))


def gen_valid_stream(rng, chain=None, form=None, big=False, force_ec='any', plain_kind=None, pred=True):
    chain = chain or rng.choice(ALL_CHAINS)
    if form is None:
        form = rng.choice(['dict', 'array', 'array', 'none']) if len(chain) == 1 else rng.choice(['array', 'array', 'none'])
    plain_len = rng.choice([1000, 3000, 6000]) if big else None
    entries, content, orc, plain, tags = build_chain(rng, chain, form, plain_len, force_ec=force_ec, plain_kind=plain_kind, pred=pred)
    newc = rand_bytes(rng, rng.choice([0, 1, 5, 40]))
    line = stream_case(entries, content, orc, plain, newc)
    return line, {'kind': 'chain-' + '+'.join(f[:2] for f in chain), 'nontrivial': True, 'cov': sorted(tags)}


def late_differs(enc, payload):
    """reading an EarlyChange-1 stream with the late width switch does not give the data (so the default matters)"""
    try:
        return lzw_decode(enc, 0) != payload
    except (ValueError, IndexError, TypeError):
        return True


NOEC_VARIANTS = ['empty', 'pred', 'pred', 'pred1', 'cols', 'other', 'arr-empty', 'arr-pred', 'a85-arr-empty', 'a85-arr-pred',
                 'lzw-flate-arr', 'shared-dict-pred']


def gen_lzw_noec(rng, variant, encoder):
    """LZWDecode with a DecodeParms dictionary that EXISTS but has no EarlyChange entry (only predictor parameters,
    foreign keys, or nothing at all): ISO 32000-1 table 8 says EarlyChange defaults to 1.  The data is long enough for
    the code width to change from 9 to 10 bits (more than 300 codes), the only place where the default shows.
    encoder: 'py' = the reference encoder above, 'weezl' = weezl's own encoder through `c09 --oracle` (e1).
    The expected decoding is the plain data the encoders were given."""
    tags = {'kind': 'lzw-parms-noec-' + variant, 'nontrivial': True, 'cov': ['lzw-e-absent-in-dict', 'lzw-10bit', 'enc-' + encoder]}
    kind = 'random' if encoder == 'weezl' else rng.choice(['random', 'random', 'runs', 'text'])
    size = rng.choice([1000, 1500, 2500]) if encoder == 'weezl' else rng.choice([600, 1000, 1500, 2500])
    def build(size):
        ent = []
        if 'pred' in variant and variant != 'pred1':
            colors, bpc, columns = rng.choice([1, 1, 3, 4]), rng.choice([8, 8, 16]), rng.choice([1, 5, 16, 31, 64])
            bpp = colors * bpc // 8
            bpr = bpp * columns
            nrows = max(2, size // bpr)
            plain = rand_bytes(rng, bpr * nrows, kind)
            rows = [plain[i * bpr:(i + 1) * bpr] for i in range(nrows)]
            pred = rng.randint(10, 15)
            types = [rng.randint(0, 4) for _ in rows] if pred == 15 or rng.random() < 0.3 else [pred - 10] * nrows
            payload = png_encode_frame(types, bpp, rows)
            ent = [('Predictor', I(pred)), ('Columns', I(columns))]
            if colors != 1 or rng.random() < 0.3:
                ent.append(('Colors', I(colors)))
            if bpc != 8 or rng.random() < 0.3:
                ent.append(('BitsPerComponent', I(bpc)))
            rng.shuffle(ent)
        else:
            plain = payload = rand_bytes(rng, size, kind)
            if variant == 'pred1':
                ent = [('Predictor', I(1))] + ([('Columns', I(7))] if rng.random() < 0.5 else [])
            elif variant == 'cols':
                ent = [('Columns', I(rng.choice([1, 5, 100])))]
            elif variant == 'other':
                ent = [('K', I(-1)), ('BlackIs1', B(False))]
        return plain, payload, ent
    plain, payload, ent = build(size)
    while encoder == 'py' and variant != 'lzw-flate-arr' and (len(lzw_encode(payload, 1)) * 8) // 10 <= 320:
        size *= 2                   # compressible data: make it longer until the code width changes
        plain, payload, ent = build(size)
    orc = []
    if variant == 'lzw-flate-arr':
        # [LZW Flate] with [<< >> null]: the LZW stage carries a zlib stream
        z = zlib.compress(payload, rng.choice([0, 1, 9]))
        while (len(lzw_encode(z, 1)) * 8) // 10 <= 320:
            payload = plain = payload + rand_bytes(rng, 1000, 'random')
            z = zlib.compress(payload, 0)
        orc.append(('f', z, payload))
        payload = z
    newc = rand_bytes(rng, rng.choice([0, 5]))
    def finish(enc):
        o = orc + [('l1', enc, payload)]
        content = enc
        if variant in ('arr-empty', 'arr-pred'):
            entries = [('Filter', rng.choice([N(LZ), A([N(LZ)])])), ('DecodeParms', A([D(ent)]))]
        elif variant in ('a85-arr-empty', 'a85-arr-pred'):
            content = a85_encode(enc, rng)
            entries = [('Filter', A([N(A8), N(LZ)])), ('DecodeParms', A([NULL, D(ent)]))]
        elif variant == 'lzw-flate-arr':
            entries = [('Filter', A([N(LZ), N(FL)])), ('DecodeParms', A([D(ent), NULL]))]
        elif variant == 'shared-dict-pred':
            # one dictionary for [ASCII85 LZW]: lopdf hands it to every stage; ASCII85 takes no parameters
            content = a85_encode(enc, rng)
            entries = [('Filter', A([N(A8), N(LZ)])), ('DecodeParms', D(ent))]
        else:
            entries = [('Filter', rng.choice([N(LZ), A([N(LZ)])])), ('DecodeParms', D(ent))]
        if rng.random() < 0.7:
            entries.append(('Length', I(len(content))))
        rng.shuffle(entries)
        return stream_case(entries, content, o, plain, newc)
    if encoder == 'py':
        enc = lzw_encode(payload, 1)
        assert (len(enc) * 8) // 10 > 300 and lzw_decode(enc, 1) == payload and late_differs(enc, payload)
        return finish(enc), tags
    def make(ans):
        enc = ans[('e1', payload)]
        assert (len(enc) * 8) // 10 > 300 and lzw_decode(enc, 1) == payload, 'weezl encoder and reference decoder disagree'
        return finish(enc)
    return Pending(make, [('e1', payload)], tags), None


def gen_unfiltered(rng):
    """no Filter: get_plain_content = content; compress consults flate2 (oracle z)"""
    kind = rng.choice(['zeros', 'text', 'runs', 'random', 'small'])
    n = rng.choice([0, 1, 10, 19, 20, 25, 30, 31, 32, 33, 34, 35, 40, 50, 64, 100, 300, 2000])
    content = rand_bytes(rng, n, kind)
    entries = []
    if rng.random() < 0.6:
        entries.append(('Length', I(n if rng.random() < 0.8 else n + 3)))
    if rng.random() < 0.25:
        entries.append(('DecodeParms', rng.choice([D([('Predictor', I(12)), ('Columns', I(4))]), A([D([('Predictor', I(15))])]), NULL])))
    if rng.random() < 0.3:
        entries.append(('Type', N('Metadata')))
    rng.shuffle(entries)
    newc = rand_bytes(rng, rng.choice([0, 3, 17]))
    def make(ans):
        z = ans[('z', content)]
        return stream_case(entries, content, [('z', content, z), ('f', z, content)], content, newc)
    return Pending(make, [('z', content)], {'kind': 'unfiltered-' + kind, 'nontrivial': n > 0})


def damage_bytes(rng, data):
    if not data:
        return b'\x00'
    d = bytearray(data)
    how = rng.choice(['flip', 'trunc', 'insert', 'junk'])
    if how == 'flip':
        i = rng.randrange(len(d)); d[i] ^= 1 << rng.randrange(8)
    elif how == 'trunc':
        d = d[:rng.randrange(len(d))]
    elif how == 'insert':
        i = rng.randrange(len(d) + 1); d[i:i] = bytes([rng.getrandbits(8)])
    else:
        d = bytearray(rng.getrandbits(8) for _ in range(rng.randint(1, 12)))
    return bytes(d)


def gen_malformed(rng):
    """damaged streams.  Either the damage makes decoding fail (anywhere in the chain), or it changes the result of
    the LAST stage only, so that no third-party oracle is asked about bytes the generator cannot know."""
    dmg = rng.choice(['a85-char', 'a85-zmid', 'a85-overflow', 'a85-single', 'a85-garbage', 'png-type', 'png-short',
                      'filter-unknown', 'filter-type', 'filter-array-nonname', 'filter-empty', 'parms-types', 'parms-geometry',
                      'parms-shared-dict', 'parms-short-array', 'zlib-damage', 'lzw-damage', 'flate-empty', 'predictor-other',
                      'colors-huge'])
    newc = rand_bytes(rng, rng.choice([0, 4]))
    tags = {'kind': 'mal-' + dmg, 'nontrivial': True}
    if dmg.startswith('a85-'):
        pre = rng.choice([[], [FL], [LZ], [A8], [FL, A8]])
        post = rng.choice([[], [A8]])
        chain = pre + [A8] + post
        # innermost data
        data = rand_bytes(rng, rng.choice([0, 3, 4, 8, 13]))
        for _ in post:
            data = a85_encode(data, rng)
        text = bytearray(a85_encode(data, rng, eod=rng.random() < 0.8))
        pos = rng.randrange(len(text) + 1)
        if dmg == 'a85-char':
            text[pos:pos] = bytes([rng.choice([0, 0x0b, ord('v'), ord('y'), ord('{'), ord('~'), 0x7f, 0x80, 0xff, ord('>')])])
        elif dmg == 'a85-zmid':
            text = bytearray(b'!!' + b'z' + bytes(text)) if rng.random() < 0.5 else bytearray(bytes(text[:max(1, pos)]) + b'z' + bytes(text[max(1, pos):]))
        elif dmg == 'a85-overflow':
            text = bytearray(rng.choice([b's8W-"', b'uuuuu', b's8W-!', b's8W-!s8W', b's8W-!s9', b'tttt', b'uuuu', b'uu', b's8W.', b'zs8X']) + rng.choice([b'~>', b'']))
        elif dmg == 'a85-single':
            text = bytearray(bytes(text[:5 * (len(text) // 5)]).replace(b'~', b'!').replace(b'>', b'!').replace(b'z', b'!!!!!')[:5 * rng.randint(0, 2)] + rng.choice([b'!', b'u', b'5']) + b'~>')
        else:
            text = bytearray(rng.getrandbits(8) for _ in range(rng.randint(0, 30)))
        content = bytes(text)
        orc = []
        for f in reversed(pre):
            if f == A8:
                content = a85_encode(content, rng)
            elif f == FL:
                enc = zlib.compress(content); orc.append(('f', enc, content)); content = enc
            else:
                enc = lzw_encode(content, 1); orc.append(('l1', enc, content)); content = enc
        entries = [('Filter', A([N(f) for f in chain]) if len(chain) > 1 or rng.random() < 0.5 else N(chain[0]))]
        return stream_case(entries, content, orc, None, newc), tags
    if dmg in ('png-type', 'png-short'):
        f = rng.choice([FL, LZ])
        pre = rng.choice([[], [A8], [FL]])
        post = rng.choice([[], [A8], [LZ]])
        colors, bpc, columns = rng.choice([1, 3]), rng.choice([8, 16]), rng.randint(1, 6)
        bpp = colors * bpc // 8
        bpr = bpp * columns
        nrows = rng.randint(1, 4)
        rows = [rand_bytes(rng, bpr) for _ in range(nrows)]
        frame = bytearray(png_encode_frame([rng.randint(0, 4) for _ in rows], bpp, rows))
        if dmg == 'png-type':
            frame[rng.randrange(nrows) * (bpr + 1)] = rng.choice([5, 6, 10, 15, 255, 128])
        else:
            cut = rng.randint(1, bpr)
            frame = frame[:len(frame) - cut]
        payload = bytes(frame)
        orc = []
        if f == FL:
            content = zlib.compress(payload); orc.append(('f', content, payload))
        else:
            content = lzw_encode(payload, 1); orc.append(('l1', content, payload))
        for g in reversed(pre):
            if g == A8:
                content = a85_encode(content, rng)
            else:
                enc = zlib.compress(content); orc.append(('f', enc, content)); content = enc
        chain = pre + [f] + post
        pd = D([('Predictor', I(rng.randint(10, 15))), ('Columns', I(columns)), ('Colors', I(colors)), ('BitsPerComponent', I(bpc))])
        parms = A([NULL] * len(pre) + [pd] + [NULL] * len(post)) if len(chain) > 1 or rng.random() < 0.5 else pd
        entries = [('Filter', A([N(g) for g in chain])), ('DecodeParms', parms)]
        return stream_case(entries, content, orc, None, newc), tags
    # the remaining kinds start from a valid single- or multi-stage stream and damage the dictionary or the last stage
    if dmg == 'filter-unknown':
        chain = rng.choice(ALL_CHAINS[:12])
        entries, content, orc, plain, _ = build_chain(rng, chain, 'none')
        bad = rng.choice(['DCTDecode', 'ASCIIHexDecode', 'RunLengthDecode', 'Fl', 'flatedecode', 'Crypt', ''])
        k = rng.randrange(len(chain) + 1)
        names = chain[:k] + [bad] + chain[k:]
        # stages before the unknown name decode stage by stage from the outside: the content must be wrapped
        # accordingly; simplest faithful construction: the unknown filter sits at position k, stages 0..k-1 are the
        # first k filters of the valid chain and are decoded normally before the failure
        entries = [e for e in entries if e[0] != 'Filter'] + [('Filter', A([N(x) for x in names]) if len(names) > 1 or rng.random() < 0.5 else N(names[0]))]
        return stream_case(entries, content, orc, None, newc), tags
    if dmg == 'filter-type':
        content = rand_bytes(rng, 12)
        entries = [('Filter', rng.choice([I(1), S(b'FlateDecode'), NULL, D([]), REF(4, 0), B(True), R('1.5')]))]
        return stream_case(entries, content, [], None, newc), tags
    if dmg == 'filter-array-nonname':
        chain = rng.choice(ALL_CHAINS[:12])
        entries, content, orc, plain, _ = build_chain(rng, chain, 'none')
        items = [N(x) for x in chain]
        items.insert(rng.randrange(len(items) + 1), rng.choice([I(3), S(b'FlateDecode'), NULL, A([N(FL)]), REF(9, 0)]))
        entries = [e for e in entries if e[0] != 'Filter'] + [('Filter', A(items))]
        return stream_case(entries, content, orc, None, newc), tags
    if dmg == 'filter-empty':
        content = rand_bytes(rng, rng.choice([0, 5, 60]))
        entries = [('Filter', A([]))] + ([('DecodeParms', A([]))] if rng.random() < 0.5 else [])
        return stream_case(entries, content, [], None, newc, plain_only=content), tags
    if dmg in ('parms-types', 'parms-geometry', 'predictor-other', 'colors-huge'):
        # last (or only) stage Flate/LZW with odd parameters: decoding stays defined by the code's defaults
        f = rng.choice([FL, LZ])
        pre = rng.choice([[], [], [A8], [FL], [LZ, A8]])
        payload = rand_bytes(rng, rng.choice([0, 1, 6, 12, 13, 24, 60]))
        if payload and rng.random() < 0.7:
            payload = bytes([rng.randint(0, 4)]) + payload[1:]
        if dmg == 'parms-types':
            pd = [('Predictor', rng.choice([R('12'), N('12'), S(b'12'), NULL, I(12)])),
                  ('Columns', rng.choice([R('3'), NULL, S(b'2'), I(2), B(True)])),
                  ('Colors', rng.choice([R('3'), NULL, I(1), A([I(2)])])),
                  ('BitsPerComponent', rng.choice([R('8'), NULL, I(8), N('16')])),
                  ('EarlyChange', rng.choice([R('0'), B(False), NULL, I(0), I(1), I(-1), I(2)]))]
        elif dmg == 'parms-geometry':
            pd = [('Predictor', I(rng.randint(10, 15))),
                  ('Columns', I(rng.choice([0, -1, -2 ** 63, 1, 2, 5, 1000, 2 ** 50]))),
                  ('Colors', I(rng.choice([0, -7, 1, 2, 3]))),
                  ('BitsPerComponent', I(rng.choice([0, 1, 2, 4, 7, 8, 9, 12, 15, 16, 24, 32, -8])))]
        elif dmg == 'predictor-other':
            pd = [('Predictor', I(rng.choice([0, 1, 2, 3, 9, 16, 100, -12, 2 ** 40]))), ('Columns', I(rng.randint(1, 5)))]
        else:
            pd = [('Predictor', I(12)), ('Colors', I(rng.choice([2 ** 61, 2 ** 62, 2 ** 63 - 1, 2 ** 60, 2 ** 59 + 1]))),
                  ('BitsPerComponent', I(rng.choice([8, 16, 32, 2 ** 62])))]
        pd = [e for e in pd if rng.random() < 0.8]
        early = 1
        for k, v in pd:
            if k == 'EarlyChange' and v.startswith('(i '):
                early = 0 if int(v[3:-1]) == 0 else 1
        orc = []
        if f == FL:
            content = zlib.compress(payload); orc.append(('f', content, payload))
        else:
            content = lzw_encode(payload, early); orc.append(('l%d' % early, content, payload))
        for g in reversed(pre):
            if g == A8:
                content = a85_encode(content, rng)
            elif g == FL:
                enc = zlib.compress(content); orc.append(('f', enc, content)); content = enc
            else:
                enc = lzw_encode(content, 1); orc.append(('l1', enc, content)); content = enc
        chain = pre + [f]
        parms = A([NULL] * len(pre) + [D(pd)]) if pre or rng.random() < 0.5 else D(pd)
        entries = [('Filter', A([N(g) for g in chain])), ('DecodeParms', parms)]
        return stream_case(entries, content, orc, None, newc), tags
    if dmg == 'parms-shared-dict':
        # one dictionary with several filters: lopdf hands it to every Flate/LZW stage; only the last one may really
        # have a predictor effect here (Predictor 1 elsewhere would need per-stage values), so use EarlyChange only
        chain = rng.choice([[LZ, LZ], [A8, LZ], [LZ, A8, LZ], [FL, LZ]])
        ec = rng.choice([0, 1])
        data = rand_bytes(rng, rng.choice([0, 5, 40, 600]))
        plain = data
        orc = []
        for g in reversed(chain):
            if g == A8:
                data = a85_encode(data, rng)
            elif g == FL:
                enc = zlib.compress(data); orc.append(('f', enc, data)); data = enc
            else:
                enc = lzw_encode(data, ec); orc.append(('l%d' % ec, enc, data)); data = enc
        entries = [('Filter', A([N(g) for g in chain])), ('DecodeParms', D([('EarlyChange', I(ec))]))]
        return stream_case(entries, data, orc, plain, newc), tags
    if dmg == 'parms-short-array':
        # array shorter than the filter list, or with non-dictionary members: missing entries mean "no parameters"
        chain = [A8, rng.choice([FL, LZ])]
        payload = rand_bytes(rng, rng.choice([0, 6, 12]))
        orc = []
        if chain[1] == FL:
            content = zlib.compress(payload); orc.append(('f', content, payload))
        else:
            content = lzw_encode(payload, 1); orc.append(('l1', content, payload))
        content = a85_encode(content, rng)
        parms = rng.choice([A([]), A([D([('Predictor', I(12))])]), A([NULL, I(5)]), A([NULL, REF(3, 0)]), A([NULL, A([D([('Predictor', I(12))])])])])
        entries = [('Filter', A([N(g) for g in chain])), ('DecodeParms', parms)]
        return stream_case(entries, content, orc, payload, newc), tags
    if dmg in ('zlib-damage', 'lzw-damage'):
        payload = rand_bytes(rng, rng.choice([0, 5, 30, 200]))
        if dmg == 'zlib-damage':
            good = zlib.compress(payload, rng.choice([0, 6, 9]))
            bad = damage_bytes(rng, good)
            tag = 'f'
            name = FL
        else:
            early = rng.choice([0, 1])
            good = lzw_encode(payload, early)
            bad = damage_bytes(rng, good)
            tag = 'l%d' % early
            name = LZ
        entries = [('Filter', N(name))]
        if name == LZ and early == 0:
            entries.append(('DecodeParms', D([('EarlyChange', I(0))])))
        def make(ans, entries=entries, bad=bad, tag=tag):
            return stream_case(entries, bad, [(tag, bad, ans[(tag, bad)])], None, newc)
        return Pending(make, [(tag, bad)], tags), None
    if dmg == 'flate-empty':
        entries = [('Filter', N(FL))] + ([('DecodeParms', D([('Predictor', I(12)), ('Columns', I(3))]))] if rng.random() < 0.5 else [])
        return stream_case(entries, b'', [], b'', newc), tags
    raise AssertionError(dmg)


def gen_row(rng):
    t = rng.randint(0, 4)
    bpp = rng.choice([1, 1, 2, 3, 4, 6, 8, 5, 7, 12])
    n = rng.choice([0, 1, 2, 3, bpp, bpp + 1, 2 * bpp, 3 * bpp + 1, 17, 40])
    raw = rand_bytes(rng, n)
    prior = rand_bytes(rng, n)
    r = rng.random()
    if r < 0.8:
        filt = png_encode_row(t, bpp, prior, raw)
        prior2 = prior + (rand_bytes(rng, 3) if rng.random() < 0.1 else b'')
        return L('case', 'row', str(t), str(bpp), xb(prior2), xb(filt), L('plain', xb(raw))), \
            {'kind': 'row-t%d' % t, 'nontrivial': n > bpp, 'cov': ['row-bpp%d' % bpp]}
    if r < 0.9:
        # bpp = 0 (only reachable by a direct call) : no reference, correspondence only
        return L('case', 'row', str(t), '0', xb(prior), xb(raw), L('none')), {'kind': 'row-bpp0', 'nontrivial': n > 0}
    # previous row shorter than the current one: index panic for Up/Avg/Paeth
    cut = rng.randint(0, max(0, n - 1))
    return L('case', 'row', str(t), str(bpp), xb(prior[:cut]), xb(raw), L('none')), {'kind': 'row-shortprev', 'nontrivial': n > 0}


def gen_frame(rng):
    bpp = rng.choice([0, 1, 1, 2, 3, 4, 6, 8])
    ppr = rng.choice([0, 1, 2, 3, 5, 9])
    bpr = bpp * ppr
    nrows = rng.choice([0, 1, 2, 3, 5])
    rows = [rand_bytes(rng, bpr) for _ in range(nrows)]
    types = [rng.randint(0, 4) for _ in rows]
    r = rng.random()
    if bpp == 0 or r < 0.75:
        frame = png_encode_frame(types, bpp, rows) if bpp else bytes(types)
        exp = b''.join(rows)
        return L('case', 'frame', str(bpp), str(ppr), xb(frame), L('plain', xb(exp))), \
            {'kind': 'frame', 'nontrivial': nrows > 1 and bpr > 0, 'cov': ['frame-bpp%d' % bpp]}
    frame = bytearray(png_encode_frame(types, bpp, rows))
    if r < 0.85 and frame:
        frame = frame[:len(frame) - rng.randint(1, min(len(frame), bpr + 1))] if bpr else frame + b'\x09'
    elif frame:
        frame[rng.randrange(nrows) * (bpr + 1)] = rng.choice([5, 9, 255])
    else:
        frame = bytearray([rng.choice([0, 1, 4, 5, 77])])
    if rng.random() < 0.1:
        return L('case', 'frame', str(rng.choice([2 ** 32, 2 ** 62, 2 ** 63])), str(rng.choice([2 ** 32, 2 ** 20])), xb(bytes(frame)), L('none')), \
            {'kind': 'frame-overflow', 'nontrivial': True}
    return L('case', 'frame', str(bpp), str(ppr), xb(bytes(frame)), L('none')), {'kind': 'frame-damaged', 'nontrivial': True}


def gen_doc(rng):
    """a document with several streams; Document::compress then Document::decompress"""
    objs = []
    orc = []
    queries = []
    nocomp = []
    ids = rng.sample(range(1, 60), rng.randint(2, 7))
    plan = []
    for i in ids:
        k = rng.choice(['plainstream', 'plainstream', 'filtered', 'broken', 'other'])
        gen = rng.choice([0, 0, 1])
        if k == 'plainstream':
            content = rand_bytes(rng, rng.choice([0, 10, 40, 100, 400]), rng.choice(['zeros', 'text', 'random', 'runs']))
            queries.append(('z', content))
            ent = [('Length', I(len(content)))] + ([('DecodeParms', D([('Predictor', I(12))]))] if rng.random() < 0.2 else [])
            plan.append(((i, gen), ('plain', ent, content)))
            if rng.random() < 0.3:
                nocomp.append((i, gen))
        elif k == 'filtered':
            chain = rng.choice(ALL_CHAINS[:12])
            entries, content, o, plain, _ = build_chain(rng, chain, 'array')
            orc.extend(o)
            plan.append(((i, gen), ('fixed', ST(entries, content))))
        elif k == 'broken':
            plan.append(((i, gen), ('fixed', ST([('Filter', rng.choice([N('DCTDecode'), I(3), A([N(A8), N('JPXDecode')])]))],
                                                rng.choice([b'zz~>', b'abc', b's8W-"~>', b'!z~>'])))))
        else:
            plan.append(((i, gen), ('fixed', rng.choice([I(7), D([('Type', N('Catalog'))]), A([REF(1, 0)]), S(b'str')]))))
    def make(ans):
        o2 = list(orc)
        objects = []
        for id_, p in plan:
            if p[0] == 'plain':
                z = ans[('z', p[2])]
                o2.append(('z', p[2], z)); o2.append(('f', z, p[2]))
                objects.append((id_, ST(p[1], p[2])))
            else:
                objects.append((id_, p[1]))
        doc = DOC('1.5', b'', [('Size', I(100))], objects, max(i for (i, _), _ in objects))
        return L('case', 'doc', doc, L('nocomp', *[OID(*x) for x in nocomp]), orc_sx(o2))
    return Pending(make, queries, {'kind': 'doc', 'nontrivial': True})


# ------------------------------------------------------------------------------------------
# the executable Gallina codecs (Spec/LzwSpec.v, Spec/Inflate.v) against weezl and flate2
# ------------------------------------------------------------------------------------------
def shift_out_clear(enc):
    """the same LZW stream without its leading clear-table code (9 bits)"""
    nb = len(enc) * 8
    return ((int.from_bytes(enc, 'big') << 9) & ((1 << nb) - 1)).to_bytes(len(enc), 'big') if enc else enc


def lzw_encode_noclear(data, early=1):
    """an encoder that keeps a full table instead of clearing it (not what the standard asks of an encoder, but decoders meet
    such streams): codes up to 4095 are used, no entry is added once 4096 codes exist, the width stays at 12 bits"""
    bits = []
    nxt = 258
    k = 0            # codes since the clear
    def emit(code):
        n = 257 + k + early
        w = 9 if n < 512 else 10 if n < 1024 else 11 if n < 2048 else 12
        for j in range(w - 1, -1, -1):
            bits.append((code >> j) & 1)
    table = {bytes([i]): i for i in range(256)}
    emit(256)
    w = b''
    for c in data:
        wc = w + bytes([c])
        if wc in table:
            w = wc
            continue
        emit(table[w]); k += 1
        if nxt < 4096:
            table[wc] = nxt
            nxt += 1
        w = bytes([c])
    if w:
        emit(table[w]); k += 1
    emit(257)
    while len(bits) % 8:
        bits.append(0)
    return bytes(int(''.join(map(str, bits[i:i + 8])), 2) for i in range(0, len(bits), 8))


def gen_lzw_rt(rng, ec, data, limit, what):
    """DATA through four encoders (Gallina with the clearing limit `limit`, weezl, Python reference, Python without clearing a
    full table); the model decodes the streams with the Gallina decoder, the harness with weezl's: every answer must be DATA"""
    sq = L('case', 'lzwenc', str(ec), str(limit), xb(data))
    def make(ans):
        se = ans[('spec', sq)]
        we = ans[('e%d' % ec, data)]
        pe = lzw_encode(data, ec)
        ne = lzw_encode_noclear(data, ec)       # uses code 4095 and goes on with a full table
        return L('case', 'lzwrt', str(ec), str(limit), xb(data), L('encs', xb(se), xb(we), xb(pe), xb(ne)))
    cov = ['lzwspec-e%d' % ec, 'lzwspec-limit%d' % limit]
    if what.startswith('tablefull'):
        cov.append('lzwspec-table-full')
    return Pending(make, [('e%d' % ec, data)], {'kind': 'lzwspec-rt-' + what, 'nontrivial': len(data) > 0, 'cov': cov}, [sq])


def gen_lzw_dec(rng):
    """arbitrary / damaged LZW streams: Gallina decoder and weezl must agree on acceptance and on the bytes"""
    ec = rng.choice([0, 1])
    d = rand_bytes(rng, rng.choice([0, 1, 5, 30, 200, 600, 1500]))
    good = lzw_encode(d, ec)
    how = rng.choice(['flip', 'trunc', 'insert', 'junk', 'noclear', 'wrongec', 'trail', 'noeod', 'good'])
    if how in ('flip', 'trunc', 'insert', 'junk'):
        bad = damage_bytes(rng, good)
    elif how == 'wrongec':
        bad = good; ec = 1 - ec
    elif how == 'trail':
        bad = good + rand_bytes(rng, 5)
    elif how == 'noeod':
        bad = good[:-2] if len(good) > 2 else good[:1]
    elif how == 'noclear':
        bad = shift_out_clear(good)
    else:
        bad = good
    return L('case', 'lzwdec', str(ec), xb(bad)), {'kind': 'lzwspec-dec-' + how, 'nontrivial': True}


def zlib_variants(data):
    """Python zlib (= the C library) in several shapes: levels 0/1/6/9, fixed Huffman codes only, Huffman only (no
    matches) with a 512-byte window, run-length matches with a full flush (an empty stored block) in the middle"""
    out = [zlib.compress(data, l) for l in (0, 1, 6, 9)]
    co = zlib.compressobj(9, zlib.DEFLATED, 15, 9, zlib.Z_FIXED); out.append(co.compress(data) + co.flush())
    co = zlib.compressobj(6, zlib.DEFLATED, 9, 1, zlib.Z_HUFFMAN_ONLY); out.append(co.compress(data) + co.flush())
    co = zlib.compressobj(6, zlib.DEFLATED, 15, 8, zlib.Z_RLE)
    h = len(data) // 2
    out.append(co.compress(data[:h]) + co.flush(zlib.Z_FULL_FLUSH) + co.compress(data[h:]) + co.flush())
    return out


def gen_zlib_rt(rng, data, k, what):
    """DATA as a stored-block zlib stream from the Gallina encoder (block size 1 + k mod 65535), from flate2 at levels
    0/1/6/9 and from zlib in seven shapes; the model inflates all of them with Spec/Inflate.v, the harness with flate2"""
    sq = L('case', 'zenc', str(k), xb(data))
    tags = ('z0', 'z1', 'z6', 'z')
    def make(ans):
        encs = [ans[('spec', sq)]] + [ans[(t, data)] for t in tags] + zlib_variants(data)
        return L('case', 'zrt', str(k), xb(data), L('encs', *[xb(e) for e in encs]))
    cov = ['inflate-stored', 'inflate-fixed', 'inflate-dynamic'] + (['inflate-multiblock'] if len(data) > 1 + k % 65535 else [])
    return Pending(make, [(t, data) for t in tags], {'kind': 'inflate-rt-' + what, 'nontrivial': len(data) > 0, 'cov': cov}, [sq])


def gen_zlib_dec(rng):
    """arbitrary / damaged zlib streams: Spec/Inflate.v and flate2 must agree on acceptance and on the bytes"""
    d = rand_bytes(rng, rng.choice([0, 1, 5, 30, 200, 600, 1500]))
    good = rng.choice(zlib_variants(d))
    how = rng.choice(['flip', 'trunc', 'insert', 'junk', 'trail', 'noadler', 'badadler', 'hdr', 'dict', 'good'])
    if how in ('flip', 'trunc', 'insert', 'junk'):
        bad = damage_bytes(rng, good)
    elif how == 'trail':
        bad = good + rand_bytes(rng, 5)
    elif how == 'noadler':
        bad = good[:-rng.randint(1, 4)]
    elif how == 'badadler':
        bad = good[:-1] + bytes([good[-1] ^ 1])
    elif how == 'hdr':
        cmf = rng.choice([0x78, 0x68, 0x08, 0x88, 0x79, 0x77])
        flg = rng.getrandbits(8)
        if rng.random() < 0.6:
            flg = (flg & 0xc0) | (31 - (cmf * 256 + (flg & 0xc0)) % 31) % 31     # a valid check value
        bad = bytes([cmf, flg]) + good[2:]
    elif how == 'dict':
        bad = bytes([0x78, 0xbb]) + good[2:]       # FDICT set, check value right
    else:
        bad = good
    return L('case', 'zdec', xb(bad)), {'kind': 'inflate-dec-' + how, 'nontrivial': True}


def gen_codecs(rng, tier):
    items = []
    k = 1 if tier == 'quick' else 8
    allb = bytes(range(256))
    for ec in (0, 1):
        fixed = [(b'', 4096, 'empty'), (b'a', 4096, 'one'), (b'aa', 4096, 'two'), (b'aaa', 4096, 'kwkwk'), (allb + allb[::-1], 4096, 'allbytes'),
                 (b'abababababababababab' * 30, 4096, 'kwkwk-long')]
        for d, lim, what in fixed:
            items.append(gen_lzw_rt(rng, ec, d, lim, what))
        for rep in range(k):
            # more than 4096 - 258 codes: the table fills up and is cleared, by each encoder at its own point
            items.append(gen_lzw_rt(rng, ec, rand_bytes(rng, rng.choice([4200, 5000]), 'random'), 4096, 'tablefull'))
            r = rand_bytes(rng, 4500, 'random')          # the second half uses the last entries of the full table
            items.append(gen_lzw_rt(rng, ec, r + r, 4096, 'tablefull-reused'))
            items.append(gen_lzw_rt(rng, ec, allb * rng.randint(17, 20), 4096, 'tablefull-allbytes'))
            items.append(gen_lzw_rt(rng, ec, rand_bytes(rng, 4500, 'random'), rng.choice([4095, 4094, 4093]), 'tablefull-sooner'))
            items.append(gen_lzw_rt(rng, ec, rand_bytes(rng, rng.choice([300, 1000, 2000])), rng.choice([259, 260, 300, 511, 512, 513, 1024, 2049]), 'sooner'))
            # the width changes 9 -> 10 -> 11 -> 12 at the exact code counts
            for n in (253, 254, 255, 256, 765, 766, 767, 768, 1789, 1790, 1791, 1792):
                if k > 1 or rng.random() < 0.34:
                    items.append(gen_lzw_rt(rng, ec, rand_bytes(rng, n + rng.randint(0, 40), 'random'), 4096, 'width'))
            for kind in ('text', 'zeros', 'runs', 'small'):
                items.append(gen_lzw_rt(rng, ec, rand_bytes(rng, rng.choice([100, 1500, 6000 if k > 1 else 3000]), kind), 4096, kind))
    for _ in range(60 * k):
        items.append(gen_lzw_dec(rng))
    far = rand_bytes(rng, 31000, 'random')
    # matches of the largest length (258) and at the largest distances (distance codes 28 and 29: 16385..32768 back)
    for d, what in ((b'', 'empty'), (b'a', 'one'), (allb, 'allbytes'), (bytes(3000), 'len258'),
                    (far[:20000] + far[:600], 'dist20000'), (far + far[:600], 'dist31000')):
        items.append(gen_zlib_rt(rng, d, 65534, what))
    for rep in range(k):
        for kind in ('random', 'text', 'zeros', 'runs', 'small'):
            for n in (9, 258, 259, 1000, 4000):
                if k > 1 or rng.random() < 0.5:
                    items.append(gen_zlib_rt(rng, rand_bytes(rng, n + rng.randint(0, 50), kind), rng.choice([65534, 65534, 0, 6, 99, 4095]), kind))
        # more than one stored block of the largest size (65535 bytes)
        items.append(gen_zlib_rt(rng, rand_bytes(rng, 65535 + rng.choice([0, 1, 500]), 'random' if k == 1 else rng.choice(['text', 'random'])), 65534, 'block65535'))
    if k > 1:
        items.append(gen_zlib_rt(rng, rand_bytes(rng, 2 * 65535 + 1, 'text'), 65534, 'block65535x2'))
    for _ in range(60 * k):
        items.append(gen_zlib_dec(rng))
    return items


# ------------------------------------------------------------------------------------------
# large, highly compressible data (seeded defect n3: a "decompression bomb" guard that caps the inflated size at
# max(64 KiB, 128 x compressed size) truncates legal streams -- deflate reaches about 1000 : 1 on runs of equal bytes)
# ------------------------------------------------------------------------------------------
class Form:
    """a byte string together with its compact description  xHEX | (rep FORM n) | (cat FORM ...), expanded identically by
    the harness (c09.rs form_bytes) and the model runner (RunC09.v bytes_form); case lines stay small"""
    __slots__ = ('sx', 'data')
    def __init__(self, sx, data):
        self.sx, self.data = sx, data
    def __hash__(self):
        return hash(self.sx)
    def __eq__(self, other):
        return isinstance(other, Form) and self.sx == other.sx
    def __len__(self):
        return len(self.data)


def flit(b):
    return b if isinstance(b, Form) else Form(xb(b), bytes(b))


def fauto(b, minrun=48):
    """a byte string as a Form with its stretches of period 1, 2, 3, 4, 6 or 8 written as (rep xPATTERN n)"""
    parts = []; i = 0; lit = 0; n = len(b)
    while i < n:
        hit = None
        for p in (1, 2, 3, 4, 6, 8):
            j = i + p
            while j < n and b[j] == b[j - p]:
                j += 1
            if j <= n and j - i >= max(minrun, 4 * p):
                hit = (p, (j - i) // p); break
        if hit is None:
            i += 1; continue
        p, k = hit
        if lit < i:
            parts.append(Form(xb(b[lit:i]), b[lit:i]))
        parts.append(Form(L('rep', xb(b[i:i + p]), str(k)), b[i:i + p * k]))
        i += p * k; lit = i
    if lit < n or not parts:
        parts.append(Form(xb(b[lit:]), b[lit:]))
    f = parts[0] if len(parts) == 1 else Form(L('cat', *[f.sx for f in parts]), bytes(b))
    assert f.data == bytes(b)
    return f


def frep(f, n):
    f = flit(f)
    return Form(L('rep', f.sx, str(n)), f.data * n)


def fcat(*fs):
    fs = [flit(f) for f in fs]
    return Form(L('cat', *[f.sx for f in fs]), b''.join(f.data for f in fs))


def fsx(b):
    """case text of a byte string or a Form"""
    return b.sx if isinstance(b, Form) else xb(b)


def lzw_encode_fast(data, early=1):
    """lzw_encode (the reference above) with the table keyed by (code of the prefix, next byte) and an integer bit buffer:
    linear time, needed for megabytes of runs.  Checked against the reference on every run (check_fast_lzw)."""
    acc = 0; nacc = 0
    width = 9; nxt = 258
    out = bytearray()
    table = {}
    def emit(code):
        nonlocal acc, nacc
        acc = (acc << width) | code; nacc += width
        while nacc >= 8:
            nacc -= 8
            out.append((acc >> nacc) & 255)
        acc &= (1 << nacc) - 1
    emit(256)
    w = None
    for c in data:
        if w is None:
            w = c; continue
        k = (w << 8) | c
        code = table.get(k)
        if code is not None:
            w = code; continue
        emit(w)
        table[k] = nxt
        nxt += 1
        if nxt - 1 + early >= (1 << width) and width < 12:
            width += 1
        if nxt >= 4093:
            emit(256)
            table = {}; width = 9; nxt = 258
        w = c
    if w is not None:
        emit(w)
        nxt += 1
        if nxt - 1 + early >= (1 << width) and width < 12:
            width += 1
    emit(257)
    if nacc:
        out.append((acc << (8 - nacc)) & 255)
    return bytes(out)


def check_fast_lzw(rng):
    for kind, n in (('random', 5000), ('zeros', 20000), ('runs', 3000), ('text', 4000), ('small', 0), ('small', 1)):
        d = rand_bytes(rng, n, kind)
        for ec in (0, 1):
            assert lzw_encode_fast(d, ec) == lzw_encode(d, ec), 'fast LZW encoder differs from the reference encoder'


BIG_SIZES = [65537, 70000, 131072, 300000, 1000000, 2097152]     # the first is one byte more than 64 KiB, the last 2 MiB


def big_plain(rng, kind, size):
    """`size` bytes (about) of highly compressible content, as a Form"""
    if kind == 'const':
        return frep(bytes([rng.choice([0, 255, 255, 0x20, rng.getrandbits(8)])]), size)
    if kind == 'runs':
        parts = []; n = 0
        while n < size:
            k = min(size - n, rng.randint(20000, 200000))
            parts.append(frep(bytes([rng.getrandbits(8)]), k)); n += k
        return fcat(*parts)
    if kind == 'scan1':
        # a 1-bit page, 2480 pixels = 310 bytes a row: a little "ink" at the top, the rest blank (0 or 1 = white)
        rows = max(3, -(-size // 310))
        blank = bytes([rng.choice([0, 255])]) * 310
        k = rng.choice([1, 2])
        return fcat(*([fauto(ink_row(rng, blank)) for _ in range(k)] + [frep(fauto(blank), rows - k)]))
    if kind == 'pad':
        head = rand_bytes(rng, rng.choice([10, 100, 400]), rng.choice(['text', 'random']))
        return fcat(head, frep(b'\x00', size - len(head)))
    if kind == 'pixel':
        # one colour: a pixel of 3, 4 or 6 bytes repeated
        px = rand_bytes(rng, rng.choice([3, 4, 6]), 'random')
        return frep(px, -(-size // len(px)))
    raise AssertionError(kind)


def ink_row(rng, blank):
    """a blank row with a short stretch of other bytes"""
    n = rng.randint(1, min(40, len(blank)))
    at = rng.randrange(len(blank) - n + 1)
    return blank[:at] + rand_bytes(rng, n, 'random') + blank[at + n:]


def png_frame_runs(bpp, runs):
    """runs = [(row, count, filter type)]: `count` equal rows in sequence, each filtered with `type`.  After the first row of a run the
    row above equals the row itself, so the remaining count-1 filtered rows are equal: the frame has a compact Form.
    Returns (Form of the filtered frame, Form of the raw rows); the rows are filtered by the reference png_encode_row."""
    prior = bytes(len(runs[0][0]))
    parts, raws = [], []
    for row, count, t in runs:
        parts.append(fauto(bytes([t]) + png_encode_row(t, bpp, prior, row)))
        if count > 1:
            parts.append(frep(fauto(bytes([t]) + png_encode_row(t, bpp, row, row)), count - 1))
        raws.append(frep(fauto(row), count))
        prior = row
    return fcat(*parts), fcat(*raws)


def big_image(rng, size, model=True):
    """a mostly blank image with wide rows and its PNG-predicted frame: (parm entries, frame Form, raw Form, tags).
    model: the case will also run on the extracted model, whose frame_go measures the rest of the data once a row (Coq's
    length, unary): about rows x size / 2 steps at 6 million a second, four decodings a case, so the rows are made wide enough
    for 8 million / size rows at most (300 000 bytes: 26 rows of 11 500 bytes).  Ordinary page geometries (hundreds or
    thousands of rows in a megabyte) run on the implementation only."""
    colors, bpc = rng.choice([(1, 8), (1, 8), (3, 8), (4, 8), (1, 16), (3, 16)])
    columns = rng.choice([1000, 1240, 2480, 4096, 5000]) if colors * bpc <= 16 else rng.choice([1000, 1240, 2000])
    bpp = colors * bpc // 8
    if model:
        rows_max = max(3, 8000000 // size)
        columns = max(columns, -(-size // (rows_max * bpp)))
    bpr = bpp * columns
    nrows = max(3, -(-size // bpr))
    pred = rng.choice([12, 12, 15, 15, 10, 11, 13, 14])
    px = bytes([rng.choice([0, 255, 255, rng.getrandbits(8)])]) * bpp if rng.random() < 0.7 else rand_bytes(rng, bpp, 'random')
    blank = px * columns
    runs = []
    left = nrows
    if rng.random() < 0.5:
        k = rng.choice([1, 2, 4])               # some rows that are not blank at the top
        for _ in range(k):
            runs.append((ink_row(rng, blank), 1, rng.randint(0, 4)))
        left -= k
    if pred == 15 or rng.random() < 0.3:
        cuts = sorted(rng.sample(range(1, left), min(left - 1, rng.randint(1, 4)))) + [left]
        at = 0
        for c in cuts:                           # per-row types: up to five stretches of rows with one type each
            runs.append((blank, c - at, rng.randint(0, 4))); at = c
    else:
        runs.append((blank, left, pred - 10))
    frame, raw = png_frame_runs(bpp, runs)
    ent = [('Predictor', I(pred)), ('Columns', I(columns))]
    if colors != 1 or rng.random() < 0.3:
        ent.append(('Colors', I(colors)))
    if bpc != 8 or rng.random() < 0.3:
        ent.append(('BitsPerComponent', I(bpc)))
    rng.shuffle(ent)
    return ent, frame, raw, ['big-pred%d' % pred, 'big-bpp%d' % bpp, 'big-columns%d' % columns] + sorted({'png%d' % t for _, _, t in runs})


def big_stream_case(entries, content, orc, expect, newc, model=True):
    return L('case', 'big' if model else 'bigd', 'stream', L('st', D(entries), fsx(content)), L('orc', *[L(t, fsx(i), fsx(o)) for (t, i, o) in orc]),
             L('plain', fsx(expect)), xb(newc))


def ratio_tags(plain_len, enc_len):
    r = plain_len / max(1, enc_len)
    return ['big-ratio>%d' % t for t in (128, 256, 512) if r > t] + ['big-size>%dK' % t for t in (64, 128, 256, 1024) if plain_len > t * 1024]


def gen_big_stream(rng, what, size, model=True):
    """one stream with a very high compression ratio; `what`:
       flate | flate-pred | lzw | lzw-pred | a85-flate | flate-flate | unfiltered (compressed by Stream::compress, then decoded).
       Flate data is redrawn until the ratio exceeds 160 : 1 (LZW: 100 : 1).
       model=False: `(case bigd ..)`, run on the implementation only (direct verdict against the expected data; the runner
       answers model-skipped, kind tagged -model-skipped in the evidence)"""
    for _ in range(50):
        r = gen_big_stream1(rng, what, size, model)
        if r is not None:
            return r
    raise AssertionError('no data of a high ratio found for ' + what)


def gen_big_stream1(rng, what, size, model):
    newc = rand_bytes(rng, rng.choice([0, 5]))
    tags = {'kind': 'big-' + what + ('' if model else '-model-skipped'), 'nontrivial': True}
    ent = []
    if what.endswith('-pred'):
        ent, payload, plain, cov = big_image(rng, size, model)
    else:
        plain = payload = big_plain(rng, rng.choice(['const', 'const', 'runs', 'scan1', 'pad', 'pixel']), size)
        cov = []
    if what == 'unfiltered':
        entries = [('Length', I(len(plain)))] if rng.random() < 0.6 else []
        if rng.random() < 0.3:
            entries.append(('Type', N('XObject')))
        def make(ans):
            z = ans[('z', plain)]
            assert len(z) * 128 < len(plain), 'flate2 did not reach 128 : 1'
            return big_stream_case(entries, plain, [('z', plain, z), ('f', z, plain)], plain, newc)
        zl = len(zlib.compress(plain.data, 9))           # flate2's best is about the same
        if zl * 160 >= len(plain):
            return None
        tags['cov'] = ['big-compress'] + ratio_tags(len(plain), zl)
        return Pending(make, [('z', plain)], tags)
    orc = []
    if what.startswith('lzw'):
        ec = rng.choice([None, 0, 1])
        early = 1 if ec is None else ec
        enc = lzw_encode_fast(payload.data, early)
        if len(enc) * 100 >= len(plain):
            return None
        assert lzw_decode(enc, early) == payload.data
        orc.append(('l%d' % early, enc, payload))
        if ec is not None:
            ent.append(('EarlyChange', I(ec)))
        chain = [LZ]
        content = enc
    else:
        level = rng.choice([1, 6, 9, 9])
        enc = zlib.compress(payload.data, level)
        if len(enc) * 160 >= len(plain):
            return None
        assert zlib.decompress(enc) == payload.data
        orc.append(('f', enc, payload))
        chain = [FL]
        content = enc
        cov.append('flate-l%d' % level)
        if what == 'a85-flate':
            chain = [A8, FL]; content = a85_encode(enc, rng)
        elif what == 'flate-flate':
            chain = [FL, FL]; content = zlib.compress(enc, 6); orc.append(('f', content, enc))
    cov += ratio_tags(len(plain), len(enc))
    entries = [('Filter', N(chain[0]) if len(chain) == 1 and rng.random() < 0.6 else A([N(f) for f in chain]))]
    if ent:
        parms = [None] * (len(chain) - 1) + [ent]
        if len(chain) == 1 and rng.random() < 0.5:
            entries.append(('DecodeParms', D(ent)))
        else:
            entries.append(('DecodeParms', A([D(p) if p else NULL for p in parms])))
    if rng.random() < 0.7:
        entries.append(('Length', I(len(content))))
    rng.shuffle(entries)
    tags['cov'] = cov
    return big_stream_case(entries, content, orc, plain, newc, model), tags


def gen_big_doc(rng, size):
    """Document::compress then Document::decompress over large streams: unfiltered (compressed by flate2, decoded again),
    Flate + predictor and LZW (decoded), one with compression not allowed; every stream must end up holding its plain data"""
    ids = rng.sample(range(1, 40), 5)
    plan, orc, queries, nocomp, plains = [], [], [], [], []
    for k, i in zip(['unfiltered', 'flate-pred', 'lzw', 'nocomp', 'other'], ids):
        id_ = (i, rng.choice([0, 0, 1]))
        if k in ('unfiltered', 'nocomp'):
            plain = big_plain(rng, rng.choice(['const', 'scan1', 'pad']), size)
            plan.append((id_, ('plain', [('Length', I(len(plain)))], plain)))
            plains.append((id_, plain))
            if k == 'nocomp':
                nocomp.append(id_)
            else:
                queries.append(('z', plain))
        elif k == 'flate-pred':
            ent, payload, plain, _ = big_image(rng, size)
            enc = zlib.compress(payload.data, 9)
            orc.append(('f', enc, payload))
            plan.append((id_, ('fixed', L('st', D([('Filter', N(FL)), ('DecodeParms', D(ent)), ('Length', I(len(enc)))]), xb(enc)))))
            plains.append((id_, plain))
        elif k == 'lzw':
            plain = big_plain(rng, 'const', min(size, 300000))
            enc = lzw_encode_fast(plain.data, 1)
            orc.append(('l1', enc, plain))
            plan.append((id_, ('fixed', L('st', D([('Filter', A([N(LZ)])), ('Length', I(len(enc)))]), xb(enc)))))
            plains.append((id_, plain))
        else:
            plan.append((id_, ('fixed', D([('Type', N('Catalog'))]))))
    def make(ans):
        o2 = list(orc)
        objects = []
        for id_, p in plan:
            if p[0] == 'plain':
                if id_ not in nocomp:
                    z = ans[('z', p[2])]
                    o2.append(('z', p[2], z)); o2.append(('f', z, p[2]))
                objects.append((id_, L('st', D(p[1]), fsx(p[2]))))
            else:
                objects.append((id_, p[1]))
        doc = DOC('1.5', b'', [('Size', I(100))], objects, max(i for (i, _), _ in objects))
        return L('case', 'big', 'doc', doc, L('nocomp', *[OID(*x) for x in nocomp]), L('orc', *[L(t, fsx(i), fsx(o)) for (t, i, o) in o2]),
                 L('plains', *[L(OID(*id_), fsx(f)) for id_, f in plains]))
    return Pending(make, queries, {'kind': 'big-doc', 'nontrivial': True, 'cov': ['big-doc'] + ratio_tags(size, max(len(zlib.compress(q[1].data, 9)) for q in queries))})


def gen_big_codec(rng, what, size, which=None):
    """the Gallina decoders themselves (Spec/Inflate.v, Spec/LzwSpec.v) against flate2 / weezl at very high ratios.
    zrtn: streams from zlib level 1 / 9 / fixed codes / RLE strategy and from flate2 best / fast (`which`: a subset, the
    extracted inflate writes about half a megabyte a second)"""
    plain = big_plain(rng, rng.choice(['const', 'runs', 'scan1', 'pad', 'pixel']), size)
    if what == 'zrtn':
        which = which or ['l1', 'l9', 'fixed', 'rle', 'z', 'z1']
        own = []
        for w in which:
            if w == 'fixed':
                co = zlib.compressobj(9, zlib.DEFLATED, 15, 9, zlib.Z_FIXED); own.append(co.compress(plain.data) + co.flush())
            elif w == 'rle':
                co = zlib.compressobj(6, zlib.DEFLATED, 15, 8, zlib.Z_RLE); own.append(co.compress(plain.data) + co.flush())
            elif w in ('l1', 'l9'):
                own.append(zlib.compress(plain.data, int(w[1])))
        qs = [(t, plain) for t in which if t in ('z', 'z1')]
        def make(ans):
            encs = own + [ans[q] for q in qs]
            return L('case', 'big', 'zrtn', plain.sx, L('encs', *[xb(e) for e in encs]))
        return Pending(make, qs, {'kind': 'big-inflate-rt', 'nontrivial': True, 'cov': ratio_tags(len(plain), len(zlib.compress(plain.data, 9)))})
    ec = rng.choice([0, 1])
    pe = lzw_encode_fast(plain.data, ec)
    def make(ans):
        return L('case', 'big', 'lzwrtn', str(ec), plain.sx, L('encs', xb(pe), xb(ans[('e%d' % ec, plain)])))
    return Pending(make, [('e%d' % ec, plain)], {'kind': 'big-lzw-rt', 'nontrivial': True, 'cov': ratio_tags(len(plain), len(pe))})


def gen_big_echo(rng):
    """the glue of the large cases against itself: a random form expanded and rendered run by run by harness and runner"""
    def form(depth=0):
        r = rng.random()
        if r < 0.3 or depth > 2:
            return flit(rand_bytes(rng, rng.choice([0, 1, 2, 5, 30, 63, 64, 65, 200])))
        if r < 0.65:
            pat = rand_bytes(rng, rng.choice([1, 1, 2, 3, 4, 5, 6, 7, 8, 9]), rng.choice(['random', 'small', 'zeros']))
            return frep(pat, rng.choice([1, 2, 7, 8, 9, 10, 11, 15, 16, 21, 22, 31, 32, 33, 63, 64, 65, 100, 1000, 20000]))
        return fcat(*[form(depth + 1) for _ in range(rng.randint(0, 4))])
    f = form()
    return L('case', 'big', 'echo', f.sx), {'kind': 'big-echo', 'nontrivial': len(f) > 0}


def gen_big(rng, tier):
    """quick: every size class with plain Flate, most with Stream::compress (both show a cap on the inflated size), the other
    shapes on some sizes; thorough: every shape x every size, several times"""
    check_fast_lzw(rng)
    items = []
    k = 1 if tier == 'quick' else 4
    for rep in range(k):
        for size in BIG_SIZES:
            items.append(gen_big_stream(rng, 'flate', size + (rng.randint(0, 999) if rep else 0)))
        for size in BIG_SIZES[1::2] if k == 1 else BIG_SIZES:
            items.append(gen_big_stream(rng, 'unfiltered', size))
        for size in ([70000, 131072, 300000] if k == 1 else BIG_SIZES[:4]):
            items.append(gen_big_stream(rng, 'flate-pred', size))
        # page geometries (thousands of rows): implementation only
        for size in ([1000000, 2097152] if k == 1 else [300000, 1000000, 2097152]):
            items.append(gen_big_stream(rng, 'flate-pred', size, model=False))
        for what in ('a85-flate', 'flate-flate'):
            for size in ([rng.choice(BIG_SIZES[1:])] if k == 1 else BIG_SIZES[1::2]):
                items.append(gen_big_stream(rng, what, size))
        for size in ([70000, 300000] if k == 1 else [70000, 131072, 300000, 600000]):
            items.append(gen_big_stream(rng, 'lzw', size))
        items.append(gen_big_stream(rng, 'lzw-pred', rng.choice([100000, 200000])))
        items.append(gen_big_stream(rng, 'lzw-pred', 1000000, model=False))
        for size in ([300000] if k == 1 else [70000, 300000, 1000000]):
            items.append(gen_big_doc(rng, size))
        items.append(gen_big_codec(rng, 'zrtn', 131072))
        for w in (['z', 'l9'] if k == 1 else ['z', 'l9', 'l1', 'fixed', 'rle', 'z1']):
            items.append(gen_big_codec(rng, 'zrtn', 1000000, [w]))
        if k > 1:
            items.append(gen_big_codec(rng, 'zrtn', 2097152, ['z']))
        for size in ([131072] if k == 1 else [70000, 300000]):
            items.append(gen_big_codec(rng, 'lzwrtn', size))
        for _ in range(40):
            items.append(gen_big_echo(rng))
    return items


# ------------------------------------------------------------------------------------------
# ASCII85 boundary groups (seeded defect p1: a 64-bit accumulator with ONE range check per group, written
# `value >= u32::MAX`, refuses the legal group s8W-! = 2^32-1 = ff ff ff ff; random data meets an aligned group of four
# 0xff bytes with probability 2^-32, white image samples are nothing else)
# ------------------------------------------------------------------------------------------
A85_MAIN_GROUPS = [0xFFFFFFFF, 0xFFFFFFFE, 0x00000000, 0x00000001]
A85_MORE_GROUPS = [0xFFFFFFFD, 0xFFFFFF00, 0xFFFF0000, 0xFF000000, 0x00FFFFFF, 0x80000000, 0x7FFFFFFF, 0x00000054, 0x00000055,
                   85 ** 4 - 1, 85 ** 4, 82 * 85 ** 4 - 1, 82 * 85 ** 4, 0xFFFFFFFF - 85, 0xFFFFFFFF - 84, 0x01000000, 0x00010000, 0x00000100]


def a85_digits(v):
    """the five digits of a group value (any value below 85^5, also above 2^32-1: such a text is illegal)"""
    assert 0 <= v < 85 ** 5
    ds = []
    for _ in range(5):
        ds.append(33 + v % 85); v //= 85
    return bytes(reversed(ds))


assert a85_digits(0xFFFFFFFF) == b's8W-!' and a85_digits(0x100000000) == b's8W-"' and a85_digits(0xFFFFFFFE) == b's8W,u'
# complete groups above 2^32-1: the neighbours of s8W-! upwards, a carry into every digit, the largest text
A85_ABOVE_MAX = [a85_digits(v) for v in (2 ** 32, 2 ** 32 + 1, 2 ** 32 + 83, 2 ** 32 + 84, 2 ** 32 + 85, 2 ** 32 + 85 ** 2, 2 ** 32 + 85 ** 3,
                                         83 * 85 ** 4, 84 * 85 ** 4, 85 ** 5 - 2, 85 ** 5 - 1)]
assert A85_ABOVE_MAX[0] == b's8W-"' and A85_ABOVE_MAX[3] == b's8W.!' and A85_ABOVE_MAX[-1] == b'uuuuu' and b't!!!!' in A85_ABOVE_MAX


def encode_chain(rng, chain, plain, level=None, a85_opts=None, early=1):
    """`plain` through the reference encoders of `chain` (decoding order, like the Filter array; no parameters):
    (content, orc).  level: zlib level of every Flate stage (0 = stored blocks: the bytes of the data appear in the stream,
    four-byte aligned from the second one on: 2 bytes header + 5 bytes block header)"""
    data = plain; orc = []
    for f in reversed(chain):
        if f == A8:
            data = a85_encode(data, rng, **(a85_opts or {}))
        elif f == FL:
            enc = zlib.compress(data, rng.choice([1, 6, 9]) if level is None else level)
            orc.append(('f', enc, data)); data = enc
        else:
            enc = lzw_encode_fast(data, early)
            orc.append(('l%d' % early, enc, data)); data = enc
    return data, orc


def chain_entries(rng, chain, content_len, parms=None):
    entries = [('Filter', N(chain[0]) if len(chain) == 1 and rng.random() < 0.5 else A([N(f) for f in chain]))]
    if parms is not None:
        entries.append(('DecodeParms', parms))
    if rng.random() < 0.7:
        entries.append(('Length', I(content_len)))
    rng.shuffle(entries)
    return entries


def a85_opts_list(rng):
    return [{'use_z': True, 'eod': True}, {'use_z': False, 'eod': True}, {'use_z': True, 'eod': False},
            {'use_z': rng.random() < 0.5, 'eod': True, 'ws': 0.4, 'trailing': rng.choice([b'', b'\n'])}]


def group_tag(v):
    return 'a85-group-%08x' % v


def gen_a85_boundary(rng, tier):
    """ASCII85 data with the boundary groups at four-byte aligned offsets: 0xFFFFFFFF (s8W-!, the largest legal text),
    0xFFFFFFFE, 0x00000000 (as z and as !!!!!), 0x00000001 and values around every digit carry; partial final groups of 0xff
    bytes; white image samples (runs of 0xff) through plain ASCII85, both orders of Flate / ASCII85 and of LZW / ASCII85, longer
    chains, Flate + predictor; a document; 100 000 white samples as a form.  The expected decoding is the data itself.
    Texts with a complete group ABOVE 2^32-1 (s8W-" and neighbours, uuuuu) carry the expectation (error)."""
    items = []
    k = 1 if tier == 'quick' else 6
    def one(data, content, kind, cov, chain=(A8,), orc=()):
        entries = chain_entries(rng, list(chain), len(content))
        items.append((stream_case(entries, content, list(orc), data, rand_bytes(rng, rng.choice([0, 3]))),
                      {'kind': kind, 'nontrivial': len(data) > 0, 'cov': sorted(cov)}))
    # (a) every boundary group alone, every text form (z / !!!!!, EOD present / missing, white space inside the group)
    for v in A85_MAIN_GROUPS + A85_MORE_GROUPS:
        g = v.to_bytes(4, 'big')
        for o in a85_opts_list(rng) if v in A85_MAIN_GROUPS else a85_opts_list(rng)[1:3]:
            one(g, a85_encode(g, rng, **o), 'a85-bound-single', [group_tag(v)] + (['a85-z'] if v == 0 and o['use_z'] else []))
    # (b) ... between other groups, in front of each partial final group, several of them in a row
    for rep in range(k):
        for v in A85_MAIN_GROUPS + [rng.choice(A85_MORE_GROUPS)]:
            g = v.to_bytes(4, 'big')
            for tail in range(4):
                d = rand_bytes(rng, 4 * rng.randint(0, 3), 'random') + g * rng.choice([1, 1, 2]) + rand_bytes(rng, 4 * rng.randint(0, 2) + tail, rng.choice(['random', 'small']))
                one(d, a85_encode(d, rng, **rng.choice(a85_opts_list(rng))), 'a85-bound-embedded', [group_tag(v), 'a85-partial%d' % tail])
        d = b''.join(v.to_bytes(4, 'big') for v in A85_MAIN_GROUPS + A85_MORE_GROUPS)
        one(d, a85_encode(d, rng, use_z=rep % 2 == 0), 'a85-bound-all', [group_tag(v) for v in A85_MAIN_GROUPS])
        d = bytes(4) + b'\xff' * 4 + bytes(4) + b'\xff' * 3           # z s8W-! z s8W*
        one(d, a85_encode(d, rng), 'a85-bound-embedded', [group_tag(0xFFFFFFFF), 'a85-z', 'a85-partial3'])
    # (c) runs of 0xff of every length 1..13 (partial final groups of one, two, three 0xff bytes alone and behind full groups), longer ones
    for n in list(range(1, 14)) + [16, 63, 64, 65, 255, 256, 1000, 1023]:
        d = b'\xff' * n
        for o in a85_opts_list(rng)[:1] + ([rng.choice(a85_opts_list(rng)[1:])] if n < 14 else []):
            one(d, a85_encode(d, rng, **o), 'a85-white', (['a85-group-ffffffff'] if n >= 4 else []) + ['a85-ff-partial%d' % (n % 4)])
    # (d) white image samples through chains: the ASCII85 stage meets the 0xff groups when it is decoded LAST ([Flate A85], [LZW A85], ..)
    #     or when the Flate stage under it is made of stored blocks ([A85 Flate] at level 0: the data shows in the zlib stream)
    for rep in range(k):
        for chain, level in (([FL, A8], None), ([A8, FL], 0), ([A8, FL], 9), ([LZ, A8], None), ([A8, LZ], None), ([A8, A8], None),
                             ([FL, LZ, A8], None), ([A8, FL, A8], 0), ([LZ, FL, A8], 6), ([FL, FL, A8], None)):
            n = rng.choice([64, 400, 1001, 4099, 4800]) + (rng.randint(0, 3) if rep else 0)
            d = b'\xff' * n if rng.random() < 0.7 else b'\xff' * (n // 2) + rand_bytes(rng, 8, 'random') + b'\xff' * (n // 2)
            content, orc = encode_chain(rng, chain, d, level, rng.choice(a85_opts_list(rng)[:2] + [{'ws': 0.02}]))
            one(d, content, 'a85-white-chain-' + '+'.join(f[:2] for f in chain), ['a85-group-ffffffff', 'a85-white-chain'] + (['flate-l0'] if level == 0 else []),
                chain, orc)
        # a white image with a PNG predictor under ASCII85: [A85 Flate], parameters [null << /Predictor .. >>], stored blocks and level 9
        for level in (0, 9):
            colors = rng.choice([1, 3, 4]); columns = rng.choice([8, 16, 33]); bpr = colors * columns; rows = rng.randint(2, 6)
            d = b'\xff' * (bpr * rows)
            pred = rng.choice([10, 12, 15])
            types = [0] * rows if pred == 10 else [rng.choice([0, 0, 2])] + [rng.choice([0, 2]) for _ in range(rows - 1)]
            frame = png_encode_frame(types, colors, [d[i * bpr:(i + 1) * bpr] for i in range(rows)])
            z = zlib.compress(frame, level)
            content = a85_encode(z, rng)
            pd = D([('Predictor', I(pred)), ('Columns', I(columns)), ('Colors', I(colors))])
            entries = [('Filter', A([N(A8), N(FL)])), ('DecodeParms', A([NULL, pd])), ('Length', I(len(content)))]
            items.append((stream_case(entries, content, [('f', z, frame)], d, b''),
                          {'kind': 'a85-white-chain-AS+Fl-pred', 'nontrivial': True, 'cov': ['a85-white-chain', 'flate-l%d' % level] + ['png%d' % t for t in set(types)]}))
    # (e) 100 000 (thorough: up to 400 000) white samples, as forms: s8W-! repeated (the model takes 2 s for 100 000, 16 s for 400 000)
    for n in ([25000] if k == 1 else [25000, 50000, 100000]):
        text = fcat(frep(b's8W-!', n), b'~>')
        white = frep(b'\xff', 4 * n)
        items.append((big_stream_case([('Filter', N(A8))], text, [], white, b''),
                      {'kind': 'a85-white-big', 'nontrivial': True, 'cov': ['a85-group-ffffffff', 'big-size>64K']}))
        z = zlib.compress(text.data, 9)
        items.append((big_stream_case([('Filter', A([N(FL), N(A8)])), ('Length', I(len(z)))], z, [('f', z, text)], white, b''),
                      {'kind': 'a85-white-big-chain', 'nontrivial': True, 'cov': ['a85-group-ffffffff', 'a85-white-chain', 'big-size>64K']}))
    # (f) Document::decompress over such streams (a stream that fails to decode is silently left encoded: the expected contents say it must not be)
    for rep in range(k):
        ids = rng.sample(range(1, 40), 4)
        objects, orc, plains = [], [], []
        for i, chain in zip(ids, ([A8], [A8, FL], [FL, A8], None)):
            id_ = (i, rng.choice([0, 0, 2]))
            if chain is None:
                objects.append((id_, D([('Type', N('Catalog'))]))); continue
            d = b'\xff' * rng.choice([4, 12, 300, 1000])
            content, o = encode_chain(rng, chain, d, 0)
            orc.extend(o)
            objects.append((id_, ST([('Filter', A([N(f) for f in chain])), ('Length', I(len(content)))], content)))
            plains.append((id_, d))
        doc = DOC('1.5', b'', [('Size', I(100))], objects, max(i for (i, _), _ in objects))
        items.append((L('case', 'doc', doc, L('nocomp'), orc_sx(orc), L('plains', *[L(OID(*id_), xb(d)) for id_, d in plains])),
                      {'kind': 'a85-white-doc', 'nontrivial': True, 'cov': ['a85-group-ffffffff']}))
    # (g) a complete group above 2^32-1: no decoding exists, the stream must be refused
    for t in A85_ABOVE_MAX:
        variants = [t + b'~>', t, b's8W-!' + t + b'~>', t + b's8W-!~>', t[:3] + rng.choice([b' ', b'\n', b'\x00']) + t[3:] + b'~>',
                    a85_encode(rand_bytes(rng, 8, 'random'), eod=False) + t + b'!!~>', b'z' + t + b'z~>']
        for text in variants if t in A85_ABOVE_MAX[:4] + A85_ABOVE_MAX[-1:] or k > 1 else variants[:2] + [rng.choice(variants[2:])]:
            chain = rng.choice([[A8], [A8], [FL, A8], [LZ, A8], [A8, A8]])
            content, orc = encode_chain(rng, chain[:-1], text)
            items.append((L('case', 'stream', ST(chain_entries(rng, chain, len(content)), content), orc_sx(orc), L('error'), xb(b'')),
                          {'kind': 'a85-above-max', 'nontrivial': True, 'cov': ['a85-above-max-' + t.decode('latin-1')]}))
    return items


def gen_pred_tags(rng, tier):
    """every declared Predictor 10..15 x every PNG filter type actually used in the rows (the tag byte in front of each row decides,
    ISO 32000-1 7.4.4.4: "for any PNG predictor the filter type of each row is given by the tag byte"), Flate and LZW, parameters
    as a dictionary or as an array.  (Seeded p3: a /Predictor 10 fast path that drops the tags without looking at them.)"""
    items = []
    for rep in range(1 if tier == 'quick' else 5):
        for pred in range(10, 16):
            for t in range(6):
                f = rng.choice([FL, LZ])
                colors, bpc, columns = rng.choice([(1, 8), (3, 8), (1, 16), (4, 8)]) + (rng.choice([1, 2, 5, 9]),)
                bpp = colors * bpc // 8
                bpr = bpp * columns
                nrows = rng.randint(2, 5)
                plain = rand_bytes(rng, bpr * nrows, rng.choice(['random', 'random', 'runs']))
                rows = [plain[i * bpr:(i + 1) * bpr] for i in range(nrows)]
                # t = 5: type 0 in the first row(s) and one other type in the last row only
                types = [t] * nrows if t < 5 else [0] * (nrows - 1) + [rng.randint(1, 4)]
                frame = png_encode_frame(types, bpp, rows)
                if f == FL:
                    content = zlib.compress(frame, rng.choice([0, 6, 9])); orc = [('f', content, frame)]
                else:
                    content = lzw_encode(frame, 1); orc = [('l1', content, frame)]
                ent = [('Predictor', I(pred)), ('Columns', I(columns))] + ([('Colors', I(colors))] if colors != 1 else []) + \
                      ([('BitsPerComponent', I(bpc))] if bpc != 8 else [])
                rng.shuffle(ent)
                entries = chain_entries(rng, [f], len(content), D(ent) if rng.random() < 0.5 else A([D(ent)]))
                items.append((stream_case(entries, content, orc, plain, b''),
                              {'kind': 'pred%d-rows-type%s' % (pred, t if t < 5 else '0-then-other'), 'nontrivial': True,
                               'cov': ['pred%d-tag%d' % (pred, x) for x in set(types)]}))
    return items


def gen_lzw_longrun(rng, tier):
    """LZW streams whose last codes each stand for a long string: runs of one byte value of 20 000 .. 200 000 bytes (blank
    scan lines, white samples), written by the reference encoder and by weezl's own encoder.  (Seeded p2: a hand-written
    chunked decoding loop that drains the decoder once after the last input byte loses the tail of such runs.)"""
    items = []
    sizes = [20000, 32768, 65536, 100000] if tier == 'quick' else [18500, 20000, 24000, 32768, 50000, 65536, 100000, 200000]
    for n in sizes:
        for b in ((0, 255) if tier != 'quick' else (rng.choice([0, 255]),)):
            for head in (b'', rand_bytes(rng, rng.randint(1, 300), 'text')):
                plain = fcat(head, frep(bytes([b]), n)) if head else frep(bytes([b]), n)
                ec = rng.choice([None, 0, 1]); early = 1 if ec is None else ec
                ent = [('EarlyChange', I(ec))] if ec is not None else []
                entries = [('Filter', N(LZ))] + ([('DecodeParms', D(ent))] if ent else [])
                tags = {'kind': 'lzw-longrun', 'nontrivial': True, 'cov': ['lzw-longrun>%dK' % (n // 1024), 'lzw-e%s' % ec]}
                pe = lzw_encode_fast(plain.data, early)
                items.append((big_stream_case(entries, pe, [('l%d' % early, pe, plain)], plain, b''), dict(tags, cov=tags['cov'] + ['enc-py'])))
                def make(ans, entries=entries, plain=plain, early=early):
                    we = ans[('e%d' % early, plain)]
                    return big_stream_case(entries, we, [('l%d' % early, we, plain)], plain, b'')
                items.append(Pending(make, [('e%d' % early, plain)], dict(tags, cov=tags['cov'] + ['enc-weezl'])))
    return items


def resolve(items):
    """items: list of (line, tags) or Pending -> list of (line, tags); asks the harness oracle mode once"""
    pend = [x for x in items if isinstance(x, Pending)]
    ans = {}
    if pend:
        qs = sorted({q for p in pend for q in p.queries}, key=lambda q: (q[0], fsx(q[1])))
        exe, log = vlib.build_harness('c09')
        if exe is None:
            raise RuntimeError('harness build failed: ' + log[-500:])
        outs = vlib.run_lines(exe, [L(t, fsx(i)) for (t, i) in qs], timeout=300, args=['--oracle'])
        for q, o in zip(qs, outs):
            if not o.startswith('x'):
                raise RuntimeError('oracle mode answered %r' % o[:80])
            ans[q] = bytes.fromhex(o[1:])
        sq = sorted({q for p in pend for q in p.spec_queries})
        if sq:
            exe, log = vlib.build_runner('c09')
            if exe is None:
                raise RuntimeError('runner build failed: ' + log[-500:])
            outs = vlib.run_lines(exe, sq, timeout=600, shards=8)
            for q, o in zip(sq, outs):
                if ' x' not in o:
                    raise RuntimeError('the Gallina encoder answered %r' % o[:80])
                ans[('spec', q)] = bytes.fromhex(o.split(' x', 1)[1].rstrip(')'))
    out = []
    for x in items:
        if isinstance(x, Pending):
            out.append((x.make(ans), x.tags))
        else:
            out.append(x)
    return out


def gen_cases(rng, tier):
    k = 1 if tier == 'quick' else 25
    items = []
    # every chain of length 1..3, both parameter forms
    for rep in range(2 * k):
        for chain in ALL_CHAINS:
            items.append(gen_valid_stream(rng, chain))
    for chain in ALL_CHAINS[:3]:
        for form in ('dict', 'array'):
            for _ in range(6 * k):
                items.append(gen_valid_stream(rng, chain, form))
    for _ in range(6 * k):
        items.append(gen_valid_stream(rng, rng.choice(ALL_CHAINS[:12]), big=True))
    # LZW long enough for the code width to change (the only place where EarlyChange matters): parameter absent
    # (dictionary absent, dictionary without the key), 0 and 1, dictionary and array form
    for rep in range(k):
        for ec, form in ((None, 'none'), (None, 'dict'), (None, 'array'), (0, 'dict'), (0, 'array'), (1, 'dict'), (1, 'array')):
            items.append(gen_valid_stream(rng, [LZ], form, big=True, force_ec=ec, plain_kind='random', pred=False))
        items.append(gen_valid_stream(rng, [A8, LZ], 'array', big=True, force_ec=None, plain_kind='random', pred=False))
        items.append(gen_valid_stream(rng, [LZ, FL], 'none', big=True, force_ec=None, plain_kind='random', pred=False))
    # ... and the case the loop above cannot build: a DecodeParms dictionary that is PRESENT without an EarlyChange entry
    # (predictor parameters only, foreign keys, empty dictionary; dictionary / array form; inside chains), LZW streams from
    # the reference encoder and from weezl's own encoder
    for rep in range(k):
        for variant in NOEC_VARIANTS:
            for encoder in ('py', 'weezl'):
                r = gen_lzw_noec(rng, variant, encoder)
                items.append(r[0] if isinstance(r[0], Pending) else r)
    # every partial final ASCII85 group x z / no z / white space / missing EOD
    for n in range(0, 13):
        for opts in ({'use_z': True, 'eod': True}, {'use_z': False, 'eod': True}, {'use_z': True, 'eod': False, 'ws': 0.3},
                     {'use_z': True, 'eod': True, 'ws': 0.5, 'trailing': b'\n'}):
            data = rand_bytes(rng, n, rng.choice(['zeros', 'random', 'small']))
            content = a85_encode(data, rng, **opts)
            items.append((stream_case([('Filter', N(A8))], content, [], data, b'x'),
                          {'kind': 'a85-len%d' % (n % 4), 'nontrivial': n > 0, 'cov': ['a85-partial%d' % (n % 4)]}))
    for _ in range(40 * k):
        items.append(gen_unfiltered(rng))
    for _ in range(160 * k):
        r = gen_malformed(rng)
        items.append(r[0] if isinstance(r[0], Pending) else r)
    for _ in range(120 * k):
        items.append(gen_row(rng))
    for _ in range(60 * k):
        items.append(gen_frame(rng))
    for _ in range(25 * k):
        items.append(gen_doc(rng))
    # Paeth: all (above, upper-left) pairs for a slice of left values; thorough = all 2^24 triples
    if tier == 'quick':
        lefts = sorted(rng.sample(range(256), 3)) + [0, 255]
        for l in lefts:
            items.append((L('case', 'paeth', str(l), str(l + 1)), {'kind': 'paeth-sweep', 'nontrivial': True}))
    else:
        for l in range(0, 256, 2):
            items.append((L('case', 'paeth', str(l), str(l + 2)), {'kind': 'paeth-sweep', 'nontrivial': True}))
    items.extend(gen_codecs(rng, tier))
    items.extend(gen_big(rng, tier))
    # after the older families: their cases stay the same for a given seed
    items.extend(gen_a85_boundary(rng, tier))
    items.extend(gen_pred_tags(rng, tier))
    items.extend(gen_lzw_longrun(rng, tier))
    out = resolve(items)
    raise_stack_limit()
    return out


def raise_stack_limit():
    """the extracted runner recurses on the data (Coq's length, app, map are not tail recursive): a megabyte needs more than the
    usual 8 MB stack.  The soft limit of this process is raised (the children started afterwards -- harness and runner -- inherit
    it); the hard limit is not touched.  Where that is not possible the runner answers (model-stack-overflow), see compare."""
    try:
        import resource
        soft, hard = resource.getrlimit(resource.RLIMIT_STACK)
        want = 1 << 30
        if soft != resource.RLIM_INFINITY and soft < want:
            resource.setrlimit(resource.RLIMIT_STACK, (want if hard == resource.RLIM_INFINITY else min(want, hard), hard))
    except Exception:
        pass


MODEL_SKIPPED = []          # large cases the extracted model could not run (stack): reported in the evidence notes by run()


def compare(model_out, impl_out):
    """equal texts; one exception for codec correspondence on DAMAGED zlib streams: the assumption about flate2 is
    implements_inflate (flate2 returns the RFC decoder's answer wherever the RFC decoder accepts), so where the Gallina
    decoder rejects a stream flate2 may still accept it (miniz_oxide reads a match that reaches back before the start of the
    output as zeros, e.g. 7801621845440300000000ffff63180544030002580001, which zlib rejects as 'invalid distance too far
    back' like the Gallina decoder does; lopdf ignores decoder errors anyway).  LZW (lzwdec) stays exact in both directions."""
    if model_out in ('(model-stack-overflow)', '(model-out-of-memory)') and impl_out.startswith('(big '):
        # a large case the extracted model cannot hold: never compared against a partial model answer; the direct verdict
        # on the implementation (expected data known to the generator) still decides
        MODEL_SKIPPED.append(model_out)
        return True
    if model_out == 'model-skipped' and impl_out.startswith('(bigd '):
        return True             # (case bigd ..): implementation only by construction, see gen_big_stream
    return model_out == impl_out or (model_out == '(zdec err)' and impl_out.startswith('(zdec (ok '))


SPEC = {
    'compare': compare,
    'gen_parts': ['Filters'],
    'allowed_axioms': (),
    'runner': 'c09',
    'bin': 'c09',
    'gen_cases': gen_cases,
    'rule': 'reference-encoded streams over all 39 chains of length 1-3 of Flate/LZW/ASCII85 (zlib levels 0/1/6/9, LZW EarlyChange '
            'absent/0/1 incl. streams long enough for the code width to change, DecodeParms dictionaries present WITHOUT EarlyChange '
            '(predictor parameters only / foreign keys / empty; dictionary and array form; in chains) on LZW streams of more than 300 '
            'codes produced by the reference encoder and by weezl\'s own encoder, PNG predictors 10-15 with per-row types, '
            'Columns/Colors/BitsPerComponent 8|16 geometries, DecodeParms as dictionary, as parallel array, absent), every ASCII85 '
            'final group length with z / white space incl. NUL / missing EOD / bytes after EOD, unfiltered streams around the '
            'compression threshold, empty filter lists, 20 kinds of damage, png::decode_row / decode_frame directly (types 0-4, '
            'bpp 0-12, short previous rows, overflowing geometry), Document::compress/decompress, Paeth sweeps (thorough: all 2^24 triples); '
            'codec correspondence: the extracted Gallina LZW codec vs weezl and the extracted Gallina inflate vs flate2 (round trips through '
            'Gallina / crate / Python encoders, EarlyChange 0 and 1, tables filled past 4096 codes, clearing limits 259..4096, width-change '
            'boundaries, all byte values, stored/fixed/dynamic blocks, blocks of 65535 bytes, damaged streams); '
            'large, highly compressible data (65 537 bytes .. 2 MiB of constant bytes, long runs, one-colour pixels, blank 1-bit scans with a '
            'little ink, zero padding; ratios above 160 : 1 for Flate, 100 : 1 for LZW, up to 1000 : 1) as compact forms expanded identically by '
            'harness and model: plain Flate at every size class, Flate and LZW + predictor 10-15 with wide rows, ASCII85+Flate, Flate+Flate, '
            'Stream::compress then decoding, Document::compress + decompress with the expected content per object, the Gallina inflate / LZW '
            'decoder against flate2 / weezl on such streams; page geometries with thousands of rows at 1-2 MiB run on the implementation only '
            '(kinds ...-model-skipped: direct verdict against the expected data, the model is not asked); '
            'ASCII85 boundary groups at aligned offsets (0xFFFFFFFF = s8W-!, 0xFFFFFFFE, 0 as z and as !!!!!, 1, values around every digit '
            'carry) alone, between other groups, in front of every partial final group, in every text form; runs of 0xff of every length '
            '1..13 and up to 100 000 bytes (thorough: 400 000; white image samples) through plain ASCII85, [Flate A85], [A85 Flate] with stored blocks and at '
            'level 9, [LZW A85], [A85 LZW], [A85 A85], chains of three, A85 over Flate + predictor, Document::decompress with the expected '
            'contents; texts with a complete group above 2^32-1 (s8W-" and neighbours, t!!!!, uuuuu; alone, after / before legal groups, '
            'white space inside, inside chains) must be refused (expectation (error)); every declared Predictor 10-15 x every row filter '
            'type 0-4 actually used (and type 0 rows followed by one other type), Flate and LZW; LZW runs of one byte value of 20 000 - '
            '100 000 bytes (thorough: 18 500 - 200 000) from the reference encoder and from weezl\'s encoder; '
            'non-trivial = non-empty data; distinct = distinct case text',
    'extra_trusted': [
        'C09: flate2 (inflate/deflate) and weezl (LZW) are third-party code, universally quantified functions in the theorems.  What is '
        'assumed of them is written in the statements: in section (7) of Props/C09.v as implements_inflate / implements_lzw (their decoders '
        'agree with the Gallina decoders of Spec/Inflate.v / Spec/LzwSpec.v on every stream those accept) and valid_zlib_output (flate2\'s '
        'compressor writes a zlib stream for its input); in the older oracle-parametric theorems as the law used.  In the runner their '
        'answers come from the case (reference data for legal streams, `c09 --oracle` = the same crates for damaged streams and for deflate output)',
        'C09: the Python reference encoders in props/c09.py (ASCII85, PNG filters, LZW, zlib) define the expected decoding in the direct evaluation',
        'C09: dictionaries have pairwise distinct keys (guaranteed by the Rust type IndexMap; hypothesis dict_wf where a key is removed)',
    ],
    'partial_note': 'flate2 and weezl internals are third-party and not verified.  The codecs they implement are now executable Gallina: '
                    'Spec/LzwSpec.v (encoder + decoder, proved lossless for every byte string, both EarlyChange values, every clearing point '
                    'up to the full table) and Spec/Inflate.v (RFC 1950/1951 decoder incl. fixed/dynamic Huffman blocks, proved to invert '
                    'the stored-block encoder).  Still ASSUMED, and written as hypotheses: (1) weezl implements this LZW codec '
                    '(implements_lzw: its decoder returns the Gallina decoder\'s answer on every stream that decoder accepts); (2) flate2\'s '
                    'decoder implements RFC 1950/1951 (implements_inflate, the same); (3) flate2\'s compressor output is a valid zlib stream '
                    'for its input (valid_zlib_output, only in compress_lossless).  inflate of fixed/dynamic-Huffman streams has no proved '
                    'encoder counterpart (only stored blocks).  All three assumptions are differential-tested on every run against the '
                    'EXTRACTED Gallina codecs: LZW round trips through three encoders (Gallina, weezl, Python) decoded by Gallina and by '
                    'weezl incl. full tables, width-change boundaries and earlier clearing points; zlib streams from the Gallina stored '
                    'encoder, flate2 levels 0/1/6/9 and zlib in seven shapes (fixed, Huffman-only, RLE + full flush, 65535-byte blocks) '
                    'decoded by Gallina and by flate2; damaged streams of both kinds must be accepted/rejected alike.',
    'model_timeout': 1200,
}


def run(ctx):
    del MODEL_SKIPPED[:]
    spec = dict(SPEC)
    def cmp(m, i):
        before = len(MODEL_SKIPPED)
        r = compare(m, i)
        if len(MODEL_SKIPPED) > before and before == 0:
            ctx.notes.append('model-skipped: large cases answered %s by the extracted runner are decided by the direct verdict on the '
                             'implementation only (stack limit of this machine could not be raised)' % m)
        return r
    spec['compare'] = cmp
    return propcheck.standard_check(ctx, spec)


def replay(ctx, record):
    """./check C09 --replay FILE: as the default (case through harness and runner), with the stack limit the large cases need"""
    import json
    case = record.get('case')
    if not case:
        print(json.dumps(record, indent=1))
        return 1
    impl, log = vlib.build_harness(SPEC['bin'])
    runner, _ = vlib.build_runner(SPEC['runner'])
    raise_stack_limit()
    io = vlib.run_lines(impl, [case])[0]
    print('impl :', io[:4000])
    if runner:
        print('model:', vlib.run_lines(runner, [case])[0][:4000])
    return 1 if ' ||| FAIL' in io else 0


MANIFEST = {
    'level_text': 'Machine-checked proof (Coq, 47 theorems closed under the global context) about a branch-faithful model of lopdf\'s stream '
                  'filter code, against specifications written from ISO 32000-1 and PNG 1.2: the Paeth predictor equals the PNG definition on '
                  'all 2^24 triples (by arithmetic); decode_row inverts the PNG reference encoder for all 5 filter types, every bytes-per-pixel '
                  '> 0 and every row, and on any input yields the unique solution of the PNG reconstruction equations; decode_frame inverts the '
                  'frame encoder for any number of rows and mixture of types; Predictor 10-15 x any Columns/Colors x BitsPerComponent 8|16 is '
                  'mapped to the geometry of the standard; ASCII85 decoding inverts the ISO encoder for every byte string (all partial groups) '
                  'and agrees with it on every well-formed text (white space incl. NUL anywhere, bytes after EOD, missing EOD); DecodeParms as '
                  'one dictionary or as an array parallel to the filters is routed as table 5 says; every chain of ANY length over '
                  'Flate/LZW(EarlyChange absent/0/1)/ASCII85 with legal parameters decodes to the data the reference encoders started from; '
                  'compress then decode returns the original bytes, compress never lengthens the content, and after set_content, '
                  'set_plain_content, compress and decompress the Length entry equals the content length (also per object for '
                  'Document::compress/decompress).  The LZW codec of ISO 32000-1 7.4.4.2 is an executable Gallina encoder/decoder proved '
                  'lossless for every byte string (EarlyChange 0/1, clear-table at any table size up to 4096, 9-12 bit MSB-first packing); '
                  'an executable RFC 1950/1951 inflate (stored, fixed, dynamic blocks, Adler-32) is proved to invert the stored-block encoder '
                  'for every byte string; chains written by these reference encoders are proved to decode to the plain data.  '
                  'Constants and code shapes are re-read from the source on every run and the model is tied '
                  'to the crate by differential runs against reference encoders.',
    'level_note': 'flate2 (zlib) and weezl (LZW) are third-party code: universally quantified functions.  Their codecs are specified by '
                  'executable Gallina (Spec/LzwSpec.v proved lossless; Spec/Inflate.v proved against the stored-block encoder); what remains '
                  'ASSUMED, as hypotheses in the statements: weezl implements this LZW codec and flate2\'s decoder implements RFC 1950/1951 '
                  '(their decoders return the Gallina decoder\'s answer wherever it accepts), and flate2\'s compressor output is a valid zlib '
                  'stream for its input (compress_lossless only).  These three are differential-tested against the extracted Gallina codecs '
                  'on every run.  The older theorems keep the oracle-parametric form (law in the statement).  '
                  'Domain hypotheses: distinct dictionary keys (IndexMap invariant), pixel size in bits and row size in bytes fit a usize.  '
                  'Five defects of the pinned tree are repaired in /repo and proved refuted on the pinned model (Average predictor f51f21b, '
                  'ASCII85 add overflow c049d3a, ASCII85 NUL white space efed7db, DecodeParms array c3c22fe, stale DecodeParms after compress '
                  'fcb7fe1); the model also follows 686bd3f/22cc8e0 (checked predictor geometry).',
    'technique': 'Coq proof (lia over byte ranges, induction over groups/rows/chains, IndexMap invariants, LZW dictionary-synchronisation invariant, bit-level pack/unpack; vm_compute only for 85- and 256-case '
                 'character facts and concrete witnesses) + translator-regenerated constants + differential correspondence with reference encoders',
    'design_ref': 'DESIGN.md 6 C09; notes/C09.md',
}
