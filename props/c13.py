"""C13 -- read-only queries are total on arbitrary object graphs."""
import re
import propcheck, vlib
from sxg import *

I64_MAX = 2 ** 63 - 1
I64_MIN = -2 ** 63

# Length values of in-memory streams with small real content (seeded defect C13/p2)
HUGE_LENGTHS = [I64_MAX, I64_MAX - 7, I64_MAX - 1, 2 ** 62, 2 ** 56, 2 ** 48, 2 ** 47]
NEG_LENGTHS = [-1, -2 ** 31, I64_MIN, I64_MIN + 1]
WRONG_LENGTHS = [R('1.5'), N('Length'), S(b'12'), NULL, A([I(5)]), D([]), B(True), R('9223372036854775807')]

TYPE_NAMES = ['Catalog', 'Pages', 'Page', 'Font', 'XObject', 'Outlines', 'Annot', 'Junk']
ENC_NAMES = ['StandardEncoding', 'MacRomanEncoding', 'MacExpertEncoding', 'WinAnsiEncoding', 'PDFDocEncoding',
             'Identity-H', 'Identity-V', 'UniGB-UCS2-H', 'Custom']
# keys the query code reads; Predictor is deliberately absent from the pool of *random* dictionaries: predictor
# geometry overflow is the ground of C04/C09, the dedicated stream generator below keeps it small
KEY_POOL = ['Type', 'Kids', 'Parent', 'Count', 'Contents', 'Resources', 'Font', 'XObject', 'ColorSpace', 'Annots',
            'Outlines', 'First', 'Next', 'Dest', 'A', 'D', 'S', 'Title', 'Names', 'Dests', 'Encoding', 'ToUnicode',
            'Filter', 'Length', 'Subtype', 'Width', 'Height', 'BitsPerComponent', 'DecodeParms', 'Pages',
            'Linearized', 'Root', 'F1', 'Im0']
NAME_POOL = TYPE_NAMES + ['GoTo', 'GoToR', 'URI', 'Image', 'Form', 'DeviceRGB', 'ASCII85Decode', 'Nope', 'Fit', 'XYZ',
                          'Identity-H', 'WinAnsiEncoding', 'caf\xe9']


class G:
    """one graph under construction: ids are chosen first so that every reference can point anywhere"""
    def __init__(self, rng, n, p_chaos):
        self.rng = rng
        self.p = p_chaos
        if rng.random() < 0.8:
            self.ids = [(k, 0) for k in range(1, n + 1)]
        else:
            nums = rng.sample(range(1, 4 * n + 10), n)
            self.ids = [(k, rng.choice([0, 0, 0, 1, 65535])) for k in nums]
        self.objs = {}

    # ---- references ----
    def ref(self, prefer=None):
        r = self.rng.random()
        if prefer is not None and r < 0.7:
            return REF(*prefer)
        if r < 0.93:
            return REF(*self.rng.choice(self.ids))
        return REF(9000 + self.rng.randint(0, 5), 0)          # dangling (9999 is the harness's probe id)

    def int_(self):
        return I(self.rng.choice([0, 1, 2, 3, -1, -100, -101, 7, 255, 2 ** 31, 2 ** 32, 2 ** 45, I64_MAX, I64_MAX - 1, I64_MIN]))

    def name(self):
        return N(self.rng.choice(NAME_POOL))

    def string(self):
        r = self.rng.random()
        s = self.rng.choice([b'', b'a', b'Chapter 1', b'\xfe\xff\x00A\x00B', b'\xfe\xff\x00A\x00', b'\xff\xfeA\x00',
                             b'\xff\xfeA', b'\xfe\xff\xd8\x3d\xde\x00', b'\xfe\xff\xd8\x3d', b'\xc3\xa9t\xe9', b'k1', b'k2',
                             b'\xe2\x82', b'\xf0\x9f\x98\x80', b'\xff', b'\xfe', b'\xff\xfe', b'\xfe\xff'])
        return H(s) if r < 0.2 else S(s)

    def val(self, depth=0):
        """a value of a random kind"""
        r = self.rng.random()
        if r < 0.08: return NULL
        if r < 0.13: return B(self.rng.random() < 0.5)
        if r < 0.27: return self.int_()
        if r < 0.32: return R(self.rng.choice(['1.5', '0', '-2', '612']))
        if r < 0.44: return self.name()
        if r < 0.54: return self.string()
        if r < 0.74: return self.ref()
        if depth >= 3: return NULL
        if r < 0.86:
            return A([self.val(depth + 1) for _ in range(self.rng.choice([0, 0, 1, 1, 2, 3, 4]))])
        if r < 0.97:
            return self.rdict(depth + 1)
        return ST([('Length', self.int_())], self.rng.choice([b'', b'BT ET', b'x']))

    def rdict(self, depth=0):
        ks = self.rng.sample(KEY_POOL, self.rng.choice([0, 1, 1, 2, 3, 4]))
        return D([(k, self.val(depth + 1)) for k in ks])

    def f(self, expected):
        """a field value: mostly what the code expects, else any kind"""
        if self.rng.random() < self.p:
            return self.val()
        return expected() if callable(expected) else expected

    def entries(self, pairs):
        """drop / duplicate-free shuffle of the entries; sometimes an extra random key"""
        out = []
        for k, v in pairs:
            if self.rng.random() < self.p * 0.5:
                continue
            out.append((k, v))
        if self.rng.random() < self.p:
            k = self.rng.choice(KEY_POOL)
            if k not in [x for x, _ in out]:
                out.append((k, self.val()))
        if self.rng.random() < 0.3:
            self.rng.shuffle(out)
        return out

    # ---- roles ----
    def pick(self, role=None):
        return self.rng.choice(self.by_role.get(role) or self.ids) if role else self.rng.choice(self.ids)

    def refs_array(self, role, lo=0, hi=4):
        return A([self.f(lambda: self.ref(self.pick(role))) for _ in range(self.rng.randint(lo, hi))])

    def dest_value(self):
        r = self.rng.random()
        if r < 0.45:
            return A([self.ref(self.pick('page')), N(self.rng.choice(['Fit', 'XYZ']))] +
                     [self.int_() for _ in range(self.rng.choice([0, 0, 3]))])
        if r < 0.55: return A([])
        if r < 0.65: return A([self.ref(self.pick('page'))])
        if r < 0.8: return S(self.rng.choice([b'k1', b'k2', b'missing']))
        if r < 0.9: return self.ref(self.pick(self.rng.choice(['array', 'array', 'refobj'])))   # indirect destination
        return self.val()

    def title_value(self):
        r = self.rng.random()
        if r < 0.7: return self.string()
        if r < 0.85: return self.ref(self.pick('string'))
        return self.val()

    def outline_item(self, depth=0):
        ents = [('Title', self.f(self.title_value))]
        r = self.rng.random()
        if r < 0.55:
            ents.append(('Dest', self.f(self.dest_value)))
        elif r < 0.9:
            act = D(self.entries([('S', self.f(lambda: N(self.rng.choice(['GoTo', 'GoToR', 'URI'])))),
                                  ('D', self.f(self.dest_value))]))
            ents.append(('A', self.f(lambda: act if self.rng.random() < 0.7 else self.ref(self.pick('action')))))
        def link():
            if depth < 2 and self.rng.random() < 0.15:
                return self.outline_item(depth + 1)                   # a direct dictionary as First/Next
            return self.ref(self.pick('item'))
        if self.rng.random() < 0.5: ents.append(('First', self.f(link)))
        if self.rng.random() < 0.6: ents.append(('Next', self.f(link)))
        if self.rng.random() < 0.3: ents.append(('Parent', self.ref(self.pick('item'))))
        return D(self.entries(ents))

    def names_array(self):
        items = []
        for _ in range(self.rng.randint(0, 3)):
            items.append(self.f(lambda: S(self.rng.choice([b'k1', b'k2', b'k3']))))
            r = self.rng.random()
            if r < 0.35: items.append(self.ref(self.pick('destdict')))
            elif r < 0.55: items.append(self.ref(self.pick('array')))
            elif r < 0.8: items.append(D(self.entries([('D', self.f(self.dest_value))])))
            else: items.append(self.val())
        if self.rng.random() < 0.15:
            items.append(S(b'odd'))
        return A(items)

    def stream(self, kind):
        content = self.rng.choice([b'', b'BT /F1 12 Tf (Hi) Tj ET', b'q Q', b'\x02\x01\x02\x03', b'87cURD]i,"Ebo80~>', b'zz~>',
                                   b's8W-"~>', b'abc'])
        ents = []
        r = self.rng.random()
        if r < 0.45:
            pass
        elif r < 0.6:
            ents.append(('Filter', N('ASCII85Decode')))
        elif r < 0.7:
            ents.append(('Filter', A([N('ASCII85Decode')] * self.rng.choice([1, 2]))))
        elif r < 0.8:
            ents.append(('Filter', self.rng.choice([N('FlateDecode'), N('LZWDecode'), A([N('ASCII85Decode'), N('FlateDecode')]),
                                                    A([N('FlateDecode'), N('ASCII85Decode')])])))
            content = b''                                           # the flate/LZW oracles of the runner are empty
        elif r < 0.9:
            ents.append(('Filter', self.rng.choice([N('DCTDecode'), A([]), A([I(1)]), I(3), self.ref()])))
        else:
            ents.append(('Filter', self.val()))
            if 'x466c617465' in ents[-1][1] or 'x4c5a57' in ents[-1][1]:
                content = b''
        if self.rng.random() < 0.25:
            parms = D([('Predictor', I(self.rng.choice([1, 2, 10, 12, 15]))), ('Columns', I(self.rng.choice([1, 2, 3]))),
                       ('Colors', I(self.rng.choice([1, 3])))])
            ents.append(('DecodeParms', self.rng.choice([parms, A([parms]), A([NULL, parms])])))
        ents.append(('Length', self.f(lambda: self.length_value(len(content)))))
        if kind == 'image':
            ents += [('Subtype', self.f(N('Image'))), ('Width', self.f(self.int_)), ('Height', self.f(self.int_)),
                     ('ColorSpace', self.f(lambda: self.rng.choice([N('DeviceRGB'), A([N('ICCBased'), self.ref()]), A([]),
                                                                     A([I(1)]), N('caf\xe9')]))),
                     ('BitsPerComponent', self.f(lambda: I(8)))]
        return ST(self.entries(ents), content)

    def length_value(self, n):
        """the Length entry of a stream built in memory (nothing rewrites it: only the reader does): mostly right or an
        indirect integer, else huge / negative / of the wrong kind (seeded defect C13/p2: a buffer sized from it)"""
        rng = self.rng
        r = rng.random()
        if r < 0.55: return I(n)
        if r < 0.72: return self.ref(self.pick('int'))
        if r < 0.84: return I(rng.choice(HUGE_LENGTHS))
        if r < 0.92: return I(rng.choice(NEG_LENGTHS))
        return rng.choice(WRONG_LENGTHS)

    def make(self, role):
        rng = self.rng
        if role == 'catalog':
            return D(self.entries([('Type', self.f(N('Catalog'))), ('Pages', self.f(lambda: self.ref(self.pick('pages')))),
                                   ('Outlines', self.f(lambda: self.ref(self.pick('outlines')))),
                                   rng.choice([('Dests', self.f(lambda: self.ref(self.pick('nametree')))),
                                               ('Names', self.f(lambda: D([('Dests', self.ref(self.pick('nametree')))]))),
                                               ('Dests', self.f(lambda: D([('Names', self.names_array())])))])]))
        if role == 'pages':
            return D(self.entries([('Type', self.f(N('Pages'))),
                                   ('Kids', self.f(lambda: self.refs_array(rng.choice(['page', 'page', 'pages']), 0, 4)
                                                   if rng.random() < 0.8 else self.ref(self.pick('array')))),
                                   ('Count', self.f(lambda: rng.choice([self.int_(), self.ref(self.pick('int'))]))),
                                   ('Parent', self.f(lambda: self.ref(self.pick('pages')))),
                                   ('Resources', self.f(lambda: self.ref(self.pick('resources'))))]))
        if role == 'page':
            return D(self.entries([('Type', self.f(N('Page'))), ('Parent', self.f(lambda: self.ref(self.pick('pages')))),
                                   ('Contents', self.f(lambda: rng.choice([self.ref(self.pick('content')),
                                                                           self.refs_array('content', 0, 3),
                                                                           self.ref(self.pick('refobj'))]))),
                                   ('Resources', self.f(lambda: rng.choice([self.ref(self.pick('resources')), self.resources()]))),
                                   ('Annots', self.f(lambda: rng.choice([self.refs_array('annot', 0, 3),
                                                                         self.ref(self.pick('array'))])))]))
        if role == 'resources':
            return self.resources()
        if role == 'font':
            return self.font()
        if role == 'image':
            return self.stream('image')
        if role == 'content':
            return self.stream('content')
        if role == 'outlines':
            return D(self.entries([('Type', self.f(N('Outlines'))), ('First', self.f(lambda: self.ref(self.pick('item')))),
                                   ('Last', self.ref(self.pick('item'))), ('Count', self.int_())]))
        if role == 'item':
            return self.outline_item()
        if role == 'action':
            return D(self.entries([('S', self.f(lambda: N(rng.choice(['GoTo', 'GoToR', 'URI'])))), ('D', self.f(self.dest_value))]))
        if role == 'nametree':
            ents = []
            if rng.random() < 0.6: ents.append(('Kids', self.f(lambda: self.refs_array('nametree', 0, 3))))
            if rng.random() < 0.7: ents.append(('Names', self.f(self.names_array)))
            return D(self.entries(ents))
        if role == 'destdict':
            return D(self.entries([('D', self.f(self.dest_value))]))
        if role == 'annot':
            return D(self.entries([('Type', N('Annot')), ('Subtype', N('Link')), ('Rect', A([I(0), I(0), I(1), I(1)]))]))
        if role == 'array':
            return rng.choice([A([self.ref(self.pick('page')), N('Fit')]), A([]), A([self.ref()]),
                               self.refs_array(None, 0, 4), A([self.val() for _ in range(rng.randint(0, 3))])])
        if role == 'refobj':
            # an object that is itself a reference; often to another such object (cycles and chains of references)
            return self.ref(self.pick('refobj')) if rng.random() < 0.4 else self.ref()
        if role == 'int':
            return rng.choice([self.int_(), self.ref(self.pick('int'))])
        if role == 'string':
            return self.string()
        return self.val()

    def font(self):
        rng = self.rng
        return D(self.entries([('Type', self.f(N('Font'))), ('Subtype', N('Type1')),
                               ('Encoding', self.f(lambda: N(rng.choice(ENC_NAMES)))),
                               ('ToUnicode', self.f(lambda: rng.choice([self.ref(self.pick('content')), self.ref(self.pick('refobj'))])))]))

    def resources(self):
        rng = self.rng
        def fonts():
            return uniq_keys(D([(rng.choice(['F1', 'F2', 'F0', 'G']), self.f(lambda: rng.choice([self.ref(self.pick('font')), self.font()])))
                                for _ in range(rng.randint(0, 3))]))
        def xobjs():
            return uniq_keys(D([(rng.choice(['Im0', 'Im1', 'Fm0']), self.f(lambda: self.ref(self.pick('image'))))
                                for _ in range(rng.randint(0, 3))]))
        return D(self.entries([('Font', self.f(lambda: rng.choice([fonts(), self.ref(self.pick('fontdict'))]))),
                               ('XObject', self.f(lambda: rng.choice([xobjs(), self.ref(self.pick('xobjdict'))])))]))

    def build(self, roles):
        self.by_role = {}
        for id_, role in zip(self.ids, roles):
            self.by_role.setdefault(role, []).append(id_)
        for id_, role in zip(self.ids, roles):
            if role == 'fontdict':
                o = uniq_dict(D([(self.rng.choice(['F1', 'F2', 'F3']), self.f(lambda: self.ref(self.pick('font'))))
                                 for _ in range(self.rng.randint(0, 3))]))
            elif role == 'xobjdict':
                o = uniq_dict(D([(self.rng.choice(['Im0', 'Im1', 'Im2']), self.f(lambda: self.ref(self.pick('image'))))
                                 for _ in range(self.rng.randint(0, 3))]))
            else:
                o = self.make(role)
            self.objs[id_] = uniq_keys(o)
        return self


def uniq_dict(dsx):
    return uniq_keys(dsx)


def uniq_keys(s):
    """drop repeated keys inside every (d ...) of a case-language object (IndexMap keys are unique)"""
    toks = re.findall(r'\(|\)|[^\s()]+', s)
    pos = 0
    def parse():
        nonlocal pos
        t = toks[pos]
        if t != '(':
            pos += 1
            return t
        pos += 1
        items = []
        while toks[pos] != ')':
            items.append(parse())
        pos += 1
        if items and items[0] == 'd':
            seen, out = set(), ['d']
            for e in items[1:]:
                if isinstance(e, list) and e and isinstance(e[0], str):
                    if e[0] in seen:
                        continue
                    seen.add(e[0])
                out.append(e)
            items = out
        return items
    def show(x):
        return x if isinstance(x, str) else '(' + ' '.join(show(y) for y in x) + ')'
    return show(parse())


ROLE_MIX = ['pages', 'pages', 'page', 'page', 'page', 'resources', 'font', 'fontdict', 'xobjdict', 'image', 'content',
            'content', 'outlines', 'item', 'item', 'item', 'item', 'action', 'nametree', 'nametree', 'destdict', 'annot',
            'array', 'array', 'refobj', 'refobj', 'int', 'string', 'junk']


def gen_chaos(rng, p_chaos):
    n = rng.choice([3, 4, 5, 6, 8, 10, 12, 14])
    g = G(rng, n, p_chaos)
    roles = ['catalog'] + [rng.choice(ROLE_MIX) for _ in range(n - 1)]
    # make sure the interesting walkers have something to chew on
    must = rng.choice([['pages', 'page'], ['outlines', 'item', 'item'], ['nametree', 'destdict', 'outlines'],
                       ['page', 'resources', 'font', 'image'], []])
    for k, r in enumerate(must):
        if 1 + k < n:
            roles[1 + k] = r
    g.build(roles)
    root = g.ids[0] if rng.random() < 0.93 else rng.choice(g.ids)
    trailer = [('Root', REF(*root) if rng.random() < 0.95 else g.val())]
    if rng.random() < 0.2:
        trailer.append(('Size', I(n + 1)))
    objects = sorted(g.objs.items())
    return L('case', DOC('1.5', b'', trailer, objects, max(i for (i, _) in g.ids)))


def doc_of(objs, root=1):
    return L('case', DOC('1.5', b'', [('Root', REF(root))], [((i, 0), o) for i, o in objs], max(i for i, _ in objs)))


def witnesses():
    """the defects found by this property on the unrepaired tree, kept as regression cases"""
    BIG = I64_MAX
    cat_pages = lambda: (1, D([('Type', N('Catalog')), ('Pages', REF(2))]))
    page = lambda i: (i, D([('Type', N('Page'))]))
    W = {}
    W['pages-count-huge'] = doc_of([cat_pages(), (2, D([('Type', N('Pages')), ('Kids', A([REF(3), REF(4)]))])), page(3),
                                    (4, D([('Type', N('Pages')), ('Count', I(BIG)), ('Kids', A([]))]))])
    W['pages-count-sum-overflow'] = doc_of([cat_pages(), (2, D([('Type', N('Pages')), ('Kids', A([REF(3), REF(4), REF(4), REF(4)]))])),
                                            page(3), (4, D([('Type', N('Pages')), ('Count', I(BIG)), ('Kids', A([]))]))])
    W['pages-count-alloc'] = doc_of([cat_pages(), (2, D([('Type', N('Pages')), ('Kids', A([REF(3), REF(4)]))])), page(3),
                                     (4, D([('Type', N('Pages')), ('Count', I(2 ** 45)), ('Kids', A([]))]))])
    W['pages-count-zero'] = doc_of([cat_pages(), (2, D([('Type', N('Pages')), ('Kids', A([REF(5)]))])), page(3), page(4),
                                    (5, D([('Type', N('Pages')), ('Count', I(0)), ('Kids', A([REF(3), REF(4)]))]))])
    ol = lambda item: [(1, D([('Type', N('Catalog')), ('Outlines', REF(2))])), (2, D([('First', REF(3))])), (3, item)]
    W['dest-empty'] = doc_of(ol(D([('Title', S(b'a')), ('Dest', A([]))])))
    W['dest-one'] = doc_of(ol(D([('Title', S(b'a')), ('Dest', A([I(1)]))])))
    W['next-self'] = doc_of(ol(D([('Title', S(b'a')), ('Next', REF(3))])))
    W['next-self-dest'] = doc_of(ol(D([('Title', S(b'a')), ('Dest', A([REF(1), N('Fit')])), ('Next', REF(3))])))
    W['first-self'] = doc_of(ol(D([('Title', S(b'a')), ('First', REF(3))])))
    W['first-next-dag'] = doc_of([(1, D([('Type', N('Catalog')), ('Outlines', REF(2))])), (2, D([('First', REF(3))]))] +
                                 [(k, D([('Title', S(b't')), ('Dest', A([REF(1), N('Fit')])), ('First', REF(k + 1)), ('Next', REF(k + 1))]))
                                  for k in range(3, 43)] + [(43, D([('Title', S(b'end'))]))])
    nd = lambda tree, extra=[]: [(1, D([('Type', N('Catalog')), ('Outlines', REF(2)), ('Dests', REF(3))])), (2, D([])), (3, tree)] + extra
    W['nd-missing-D'] = doc_of(nd(D([('Names', A([S(b'k'), D([])]))])))
    W['nd-key-not-string'] = doc_of(nd(D([('Names', A([I(5), D([('D', A([I(1), I(2)]))])]))])))
    W['nd-short-D'] = doc_of(nd(D([('Names', A([S(b'k'), D([('D', A([]))])]))])))
    W['nd-short-arr-ref'] = doc_of(nd(D([('Names', A([S(b'k'), REF(4)]))]), [(4, A([I(1)]))]))
    W['nd-kids-cycle'] = doc_of(nd(D([('Kids', A([REF(3)]))])))
    W['nd-kids-dag'] = doc_of([(1, D([('Type', N('Catalog')), ('Outlines', REF(2)), ('Dests', REF(3))])), (2, D([]))] +
                              [(k, D([('Kids', A([REF(k + 1), REF(k + 1)]))])) for k in range(3, 40)] + [(40, D([]))])
    W['img-cs-empty'] = doc_of([(1, D([('Type', N('Catalog'))])),
                                (2, D([('Type', N('Page')), ('Resources', D([('XObject', D([('Im0', REF(3))]))]))])),
                                (3, ST([('Subtype', N('Image')), ('Width', I(1)), ('Height', I(1)), ('ColorSpace', A([]))], b'x'))])
    return W


def gen_chain(rng):
    """long chains at and around every limit"""
    kind = rng.choice(['deref', 'contents', 'parent', 'first', 'next', 'kids', 'pagetree', 'direct-first'])
    n = rng.choice([5, 127, 128, 129, 130, 255, 256, 257, 258, 300])
    if kind == 'deref':
        objs = [(1, D([('Type', N('Catalog')), ('Pages', REF(2))]))] + [(k, REF(k + 1)) for k in range(2, n + 2)] + \
               [(n + 2, D([('Type', N('Pages')), ('Kids', A([]))]))]
    elif kind == 'contents':
        objs = [(1, D([('Type', N('Catalog'))])), (2, D([('Type', N('Page')), ('Contents', REF(3))]))] + \
               [(k, REF(k + 1)) for k in range(3, n + 3)] + [(n + 3, ST([], b'q Q'))]
    elif kind == 'parent':
        last = n + 2 if rng.random() < 0.5 else 2
        objs = [(1, D([('Type', N('Catalog'))]))] + \
               [(k, D([('Type', N('Pages')), ('Parent', REF(k + 1)), ('Resources', REF(1))])) for k in range(2, n + 2)] + \
               [(n + 2, D([('Type', N('Pages')), ('Parent', REF(last))]))]
    elif kind in ('first', 'next'):
        key = 'First' if kind == 'first' else 'Next'
        objs = [(1, D([('Type', N('Catalog')), ('Outlines', REF(2))])), (2, D([('First', REF(3))]))] + \
               [(k, D([('Title', S(b't')), ('Dest', A([REF(1), N('Fit')])), (key, REF(k + 1))])) for k in range(3, n + 3)] + \
               [(n + 3, D([('Title', S(b'end')), ('Dest', A([REF(1), N('Fit')]))]))]
    elif kind == 'direct-first':
        d = D([('Title', S(b'leaf')), ('Dest', A([REF(1), N('Fit')]))])
        for _ in range(min(n, 40)):
            d = D([('Title', S(b't')), ('Dest', A([REF(1), N('Fit')])), rng.choice([('First', d), ('Next', d)])])
        objs = [(1, D([('Type', N('Catalog')), ('Outlines', D([('First', d)]))]))]
    elif kind == 'kids':
        objs = [(1, D([('Type', N('Catalog')), ('Outlines', REF(2)), ('Dests', REF(3))])), (2, D([]))] + \
               [(k, D([('Kids', A([REF(k + 1)]))] +
                      ([('Names', A([S(b'k%d' % k), D([('D', A([REF(1), N('Fit')]))])]))] if k % 64 == 3 else [])))
                for k in range(3, n + 3)] + [(n + 3, D([]))]      # few names: the result is printed once per node
    else:
        objs = [(1, D([('Type', N('Catalog')), ('Pages', REF(2))]))] + \
               [(k, D([('Type', N('Pages')), ('Kids', A([REF(k + 1), REF(n + 3)])), ('Count', I(I64_MAX))])) for k in range(2, n + 2)] + \
               [(n + 2, D([('Type', N('Pages')), ('Kids', A([REF(n + 3)]))])), (n + 3, D([('Type', N('Page'))]))]
    return doc_of(objs), kind


def gen_dag(rng):
    """shared sub-structures: the number of references followed straddles the budget (= number of objects)"""
    k, L = rng.randint(1, 6), rng.randint(1, 6)
    dest = ('Dest', A([REF(1), N('Fit')]))
    if rng.random() < 0.6:
        link = rng.choice(['First', 'Next'])
        shared = [(10 + j, D([('Title', S(b's%d' % j)), dest] + ([(link if rng.random() < 0.8 else 'Next', REF(11 + j))] if j < L - 1 else [])))
                  for j in range(L)]
        items = [(3 + i, D([('Title', S(b'i%d' % i)), dest, ('First', REF(10))] + ([('Next', REF(4 + i))] if i < k - 1 else [])))
                 for i in range(k)]
        pad = [(30 + j, NULL) for j in range(rng.choice([0, 0, 1, 3, 8]))]
        objs = [(1, D([('Type', N('Catalog')), ('Outlines', REF(2))])), (2, D([('First', REF(3))]))] + items + shared + pad
        return doc_of(objs), 'outline'
    shared = [(10 + j, D(([('Kids', A([REF(11 + j)] * rng.choice([1, 1, 2])))] if j < L - 1 else []) +
                         [('Names', A([S(b'n%d' % j), D([('D', A([REF(1), N('Fit')]))])]))])) for j in range(L)]
    pad = [(30 + j, NULL) for j in range(rng.choice([0, 0, 1, 3, 8]))]
    objs = [(1, D([('Type', N('Catalog')), ('Outlines', REF(2)), ('Dests', REF(3))])), (2, D([])),
            (3, D([('Kids', A([REF(10)] * k))]))] + shared + pad
    return doc_of(objs), 'nametree'


def gen_wellformed(rng):
    """a conventional document: page tree, contents, resources with fonts and images, annotations, an outline
    with named and explicit destinations"""
    ids = iter(range(1, 200))
    nid = lambda: next(ids)
    objs = []
    cat, pages_root, outlines, nametree = nid(), nid(), nid(), nid()
    npages = rng.randint(1, 4)
    page_ids = [nid() for _ in range(npages)]
    font = nid(); objs.append((font, D([('Type', N('Font')), ('Subtype', N('Type1')), ('Encoding', N(rng.choice(ENC_NAMES[:5])))])))
    tu = nid(); objs.append((tu, ST([], b'begincmap endcmap')))
    font2 = nid(); objs.append((font2, D([('Type', N('Font')), ('Subtype', N('Type0')), ('Encoding', N('Identity-H')), ('ToUnicode', REF(tu))])))
    img = nid(); objs.append((img, ST([('Subtype', N('Image')), ('Width', I(2)), ('Height', I(2)), ('ColorSpace', N('DeviceRGB')),
                                       ('BitsPerComponent', I(8)), ('Filter', N('ASCII85Decode'))], b'zz~>')))
    res = nid(); objs.append((res, D([('Font', D([('F1', REF(font)), ('F2', REF(font2))])), ('XObject', D([('Im0', REF(img))]))])))
    for p in page_ids:
        c = nid(); objs.append((c, ST([], b'BT /F1 12 Tf (Hello) Tj ET')))
        a = nid(); objs.append((a, D([('Type', N('Annot')), ('Subtype', N('Link'))])))
        objs.append((p, D([('Type', N('Page')), ('Parent', REF(pages_root)), ('Contents', rng.choice([REF(c), A([REF(c)])])),
                           ('Annots', A([REF(a)]))] + ([('Resources', REF(res))] if rng.random() < 0.5 else []))))
    objs.append((pages_root, D([('Type', N('Pages')), ('Kids', A([REF(p) for p in page_ids])), ('Count', I(npages)), ('Resources', REF(res))])))
    # outline: a small forest
    def item(title, dest, first=None, nxt=None):
        i = nid()
        e = [('Title', S(title)), dest]
        if first: e.append(('First', REF(first)))
        if nxt: e.append(('Next', REF(nxt)))
        objs.append((i, D(e)))
        return i
    pg = lambda: REF(rng.choice(page_ids))
    leaf2 = item(b'1.2', ('Dest', S(b'k1')))
    leaf1 = item(b'1.1', ('A', D([('S', N('GoTo')), ('D', A([pg(), N('Fit')]))])), nxt=leaf2)
    top2 = item(b'\xfe\xff\x00T\x00w\x00o', ('Dest', A([pg(), N('XYZ'), I(0), I(0), I(0)])))
    top1 = item(b'One', ('Dest', A([pg(), N('Fit')])), first=leaf1, nxt=top2)
    objs.append((outlines, D([('Type', N('Outlines')), ('First', REF(top1)), ('Last', REF(top2))])))
    dd = nid(); objs.append((dd, D([('D', A([pg(), N('Fit')]))])))
    kid = nid(); objs.append((kid, D([('Names', A([S(b'k1'), REF(dd), S(b'k2'), D([('D', A([pg(), N('Fit')]))])]))])))
    objs.append((nametree, D([('Kids', A([REF(kid)]))])))
    objs.append((cat, D([('Type', N('Catalog')), ('Pages', REF(pages_root)), ('Outlines', REF(outlines)),
                         rng.choice([('Dests', REF(nametree)), ('Names', D([('Dests', REF(nametree))]))])])))
    return doc_of(sorted(objs), cat)


DEREF_LIMIT = 128          # src/document.rs; the model reads it through Gen/Consts.v -- here it only places the chain lengths


def _outline_doc(items, extra, npages=2, names=None):
    """catalog 1, page tree 2 with pages 3..2+npages, outline root 9 whose items are chained through Next from object 10 on;
    items: list of entry lists (without Next); extra: further (id, obj); names: entries of a Dests name tree (object 8)"""
    pages = list(range(3, 3 + npages))
    objs = [(2, D([('Type', N('Pages')), ('Kids', A([REF(p) for p in pages])), ('Count', I(npages))]))]
    objs += [(p, D([('Type', N('Page')), ('Parent', REF(2))])) for p in pages]
    cat = [('Type', N('Catalog')), ('Pages', REF(2)), ('Outlines', REF(9))]
    if names is not None:
        cat.append(('Dests', REF(8)))
        objs.append((8, D([('Names', A(names))])))
    objs.append((1, D(cat)))
    objs.append((9, D([('Type', N('Outlines')), ('First', REF(10))])))
    for k, ents in enumerate(items):
        objs.append((10 + k, D(list(ents) + ([('Next', REF(11 + k))] if k + 1 < len(items) else []))))
    return doc_of(sorted(objs + list(extra)))


def _dest_entry(style, dest, title=S(b't')):
    """the two places a destination is read from: `Dest`, or `D` of a GoTo / GoToR action (direct or indirect action)"""
    if style == 'dest':
        return [('Title', title), ('Dest', dest)]
    return [('Title', title), ('A', D([('S', N('GoTo' if style == 'goto' else 'GoToR')), ('D', dest)]))]


def _ref_shape(shape, base, target):
    """objects (id, obj) starting at id `base` that an indirect destination `base 0 R` runs through"""
    if shape == 'self':
        return [(base, REF(base))]
    if shape == 'cycle2':
        return [(base, REF(base + 1)), (base + 1, REF(base))]
    if shape == 'cycle3':
        return [(base, REF(base + 1)), (base + 1, REF(base + 2)), (base + 2, REF(base))]
    if shape == 'rho':                                          # a tail that runs into a 2-cycle not containing its start
        return [(base, REF(base + 1)), (base + 1, REF(base + 2)), (base + 2, REF(base + 1))]
    if shape == 'dangling':
        return []                                               # `base` itself is absent
    kind, k = shape                                             # ('chain', k): k reference objects, then the target
    assert kind == 'chain'
    return [(base + j, REF(base + j + 1)) for j in range(k)] + [(base + k, target)]


DESTREF_SHAPES = ['self', 'cycle2', 'cycle3', 'rho', 'dangling'] + \
                 [('chain', k) for k in (0, 1, 2, DEREF_LIMIT - 2, DEREF_LIMIT - 1, DEREF_LIMIT, DEREF_LIMIT + 1, DEREF_LIMIT + 2, 200)]


def destref_doc(specs, named=True):
    """specs: list of (style, shape, target kind); one outline item each, its destination the indirect object 1000*k"""
    items, extra = [], []
    for k, (style, shape, tk) in enumerate(specs):
        base = 1000 * (k + 1)
        target = {'array': A([REF(3 + k % 2), N('Fit')]), 'short': A([REF(3)]), 'named': S(b'k1'), 'missing': S(b'nope'),
                  'dict': D([('D', A([REF(3), N('Fit')]))]), 'int': I(7)}[tk]
        extra += _ref_shape(shape, base, target)
        items.append(_dest_entry(style, REF(base), S(b't%d' % k)))
    names = [S(b'k1'), D([('D', A([REF(4), N('XYZ'), I(0), I(0), I(0)]))])] if named else None
    return _outline_doc(items, extra, names=names)


def gen_destref(rng):
    """outline items whose Dest / A.D is an INDIRECT object: reference cycles, chains around DEREF_LIMIT, dangling"""
    specs = []
    for _ in range(rng.randint(1, 3)):
        shape = rng.choice(DESTREF_SHAPES)
        if isinstance(shape, tuple) and shape[1] > 8 and any(isinstance(s[1], tuple) and s[1][1] > 8 for s in specs):
            shape = ('chain', rng.choice([0, 1, 2]))            # at most one long chain per case (every id is queried)
        specs.append((rng.choice(['dest', 'dest', 'goto', 'gotor']), shape,
                      rng.choice(['array', 'array', 'array', 'named', 'short', 'missing', 'dict', 'int'])))
    return destref_doc(specs, named=rng.random() < 0.8)


TITLE_POOL = [b'', b'\xfe', b'\xff', b'a', b'\x80', b'\x00', b'\xc3',
              b'\xfe\xff', b'\xff\xfe', b'ab', b'\xff\xff', b'\xfe\xfe', b'\xc3\xa9', b'\xff\x41', b'\xfe\x41',
              b'\xfe\xff\x00', b'\xff\xfe\x41', b'abc', b'\xfe\xff\xd8', b'\xe2\x82\xac',
              b'\xfe\xff\x00A', b'\xff\xfeA\x00', b'\xfe\xff\xd8\x3d', b'\xff\xfe\x3d\xd8', b'\xfe\xff\x00A\x00', b'\xff\xfeA\x00B',
              b'\xfe\xff\xd8\x3d\xde\x00', b'\xff\xfe\x3d\xd8\x00\xde', b'Chapter 1']


def toctitle_doc(titles, rng=None):
    """every item points at a page that IS in the page tree, so get_toc reaches the title decoding for each title"""
    items, extra, names = [], [], []
    for k, t in enumerate(titles):
        style = rng.choice(['dest', 'dest', 'dest', 'goto', 'named', 'titleref', 'indirect', 'offtree']) if rng else 'dest'
        ts = (H if (rng and rng.random() < 0.25) else S)(t)
        page = REF(3 + k % 2)
        if style == 'named':                                    # the title replaces the one stored in the named destination
            key = b'n%d' % k
            names += [S(key), D([('D', A([page, N('Fit')]))])]
            items.append([('Title', ts), ('Dest', S(key))])
        elif style == 'titleref':                               # an indirect Title is only resolved on the action path
            extra.append((500 + k, ts))
            items.append([('Title', REF(500 + k)), ('A', D([('S', N('GoTo')), ('D', A([page, N('Fit')]))]))])
        elif style == 'indirect':
            extra.append((600 + k, A([page, N('Fit')])))
            items.append([('Title', ts), ('Dest', REF(600 + k))])
        elif style == 'offtree':                                # a page object that no Kids array lists: the row is skipped
            extra.append((700 + k, D([('Type', N('Page'))])))
            items.append([('Title', ts), ('Dest', A([REF(700 + k), N('Fit')]))])
        else:
            items.append(_dest_entry(style, A([page, N('Fit')]), ts))
    return _outline_doc(items, extra, names=names if names else None)


def gen_toctitle(rng):
    return toctitle_doc(rng.sample(TITLE_POOL, rng.randint(1, 5)), rng)


# ------------------------------------------------------------------------------------------
# Contents shapes: indirect arrays that list themselves / each other / arrays of arrays
# ------------------------------------------------------------------------------------------
def contents_doc(contents, extra, inherit=False):
    """catalog 1, page tree 2, page 3 (IN the page tree, so extract_text reaches it) with `Contents contents`, font 90,
    content streams 4 and 7; extra: further (id, obj) -- the array / reference objects (ids 5, 6, 8.. and 100..)"""
    res = D([('Font', D([('F1', REF(90))]))])
    page = [('Type', N('Page')), ('Parent', REF(2))] + ([] if inherit else [('Resources', res)]) + [('Contents', contents)]
    objs = [(1, D([('Type', N('Catalog')), ('Pages', REF(2))])),
            (2, D([('Type', N('Pages')), ('Kids', A([REF(3)])), ('Count', I(1))] + ([('Resources', res)] if inherit else []))),
            (3, D(page)),
            (4, ST([], b'BT /F1 12 Tf (Hello) Tj ET')),
            (7, ST([('Filter', N('ASCII85Decode'))], b'87cURD]i,"Ebo80~>')),
            (90, D([('Type', N('Font')), ('Subtype', N('Type1')), ('Encoding', N('WinAnsiEncoding'))]))]
    return doc_of(sorted(objs + list(extra)))


def _levels(depth, fan, leaf, base=100, top_streams=False, every_streams=False):
    """arrays of arrays: object base+i = [base+i+1] * fan(i) for i < depth (a DAG whose unfolding has fan^depth paths; every
    array is an INDIRECT object), object base+depth = leaf.  Streams are listed beside the sub-arrays at the top level
    (top_streams) or at every level (every_streams; only used for small depth)."""
    out = []
    for i in range(depth):
        items = [REF(base + i + 1)] * (fan(i) if callable(fan) else fan)
        if every_streams or (top_streams and i == 0):
            items = [REF(4)] + items + [REF(7)]
        out.append((base + i, A(items)))
    out.append((base + depth, leaf))
    return out


def contents_shapes():
    """named members present in every run: (Contents value of page 3, further objects)"""
    r = REF
    E = {}
    # an indirect array that lists itself once / twice / k times (the seeded demo's `5 0 obj [5 0 R 5 0 R]`)
    for k in (1, 2, 3, 5):
        E['self%d' % k] = (r(5), [(5, A([r(5)] * k))])
    E['self2-direct-top'] = (A([r(4), r(5), r(7)]), [(5, A([r(5), r(5)]))])          # streams beside the cyclic array, in the direct array
    E['self2-streams-inside'] = (r(5), [(5, A([r(4), r(5), r(5), r(7)]))])            # streams inside the array that lists itself
    E['self2-via-refobj'] = (r(8), [(8, r(9)), (9, r(5)), (5, A([r(5), r(5)]))])     # reached through reference objects
    E['self2-nested-direct'] = (r(5), [(5, A([A([r(5), r(5)]), A([r(5)])]))])        # the self references sit in nested DIRECT arrays
    # mutually recursive arrays
    E['mutual2'] = (r(5), [(5, A([r(6), r(6)])), (6, A([r(5), r(5)]))])
    E['mutual2-asym'] = (r(5), [(5, A([r(6)])), (6, A([r(5), r(5), r(4)]))])
    E['mutual3'] = (r(5), [(5, A([r(6), r(6)])), (6, A([r(8), r(8), r(8)])), (8, A([r(5), r(5)]))])
    E['mutual2-direct-top'] = (A([r(5), r(4), r(6)]), [(5, A([r(6), r(6)])), (6, A([r(5), r(5)]))])
    # a chain of reference objects around DEREF_LIMIT that ends in an array listing itself twice
    for k in (DEREF_LIMIT - 2, DEREF_LIMIT - 1, DEREF_LIMIT):
        E['chain%d-self2' % k] = (r(200), [(200 + j, r(201 + j)) for j in range(k)] + [(200 + k, A([r(200 + k), r(200 + k), r(4)]))])
    # arrays of arrays, fan-out 2..3; small depth: streams at every level; depth up to and beyond DEREF_LIMIT: leaf without streams
    for d, fan in ((1, 2), (2, 3), (4, 2), (8, 2), (6, 3)):
        E['tree-d%d-f%d' % (d, fan)] = (r(100), _levels(d, fan, A([r(4), r(7)]), every_streams=True))
    for d, fan in ((40, 2), (64, 3), (DEREF_LIMIT - 1, 2), (DEREF_LIMIT, 2), (DEREF_LIMIT + 1, 3), (200, 2)):
        E['tree-d%d-f%d' % (d, fan)] = (r(100), _levels(d, fan, A([]), top_streams=True))
    E['tree-d%d-f2-direct-top' % DEREF_LIMIT] = (A([r(4), r(100), r(100)]), _levels(DEREF_LIMIT, 2, I(0)))
    return E


def gen_contents(rng):
    """random members of the Contents family"""
    r = REF
    kind = rng.choice(['self', 'self', 'mutual', 'tree-small', 'tree-small', 'tree-deep', 'chain-self', 'plain'])
    stream = lambda: r(rng.choice([4, 7, 4, 7, 9000]))             # 9000: dangling (listed as it is)
    def wrap(c):
        """the page's Contents: the indirect object itself, a direct array around it, or a reference object in front"""
        t = rng.random()
        if t < 0.5: return c, []
        if t < 0.8: return A([stream() for _ in range(rng.randint(0, 2))] + [c] * rng.choice([1, 1, 2]) + [stream() for _ in range(rng.randint(0, 1))]), []
        return r(8), [(8, c)]
    if kind == 'self':
        k = rng.randint(1, 5)
        c, extra = wrap(r(5))
        extra += [(5, A([r(5)] * k))]                               # no stream inside the cycle (see contents_shapes for that member)
    elif kind == 'mutual':
        n = rng.choice([2, 2, 3, 4])
        ids = [5, 6, 8, 9][:n]
        c, extra0 = wrap(r(5))
        extra = [(i, A([r(rng.choice(ids))] * rng.randint(1, 2) + [r(ids[(j + 1) % n])] * rng.randint(1, 3))) for j, i in enumerate(ids)]
        extra += [e for e in extra0 if e[0] not in ids]
        if any(e[0] == 8 for e in extra0) and 8 in ids:
            c = r(5)
    elif kind == 'tree-small':
        d = rng.randint(1, 9)
        c, extra = wrap(r(100))
        leaf = rng.choice([A([r(4), r(7)]), A([]), r(4), ST([], b'q Q'), I(1), 'back'])
        if leaf == 'back':                                          # the last level lists the first again: streams at the top level only
            extra += _levels(d, lambda i: rng.randint(1, 3), A([r(100)] * rng.randint(1, 2)), top_streams=rng.random() < 0.6)
        else:
            extra += _levels(d, lambda i: rng.randint(1, 3) if d <= 6 else rng.randint(1, 2), leaf, every_streams=rng.random() < 0.6)
    elif kind == 'tree-deep':
        d = rng.choice([30, 64, 100, DEREF_LIMIT - 2, DEREF_LIMIT - 1, DEREF_LIMIT, DEREF_LIMIT + 1, 160])
        c, extra = wrap(r(100))
        extra += _levels(d, lambda i: rng.randint(2, 3), rng.choice([A([]), I(0), A([r(100), r(100)])]), top_streams=rng.random() < 0.5)
    elif kind == 'chain-self':
        k = rng.choice([0, 1, 2, 60, DEREF_LIMIT - 2, DEREF_LIMIT - 1, DEREF_LIMIT, DEREF_LIMIT + 1])
        c = r(200)
        extra = [(200 + j, r(201 + j)) for j in range(k)] + [(200 + k, A([r(200 + k)] * rng.randint(1, 3)))]
    else:
        # ordinary shapes: an indirect array of streams, a direct one, arrays with non-reference items
        c = rng.choice([r(5), A([r(4), r(7)]), A([r(5), r(4)]), r(4)])
        extra = [(5, A([stream() for _ in range(rng.randint(0, 3))] + rng.choice([[], [I(1)], [A([r(4)])], [NULL]])))]
    return contents_doc(c, extra, inherit=rng.random() < 0.3), kind


# ------------------------------------------------------------------------------------------
# Length family (seeded defect C13/p2): in-memory content streams whose dictionary Length lies
# ------------------------------------------------------------------------------------------
def length_doc(streams, extra=(), direct=False, inherit=False, in_tree=True):
    """catalog 1, page tree 2, page 3 whose Contents lists the streams 10, 11, ...; streams: list of (Length value or None,
    filter?) -- the real content is always small; extra: the objects the Length entries refer to"""
    objs = []
    for k, (length, a85) in enumerate(streams):
        ents = [('Filter', N('ASCII85Decode'))] if a85 else []
        if length is not None:
            ents.insert(k % 2 if ents else 0, ('Length', length))
        objs.append((10 + k, ST(ents, b'87cURD]i,"Ebo80~>' if a85 else [b'BT /F1 12 Tf (Hello) Tj ET', b'q Q', b''][k % 3])))
    refs = [REF(10 + k) for k in range(len(streams))]
    contents = refs[0] if (direct and len(refs) == 1) else A(refs)
    res = D([('Font', D([('F1', REF(90))]))])
    page = [('Type', N('Page')), ('Parent', REF(2))] + ([] if inherit else [('Resources', res)]) + [('Contents', contents)]
    objs += [(1, D([('Type', N('Catalog')), ('Pages', REF(2))])),
             (2, D([('Type', N('Pages')), ('Kids', A([REF(3)] if in_tree else [])), ('Count', I(1 if in_tree else 0))] +
                   ([('Resources', res)] if inherit else []))),
             (3, D(page)),
             (90, D([('Type', N('Font')), ('Subtype', N('Type1')), ('Encoding', N('WinAnsiEncoding'))]))]
    return doc_of(sorted(objs + list(extra)))


def length_shapes():
    """fixed members (every run): (streams, extra, options)"""
    E = {}
    for v in HUGE_LENGTHS:
        E['huge-%x' % v] = ([(I(v), False)], [], {})
    E['huge-direct-contents'] = ([(I(I64_MAX), False)], [], {'direct': True})
    E['huge-a85'] = ([(I(I64_MAX), True)], [], {})
    E['huge-off-tree'] = ([(I(I64_MAX - 7), False)], [], {'in_tree': False})
    E['huge-ref'] = ([(REF(20), False)], [(20, I(I64_MAX - 7))], {})
    E['huge-ref-ref'] = ([(REF(20), True)], [(20, REF(21)), (21, I(I64_MAX))], {'direct': True})
    E['huge-ref-shared'] = ([(REF(20), False), (REF(20), True), (I(3), False)], [(20, I(2 ** 62))], {})
    E['sum-overflow'] = ([(I(I64_MAX), False), (I(I64_MAX), False), (I(I64_MAX), True)], [], {})
    E['sum-huge-small-parts'] = ([(I(2 ** 61), False)] * 5, [], {})
    for k, v in enumerate(NEG_LENGTHS):
        E['neg-%d' % k] = ([(I(v), False), (I(2), True)], [], {})
    E['neg-ref'] = ([(REF(20), False)], [(20, I(I64_MIN))], {})
    for k, v in enumerate(WRONG_LENGTHS):
        E['kind-%d' % k] = ([(v, False)], [], {})
    E['kind-ref-name'] = ([(REF(20), False)], [(20, N('Big'))], {})
    E['ref-self'] = ([(REF(20), False)], [(20, REF(20))], {})
    E['ref-cycle2'] = ([(REF(20), True)], [(20, REF(21)), (21, REF(20))], {})
    E['ref-dangling'] = ([(REF(9000), False)], [], {})
    E['ref-own-stream'] = ([(REF(10), False)], [], {})
    E['ref-other-stream'] = ([(REF(11), False), (I(I64_MAX), False)], [], {})
    E['ref-chain%d' % DEREF_LIMIT] = ([(REF(200), False)], [(200 + j, REF(201 + j)) for j in range(DEREF_LIMIT)] + [(200 + DEREF_LIMIT, I(I64_MAX))], {})
    E['absent'] = ([(None, False), (None, True)], [], {})
    return E


def gen_length(rng):
    n = rng.choice([1, 1, 2, 3, 4])
    streams, extra = [], []
    for k in range(n):
        r = rng.random()
        if r < 0.3: v = I(rng.choice(HUGE_LENGTHS))
        elif r < 0.4: v = I(rng.choice(NEG_LENGTHS))
        elif r < 0.5: v = rng.choice(WRONG_LENGTHS)
        elif r < 0.55: v = None
        elif r < 0.65: v = I(rng.choice([0, 1, 5, 26, 27, 1000]))
        else:
            # through reference objects: to an integer of any size, another kind, a cycle, nothing
            base = 20 + 10 * k
            hops = rng.choice([0, 0, 1, 2])
            t = rng.random()
            target = (I(rng.choice(HUGE_LENGTHS)) if t < 0.5 else I(rng.choice(NEG_LENGTHS + [3])) if t < 0.65 else
                      rng.choice(WRONG_LENGTHS) if t < 0.8 else REF(base) if t < 0.9 else None)
            extra += [(base + j, REF(base + j + 1)) for j in range(hops)]
            if target is not None:
                extra.append((base + hops, target))
            v = REF(base)
        streams.append((v, rng.random() < 0.3))
    return length_doc(streams, extra, direct=rng.random() < 0.3, inherit=rng.random() < 0.3, in_tree=rng.random() < 0.85)


def big_case(kind, n, stack_kib):
    """seeded defect C13/p1: a document the HARNESS builds from this description (n small filler objects beside a catalog, an outline
    root and items whose First links form a cycle / a chain); the queries that are not per-object run on a thread with the given
    stack.  The extracted runner cannot walk association lists of this size: it answers `model-skipped` and the case is decided by
    the direct verdict alone."""
    return L('big', kind, str(n), str(stack_kib))


def edge_cases():
    """fixed members of the two families above (present in every run, whatever the seed)"""
    E = {}
    for style in ('dest', 'goto'):
        for shape in ('self', 'cycle2', 'cycle3', 'rho', 'dangling'):
            E['destref-%s-%s' % (style, shape)] = destref_doc([(style, shape, 'array')], named=False)
        for k in (DEREF_LIMIT - 1, DEREF_LIMIT, DEREF_LIMIT + 1):
            E['destref-%s-chain%d' % (style, k)] = destref_doc([(style, ('chain', k), 'array')], named=False)
    E['destref-named-chain%d' % DEREF_LIMIT] = destref_doc([('dest', ('chain', DEREF_LIMIT), 'named')])
    E['destref-named-chain%d' % (DEREF_LIMIT + 1)] = destref_doc([('dest', ('chain', DEREF_LIMIT + 1), 'named')])
    for t in (b'', b'\xff', b'\xfe', b'a', b'\x80', b'\xfe\xff', b'\xff\xfe', b'\xfe\xff\x00', b'\xff\xfe\x41'):
        E['toctitle-' + (t.hex() or 'empty')] = toctitle_doc([t])
    E['toctitle-all-short'] = toctitle_doc([b'', b'\xff', b'\xfe', b'a', b'\xff\xfe', b'\xfe\xff', b'\xfe\xff\x00'])
    for k, (c, extra) in contents_shapes().items():
        E['contents-' + k] = contents_doc(c, extra)
    for k, (streams, extra, opts) in length_shapes().items():
        E['length-' + k] = length_doc(streams, extra, **opts)
    return E


def gen_cases(rng, tier):
    n = 420 if tier == 'quick' else 12000
    cases = [(w, {'kind': 'witness-' + k, 'nontrivial': True}) for k, w in sorted(witnesses().items())]
    cases += [(w, {'kind': 'edge-' + k, 'nontrivial': True}) for k, w in sorted(edge_cases().items())]
    for k in range(n):
        r = rng.random()
        if r < 0.08:
            cases.append((gen_wellformed(rng), {'kind': 'wellformed', 'nontrivial': True}))
        elif r < 0.16:
            line, kind = gen_chain(rng)
            cases.append((line, {'kind': 'chain-' + kind, 'nontrivial': True}))
        elif r < 0.26:
            line, kind = gen_dag(rng)
            cases.append((line, {'kind': 'dag-' + kind, 'nontrivial': True}))
        else:
            p = rng.choice([0.05, 0.15, 0.3, 0.5])
            cases.append((gen_chaos(rng, p), {'kind': 'chaos-%d' % int(p * 100), 'nontrivial': True}))
    # a separate stream for the two families added later (drawn last: the cases above stay what they were)
    rng2 = rng
    for k in range(30 if tier == 'quick' else 900):
        if rng2.random() < 0.5:
            cases.append((gen_destref(rng2), {'kind': 'destref', 'nontrivial': True}))
        else:
            cases.append((gen_toctitle(rng2), {'kind': 'toctitle', 'nontrivial': True}))
    # Contents family (drawn last again)
    for k in range(24 if tier == 'quick' else 700):
        line, kind = gen_contents(rng2)
        cases.append((line, {'kind': 'contents-' + kind, 'nontrivial': True}))
    # Length family (drawn last again)
    for k in range(24 if tier == 'quick' else 700):
        cases.append((gen_length(rng2), {'kind': 'length', 'nontrivial': True}))
    # the big documents (seeded defect C13/p1): implementation only, see big_case
    for kind, n, kib in (BIG_QUICK if tier == 'quick' else BIG_THOROUGH):
        cases.append((big_case(kind, n, kib), {'kind': 'big-%s-%d-stack%dk-model-skipped' % (kind, n, kib), 'nontrivial': True}))
    return cases


# (kind, filler objects / chain length, stack of the query thread in KiB).  Measured with the seeded mutant p1 (depth limit of
# get_outlines removed) in the harness's release profile with debug assertions: one level of First nesting takes ~720 bytes of
# stack, a 2 MiB stack (Rust's default for spawned threads) overflows from ~2 900 objects on, an 8 MiB stack from ~11 400 on;
# the unchanged tree answers Err(ReferenceLimit) at depth 256 in < 0.4 s whatever the size.
BIG_QUICK = [('first-cycle', 60000, 8192)]
BIG_THOROUGH = [('first-cycle', 300000, 8192), ('first-cycle', 60000, 2048), ('first-chain', 60000, 8192), ('first-chain', 12000, 2048)]


def compare(model_out, impl_out):
    """the big cases have no model answer (the runner prints `model-skipped`): never compared"""
    if model_out.strip() == 'model-skipped':
        return True
    return vlib.compare_canon_reals(model_out, impl_out)


PARTIAL = ('The proof covers lopdf\'s own loops, recursion, budgets, limits, indexing, unwraps, casts and allocation requests in '
           'the modelled queries.  It cannot exhibit: panics inside third-party crates (indexmap, std collections, log, flate2, '
           'weezl, encoding_rs), the real stack limit and allocator (recursion depth is an explicit depth argument bounded by '
           'the 256-level limits, the allocation request of get_pages is an explicit annotation), wall-clock.  Stream filter '
           'decoding inside get_page_content, the ToUnicode CMap parser behind get_font_encoding and Content::decode + text '
           'decoding behind extract_text enter the older C13 theorems as functions that return (Section variables); since the '
           'composition round they are ALSO instantiated with the models of C04/C09/C14/C15/C16 in an outcome monad that can '
           'express their panics (C13_get_page_content_total_real: no assumption beyond "flate2 / weezl return"; '
           'C13_extract_text_chunks_total_real_partial / C13_extract_text_total_real_partial: additionally encoding_rs UTF_16BE.decode returns, and nom returns on the one '
           'corner of the CMap grammar the model does not cover -- a CIDSystemInfo dictionary holding a value other than a name, a short integer or a plain literal string).  '
           'extract_text is tied by outcome class only.')

SPEC = {
    'gen_parts': ['Consts', 'QueryC', 'Tables', 'Filters'],
    'allowed_axioms': (),
    'runner': 'c13',
    'bin': 'c13',
    'gen_cases': gen_cases,
    'compare': compare,
    'impl_shards': 8,
    'model_shards': 16,
    'rule': 'typed-chaos object graphs of 3-14 objects: 30 object roles (catalog, page tree nodes, pages, resources, font / XObject '
            'dictionaries, fonts, image and content streams, outline root/items/actions, name-tree nodes, destination '
            'dictionaries, annotations, arrays, reference objects, integers, strings), every field bound with probability '
            '5-50% to a value of a random kind (null, bool, extreme integers, real, name, string, array, dictionary over the '
            '34 keys the query code reads, stream, reference to a random / dangling / own id) and otherwise to its expected kind '
            'with references to random objects of the expected role (cycles through Parent, Kids, First, Next, Contents, '
            'Length, Count ...); chains of 5..300 links at every limit (dereference, Contents, Parent, First, Next, Kids, page '
            'tree, direct nesting); outlines and name trees with shared sub-structures whose unfolding straddles the reference budget; well-formed documents; the 17 witnesses of the repaired defects; '
            'outline items whose Dest / A.D is an indirect object that is a reference to itself, a 2- or 3-cycle of references, a tail into a cycle, a '
            'chain of 0..200 reference objects (126..130 around DEREF_LIMIT) ending in a destination array / name / wrong kind, or dangling; '
            'outline items with Titles of 0..9 bytes (every 0/1/2/3-byte shape of the byte-order-mark tests, literal and hexadecimal, direct, '
            'indirect, through a named destination) whose destination is a page of the page tree (28 fixed members of both families in every run); '
            'pages (in the page tree) whose Contents is an indirect array that lists itself 1..5 times, arrays listing each other (2-4 cycle), arrays of '
            'arrays with fan-out 1-3 and depth 1..200 (at, below and above DEREF_LIMIT), reference chains of 0..129 links into a self-listing array, '
            'reached directly / inside a direct array / through a reference object, with real streams beside, inside and below the arrays '
            '(27 fixed members + 24 random per quick run); in-memory content streams (small real content) whose dictionary Length is huge (2^47 .. i64::MAX), '
            'negative, of another kind, absent, or a reference (chain, cycle, dangling) to such, alone or several whose sum overflows (36 fixed members + 24 random per quick '
            'run; the chaos streams draw their Length the same way); one document of 60 000 objects (thorough: up to 300 000) built by the harness with a First cycle / a First chain, '
            'queried on a thread with an 8 MiB / 2 MiB stack -- IMPLEMENTATION ONLY, tagged model-skipped, decided by the direct verdict; every query is called for '
            'every object id plus a dangling one; non-trivial = all; distinct = distinct case text',
    'extra_trusted': ['C13: worker isolation (child process per case, 4 s wall-clock per query group) decides hang/abort; '
                      'panic classes are read from the panic message',
                      'C13: Model/StreamFilt.v (C09) instantiates filter decoding in the runner with empty flate/LZW oracles'],
    'partial_note': PARTIAL,
}


def run(ctx):
    rc = propcheck.standard_check(ctx, SPEC)
    # the big cases have no model answer: they do not count as traces validated against the implementation
    import json, os
    try:
        p = os.path.join(vlib.ROOT, 'evidence', 'C13.json')
        ev = json.load(open(p))
        cov = ev['coverage']
        skipped = {k: v for k, v in cov.get('kinds', {}).items() if k.endswith('model-skipped')}
        n = sum(skipped.values())
        if n and cov.get('traces_validated_against_impl', 0) >= n:
            cov['traces_validated_against_impl'] -= n
            cov['model_skipped'] = {'cases': skipped,
                                    'note': 'implementation only: the runner answers model-skipped (object maps of 12 000 .. 300 000 entries), '
                                            'the direct verdict (no panic, hang or abort on a thread with the stated stack) decides alone'}
            json.dump(ev, open(p, 'w'), indent=1)
    except Exception as e:
        print('note: evidence post-processing failed: %r' % (e,))
    return rc


MANIFEST = {
    'level_text': 'Machine-checked proofs (Coq, no axioms) over a model of the read-only queries written branch for branch from the '
                  'repaired sources: for ALL object maps and documents (no well-formedness hypothesis) dereference / get_object / '
                  'get_dictionary / catalog, get_page_contents / get_page_content, get_page_resources / get_page_fonts, '
                  'get_named_destinations, get_outlines, get_toc and the graph part of extract_text return a value or an error '
                  'within an explicit fuel bound polynomial in the number of objects and their nesting height (measure arguments over '
                  'DEREF_LIMIT, the visited set, the reference budgets); size_hint never promises more than it yields nor less than '
                  'the iteration budget allows and the allocation request of get_pages is <= |objects| + 1; composed with C09/C04/C14/C15/C16: '
                  'get_page_content with the real filter chain (value model + site-explicit models of ASCII85 and the PNG predictor) '
                  'and extract_text_chunks with the real CMap hand-over, Content::decode, operation loop and decode_text answer neither '
                  'Panic nor OutOfFuel on any document, for any total flate2 / weezl decoders (none with the Gallina decoders); the unrepaired walkers '
                  '(QueryV0) are proved to panic or to diverge for every fuel on 3-5 object witnesses.  Limits and the shapes of the '
                  'limit tests are re-read from the Rust source on every run; the model is tied to the implementation by isolated-'
                  'worker differential runs (values, error class, panic, hang, abort) on typed-chaos graphs.',
    'level_note': 'partial: ' + PARTIAL + '  Eight defects found and repaired (known_findings.json, fix commits de22aab ab38d4c '
                  'bcaf31f a720232 88fe34a 89b7063 8ad6800 e154731).  Trusted: Coq kernel; translator (4 constants, font tables, 11 shape '
                  'anchors); hand-written model tied by correspondence; extraction/OCaml driver; Rust harness with process isolation.',
    'technique': 'Coq proof (fuel/measure arguments over budgets, limits and visited sets) + isolated-worker differential correspondence',
    'design_ref': 'DESIGN.md 6 C13',
}
