"""C18 -- dates convert to PDF date strings and back (chrono, jiff, time)."""
import calendar, re
import propcheck
from sxg import *


def dim(y, m):
    return calendar.monthrange(y, m)[1] if y >= 1 else (29 if m == 2 and (y % 4 == 0 and (y % 100 != 0 or y % 400 == 0)) else
                                                         [31, 28, 31, 30, 31, 30, 31, 31, 30, 31, 30, 31][m - 1])


def days_from_civil(y, m, d):
    """proleptic Gregorian day number relative to 1970-01-01 (independent of the Coq model: via
    Python's own calendar for years >= 1)"""
    import datetime
    return (datetime.date(y, m, d) - datetime.date(1970, 1, 1)).days


def instant(y, mo, d, h, mi, s, off):
    return days_from_civil(y, mo, d) * 86400 + h * 3600 + mi * 60 + s - off


def rt(y, mo, d, h, mi, s, off):
    return L('rt', str(y), str(mo), str(d), str(h), str(mi), str(s), str(off))


def spec_text(y, mo, d, h, mi, s, off, form):
    """the three textual forms of ISO 32000-1 7.9.4 used by the property"""
    sign = '-' if off < 0 else '+'
    a = abs(off)
    o = "%s%02d'%02d'" % (sign, a // 3600, a // 60 % 60)
    if form == 'full':
        return "D:%04d%02d%02d%02d%02d%02d%s" % (y, mo, d, h, mi, s, o)
    if form == 'fullz':
        return "D:%04d%02d%02d%02d%02d%02dZ" % (y, mo, d, h, mi, s)
    if form == 'minute':
        return "D:%04d%02d%02d%02d%02d%s" % (y, mo, d, h, mi, o)
    if form == 'minutez':
        return "D:%04d%02d%02d%02d%02dZ" % (y, mo, d, h, mi)
    if form == 'date':
        return "D:%04d%02d%02d" % (y, mo, d)
    raise ValueError(form)


def parse_case(text, expect=None):
    if expect is None:
        return L('parse', xb(text))
    return L('parse', xb(text), L('expect', str(expect[0]), str(expect[1])))


def rand_civil(rng, year=None):
    y = year if year is not None else rng.choice([rng.randint(1, 9999), rng.randint(1, 9999), rng.randint(1900, 2100),
                                                  rng.randint(1, 999), 1, 9999, 2000, 1900, 2024, 4, 100, 400])
    mo = rng.randint(1, 12)
    d = rng.choice([1, dim(y, mo), rng.randint(1, dim(y, mo))])
    h, mi, s = rng.choice([(0, 0, 0), (23, 59, 59), (rng.randint(0, 23), rng.randint(0, 59), rng.randint(0, 59))])
    return y, mo, d, h, mi, s


EDGE_INSTANTS = [
    (2024, 2, 29, 12, 34, 56), (2000, 2, 29, 0, 0, 0), (1900, 2, 28, 23, 59, 59), (1900, 3, 1, 0, 0, 0),
    (1, 1, 1, 0, 0, 0), (1, 1, 1, 23, 59, 59), (1, 12, 31, 23, 59, 59), (999, 12, 31, 23, 59, 59), (1000, 1, 1, 0, 0, 0),
    (9999, 1, 1, 0, 0, 0), (9999, 12, 29, 23, 59, 59), (9999, 12, 30, 21, 59, 59), (9999, 12, 30, 22, 0, 0), (9999, 12, 30, 22, 0, 1),
    (9999, 12, 31, 0, 0, 0), (9999, 12, 31, 23, 59, 59), (1970, 1, 1, 0, 0, 0), (1969, 12, 31, 23, 59, 59), (2038, 1, 19, 3, 14, 8),
    (1582, 10, 4, 12, 0, 0), (1582, 10, 15, 12, 0, 0), (2023, 12, 31, 23, 59, 59), (2024, 1, 1, 0, 0, 0), (2024, 12, 31, 23, 59, 59),
    (2100, 2, 28, 23, 59, 59), (2400, 2, 29, 23, 59, 59), (4, 2, 29, 0, 0, 0), (100, 2, 28, 0, 0, 0), (400, 2, 29, 12, 0, 0),
]

ALPHABET = "0123456789" * 3 + "+-Zz" + "D:' "


def mutate(rng, text):
    t = list(text)
    for _ in range(rng.choice([1, 1, 1, 2, 3])):
        k = rng.random()
        pos = rng.randrange(len(t) + 1) if t else 0
        if k < 0.35 and t:
            i = rng.randrange(len(t))
            t[i] = rng.choice("0123456789") if t[i].isdigit() or rng.random() < 0.3 else rng.choice(ALPHABET)
        elif k < 0.55 and t:
            del t[rng.randrange(len(t))]
        elif k < 0.75:
            t.insert(pos, rng.choice(ALPHABET))
        elif k < 0.85 and t:
            t = t[:rng.randrange(len(t))]
        elif k < 0.95:
            t.insert(pos, rng.choice(["\t", "\n", "\x0b", "\x0c", "\r", " ", "+", "-", "60", "24", "99", "00", "Z", ":", "'"]))
        else:
            t = t + list(rng.choice(["00", "15", "59", "'00'", "Z", "+01", "-08'00'"]))
    return ''.join(t)


HAND = [
    "D:199812231952-08'00'", "D:20040229", "D:20240229123456Z", "D:20240229123460+01'00'", "D:+2024 02 29", "D:2024 1 1 0 0 0Z",
    "D:20240229123456+053015", "D:20240229123456+25'59'", "D:20240229123456+26'00'", "D:20240229123456+255959",
    "D:20240229123456-00'30'", "D:00000229123456-00'30'", "D:99991230220000Z", "D:99991230220001Z", "D:99991231235959+01'59'",
    "D:-99990102015959Z", "D:-99990102015958Z", "D:-99990101000000-02'00'", "D:-00010101000000Z", "D:+20240101000000Z",
    "D:2024010100000Z", "D:202401010000+01", "D:202401010000+01'3", "D:2024010100+0130", "D:2024010", "D:202401010000z",
    "D:20240101000000 +0100", "D:20240230000000Z", "D:20230229", "D:20241301", "D:20240100", "D:20240101240000Z",
    "D:20240101006000Z", "D:20240101000061Z", "D:20240101000060Z", "D:20240101000000+0060", "D:20240101000000+2400",
    "D:20240101000000+9900", "D:20240101000000+01:30", "D:20240101000000+01 30", "D: 20240101000000Z", "D:20240101000000Z ",
    "D:20240101000000-0000", "", "D:", "Z", "D:2024", "D:202402", "D:2024022912", "D:20240229123456", "D:20240229123456+",
    "D:20240229123456+0", "D:20240229123456+05", "D:20240229123456+05'", "D:20240229123456+05'3", "20240229123456+05'30'",
    "D:20240229123456+05'30", "D:20240229123456+05'30'0", "D:20240229123456+05'30'00", "D:20240229123456+05'30'60",
    "D:20240229123456+05'30'00.5", "D:20240229123456+05'30'00,5", "D:20240229123456+05'30'000", "D:20240229123456+25'59'59",
    "D:20240229123456\x0b+0530", "D:2024\x0b0229123456+0530", "D:2024\x0c0229123456+0530", "D:20240229123456+05\x0b30",
    "D:20240229123456 Z", "D:2024022912345 Z", "D:+2024\t02\n29\r12 34 56Z", "D:-1 1 1", "D:+12345 01 01", "D:+262142 12 31",
    "D:+262143 01 01", "D:-262143 01 01", "D:-262144 01 01", "D:+99999999999999999999 01 01", "D:12345678901234567890",
    "D:0001010100000+0000", "D:00010101000000+2359", "D:00010101000000-2359", "D:00010101000000+2360",
    "D:99991231235959-2359", "D:99991231235959+2359", "D:20240229123456+5'30'", "D:20240229123456+ 530",
]


def gen_cases(rng, tier):
    cases = []
    thorough = tier != 'quick'
    # (a) every minute offset -23:59..+23:59 at a fixed instant (exhaustive): 2879 cases
    for m in range(-1439, 1440):
        cases.append((rt(2024, 2, 29, 12, 34, 56, 60 * m), {'kind': 'offset-sweep', 'nontrivial': True}))
    # (b) edge instants x a few offsets
    offs = [0, 60, -60, 1800, -1800, 19800, -28800, 86340, -86340, 3600, -3600, 43200, -43200, 7140, -7140, 7200, -7200]
    for c in EDGE_INSTANTS:
        for off in offs:
            cases.append((rt(*c, off), {'kind': 'edge-instant', 'nontrivial': True}))
    # (c) instants sampled across years 1..9999
    n = 1200 if not thorough else 40000
    for _ in range(n):
        c = rand_civil(rng)
        off = 60 * rng.choice([0, 0, rng.randint(-1439, 1439), rng.randint(-1439, 1439), rng.randint(-59, 59)])
        cases.append((rt(*c, off), {'kind': 'sampled-instant', 'nontrivial': True}))
    # every year once (leap day if there is one, else year end)
    ystep = 7 if not thorough else 1
    for y in range(1, 10000, ystep):
        c = (y, 2, 29, 23, 59, 59) if dim(y, 2) == 29 else (y, 12, 31, 23, 59, 59)
        cases.append((rt(*c, 60 * rng.randint(-1439, 1439)), {'kind': 'year-scan', 'nontrivial': True}))
    # (d) sub-minute offsets: outside the property (verdict skip), ties the models of the offset printers
    for _ in range(60 if not thorough else 1500):
        cases.append((rt(*rand_civil(rng), rng.randint(-86399, 86399)), {'kind': 'subminute-offset', 'nontrivial': False}))
    # (e) the textual forms of the specification, fed to every parser, with the instant/offset the
    #     specification gives them (no offset given = UT)
    for _ in range(400 if not thorough else 12000):
        y, mo, d, h, mi, s = rand_civil(rng)
        if (y, mo, d) >= (9999, 12, 30) or (y, mo, d) <= (1, 1, 2):
            y = 2000 + y % 50          # keep clear of jiff's Timestamp range ends (sampled separately in HAND)
            d = min(d, dim(y, mo))
        off = 60 * rng.choice([0, rng.randint(-1439, 1439)])
        form = rng.choice(['full', 'fullz', 'minute', 'minutez', 'date'])
        txt = spec_text(y, mo, d, h, mi, s, off, form)
        if form == 'full':
            exp = (instant(y, mo, d, h, mi, s, off), off)
        elif form == 'fullz':
            exp = (instant(y, mo, d, h, mi, s, 0), 0)
        elif form == 'minute':
            exp = (instant(y, mo, d, h, mi, 0, off), off)
        elif form == 'minutez':
            exp = (instant(y, mo, d, h, mi, 0, 0), 0)
        else:
            exp = (instant(y, mo, d, 0, 0, 0, 0), 0)
        cases.append((parse_case(txt, exp), {'kind': 'spec-' + form, 'nontrivial': True}))
    cases.append((parse_case("D:199812231952-08'00'", (914471520, -28800)), {'kind': 'spec-minute', 'nontrivial': True}))
    cases.append((parse_case("D:20040229", (1078012800, 0)), {'kind': 'spec-date', 'nontrivial': True}))
    # (e') no UT information = GMT whatever the machine zone: the date-only and the offset-less forms on every day of months
    #      in which the zones the harness runs under (ZONES in harness/src/bin/c18.rs) switch to or from daylight saving
    #      (one of them AT local midnight), around year ends and leap days
    for (y, mo) in [(2004, 2), (2004, 10), (2018, 10), (2019, 2), (2024, 3), (2024, 11), (1999, 12), (2000, 1), (1900, 2)]:
        for d in range(1, dim(y, mo) + 1):
            cases.append((parse_case(spec_text(y, mo, d, 0, 0, 0, 0, 'date'), (instant(y, mo, d, 0, 0, 0, 0), 0)),
                          {'kind': 'spec-date-month', 'nontrivial': True}))
    for _ in range(150 if not thorough else 3000):
        y, mo, d, h, mi, s = rand_civil(rng, rng.randint(2, 9998))
        form = rng.choice(['date', 'date', 'fullz', 'minutez'])
        exp = instant(y, mo, d, *((0, 0, 0) if form == 'date' else (h, mi, s) if form == 'fullz' else (h, mi, 0)), 0)
        cases.append((parse_case(spec_text(y, mo, d, h, mi, s, 0, form), (exp, 0)), {'kind': 'spec-' + form, 'nontrivial': True}))
    # (f) malformed stream: hand-written boundary strings and mutations of well-formed ones
    for t in HAND:
        cases.append((parse_case(t), {'kind': 'malformed-hand', 'nontrivial': True}))
    for _ in range(1500 if not thorough else 60000):
        y, mo, d, h, mi, s = rand_civil(rng)
        off = 60 * rng.randint(-1439, 1439)
        base = spec_text(y, mo, d, h, mi, s, off, rng.choice(['full', 'full', 'fullz', 'minute', 'minutez', 'date']))
        cases.append((parse_case(mutate(rng, base)), {'kind': 'malformed-mutated', 'nontrivial': True}))
    return cases


def classify(line, tags, model_out, impl_out, verdict):
    return None


SPEC = {
    'gen_parts': ['DateFmt'],
    'allowed_axioms': (),
    'runner': 'c18',
    'bin': 'c18',
    'gen_cases': gen_cases,
    'classify': classify,
    'rule': 'all 2879 minute offsets -23:59..+23:59 at 2024-02-29T12:34:56 (exhaustive); 29 edge instants (year 1/999/1000/9999, '
            'leap days, century rules, year ends, midnight/23:59:59, jiff Timestamp range end) x 17 offsets; instants sampled over '
            'years 1-9999 and one per year (quick: every 7th); each case formats with every source type (chrono Local via a '
            'per-case TZ, chrono Utc, jiff Zoned, jiff Timestamp, time OffsetDateTime) and reads every string back with every '
            'backend (all ordered pairs); the five textual forms of ISO 32000-1 7.9.4 (full, full Z, minute, minute Z, date only) '
            'with the instant computed by the generator, the date-only form on every day of nine months (daylight-saving switches of the '
            'machine zones below, year ends, leap days); EVERY case is also run in five further processes whose machine time zone is '
            'TZ=JST-9, EST5, NPT-5:45, EST5EDT,M3.2.0,M11.1.0 and <-03>3<-02>,M10.3.0/0,M2.3.0/0 (switch at local midnight): the '
            'parsers must give textually the same result as under UTC (no offset written = GMT) and meet the generator\'s expectation '
            'there, and the writers are exercised on the case\'s instant in the machine zone (chrono Local, jiff system zone, time at '
            'that offset: specification form of the instant at the zone\'s offset, chrono and jiff pick the same offset, every parser '
            'reads it back) -- counts per zone under machine_time_zones; sub-minute offsets (model tie only); 90 hand-written boundary strings and '
            'mutated strings over digits + - Z z D : \' and blanks; distinct = distinct case text',
    'extra_trusted': [
        'C18: per-directive behaviour of chrono 0.4.45 / jiff 0.2.37 / time 0.3.55 modelled by hand from their sources for the '
        'directives lopdf uses (other directives: model answers None -> alarm); tied by correspondence only',
        'C18: instant <-> civil-field arithmetic is the backends\' (sampled: the three backends and the generator\'s own calendar '
        'must agree on every case); jiff Timestamp range constants',
        'C18: model domain is ASCII date strings',
    ],
    'partial_note': 'calendar arithmetic inside the back ends (instant <-> civil fields, conversion to Local / UTC) and the three '
                    'strftime / format-description engines are third-party code: modelled per directive for the directives lopdf '
                    'uses and sampled by the correspondence runs, not verified; the theorems are over civil fields + offset (all '
                    'valid field tuples of years 1-9999, all 2879 minute offsets) and the model\'s own instant function is proved '
                    'equal to the specification\'s day counting; jiff cannot hold instants after 9999-12-30T22:00:00Z (domain '
                    'restriction holds b f off, vacuous up to year 9998)',
}


ZONE_COLS = ['cases', 'parse_results_equal_to_utc', 'parse_expectations_met', 'writer_checks_ok', 'writer_outside_domain', 'failures']


def run(ctx):
    """standard check; the harness also runs every case in one child process per machine time zone (TZ=JST-9, EST5, ...)
    and appends its per-zone counters to the file named by LVH_C18_STATS: they are added up into the evidence"""
    import json, os, tempfile, vlib
    fd, stats = tempfile.mkstemp(prefix='c18_zones_', suffix='.tsv', dir=vlib.BUILD if os.path.isdir(vlib.BUILD) else None)
    os.close(fd)
    os.environ['LVH_C18_STATS'] = stats
    try:
        rc = propcheck.standard_check(ctx, SPEC)
    finally:
        os.environ.pop('LVH_C18_STATS', None)
    zones = {}
    try:
        for line in open(stats):
            f = line.rstrip('\n').split('\t')
            if len(f) == 1 + len(ZONE_COLS):
                z = zones.setdefault('TZ=' + f[0], dict.fromkeys(ZONE_COLS, 0))
                for k, v in zip(ZONE_COLS, f[1:]):
                    z[k] += int(v)
        os.remove(stats)
    except OSError:
        pass
    ep = os.path.join(vlib.ROOT, 'evidence', ctx.prop + '.json')
    try:
        ev = json.load(open(ep))
        ev['coverage']['machine_time_zones'] = zones
        ev['coverage']['machine_time_zone_runs'] = sum(z['cases'] for z in zones.values())
        json.dump(ev, open(ep, 'w'), indent=1)
    except (OSError, ValueError, KeyError):
        pass
    if rc == 0 and (len(zones) < 5 or any(z['cases'] == 0 for z in zones.values())):
        # the zone runs are part of the check: if they did not happen the run proves less than it says
        print('ERROR: C18 zone runs missing: %r' % zones)
        return 1
    return rc


MANIFEST = {
    'level_text': 'Machine-checked proof (Coq) over the model of src/datetime.rs whose format strings, parse-pattern cascades, '
                  'convert_utc_offset byte pair and datetime_string strip set are regenerated from the source on every run: for '
                  'every valid civil field tuple of years 0001-9999 and every offset -23:59..+23:59 the chrono, jiff and time '
                  'conversions print the same bytes, equal to the specification form D:YYYYMMDDHHmmSS+HH\'mm\' (C18_fmt_agree; '
                  'the Z form for the UTC types, C18_fmt_agree_utc); as_datetime + try_into of every back end gives back the same '
                  'fields and offset (C18_parse_fmt), for all nine ordered pairs of back ends (C18_cross_pairs, '
                  'C18_cross_pairs_utc); every form of ISO 32000-1 7.9.4 named by the property - full, Z, minute precision, date '
                  'only - is read by every back end as the value it denotes (C18_spec_forms) with the instant the specification '
                  'assigns to it (C18_same_instant); the pinned single-pattern time parser is refuted (C18_time_v0_refuted, fixed '
                  'by /repo 86e28c7). Tied to the real crates by differential runs: all 2879 offsets at a fixed instant, edge and '
                  'sampled instants over years 1-9999, every ordered pair, the five textual forms, malformed strings; every case also in five processes whose machine time '
                  'zone is not UTC (POSIX TZ strings, two with daylight saving): same parse results as under UTC, writers checked on the '
                  'zone\'s own offset.',
    'level_note': 'Partial in one respect: the per-directive behaviour of chrono 0.4.45 / jiff 0.2.37 / time 0.3.55 (printing and '
                  'scanning one directive, field resolution) and their instant <-> civil-field arithmetic are third-party code, '
                  'modelled by hand from their sources and tied by correspondence only (sampled, not verified). Domain restriction: '
                  'jiff\'s Zoned cannot represent instants after 9999-12-30T22:00:00Z (hypothesis holds b f off; proved vacuous up '
                  'to year 9998, witness C18_example_jiff_limit). Offsets by an exhaustive vm_compute sweep with the bound '
                  '-1439..1439 in the statement, field values by decimal-digit arithmetic (unbounded over the valid range). '
                  'Trusted: Coq kernel; translator part DateFmt (anchored regexes, fails loudly); extraction/OCaml driver; Rust '
                  'harness (TZ-per-thread trick for chrono Local). No axioms (Print Assumptions: closed). See notes/C18.md.',
    'technique': 'Coq proof (decimal-digit lemmas per directive and back end, exhaustive offset sweeps, compiled-pattern cascades, '
                 'calendar sweep for the instant) + differential correspondence on the real crates',
    'design_ref': 'DESIGN.md 6 C18',
}
