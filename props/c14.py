"""C14 -- content streams survive encode and decode."""
import os, re
import propcheck, vlib
from sxg import *
from objgen import ObjGen, RealSource, rbytes

OPS = ['q', 'Q', 'cm', 'BT', 'ET', 'Tf', 'Tj', 'TJ', "'", '"', 'T*', 'Td', 'TD', 're', 'f', 'f*', 'S', 's', 'n', 'W', 'W*',
       'Do', 'gs', 'rg', 'RG', 'k', 'K', 'm', 'l', 'c', 'h', 'B', 'B*', 'b', 'b*', 'BDC', 'BMC', 'EMC', 'd0', 'sh', 'ri']
ALPHA = 'abcdefghijklmnopqrstuvwxyzABCDEFGHIJKLMNOPQRSTUVWXYZ*\'"'
# container nesting limit of the parser (reader::MAX_NESTING, regenerated into coq/Gen/Lex.v by the translator)
_m = re.search(r'Definition MAX_NESTING : N := (\d+)%N\.', open(os.path.join(vlib.ROOT, 'coq', 'Gen', 'Lex.v')).read())
MAX_NESTING = int(_m.group(1)) if _m else 16


KEYWORDS = ('true', 'false', 'null')
# operators that merely BEGIN with a keyword of the operand grammar or with BI: in the domain since the repair of
# C14-keyword-operator (93a8a25: keywords are whole tokens)
KW_PREFIXED = ['nullify', 'nulls', 'null*', "null'", 'trueType', 'truefalse', 'true"', 'falsey', 'falsenull', 'BIx', 'BIBI', 'BI*',
               'nullnull', 'n', 't', 'f', 'nul', 'tru', 'fals', 'B', 'ID', 'EI', 'R', 'obj', 'stream', 'endobj']


def roperator(rng, zero_operands):
    """an operator of the domain: over the parser's alphabet, not one of the keywords null / true / false (those are
    operands), and not a lone BI (the inline-image operator)"""
    while True:
        r = rng.random()
        if r < 0.55:
            op = rng.choice(OPS)
            if not all(c in ALPHA for c in op):
                continue   # e.g. d0 is not in the parser's alphabet
        elif r < 0.65:
            op = rng.choice(KW_PREFIXED + ['BI'])
        else:
            op = ''.join(rng.choice(ALPHA) for _ in range(rng.randint(1, 5)))
        if op in KEYWORDS:
            continue
        if zero_operands and op == 'BI':
            continue
        return op


def deep_operand(rng, k):
    """k container levels around an integer (arrays, sometimes dictionaries)"""
    t = '(i 1)'
    for _ in range(k):
        t = '(a %s)' % t if rng.random() < 0.8 else '(d (x4b %s))' % t
    return t


def gen_known(rng, reals):
    """operations of the open known class C14-deep-nesting (see classify)"""
    g = ObjGen(rng, reals, allow_ref=False)
    ops = [L('op', xb(roperator(rng, False)), deep_operand(rng, rng.choice([MAX_NESTING + 1, MAX_NESTING + 2, MAX_NESTING + 24, 101])))]
    if rng.random() < 0.5:
        ops.insert(0, L('op', xb('q')))
    return g.finish(L('enc', L('ops', *ops), 'wf'))


def gen_enc(rng, reals, wf):
    g = ObjGen(rng, reals, allow_ref=not wf)
    ops = []
    for _ in range(rng.choice([0, 1, 1, 2, 3, 6])):
        n = rng.choice([0, 0, 1, 1, 2, 3, 6])
        if wf and rng.random() < 0.03:
            ops.append(L('op', xb(roperator(rng, False)), deep_operand(rng, rng.choice([MAX_NESTING - 2, MAX_NESTING - 1, MAX_NESTING]))))
            continue
        if wf:
            op = roperator(rng, n == 0)
        else:
            # outside the domain: the keywords themselves as operator text, a lone BI
            op = rng.choice(['BI', 'null', 'true', 'false', 'BI', 'null']) if rng.random() < 0.5 else roperator(rng, n == 0)
        ops.append(L('op', xb(op), *[g.obj(rng.choice([0, 1, 2, 3])) for _ in range(n)]))
    return g.finish(L('enc', L('ops', *ops), 'wf' if wf else 'any'))


def inline_image(rng, valid=True):
    cs = rng.choice([('DeviceGray', 1), ('Gray', 1), ('G', None), ('DeviceRGB', 3), ('RGB', 3), ('DeviceCMYK', 4), ('CMYK', 4),
                     ('DeviceRGBA', 4), ('RGBA', 4), ('Pattern', None), ('Indexed', None)] if not valid else IMG_CS)
    w = rng.choice([1, 2, 3, 5, 7, 8, 9, 13])
    h = rng.choice([1, 2, 3, 5])
    bpc = rng.choice([1, 1, 2, 4, 8, 16])
    nc = cs[1] or 1
    n = h * ((w * nc * bpc + 7) // 8)      # rows are padded to whole bytes one by one (ISO 32000-1 8.9.3)
    data = bytes(rng.choice([0x45, 0x49, 0x20, 0x0a, 0x00, 0xff, 0x28, 0x29, 0x41]) for _ in range(n))
    if valid and rng.random() < 0.25 and n >= 4:
        # " EI " inside the samples: a parser that takes too few bytes finds an end marker too early
        i = rng.randrange(1, n - 2)
        data = data[:i] + b' EI'[:n - i] + data[i + 3:]
        data = data[:n]
    abbr = rng.random() < 0.5
    keys = [('W' if abbr else 'Width', str(w)), ('H' if abbr else 'Height', str(h)),
            ('CS' if abbr else 'ColorSpace', '/' + cs[0]), ('BPC' if abbr else 'BitsPerComponent', str(bpc))]
    rng.shuffle(keys)
    if not valid and rng.random() < 0.3:
        keys[rng.randrange(4)] = ('F', rng.choice(['/AHx', '[/AHx]', '3']))
    if not valid and rng.random() < 0.3:
        keys[0] = (keys[0][0], rng.choice(['-1', '9223372036854775807', '4294967296', '0', '(x)']))
    if not valid and rng.random() < 0.2:
        data = data[:max(0, len(data) - 1)]
    if rng.random() < 0.4:
        # further entries whose keys need #xx escapes (a key is a name: /My#20Key), values of every kind
        for _ in range(rng.choice([1, 1, 2, 3])):
            v = rng.choice(['7', '-0.5', '/N', '/A#20B', '(s)', '(a(b)\\))', '<41>', 'true', 'false', 'null', '[1 2]', '[/a (b) <</c 1>>]',
                            '<</K 1>>', '<</A#20B [1 0 R]>>', '[]', '<<>>', '1.0', '+3'])
            keys.insert(rng.randint(0, len(keys)), (spell_key(rng, odd_key(rng))[1:].decode('latin-1'), v))
    sep = rng.choice([' ', '\n', ' \n', '\r\n'])
    txt = 'BI' + sep + sep.join('/%s %s' % kv for kv in keys) + sep + 'ID' + rng.choice([' ', '\n', '\r\n', '\t', '\r'])
    return txt.encode('latin-1') + data + rng.choice([b' ', b'\n', b'']) + b'EI' + rng.choice([b' ', b'\n', b''])


IMG_CS = [('DeviceGray', 1), ('Gray', 1), ('DeviceRGB', 3), ('RGB', 3), ('DeviceRGBA', 4), ('RGBA', 4), ('DeviceCMYK', 4), ('CMYK', 4)]

# bytes a name cannot hold raw (ISO 32000-1 7.3.5: white space, delimiters, the number sign itself; and, by recommendation,
# everything outside 33..126): in a name they are spelled #xx.  A key of an inline-image dictionary is a name like any other.
KEY_ESC = [0x00, 0x09, 0x0a, 0x0c, 0x0d, 0x20, 0x23, 0x25, 0x28, 0x29, 0x2f, 0x3c, 0x3e, 0x5b, 0x5d, 0x7b, 0x7d, 0x7f, 0x80, 0xff, 0x01]
ODD_KEYS = [b'My Key', b'A#B', b'a/b', b' ', b'#', b'#20', b'K(1)', b'W ', b'H\x00', b'Length#', b'BPC/', b'/W', b'CS%', b'<<', b'>>',
            b'[X]', b'ID ', b' EI', b'I D', b'x\ny', b'\r\n', b'{}', b'Caf\xe9', b'\x7f', b'A#20B', b'#41', b'1 0 R', b'Key#2', b'##']


def odd_key(rng):
    """the raw bytes of a dictionary key that needs at least one #xx escape when written as a name; never one of the keys an
    inline image gives a meaning to (those are plain letters)"""
    if rng.random() < 0.5:
        return rng.choice(ODD_KEYS)
    k = bytearray(rng.choice(b'ABCXYZabcxyz0123456789.-+_*') if rng.random() < 0.6 else rng.choice(KEY_ESC) for _ in range(rng.randint(1, 6)))
    if not any(c in KEY_ESC for c in k):
        k.insert(rng.randint(0, len(k)), rng.choice(KEY_ESC))
    return bytes(k)


def spell_key(rng, raw):
    """the key as a name token of the source: /, regular bytes raw (now and then spelled #xx as well), every other byte #xx"""
    out = b'/'
    for c in raw:
        if c in KEY_ESC or c < 33 or c > 126 or rng.random() < 0.1:
            out += (rng.choice(['#%02x', '#%02X']) % c).encode()
        else:
            out += bytes([c])
    return out


def image_geometry(rng, ragged=True):
    """(colour space, components, W, H, BPC, data length).  ISO 32000-1 8.9.3: every ROW is padded to a whole byte, so the
    length is H * ceil(W * components * BPC / 8).  ragged: more than one row and rows that do not end on a byte boundary
    (BPC 1, 2, 4 with a fitting width), where padding per row differs from padding the whole image once."""
    while True:
        cs, nc = rng.choice(IMG_CS)
        bpc = rng.choice([1, 1, 2, 4] if ragged else [1, 2, 4, 8, 8, 16])
        w = rng.choice([1, 2, 3, 5, 6, 7, 9, 11, 13, 17, 31, 33])
        h = rng.choice([2, 3, 4, 5, 7] if ragged else [1, 1, 2, 3])
        rowbits = w * nc * bpc
        if ragged and rowbits % 8 == 0:
            continue
        return cs, nc, w, h, bpc, h * ((rowbits + 7) // 8)


def image_data(rng, n):
    """image samples: arbitrary bytes, with EI / white space / delimiters inside; every third image BEGINS with white-space
    bytes (read back exactly since aee7de5: one white-space character is taken after ID)"""
    alpha = [0x45, 0x49, 0x20, 0x0a, 0x0d, 0x09, 0x00, 0xff, 0x28, 0x29, 0x41, 0x51, 0x80, 0x3e]
    d = bytearray(rng.choice(alpha) if rng.random() < 0.7 else rng.getrandbits(8) for _ in range(n))
    if n >= 4 and rng.random() < 0.3:
        i = rng.randrange(n - 3)
        d[i:i + 4] = b' EI '
    if d and rng.random() < 0.34:
        lead = rng.choice([b' ', b'\n', b'\r\n', b'\t', b'  ', b'\r', b' \n ', b'\n\n'])[:n]
        d[:len(lead)] = lead
    return bytes(d)


def image_operation(rng, ragged=True, g=None):
    """an inline image as Content::decode returns it and as a program builds it: operator BI with ONE stream operand whose
    dictionary holds W/H/CS/BPC (abbreviated or long keys, any order, optional further entries) and whose content has the
    length the dictionary implies"""
    cs, nc, w, h, bpc, n = image_geometry(rng, ragged)
    abbr = rng.random() < 0.5
    ent = [('W' if abbr else 'Width', I(w)), ('H' if abbr else 'Height', I(h)),
           ('CS' if abbr else 'ColorSpace', N(cs)), ('BPC' if abbr else 'BitsPerComponent', I(bpc))]
    if rng.random() < 0.3:
        ent.append(rng.choice([('I', B(True)), ('D', A([I(1), I(0)])), ('Intent', N('Perceptual')), ('IM', B(False)),
                               ('Length', I(n)), ('Length', I(n + 3))]))
    if rng.random() < 0.4:
        # further entries under keys that the name writer has to escape (white space, #, delimiters, bytes outside 33..126);
        # values of every kind
        used = set()
        for _ in range(rng.choice([1, 1, 2, 3])):
            k = odd_key(rng)
            if k in used:
                continue
            used.add(k)
            v = g.obj(rng.choice([0, 0, 1, 2])) if g is not None else rng.choice([I(7), N('v'), B(True), NULL, S(b'(x'), H(b'A'), A([I(1), N(b'a b')]), D([(b'k k', I(1))])])
            ent.append((k, v))
    rng.shuffle(ent)
    return L('op', xb('BI'), ST(ent, image_data(rng, n))), (w, h, nc, bpc)


def gen_enc_image(rng, reals, ragged=True):
    """operation sequences that contain inline images (first sentence of the property on the BI form of Content::encode)"""
    g = ObjGen(rng, reals, allow_ref=False)
    ops = []
    geo = []
    for _ in range(rng.choice([1, 1, 2, 3])):
        for _ in range(rng.choice([0, 1, 2])):
            n = rng.choice([0, 1, 2])
            ops.append(L('op', xb(roperator(rng, n == 0)), *[g.obj(rng.choice([0, 1])) for _ in range(n)]))
        o, ge = image_operation(rng, ragged, g)
        ops.append(o)
        geo.append(ge)
    if rng.random() < 0.5:
        ops.append(L('op', xb('Q')))
    return g.finish(L('enc', L('ops', *ops), 'wf')), geo


def gen_dec(rng):
    parts = []
    for _ in range(rng.choice([1, 2, 3, 5])):
        r = rng.random()
        if r < 0.25:
            parts.append(inline_image(rng, valid=True))
        elif r < 0.35:
            parts.append(inline_image(rng, valid=False))
        elif r < 0.45:
            parts.append(b'% ' + rbytes(rng, 10).replace(b'\r', b'').replace(b'\n', b'') + rng.choice([b'\n', b'\r', b'\r\n', b'']))
        else:
            toks = []
            for _ in range(rng.choice([0, 1, 2, 3])):
                toks.append(rng.choice([b'1', b'-2', b'+3', b'0.5', b'.25', b'5.', b'-.0', b'/Name', b'/A#20B', b'/', b'(str)',
                                        b'(a(b)c)', b'(\\(\\051)', b'(\\101\\7\\1234)', b'(a\\\nb)', b'(a\rb)', b'<48 65 6c6C6f>', b'<4>', b'<>',
                                        b'[1 2 3]', b'[(a) -12.5 (b)]', b'[/N [1] <<>>]', b'<</K 1/L[2]>>', b'<< /A /B /A /C >>',
                                        b'true', b'false', b'null', b'1 0 R', b'[1 0 R]', b'99999999999999999999',
                                        b'9223372036854775807', b'-9223372036854775808', b'00012', b'[', b']', b'<<', b'(', b'\\',
                                        b'/A#', b'/A#G1', b'/#', b'/A#4', b'/A#4g', b'/#23#2f', b'<4 G>', b'(\\8\\400)', b'1.2.3', b'+-1', b'--1', b'.',
                                        b'[' * 100 + b']' * 100, b'[' * 101 + b']' * 101, b'[' * 99 + b'<<' + b'>>' + b']' * 99,
                                        b'[' * MAX_NESTING + b']' * MAX_NESTING, b'[' * (MAX_NESTING + 1) + b']' * (MAX_NESTING + 1),
                                        b'[' * (MAX_NESTING - 1) + b'<<' + b'>>' + b']' * (MAX_NESTING - 1),
                                        b'<</K' * MAX_NESTING + b' 1' + b'>>' * MAX_NESTING, b'<</K' * (MAX_NESTING + 1) + b' 1' + b'>>' * (MAX_NESTING + 1),
                                        b'<</K' * 100 + b' 1' + b'>>' * 100, b'<</K' * 101 + b' 1' + b'>>' * 101]))
            op = rng.choice(['q', 'Q', 'Tj', 'TJ', 'cm', "'", '"', 'T*', 'f*', 'BI', 'BT', 'ET', 'true', 'nullx', 'x', 'ID', 'EI', 're'])
            sep = rng.choice([b' ', b'\n', b'\t', b'\r\n', b'  ', b'\x00', b'\x0c'])
            parts.append(sep.join(toks + [op.encode()]))
    body = rng.choice([b'\n', b' ', b'\r\n']).join(parts)
    if rng.random() < 0.15:
        # byte-level damage
        b = bytearray(body)
        for _ in range(rng.randint(1, 3)):
            if b:
                i = rng.randrange(len(b))
                b[i] = rng.choice([0x28, 0x29, 0x5c, 0x3c, 0x3e, 0x5b, 0x5d, 0x25, 0x2f, 0x00, 0xff])
        body = bytes(b)
    return L('dec', xb(body))


# ---------------------------------------------------------------------------------------------------------------------
# independent producer of VALID content streams (second sentence of the property).  Written from ISO 32000-1 7.2 / 7.3 /
# 7.8.2 / 8.9.7, not from the parser: every operand kind in every spelling the syntax allows, comments, inline images.
# Restrictions that come from the lopdf content grammar (reading notes, not C14): a comment stands only directly before an
# operation (a comment between operands, or white space between a comment and the operation, ends the decoding silently).
# ---------------------------------------------------------------------------------------------------------------------
F32_INF_FROM = 2 ** 128 - 2 ** 103          # least decimal value that f32::from_str rounds to infinity
CS_BYTES = [b' ', b'\n', b'\t', b'\r', b'\r\n', b'  ', b' \n']
WS_BYTES = CS_BYTES + [b'\x00', b'\x0c', b' \x00 ', b'\x0c\n']


class Producer:
    def __init__(self, rng):
        self.rng = rng

    # ---- white space ----
    def cs(self):
        """content white space between the tokens of an operation"""
        return self.rng.choice(CS_BYTES)

    def ws(self):
        """white space inside arrays / dictionaries / inline-image dictionaries: all six white-space bytes and comments"""
        r = self.rng.random()
        if r < 0.12:
            return self.rng.choice([b' ', b'']) + self.comment() + self.rng.choice([b'', b' ', b'\t'])
        return self.rng.choice(WS_BYTES)

    def comment(self):
        body = bytes(self.rng.choice(b'abc %()<>[]/\\#\t\x00\xff 0123') for _ in range(self.rng.randint(0, 8)))
        return b'%' + body + self.rng.choice([b'\n', b'\r', b'\r\n'])

    # ---- scalars ----
    def integer(self):
        r = self.rng
        v = r.choice([0, 1, 7, 12, 255, 1000, 65535, 2 ** 31, 2 ** 63 - 1, r.randrange(10 ** 6), r.randrange(10 ** 18)])
        sign = r.choice(['', '', '', '+', '-'])
        if v == 2 ** 63 - 1 and r.random() < 0.3 and sign == '-':
            v = 2 ** 63
        return (sign + r.choice(['', '', '0', '000']) + str(v)).encode()

    def real(self):
        """sign? (digits . digits* | . digits+), finite in f32"""
        r = self.rng
        sign = r.choice(['', '', '+', '-'])
        ip = r.choice(['0', '1', '12', '00', '007', '255', '1000000', '16777216', '16777217', '4294967296', '9223372036854775807',
                       '9223372036854775808', '18446744073709551616', '123456789012345678901234567890', str(F32_INF_FROM - 1),
                       str(r.randrange(10 ** r.randint(1, 30)))])
        fp = r.choice(['', '0', '5', '25', '50', '000', '125', '1', '3333333333333333', '99999999', '0000001', '10',
                       str(r.randrange(10 ** r.randint(1, 12))), '0' * r.randint(20, 60) + '1'])
        k = r.random()
        if k < 0.2:
            return (sign + '.' + (fp or '5')).encode()
        if k < 0.4:
            return (sign + ip + '.').encode()
        return (sign + ip + '.' + fp).encode()

    def name(self):
        r = self.rng
        out = b'/'
        for _ in range(r.choice([0, 1, 1, 2, 3, 5, 8])):
            k = r.random()
            if k < 0.6:
                out += bytes([r.choice(b'ABCXYZabcxyz0123456789.-+_*!@$^&~|:;,?=\'"`')])
            elif k < 0.9:
                c = r.choice([0x20, 0x23, 0x25, 0x28, 0x29, 0x2f, 0x3c, 0x3e, 0x5b, 0x5d, 0x7b, 0x7d, 0x00, 0x09, 0x0a, 0x0d, 0x7f, 0x80,
                              0xff, 0x41, 0x61, r.randrange(256)])
                out += (r.choice(['#%02x', '#%02X']) % c).encode()
            else:
                out += bytes([r.choice([0x80, 0xa9, 0xff, 0x7f, 0x01, 0x1f])])     # regular bytes outside ASCII / controls
        return out

    def literal(self, depth=0):
        r = self.rng
        out = b''
        for _ in range(r.choice([0, 1, 2, 3, 6])):
            k = r.random()
            if k < 0.4:
                out += bytes(r.choice(b'abcXYZ 0189%/<>[]{}#\t\x00\xff\x80') for _ in range(r.randint(1, 5)))
            elif k < 0.55:
                out += r.choice([b'\\n', b'\\r', b'\\t', b'\\b', b'\\f', b'\\(', b'\\)', b'\\\\', b'\\x', b'\\%', b'\\ '])
            elif k < 0.7:
                o = r.choice([0, 7, 0o12, 0o101, 0o377, 0o50, 0o51, 0o134, r.randrange(256)])
                out += r.choice([b'\\%o', b'\\%03o']) % o + r.choice([b'', b'', b'9', b'a'])
            elif k < 0.78:
                out += r.choice([b'\\\n', b'\\\r', b'\\\r\n'])                 # line continuation
            elif k < 0.88:
                out += r.choice([b'\n', b'\r', b'\r\n'])                          # raw end of line
            elif depth < 3:
                out += self.literal(depth + 1)                                      # balanced parentheses
        return b'(' + out + b')'

    def hexstr(self):
        r = self.rng
        out = b''
        for _ in range(r.choice([0, 1, 2, 3, 4, 7, 12])):
            out += bytes([r.choice(b'0123456789abcdefABCDEF')]) + r.choice([b'', b'', b'', b' ', b'\n', b'\x00', b'\t '])
        return b'<' + r.choice([b'', b' ']) + out + b'>'

    def obj(self, depth, in_container):
        """one operand (or element); references only inside containers"""
        r = self.rng
        k = r.random()
        if depth > 0 and k < 0.22:
            return self.array(depth - 1) if r.random() < 0.55 else self.dictionary(depth - 1)
        if in_container and k < 0.28:
            return b'%d%s%d%sR' % (r.choice([1, 12, 4294967295, r.randrange(10 ** 5)]), self.ws() or b' ',
                                   r.choice([0, 0, 1, 65535]), self.ws() or b' ')
        return r.choice([self.integer, self.integer, self.real, self.real, self.name, self.literal, self.hexstr,
                         lambda: b'true', lambda: b'false', lambda: b'null'])()

    @staticmethod
    def glue(a, b, sep):
        """sep between tokens a and b; an empty separator only where a delimiter separates the tokens anyway"""
        if sep == b'' and not (a[-1:] in b')>]' or b[:1] in b'(<[/'):
            return b' '
        if sep == b'' and a[-1:] == b'>' and b[:1] == b'>':
            return b' '
        return sep

    def array(self, depth):
        r = self.rng
        items = [self.obj(depth, True) for _ in range(r.choice([0, 1, 2, 3, 5]))]
        out = b'[' + r.choice([b'', b'', self.ws()])
        prev = b'['
        for it in items:
            out += (self.glue(prev, it, r.choice([b'', self.ws(), self.ws()])) if prev != b'[' else b'') + it
            prev = it
        return out + r.choice([b'', b'', self.ws()] if prev[-1:] in b')>][' else [self.ws() or b' ', b' ']) * (1 if items else 0) + b']'

    def dictionary(self, depth, inline=False):
        r = self.rng
        out = b'<<' + r.choice([b'', self.ws()])
        prev = b'<<'
        for _ in range(r.choice([0, 1, 2, 3])):
            k = r.choice([b'/K', b'/Type', b'/A', b'/', self.name()])
            v = self.obj(depth, True)
            out += (self.glue(prev, k, r.choice([b'', self.ws()])) if prev != b'<<' else b'') + k
            out += self.glue(k, v, r.choice([b'', self.ws(), self.ws()])) + v
            prev = v
        tail = r.choice([b'', self.ws()])
        if prev != b'<<' and not prev[-1:] in b')>]' and tail == b'':
            tail = b' '
        return out + tail + b'>>'

    # ---- operations ----
    def operator(self, zero_operands):
        return roperator(self.rng, zero_operands).encode()

    def plain_operation(self):
        r = self.rng
        n = r.choice([0, 0, 1, 1, 2, 3, 6])
        toks = [self.obj(2, False) for _ in range(n)]
        toks.append(self.operator(n == 0))
        out = toks[0]
        for a, b in zip(toks, toks[1:]):
            sep = self.cs() if r.random() < 0.8 else b''
            if b is toks[-1] and sep == b'' and not a[-1:] in b')>]':
                sep = b' '          # an operator needs a separator after a regular token (and after a name)
            out += self.glue(a, b, sep) + b
        return out

    def image_operation(self):
        r = self.rng
        cs, nc = r.choice(IMG_CS)
        bpc = r.choice([1, 1, 2, 4, 8, 8, 16])
        w = r.choice([1, 2, 3, 5, 7, 8, 9, 13, 17])
        h = r.choice([1, 1, 2, 3, 5])
        n = h * ((w * nc * bpc + 7) // 8)
        data = image_data(r, n)
        num = lambda v: (r.choice(['', '', '+', '0', '00']) + str(v)).encode()
        ent = [(r.choice([b'/W', b'/Width']), num(w)), (r.choice([b'/H', b'/Height']), num(h)),
               (r.choice([b'/CS', b'/ColorSpace']), b'/' + cs.encode()), (r.choice([b'/BPC', b'/BitsPerComponent']), num(bpc))]
        for _ in range(r.choice([0, 0, 1, 2])):
            ent.append(r.choice([(b'/I', b'true'), (b'/Interpolate', b'false'), (b'/IM', b'false'), (b'/ImageMask', b'false'),
                                 (b'/D', b'[1 0]'), (b'/Decode', b'[0.0 1.0]'), (b'/Intent', b'/Perceptual'),
                                 (b'/DP', b'<</K -1>>'), (b'/Metadata', b'null'), (b'/X', self.obj(1, True))]))
        if r.random() < 0.4:
            # a key is a name: further entries whose keys hold white space, #, delimiters, bytes outside 33..126 (spelled #xx)
            for _ in range(r.choice([1, 1, 2, 3])):
                ent.append((spell_key(r, odd_key(r)), self.obj(r.choice([0, 1, 2]), True)))
        r.shuffle(ent)
        out = b'BI' + r.choice([b' ', b'\n', b'\r\n', b'', b'\t'])
        prev = b'/'
        for i, (k, v) in enumerate(ent):
            out += (self.glue(prev, k, r.choice([b'', self.ws(), b' '])) if i else b'') + k
            out += self.glue(k, v, r.choice([b'', self.ws(), b' ', b' '])) + v
            prev = v
        sep = r.choice([b' ', b'\n', b'\r\n', self.ws() or b' '])
        out += sep + b'ID' + r.choice([b' ', b'\n', b'\r\n', b'\t', b'\r'])
        if data[:1] == b'\n' and out.endswith(b'ID\r'):
            out = out[:-1] + b' '      # ID CR + data LF would read as the single separator CR LF
        return out + data + r.choice([b' ', b'\n', b'\r\n', b'  ']) + b'EI'

    def content(self):
        r = self.rng
        parts = []
        k = r.choice([1, 2, 3, 5, 8])
        for i in range(k):
            pre = b''.join(self.comment() for _ in range(r.choice([0, 0, 0, 1, 2])))
            # a comment ends with its end-of-line; CR alone followed by the LF of the next token cannot occur (no token starts with LF)
            op = self.image_operation() if r.random() < 0.3 else self.plain_operation()
            parts.append(pre + op)
        out = r.choice([b'', b'', b' ', b'\n', b'\r\n\t'])
        for i, p in enumerate(parts):
            out += p
            if i + 1 < len(parts):
                # after an operator: white space, or directly the comment of the next operation
                nxt = parts[i + 1]
                out += self.cs() if not nxt.startswith(b'%') or r.random() < 0.7 else b''
        return out + r.choice([b'', b'', b' ', b'\n', b'\r\n']), k


def gen_decv(rng):
    body, k = Producer(rng).content()
    return L('decv', xb(body), str(k))


def real_texts(rng, tier):
    T = F32_INF_FROM
    fixed = [str(T - 1) + '.999999', str(T) + '.', str(T) + '.0', str(T + 1) + '.5', '00000' + str(T - 1) + '.0', '-' + str(T) + '.0',
             '+' + str(T) + '.00', '-' + str(T - 1) + '.9', str(10 ** 38) + '.0', str(10 ** 39) + '.0', '9' * 40 + '.9', '9' * 38 + '.5',
             '340282346638528859811704183484516925440.0', '340282346638528859811704183484516925439.', '340282350000000000000000000000000000000.0',
             '340282356779733661637539395458142568447.5', '340282356779733661637539395458142568448.5', '3402823567797336616375393954581425684480.0',
             '9223372036854775807.0', '9223372036854775808.', '9223371487098961920.0', '9223372586610589696.0', '9223372000000000000.0',
             '9223371999999999999.9', '16777216.0', '16777217.0', '16777217.5', '0.1', '.1', '1.', '+.5', '-.0', '-0.', '+0.0', '00.10',
             '0.' + '0' * 50 + '1', '0.' + '0' * 44 + '14', '0.' + '0' * 45 + '7', '0.' + '0' * 37 + '117549435', '1.17549435', '1.5',
             '0.30000001192092896', '0.1000000000000000055511151231257827', '123456789.125', '8388608.5', '8388609.5', '4294967295.',
             '4294967296.0', '1.0000001', '1.00000006', '0.99999997', '-123456.789', '65535.99999',
             # not source reals
             '1', '+1', '-', '.', '+.', '1.2.3', '--1.0', '+-1.0', '1..', '..1', '1.-2', '', '1.0+']
    out = [t for t in fixed]
    for _ in range(30 if tier == 'quick' else 3000):
        ip = rng.choice(['', '0', str(rng.randrange(10 ** rng.randint(1, 41))), str(rng.randrange(2 ** 24 + 10)), str(T + rng.randrange(-3, 3)),
                         str(2 ** rng.randint(0, 129)), str(2 ** 63 + rng.randrange(-2 ** 40, 2 ** 40)), '0' * rng.randint(1, 3) + str(rng.randrange(1000))])
        fp = rng.choice(['', '0', str(rng.randrange(10 ** rng.randint(1, 20))), '0' * rng.randint(1, 50) + str(rng.randrange(1, 1000)), '5', '50'])
        out.append(rng.choice(['', '', '+', '-']) + ip + '.' + fp)
    return out


def gen_cases(rng, tier):
    exe, log = vlib.build_harness('f32disp')
    reals = RealSource(exe)
    n = 400 if tier == 'quick' else 12000
    cases = []
    # byte-pair sweep of the shared name / string lexers: row a = 256 operations "Tj" with operands /ab and (ab)
    # (quick: 6 rows; thorough: all 256 rows = every byte pair as name and as literal string content)
    rows = range(256) if tier != 'quick' else sorted(rng.sample(range(256), 4) + [0x23, 0x5c])
    for a in rows:
        ops = [L('op', xb('Tj'), L('n', xb(bytes([a, b]))), L('s', xb(bytes([a, b])))) for b in range(256)]
        cases.append((L('enc', L('ops', *ops), 'wf'), {'kind': 'enc-pair-sweep', 'nontrivial': True}))
    # fixed findings stay fixed: every operator that merely begins with a keyword / with BI, without and with operands
    # (C14-keyword-operator), and the keywords themselves as operands next to them
    kw = [L('op', xb(o)) for o in KW_PREFIXED] + [L('op', xb(o), 'null', L('b', '1'), L('b', '0')) for o in KW_PREFIXED] + \
         [L('op', xb('BI'), L('i', '1')), L('op', xb('Q'))]
    cases.append((L('enc', L('ops', *kw), 'wf'), {'kind': 'enc-keyword-prefix', 'nontrivial': True}))
    for o in KW_PREFIXED:
        cases.append((L('enc', L('ops', L('op', xb(o)), L('op', xb(o), 'null')), 'wf'), {'kind': 'enc-keyword-prefix', 'nontrivial': True}))
    # inline images written by Content::encode: every colour space the parser accepts x BPC 1/2/4 x widths whose rows do
    # not end on a byte boundary x several rows (ragged), and byte-aligned / single-row / 8- and 16-bit ones
    for k in range(n // 5):
        c, geo = gen_enc_image(rng, reals, ragged=(k % 4 != 3))
        cases.append((c, {'kind': 'enc-image-ragged' if k % 4 != 3 else 'enc-image', 'nontrivial': True}))
    for k in range(n):
        r = rng.random()
        if r < 0.04:
            c = gen_known(rng, reals)
            cases.append((c, {'kind': 'enc-known-class', 'nontrivial': True}))
        elif r < 0.5:
            c = gen_enc(rng, reals, True)
            cases.append((c, {'kind': 'enc-wf', 'nontrivial': '(op ' in c}))
        elif r < 0.6:
            c = gen_enc(rng, reals, False)
            cases.append((c, {'kind': 'enc-any', 'nontrivial': '(op ' in c}))
        else:
            c = gen_dec(rng)
            cases.append((c, {'kind': 'dec-inline' if '4249' in c else 'dec', 'nontrivial': True}))
    # second sentence of the property: valid content from the independent producer (every operand spelling, comments,
    # inline images in every colour space / key style, EI and leading white space inside image data) is decoded, encoded and
    # decoded again on the implementation; the producer's operation count is checked too
    for k in range(n // 2):
        c = gen_decv(rng)
        cases.append((c, {'kind': 'decv-inline' if '4249' in c else 'decv', 'nontrivial': True}))
    # open finding C14-real-overflow (see classify) and the boundary below it
    for t in ['340282356779733661637539395458142568448.0 w', '-340282356779733661637539395458142568448. 0 0 m',
              '[1 <</K 999999999999999999999999999999999999999999.5>>] TJ', 'q 340282356779733661637539395458142568447.999 w Q',
              'BI /W 1 /H 1 /CS /Gray /BPC 8 /X 1' + '0' * 39 + '. ID x EI']:
        cases.append((L('dec', xb(t.encode())), {'kind': 'dec-real-overflow', 'nontrivial': True}))
    # open finding C14-keyword-residual (see classify): a keyword glued to a regular byte that is no operator character is
    # returned as an operator that IS the keyword / a lone BI ...
    for t in [b'null1 x', b'true\xff cm', b'BI1 ', b'1 false.5 x', b'q true2 1 0 0 rg Q', b'/N null#20 Tf', b'(a) false- Tj',
              b'BI\x80 /W 1 ID x EI', b'[1] null+1 m']:
        cases.append((L('dec', xb(t)), {'kind': 'dec-keyword-residual', 'nontrivial': True}))
    # ... and the boundary outside the class, which must hold: the keyword followed by a delimiter, white space (every kind),
    # an operator character, end of input behind an operator; inside a name, a string, a comment, an array, image data
    for t in [b'null(a) Tj', b'true/N gs', b'false[1]TJ', b'null<41>Tj', b'true<</K 1>>x', b'null\x00x', b'true\x0cx', b'false\tx',
              b'null\rx', b'nullx', b'true* 1 BI*', b'BIx', b"false' null\"", b'/null1 gs', b'(true2 BI1) Tj', b'% null1\nq',
              b'[null true false] x', b'[null1] x', b'<</K true2>> x', b'BI /W 5 /H 1 /CS /G /BPC 8 ID null1 EI Q',
              b'BI /W 5 /H 1 /CS /Gray /BPC 8 ID null1 EI Q', b'1 null%c\n x', b'true', b'x null']:
        cases.append((L('dec', xb(t)), {'kind': 'dec-keyword-boundary', 'nontrivial': True}))
    # inline images whose dictionaries hold keys that need #xx escapes (a key is a name and is written by the name writer)
    for t in [b'BI /W 1 /H 1 /CS /Gray /BPC 8 /My#20Key 7 ID x EI', b'BI /W 1 /H 1 /CS /Gray /BPC 8 /A#23B#2fC (v) ID x EI Q',
              b'BI /W#20 9 /W 1 /H 1 /CS /Gray /BPC 8 ID x EI', b'q BI /#20 null /W 1 /H 1 /#23 1 /CS /RGB /BPC 8 /#28#29 [1 2] ID xyz EI Q',
              b'BI /W 2 /H 1 /CS /Gray /BPC 8 /K#00 <</A#20B /C#2FD>> /Caf#e9 true /#7f#80#FF 1.5 ID xy EI',
              b'BI /W 1 /H 1 /CS /Gray /BPC 8 /ID#20 1 /#20EI#20 2 ID x EI', b'BI /W 1 /H 1 /BPC 8 /CS /Gray /Length#23 5 /#3c#3C <41> ID x EI']:
        cases.append((L('dec', xb(t)), {'kind': 'dec-image-key', 'nontrivial': True}))
        cases.append((L('decv', xb(t), str(1 + t.count(b'q') + t.count(b'Q'))), {'kind': 'decv-image-key', 'nontrivial': True}))
    for key in ODD_KEYS:
        ent = [('W', I(1)), ('H', I(1)), ('CS', N('Gray')), ('BPC', I(8)), (key, I(7))]
        cases.append((L('enc', L('ops', L('op', xb('BI'), ST(ent, b'x')), L('op', xb('Q'))), 'wf'), {'kind': 'enc-image-key', 'nontrivial': True}))
    # the float assumptions of the second-sentence theorem (canon_spec) and the model's real syntax / overflow bound
    for t in real_texts(rng, tier):
        cases.append((L('real', xb(t.encode())), {'kind': 'real', 'nontrivial': True}))
    return cases


def first_sx(s, start):
    """end index of the sx starting at s[start]"""
    if s[start] != '(':
        j = start
        while j < len(s) and s[j] not in ' )':
            j += 1
        return j
    depth = 0
    for j in range(start, len(s)):
        if s[j] == '(':
            depth += 1
        elif s[j] == ')':
            depth -= 1
            if depth == 0:
                return j + 1
    return len(s)


def f32_value(bits):
    """exact value of a finite f32 given by its bit pattern (None for infinities / NaN)"""
    from fractions import Fraction
    e = (bits >> 23) & 0xff
    m = bits & 0x7fffff
    if e == 0xff:
        return None
    v = Fraction(m, 1 << 23) * Fraction(2) ** -126 if e == 0 else (1 + Fraction(m, 1 << 23)) * Fraction(2) ** (e - 127)
    return -v if bits >> 31 else v


NUM_SX = re.compile(r'(\((?:r x[0-9a-f]*|i -?[0-9]+)\))')


def same_values(m, i):
    """two decoded operation lists are the same up to the spelling of reals and "an integral real below 2^63 may be an
    integer": the model holds the source text of a real, Rust the f32, which it prints in Display form (shortest digits that
    round-trip, e.g. 4294967300 for 2^32) and reads back as the integer of those digits"""
    pm, pi = NUM_SX.split(m), NUM_SX.split(i)
    if len(pm) != len(pi):
        return False
    for k, (x, y) in enumerate(zip(pm, pi)):
        if k % 2 == 0:
            if x != y:
                return False
            continue
        if x == y:
            continue
        if not x.startswith('(r x'):
            return False                        # integers of the model are exact
        try:
            bx = vlib.f32_bits_of_decimal(bytes.fromhex(x[4:-1]).decode('latin-1'))
        except ValueError:
            return False
        if bx is None:
            return False
        if y.startswith('(r x'):
            by = vlib.f32_bits_of_decimal(bytes.fromhex(y[4:-1]).decode('latin-1'))
        else:
            n = int(y[3:-1])
            v = f32_value(bx)
            if v is None or v.denominator != 1 or abs(v) >= 2 ** 63:
                return False                    # only an integral real below 2^63 may come back as an integer
            by = vlib.f32_bits_of_decimal(str(n))
        if by is None or (bx & 0x7fffffff or by & 0x7fffffff) and bx != by:
            return False                        # (+0 and -0 are the same value)
    return True


def compare(model, impl):
    """equal up to real canonicalisation.  A real parsed from a non-canonical spelling (".25", "5.", "+3.0") is kept as
    its source text by the model but held as an f32 and re-printed in Display form by Rust.  For (res2 <dec1> xREENC <dec2>)
    results whose first decodes agree numerically but not textually, the re-encoded bytes differ legitimately (the model
    writes the source spelling, Rust the Display text: canon_op in Proofs/DecodeRtProofs.v); the second decodes are then
    compared up to the spelling of reals and "an integral real below 2^63 may be an integer" (intnorm_op)."""
    if vlib.compare_canon_reals(model, impl):
        return True
    if model.startswith('(res2 ') and impl.startswith('(res2 '):
        em, ei = first_sx(model, 6), first_sx(impl, 6)
        dm, di = model[6:em], impl[6:ei]
        if dm == di or vlib.canon_reals(dm) != vlib.canon_reals(di):
            return False
        rm, ri = model[em:].strip(), impl[ei:].strip()
        if not rm.startswith('x') or not ri.startswith('x'):
            return rm == ri
        rm, ri = rm[first_sx(rm, 0):].strip(), ri[first_sx(ri, 0):].strip()
        return same_values(rm, ri)
    return False


def sx_nest(t):
    """container nesting of an operand in the case language: (a ...) and (d (key value) ...) and (st (d ...) data)"""
    best = 0
    stack = []        # True for a container level
    i = 0
    while i < len(t):
        ch = t[i]
        if ch == '(':
            j = i + 1
            while j < len(t) and t[j] not in ' ()':
                j += 1
            tag = t[i + 1:j]
            stack.append(tag in ('a', 'd'))
            best = max(best, sum(stack))
            i = j
        elif ch == ')':
            if stack:
                stack.pop()
            i += 1
        else:
            i += 1
    return best


def split_top(t):
    """top-level items of the body of a list"""
    out, depth, cur = [], 0, ''
    for ch in t:
        if ch == '(':
            depth += 1
        if ch == ')':
            depth -= 1
        if ch == ' ' and depth == 0:
            if cur:
                out.append(cur)
            cur = ''
        else:
            cur += ch
    if cur:
        out.append(cur)
    return out


NUMERAL = re.compile(rb'(?<![0-9.])([0-9]+)\.')


# C14-keyword-residual, necessary condition on the bytes: one of the keywords glued to a regular byte (no white space, no
# delimiter) that is no operator character (letters, * ' ").  Only then do the keyword parsers (whole tokens since 93a8a25)
# refuse the text while the operator parser takes it.
KW_GLUED = re.compile(rb'(?:null|true|false|BI)(?![A-Za-z*\'"\x00\t\n\x0c\r ()<>\[\]{}/%])(?s:.)')
KW_RESIDUAL_OPS = {k.encode().hex() for k in KEYWORDS}


def first_decode_ops(out):
    """the operations of the first decode in a (res2 (ops (op xOP operand...)...) ...) result: [(operator hex, n operands)]"""
    if not out or not out.startswith('(res2 (ops'):
        return []
    body = out[len('(res2 '):first_sx(out, len('(res2 '))]
    res = []
    for o in split_top(body[len('(ops'):-1].strip()):
        items = split_top(o[1:-1])
        if len(items) >= 2 and items[0] == 'op':
            res.append((items[1][1:], len(items) - 2))
    return res


def kw_residual(ops):
    """mirror of kw_residual in coq/Proofs/DecodeRtProofs.v: the operator is exactly null / true / false, or a BI without operands"""
    return any(op in KW_RESIDUAL_OPS or (op == b'BI'.hex() and n == 0) for op, n in ops)


def known_class_of(line, model_out=None):
    """mirror of known_class in coq/Proofs/ContentProofs.v (enc cases) and of known_input in coq/Proofs/DecodeRtProofs.v (dec
    cases), on the input: returns a finding id or None"""
    m = re.match(r'\((?:dec|decv) x([0-9a-f]*)', line)
    if m:
        # C14-real-overflow: a real whose integer digits denote at least 2^128 - 2^103 (f32::from_str returns infinity)
        body = bytes.fromhex(m.group(1))
        if any(int(t) >= F32_INF_FROM for t in NUMERAL.findall(body)):
            return 'C14-real-overflow'
        # C14-keyword-residual: the input decodes (decode_content of the extracted model = known_input of the theorem) to an
        # operation whose operator is a keyword / a lone BI; the bytes must show the glued keyword.  Without a model
        # output (runner broken) the condition on the bytes alone.
        if KW_GLUED.search(body) and (model_out is None or kw_residual(first_decode_ops(model_out))):
            return 'C14-keyword-residual'
        return None
    if not line.startswith('(enc (ops'):
        return None
    body = line[len('(enc '):]
    end = first_sx(body, 0)
    ops = split_top(body[len('(ops'):end - 1].strip())
    for o in ops:
        items = split_top(o[1:-1])
        if len(items) < 2 or items[0] != 'op':
            continue
        name = bytes.fromhex(items[1][1:])
        operands = items[2:]
        if any(sx_nest(x) > MAX_NESTING for x in operands):
            return 'C14-deep-nesting'
    return None


def classify(line, tags, model_out, impl_out, verdict):
    return known_class_of(line, model_out)


SPEC = {
    'gen_parts': ['Lex'],
    'allowed_axioms': (),
    'runner': 'c14',
    'bin': 'c14',
    'gen_cases': gen_cases,
    'compare': compare,
    'classify': classify,
    'partial_note': 'second sentence of the property (decode, encode, decode again) is proved for ALL byte strings '
                    '(C14_decode_encode_decode) with the re-printing of reals (f32 Display o from_str) as a function canon specified by '
                    'the written-out float assumptions canon_spec (shape, idempotence; consistent: C14_canon_spec_consistent; validated '
                    'on the crate by the (real ...) cases) -- the assumptions themselves are about Rust std and are not proved; outside: '
                    'open findings C14-real-overflow and C14-keyword-residual (decoded operators that are exactly null/true/false or a lone '
                    'BI: malformed tokens such as null1). The literal clause is evaluated on the implementation for every dec/decv case',
    'rule': 'byte-pair sweep rows (every second byte after a fixed first byte as name and as literal-string operand; all 65 536 pairs in '
            'the thorough tier); random operation sequences (operators over the parser alphabet incl. those beginning with null/true/false/BI, '
            '0-6 operands of every direct kind nested to depth 3, adversarial bytes in names/strings, f32 reals printed by Rust itself) '
            'encoded then decoded; operation sequences holding inline images as BI + one stream operand (all 8 colour-space names the '
            'parser accepts, abbreviated and long keys, BPC 1/2/4 with widths whose rows do not end on a byte boundary and 2-7 rows, also '
            'aligned / single-row / 8- and 16-bit, samples containing EI and beginning with white space) encoded then decoded; raw content '
            'streams (token soup with comments, all EOL flavours, valid and invalid inline images, byte damage) decoded, re-encoded, decoded '
            'again; VALID content from an independent producer written from ISO 32000-1 (every spelling of integers, reals, names, literal '
            'and hex strings, nested arrays / dictionaries with all six white-space bytes and comments, references inside containers, '
            'inline images in every supported colour space and key style with all five ID separators, EI and leading white space in the '
            'samples) decoded (operation count checked), re-encoded, decoded again; spellings of reals around the f32 limits for the '
            'float assumptions; in all three kinds about 40 % of the inline images carry further dictionary entries whose KEYS need a '
            '#xx escape as names (white space, #, delimiters, bytes outside 33..126; also next to the meaningful keys: "W ", "Length#", '
            '"ID ", " EI") with values of every kind; non-trivial = at least one operation; distinct = distinct case text',
    'extra_trusted': ['C14: reals are compared as f32 bit patterns (exact decimal->f32 rounding in lib/vlib.py); '
                      'f32 Display/FromStr are Rust std (assumed: from_str(to_string x) = x)'],
}


def run(ctx):
    return propcheck.standard_check(ctx, SPEC)


MANIFEST = {
    'level_text': 'Machine-checked proof (Coq) that (1) the model of Content::decode applied to the model of Content::encode returns '
                  'the same operators with operands in normal form (integral real -> integer) for EVERY sequence of operations in '
                  'the domain (operators over the parser alphabet other than the keywords null/true/false; operands = direct objects of '
                  'every kind nested up to MAX_NESTING levels with arbitrary bytes in names, strings and keys; inline images in BI/ID/EI '
                  'syntax with arbitrary sample bytes) outside one open known class (C14_rt), and (2) for EVERY byte string, what decode '
                  'returns, held as f32 and encoded again, decodes to the same operations up to "an integral real is an integer" '
                  '(C14_decode_encode_decode; built on soundness of the parser model for all inputs, C14_decoded_sound / '
                  'C14_parsed_value_sound); built on token round trips for every byte string (names, literal strings with any parenthesis '
                  'nesting, hex strings, i64, f32 Display texts), the object round trip with the explicit follow-set / separator lemma '
                  '(C14_object_rt, C14_separator_rule), witnesses for the known classes and for each domain restriction. Byte sets, '
                  'escape letters, separator variants, alternative orders, depth limits, keyword / ID-separator / number shapes and the '
                  'encode shape are re-read from src/{writer,parser/mod,content,reader}.rs on every run; the model is tied to the crate '
                  'by differential runs.',
    'level_note': 'Open known findings: C14-deep-nesting (operand containers nested deeper than reader::MAX_NESTING = 16), C14-real-overflow (a real '
                  'whose spelling overflows f32 is decoded to infinity and written as the operator inf) and C14-keyword-residual (a keyword '
                  'glued to a regular byte that is no operator character, e.g. null1, is decoded as an operator that is the keyword). Fixed in this round: '
                  'C14-keyword-operator (93a8a25), C14-image-leading-space (aee7de5). Clause (2) is proved under the written-out float '
                  'assumptions canon_spec about f32 Display/FromStr (consistent by C14_canon_spec_consistent; validated on the crate by a '
                  'sweep of spellings); the excluded class is a decidable predicate on the input (known_input, mirrored by classify). Trusted: Coq kernel; translator part Lex; hand-written models Writer.v/Parser.v tied by '
                  'correspondence (encoded bytes and decoded operations, valid and malformed streams); f32 Display/FromStr (Rust std: printed '
                  'shape, from_str(to_string x) = x, overflow bound 2^128 - 2^103); extraction/OCaml driver; Rust harness. No axioms (Print Assumptions: closed).',
    'technique': 'Coq proof: 256-case sweeps on regenerated byte sets + structural / nested induction with explicit continuations '
                 '+ differential correspondence',
    'design_ref': 'DESIGN.md 6 C14 (and C01 object_rt), notes/C14.md',
}
