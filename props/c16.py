"""C16 -- text strings and one-byte encodings round-trip text."""
import propcheck
from sxg import *

ENCODINGS = ['StandardEncoding', 'MacRomanEncoding', 'MacExpertEncoding', 'WinAnsiEncoding', 'PDFDocEncoding']


def U(cps):
    return L('u', *[str(c) for c in cps])


def is_scalar(c):
    return 0 <= c < 0x110000 and not (0xD800 <= c <= 0xDFFF)


def font_dict(enc, rng=None, typ='Font', extra=()):
    ent = [('Type', N(typ)), ('Subtype', N('Type1')), ('BaseFont', N('Helvetica'))]
    if enc is not None:
        ent.append(('Encoding', enc if enc.startswith('(') else N(enc)))
    ent += list(extra)
    if rng is not None and rng.random() < 0.3:
        rng.shuffle(ent)
    return D(ent)


# ---- independent oracle for "shown text": Python's own code pages, restricted to the codes on which
# ---- the PDF encodings are the plain code page (printable ASCII and the Latin-1 letters/signs)
def shown_codes(enc):
    asc = list(range(0x20, 0x7f))
    if enc == 'WinAnsiEncoding':      # Windows-1252; PDF re-assigns 0xA0 (space) and 0xAD (hyphen)
        hi = [b for b in range(0xa1, 0x100) if b != 0xad] + [0x80, 0x82, 0x83, 0x84, 0x85, 0x86, 0x87, 0x88, 0x89, 0x8a, 0x8b,
                                                            0x8c, 0x8e, 0x91, 0x92, 0x93, 0x94, 0x95, 0x96, 0x97, 0x98, 0x99,
                                                            0x9a, 0x9b, 0x9c, 0x9e, 0x9f]
        return {b: bytes([b]).decode('cp1252') for b in asc + hi}
    if enc == 'MacRomanEncoding':     # Mac OS Roman without the mathematical symbols, the apple, nbsp and 0xDB
        skip = {0xad, 0xb0, 0xb2, 0xb3, 0xb6, 0xb7, 0xb8, 0xb9, 0xba, 0xbd, 0xc3, 0xc5, 0xc6, 0xca, 0xd7, 0xdb, 0xf0}
        hi = [b for b in range(0x80, 0x100) if b not in skip]
        return {b: bytes([b]).decode('mac_roman') for b in asc + hi}
    if enc == 'PDFDocEncoding':       # ASCII and Latin-1 as themselves (0xAD is undefined)
        hi = [b for b in range(0xa1, 0x100) if b != 0xad]
        return {b: chr(b) for b in asc + hi}
    if enc == 'StandardEncoding':     # ASCII except the two quotes (quoteright / quoteleft)
        return {b: chr(b) for b in asc if b not in (0x27, 0x60)}
    return {}


def gen_text_cases(rng, tier):
    cases = []
    def add(kind, s, tag, nontrivial=True):
        cases.append((L(kind, U(s)), {'kind': tag, 'nontrivial': nontrivial}))
    boundaries = [0, 1, 8, 9, 10, 13, 0x17, 0x18, 0x1f, 0x20, 0x7e, 0x7f, 0x80, 0xa0, 0xad, 0xff, 0x100, 0x7ff, 0x800, 0xfff,
                  0x1000, 0xd7ff, 0xe000, 0xfeff, 0xfffe, 0xffff, 0x10000, 0x10ffff, 0x1f600, 0xfffd, 0xefbb, 0xbbbf, 0xfe, 0xef]
    # every character on its own, as text string / UTF-8 / UTF-16BE
    if tier == 'quick':
        singles = list(range(0, 0x180)) + boundaries + [c for c in range(0x7f0, 0x810)] + \
                  [c for c in range(0xd7f0, 0xd800)] + [c for c in range(0xe000, 0xe010)] + \
                  [c for c in range(0xfff0, 0x10010)] + [c for c in range(0x10fff0, 0x110000)] + \
                  [rng.randrange(0x110000) for _ in range(300)]
        singles = [c for c in singles if is_scalar(c)]
        for c in singles:
            add('ts', [c], 'ts-single')
        for c in singles[::3]:
            add('u8', [c], 'u8-single')
            add('u16', [c], 'u16-single')
            add('ts', [97, c, 98], 'ts-embedded')
    else:
        # EVERY scalar value: alone below U+3000, then in runs of 32
        for c in range(0, 0x3000):
            add('ts', [c], 'ts-single')
            add('u8', [c], 'u8-single')
            add('u16', [c], 'u16-single')
        run = []
        for c in range(0x3000, 0x110000):
            if not is_scalar(c):
                continue
            run.append(c)
            if len(run) == 32:
                for k in ('ts', 'u8', 'u16'):
                    add(k, run, k + '-run32')
                run = []
        if run:
            for k in ('ts', 'u8', 'u16'):
                add(k, run, k + '-run32')
        for c in range(0, 0x100):
            add('ts', [97, c, 98], 'ts-embedded')
    # random strings
    n = 400 if tier == 'quick' else 12000
    def rand_char():
        r = rng.random()
        if r < 0.25:
            return rng.randrange(0x20, 0x7f)
        if r < 0.35:
            return rng.randrange(0, 0x20)
        if r < 0.5:
            return rng.randrange(0x80, 0x800)
        if r < 0.7:
            c = rng.randrange(0x800, 0x10000)
            return c if is_scalar(c) else 0xfffd
        if r < 0.9:
            return rng.randrange(0x10000, 0x110000)
        return rng.choice(boundaries) if is_scalar(rng.choice(boundaries)) else 0xfeff
    for _ in range(n):
        style = rng.choice(['ascii', 'ascii-ctl', 'mixed', 'mixed', 'astral', 'bom', 'empty'])
        ln = rng.randint(0, 12)
        if style == 'ascii':
            s = [rng.randrange(0x20, 0x7f) for _ in range(ln)]
        elif style == 'ascii-ctl':
            s = [rng.randrange(0, 0x80) for _ in range(ln)]
        elif style == 'mixed':
            s = [rand_char() for _ in range(ln)]
        elif style == 'astral':
            s = [rng.randrange(0x10000, 0x110000) for _ in range(max(1, ln // 2))] + [rng.randrange(0x20, 0x7f) for _ in range(ln // 2)]
            rng.shuffle(s)
        elif style == 'bom':
            s = [rng.choice([0xfeff, 0xfffe, 0xef, 0xbb, 0xbf, 0xfe, 0xff, 65]) for _ in range(rng.randint(1, 4))]
        else:
            s = []
        s = [c for c in s if is_scalar(c)]
        k = rng.choice(['ts', 'ts', 'u8', 'u16'])
        add(k, s, k + '-' + style, nontrivial=len(s) > 0)
    return cases


def gen_decode_cases(rng, tier):
    """decode_text_string on arbitrary objects: the malformed stream of the text-string decoder"""
    cases = []
    def add(obj, tag):
        cases.append((L('dts', obj), {'kind': tag, 'nontrivial': True}))
    for b in range(256):
        add(S(bytes([b])), 'dts-pdfdoc-byte')
    add(S(b''), 'dts-empty')
    for o in [I(5), NULL, N('Name'), A([S(b'a')]), D([]), B(True), R('1.5'), REF(3, 0)]:
        add(o, 'dts-notstring')
    n = 500 if tier == 'quick' else 15000
    for _ in range(n):
        style = rng.choice(['u16', 'u16-odd', 'u16-surr', 'u8', 'u8-bad', 'pdfdoc', 'partial-mark', 'le-mark'])
        ln = rng.randint(0, 10)
        if style == 'u16':
            body = b''.join(rng.choice([rng.randrange(0, 0xd800), rng.randrange(0xe000, 0x10000)]).to_bytes(2, 'big') for _ in range(ln))
            b = b'\xfe\xff' + body
        elif style == 'u16-odd':
            b = b'\xfe\xff' + bytes(rng.randrange(256) for _ in range(2 * ln + 1))
        elif style == 'u16-surr':
            units = []
            for _ in range(max(1, ln)):
                r = rng.random()
                if r < 0.3:
                    units += [rng.randrange(0xd800, 0xdc00), rng.randrange(0xdc00, 0xe000)]
                elif r < 0.5:
                    units.append(rng.randrange(0xd800, 0xe000))
                else:
                    units.append(rng.randrange(0, 0x10000))
            b = b'\xfe\xff' + b''.join(u.to_bytes(2, 'big') for u in units)
            if rng.random() < 0.2:
                b = b[:-1]
        elif style == 'u8':
            s = ''.join(chr(c) for c in [rng.choice([rng.randrange(0x20, 0x7f), rng.randrange(0x80, 0x800), rng.randrange(0x800, 0xd800),
                                                    rng.randrange(0xe000, 0x10000), rng.randrange(0x10000, 0x110000), 0xfeff])
                                         for _ in range(ln)])
            b = b'\xef\xbb\xbf' + s.encode('utf-8')
        elif style == 'u8-bad':
            bad = rng.choice([b'\xc0\x80', b'\xc1\xbf', b'\xe0\x80\x80', b'\xe0\x9f\xbf', b'\xed\xa0\x80', b'\xed\xbf\xbf', b'\xf0\x80\x80\x80',
                              b'\xf0\x8f\xbf\xbf', b'\xf4\x90\x80\x80', b'\xf5\x80\x80\x80', b'\xf8\x88\x80\x80\x80', b'\x80', b'\xbf',
                              b'\xc2', b'\xe2\x82', b'\xf0\x9f\x98', b'\xff', b'\xfe', b'\xc2\x41', b'\xe2\x41\x80', b'\xf0\x9f\x41\x80',
                              b'\xdf\xbf', b'\xef\xbf\xbf', b'\xf4\x8f\xbf\xbf', b'\xee\x80\x80', b'\xed\x9f\xbf'])
            pre = bytes(rng.randrange(0x20, 0x7f) for _ in range(rng.randint(0, 3)))
            post = bytes(rng.randrange(0x20, 0x7f) for _ in range(rng.randint(0, 3)))
            b = b'\xef\xbb\xbf' + pre + bad + post
        elif style == 'pdfdoc':
            b = bytes(rng.randrange(256) for _ in range(ln))
        elif style == 'partial-mark':
            b = rng.choice([b'\xfe', b'\xef', b'\xef\xbb', b'\xfe\xfe', b'\xff\xfe', b'\xef\xbb\xbe']) + bytes(rng.randrange(256) for _ in range(ln))
        else:
            b = b'\xff\xfe' + bytes(rng.randrange(256) for _ in range(2 * ln))
        add(rng.choice([S, H])(b), 'dts-' + style)
    return cases


def gen_font_cases(rng, tier):
    cases = []
    # the tables themselves, through get_font_encoding
    for e in ENCODINGS:
        cases.append((L('table', font_dict(e)), {'kind': 'table', 'nontrivial': True}))
    cases.append((L('table', font_dict(None)), {'kind': 'table-fallback', 'nontrivial': True}))
    cases.append((L('table', font_dict(S(b'WinAnsiEncoding'))), {'kind': 'table-fallback', 'nontrivial': True}))
    cases.append((L('table', font_dict(None, extra=[('ToUnicode', I(3))])), {'kind': 'table-fallback', 'nontrivial': True}))
    cases.append((L('table', font_dict('WinAnsiEncoding', typ='Fnt')), {'kind': 'table-err', 'nontrivial': True}))
    cases.append((L('table', D([('Encoding', N('WinAnsiEncoding'))])), {'kind': 'table-err', 'nontrivial': True}))
    cases.append((L('table', D([('Type', S(b'Font')), ('Encoding', N('WinAnsiEncoding'))])), {'kind': 'table-err', 'nontrivial': True}))
    cases.append((L('table', font_dict('Identity-H')), {'kind': 'table-err', 'nontrivial': True}))
    cases.append((L('table', font_dict('Identity-V', extra=[('ToUnicode', I(3))])), {'kind': 'table-err', 'nontrivial': True}))
    cases.append((L('table', font_dict('Foo')), {'kind': 'table-simple', 'nontrivial': True}))
    # all 256 bytes x 5 encodings, one byte at a time, through decode_text / encode_text
    for e in ENCODINGS:
        fd = font_dict(e)
        for b in range(256):
            probe = [rng.choice([b, 0x2022, 0x20ac, 0x20, 0x2d, 0xa0, 0xad, 0x2019, 0xf730 + (b % 10), rng.randrange(0x20, 0x250)])]
            cases.append((L('font', fd, xb(bytes([b])), U(probe)), {'kind': 'font-byte-' + e, 'nontrivial': True}))
    n = 300 if tier == 'quick' else 10000
    for _ in range(n):
        e = rng.choice(ENCODINGS + [None, 'Foo'])
        fd = font_dict(e, rng)
        bs_ = bytes(rng.randrange(256) for _ in range(rng.randint(0, 24)))
        s = []
        for _ in range(rng.randint(0, 10)):
            r = rng.random()
            if r < 0.5:
                s.append(rng.randrange(0x20, 0x100))
            elif r < 0.8:
                s.append(rng.choice([0x2022, 0x20ac, 0x2019, 0x2018, 0x201c, 0x2014, 0x192, 0x152, 0xfb01, 0x2122, 0x2c6, 0x2dc, 0xf730,
                                     0xf6e2, 0x2044, 0x131]))
            elif r < 0.9:
                s.append(rng.randrange(0x10000, 0x110000))
            else:
                s.append(rng.randrange(0, 0x3000))
        s = [c for c in s if is_scalar(c)]
        cases.append((L('font', fd, xb(bs_), U(s)), {'kind': 'font-random-' + str(e), 'nontrivial': len(bs_) > 0}))
    return cases


def gen_rt_cases(rng, tier):
    """Document::encode_text then Document::decode_text: the whole repertoire of each table in one string (rtall), and
    random strings over the repertoire (Python code pages as the source of characters), pure or salted with characters
    outside it, which must be dropped without disturbing the rest"""
    cases = []
    for e in ENCODINGS + [None, 'Foo', 'Identity-H']:
        cases.append((L('rtall', font_dict(e)), {'kind': 'rtall', 'nontrivial': True}))
    outside = [0x0, 0x9, 0xa, 0x7f, 0x80, 0x3b1, 0x416, 0x4e2d, 0xfeff, 0xfffd, 0xd7ff, 0xe000, 0xf8ff, 0x1f600, 0x10ffff, 0x2022,
               0x20ac, 0xf730, 0xf6e2, 0x2044]
    n = 400 if tier == 'quick' else 12000
    for _ in range(n):
        e = rng.choice(ENCODINGS + ['WinAnsiEncoding', 'StandardEncoding', None])
        rep = sorted(set(ord(c) for c in shown_codes(e or 'StandardEncoding').values())) or list(range(0x20, 0x7f))
        if e == 'MacExpertEncoding':
            rep = list(range(0x20, 0x40)) + list(range(0xf6dc, 0xf800)) + [0x2044, 0x2013, 0x2014, 0xfb00, 0xfb01, 0xfb02, 0xfb03, 0xfb04]
        salted = rng.random() < 0.4
        s = []
        for _c in range(rng.randint(0, 16)):
            if salted and rng.random() < 0.3:
                s.append(rng.choice(outside) if rng.random() < 0.6 else rng.randrange(0, 0x3000))
            else:
                s.append(rng.choice(rep))
        s = [c for c in s if is_scalar(c)]
        cases.append((L('rt', font_dict(e, rng), U(s)), {'kind': 'rt-' + str(e) + ('-salted' if salted else ''), 'nontrivial': len(s) > 0}))
    return cases


def render_expected(pieces):
    """the documented layout of shown text: TJ arrays end with a space, an integer adjustment below -100 is a space,
    ET ends the line"""
    out = ''
    for p in pieces:
        if p[0] == 'Tj':
            out += p[1]
        else:
            for it in p[1]:
                if isinstance(it, str):
                    out += it
                elif isinstance(it, int) and it < -100:
                    out += ' '
            out += ' '
    return out


def gen_extract_cases(rng, tier):
    cases = []
    n_shown = 250 if tier == 'quick' else 8000
    n_rand = 250 if tier == 'quick' else 8000
    shown_encs = ['StandardEncoding', 'MacRomanEncoding', 'WinAnsiEncoding', 'PDFDocEncoding']
    def rand_shown(codes):
        keys = list(codes)
        bs_ = bytes(rng.choice(keys) for _ in range(rng.randint(0, 14)))
        return bs_, ''.join(codes[b] for b in bs_)
    def shown_page(style):
        """one page showing text; the font selection follows `style`:
             each       every text object starts with its own Tf (what most producers emit)
             before     Tf once, before the first BT; no text object selects a font
             first      Tf inside the first text object only; the later text objects reuse it
             between    Tf between text objects (after ET, before the next BT), never inside
             mixed      any of these at random, plus font switches in the middle of a text object
           The selected font is graphics state: it stays selected across ET/BT until the next Tf.
           Returns (fonts, ops, expected text)."""
        nf = rng.randint(1, 3)
        names = rng.sample(['F1', 'F2', 'Helv', 'T1_0', 'A', 'Z9'], nf)
        encs = [rng.choice(shown_encs) for _ in names]
        fonts = [L(xb(nm), font_dict(e, rng)) for nm, e in zip(names, encs)]
        ops = []
        sem = []      # what the operations mean for the reader: ('font',) | ('show', text) | ('end',)
        state = {'codes': None}
        def select():
            k = rng.randrange(nf)
            ops.append(L(xb('Tf'), N(names[k]), rng.choice([I(12), I(10), R('9.5')])))
            sem.append(('font',))
            state['codes'] = shown_codes(encs[k])
        def show():
            codes = state['codes']
            if rng.random() < 0.6:
                b, t = rand_shown(codes)
                ops.append(L(xb('Tj'), rng.choice([S, H])(b)))
                sem.append(('show', render_expected([('Tj', t)])))
            else:
                items = []
                arr = []
                for _i in range(rng.randint(0, 5)):
                    r = rng.random()
                    if r < 0.6:
                        b, t = rand_shown(codes)
                        arr.append(rng.choice([S, H])(b))
                        items.append(t)
                    elif r < 0.9:
                        kk = rng.choice([-250, -101, -100, -99, -20, 0, 30, 400, -1000])
                        arr.append(I(kk))
                        items.append(kk)
                    else:
                        arr.append(R(rng.choice(['-250.5', '12.25', '-0.5'])))
                        items.append(None)
                ops.append(L(xb('TJ'), A(arr)))
                sem.append(('show', render_expected([('TJ', items)])))
        nblk = rng.randint(1, 4) if style != 'each' else rng.randint(1, 3)
        if style in ('before', 'between') or (style == 'mixed' and rng.random() < 0.4):
            if rng.random() < 0.3:
                ops.append(L(xb('q')))
            select()
        for blk in range(nblk):
            ops.append(L(xb('BT')))
            if style == 'each' or (style == 'first' and blk == 0) or (style == 'mixed' and rng.random() < 0.4) \
                    or state['codes'] is None:
                if rng.random() < 0.2:
                    ops.append(L(xb('Td'), I(rng.randint(-50, 50)), R('14.5')))   # Tf need not be the first operator
                select()
            for _s in range(rng.randint(1, 4) if style == 'each' or rng.random() < 0.85 else 0):
                if rng.random() < 0.15:
                    ops.append(L(xb('Td'), I(rng.randint(-50, 50)), R('14.5')))
                if rng.random() < (0.15 if style == 'each' else 0.3 if style == 'mixed' else 0.0):
                    select()
                show()
            ops.append(L(xb('ET')))
            sem.append(('end',))
            if blk + 1 < nblk and (style == 'between' or (style == 'mixed' and rng.random() < 0.25)):
                if rng.random() < 0.3:
                    ops.append(L(xb('cm'), I(1), I(0), I(0), I(1), I(rng.randint(0, 90)), I(0)))
                select()
        # layout rule: a line break at ET unless the text since the last font selection already ends with one
        text = ''
        cur = ''
        for ev in sem:
            if ev[0] == 'font':
                text += cur
                cur = ''
            elif ev[0] == 'show':
                cur += ev[1]
            elif not cur.endswith('\n'):
                cur += '\n'
        text += cur
        return fonts, ops, text
    styles = ['each', 'before', 'first', 'between', 'mixed', 'mixed']
    for j in range(n_shown):
        npages = rng.randint(1, 3)
        pages = []
        texts = []
        used = []
        for _p in range(npages):
            style = styles[(j + _p) % len(styles)]
            used.append(style)
            fonts, ops, text = shown_page(style)
            pages.append(L('page', L('fonts', *fonts), L('ops', *ops)))
            texts.append(text)
        nums = [rng.randint(1, npages) for _ in range(rng.randint(1, 3))]
        expect = ''.join(texts[k - 1] for k in nums)
        cases.append((L('extract', L('pages', *pages), L('nums', *[str(k) for k in nums]), L('expect', U([ord(c) for c in expect]))),
                      {'kind': 'extract-shown-' + used[nums[0] - 1], 'nontrivial': len(expect.strip()) > 0}))
    cases.sort(key=lambda c: len(c[0]))   # smallest first: the first failing case reported is the smallest found
    # arbitrary operation lists: the malformed stream of the extractor
    def rand_operand(depth=0):
        r = rng.random()
        if r < 0.4:
            return rng.choice([S, H])(bytes(rng.randrange(256) for _ in range(rng.randint(0, 8))))
        if r < 0.55:
            return I(rng.choice([-1000, -101, -100, -99, 0, 5, 300]))
        if r < 0.65:
            return R(rng.choice(['-250.5', '12.25', '-0.5', '3']))
        if r < 0.75:
            return N(rng.choice(['F1', 'F2', 'Nope', 'X']))
        if r < 0.8:
            return rng.choice([NULL, B(True), B(False)])
        if depth < 2:
            return A([rand_operand(depth + 1) for _ in range(rng.randint(0, 4))])
        return I(7)
    for _ in range(n_rand):
        npages = rng.randint(1, 2)
        pages = []
        for _p in range(npages):
            fonts = []
            present = rng.sample(['F1', 'F2', 'X', 'B0', 'a'], rng.choice([0, 1, 1, 2, 2, 3]))
            def pick_font():
                return rng.choice(present) if present and rng.random() < 0.85 else rng.choice(['F1', 'F2', 'X', 'Nope'])
            for nm in present:
                r = rng.random()
                if r < 0.6:
                    fd = font_dict(rng.choice(ENCODINGS), rng)
                elif r < 0.7:
                    fd = font_dict(None, rng)
                elif r < 0.8:
                    fd = font_dict('Foo-H', rng)
                elif r < 0.9:
                    fd = font_dict('WinAnsiEncoding', rng, typ='Fnt')
                else:
                    fd = font_dict('Identity-H', rng)
                fonts.append(L(xb(nm), fd))
            ops = []
            if fonts and rng.random() < 0.7:
                ops.append(L(xb('Tf'), N(pick_font()), I(12)))
            for _o in range(rng.randint(1, 10)):
                r = rng.random()
                if r < 0.2:
                    which = rng.random()
                    if which < 0.08:
                        ops.append(L(xb('Tf')))
                    elif which < 0.2:
                        ops.append(L(xb('Tf'), rng.choice([I(3), S(b'F1'), A([N('F1')])]), I(12)))
                    else:
                        ops.append(L(xb('Tf'), N(pick_font()), I(12)))
                elif r < 0.55:
                    ops.append(L(xb('Tj'), *[rand_operand() for _ in range(rng.choice([1, 1, 1, 0, 2]))]))
                elif r < 0.8:
                    ops.append(L(xb('TJ'), *[rand_operand() for _ in range(rng.choice([1, 1, 1, 0, 2]))]))
                elif r < 0.9:
                    ops.append(L(xb(rng.choice(['ET', 'BT']))))
                else:
                    ops.append(L(xb(rng.choice(['Td', 'Tm', 'q', 'Q', "T*", 'Tc'])), *[I(rng.randint(-200, 200)) for _ in range(rng.randint(0, 2))]))
            pages.append(L('page', L('fonts', *fonts), L('ops', *ops)))
        nums = [rng.randint(1, npages) if rng.random() < 0.9 else rng.choice([0, npages + 1]) for _ in range(rng.choice([1, 1, 1, 1, 2, 2, 3]) if rng.random() < 0.97 else 0)]
        cases.append((L('extract', L('pages', *pages), L('nums', *[str(k) for k in nums])),
                      {'kind': 'extract-random', 'nontrivial': True}))
    return cases


def gen_cases(rng, tier):
    return gen_font_cases(rng, tier) + gen_rt_cases(rng, tier) + gen_text_cases(rng, tier) + gen_decode_cases(rng, tier) + gen_extract_cases(rng, tier)


SPEC = {
    'gen_parts': ['Tables'],
    'allowed_axioms': (),
    'runner': 'c16',
    'bin': 'c16',
    'gen_cases': gen_cases,
    'impl_timeout': 1800,
    'model_timeout': 1800,
    'rule': 'all 256 bytes x 5 predefined encodings through get_font_encoding + decode_text/encode_text (one case per byte) and '
            'the 5 tables read cell by cell; text_string / encode_utf8 / encode_utf16_be then decode_text_string on single scalar '
            'values (quick: 0..0x17F, all encoding-length boundaries, marks, 300 random; thorough: EVERY scalar value) and random '
            'strings (ASCII, C0 controls, astral, lone marks, empty); decode_text_string on every single byte, non-string objects, '
            'odd-length / unpaired-surrogate UTF-16BE, ill-formed UTF-8 after the mark, partial marks; extract_text and '
            'extract_text_chunks on generated documents (1-3 pages, 1-3 fonts, 1-4 text objects per page with the font selected in '
            'every text object / once before the first BT / in the first text object only / between text objects / mixed with '
            'switches in the middle of a text object; Tj/TJ with kerning around the -100 threshold, text over the repertoire '
            'with the expected text computed from Python code pages) and on arbitrary operation lists (missing '
            'operands, wrong operand types, unknown fonts, ill-typed font dictionaries, nested arrays), each also after save_to + '
            'load_mem and after compress + save_to + load_mem, the reloaded text held against the expected text directly; '
            'encode_text then decode_text on the string of every defined cell of each table (rtall, also cell by cell) and on '
            'random strings over the repertoire, pure or salted with characters outside it (rt); non-trivial = non-empty input; distinct = distinct case text',
    'extra_trusted': [
        'C16: Rust std String/char (from_utf8, from_utf16, encode_utf16, bytes, is_ascii) behave as Model/Utf.v states '
        '(Unicode definitions D91/D92); tied by the differential runs, every scalar value in the thorough tier',
        'C16: the extraction model starts at the decoded operations; Content::encode/decode, get_pages, get_page_fonts and '
        'get_page_content are exercised by the harness but modelled by C14/C12/C13',
        'C16: Spec/PublishedTables.v was typed by hand from ISO 32000-1 Annex D (and cp1252 / Mac OS Roman)',
    ],
}


def run(ctx):
    return propcheck.standard_check(ctx, SPEC)


MANIFEST = {
    'level_text': 'Machine-checked proof (Coq) over the tables regenerated from src/encodings on every run: UTF-8 and UTF-16 '
                  'round trips for all scalar values by arithmetic; decode_text_string (text_string s) = Ok s for every Unicode '
                  'string (after two fix: commits; refuted on the pinned tree with witnesses), encode_utf8 / encode_utf16_be decode '
                  'back; for each of the five predefined one-byte encodings no cell is a surrogate so decoding never fails, '
                  'decode(encode(decode bs)) = decode bs for every byte string, decode(encode s) = s minus exactly the characters outside '
                  'the repertoire for every string, and the tables agree with ISO 32000-1 Annex D '
                  'on printable ASCII and Latin-1; text shown with Tj/TJ over the repertoire is what extract_text returns, also from '
                  'several text objects that share one font selection (C16_extract_shown_blocks). '
                  'After save and reload (composition with C01_full, both cross-reference formats): get_page_fonts and get_page_content '
                  '(Model/Query.v) return the same fonts (font dictionaries in normal form, under which get_font_encoding does not change) and the '
                  'same content bytes on the loaded document, so the extracted text is the text shown (C16_extract_after_save_load, '
                  'C16_extract_blocks_after_save_load) and, for arbitrary pages, the chunks and text of the document in memory '
                  '(C16_extract_same_after_save_load); stream format: for documents that do not mention the identifier the cross-reference stream takes. '
                  'Content::decode is C14\'s model (C14_rt): a page whose content is Content::encode of the text-showing operations decodes to them, so the '
                  'theorem starts from the operations written (C16_extract_written_after_save_load). Document::compress before the save (C09\'s model, '
                  'lopdf\'s filter code reading the Flate stream back): same fonts and content bytes, the document stays inside the save/load domain '
                  '(C16_compress_keeps_domain), hence the same text (C16_extract_after_compress_save_load, C16_extract_same_after_compress_save_load); '
                  'assumed of flate2, as in C09: the decoder implements RFC 1950/1951 (absent with the Gallina inflate) and the compressor writes a valid zlib stream. '
                  'Tied to the implementation by differential runs through the public API, incl. save_to + load_mem.',
    'level_note': 'Trusted: Coq kernel; translator (5 tables x 256 cells with 4495 glyph constants resolved, name->table switch, marks, '
                  'payload offsets, TJ threshold); model of Rust std UTF-8/UTF-16 conversions (assumed, tied by correspondence); '
                  'extraction/OCaml driver; Rust harness. No axioms.',
    'technique': 'Coq proof (arithmetic + vm_compute sweeps lifted by list induction) + differential correspondence',
    'design_ref': 'DESIGN.md 6 C16',
}
