"""objgen.py -- random PDF objects in the case language, weighted towards lexical trouble."""
import os, subprocess, sys
sys.path.insert(0, os.path.join(os.path.dirname(os.path.abspath(__file__)), '..', 'lib'))
from sxg import *

NASTY = [0x00, 0x09, 0x0a, 0x0c, 0x0d, 0x20, 0x23, 0x25, 0x28, 0x29, 0x2f, 0x3c, 0x3e, 0x5b, 0x5c, 0x5d, 0x7b, 0x7d,
         0x7e, 0x7f, 0x80, 0xff, 0x21, 0x30, 0x37, 0x38, 0x6e, 0x72, 0x74, 0x62, 0x66, 0x52]


def rbyte(rng):
    r = rng.random()
    if r < 0.45:
        return rng.choice(NASTY)
    if r < 0.8:
        return rng.randint(0x21, 0x7e)
    return rng.randint(0, 255)


def rbytes(rng, maxlen=12):
    n = rng.choice([0, 1, 1, 2, 3, 5, 8, maxlen])
    return bytes(rbyte(rng) for _ in range(rng.randint(0, n)))


def rliteral(rng):
    """literal strings: parentheses structure matters"""
    r = rng.random()
    if r < 0.3:
        return rbytes(rng, 16)
    if r < 0.6:
        # parenthesis soup with backslashes and EOLs
        alpha = [0x28, 0x29, 0x28, 0x29, 0x5c, 0x0d, 0x0a, 0x61, 0x30, 0x37, 0x6e]
        return bytes(rng.choice(alpha) for _ in range(rng.randint(0, 14)))
    if r < 0.7:
        d = rng.choice([1, 2, 5, 99, 100, 101, 102, 130])
        return b'(' * d + rbytes(rng, 4) + b')' * d
    if r < 0.8:
        d = rng.choice([1, 3, 100, 101])
        return b')' * rng.randint(0, 3) + b'(' * d + b'x'
    return rbytes(rng, 40)


class RealSource:
    """f32 Display strings obtained from Rust itself (harness bin f32disp)"""
    def __init__(self, exe):
        self.exe = exe

    def display(self, bits_list):
        data = '\n'.join(str(b) for b in bits_list) + '\n'
        out = subprocess.run([self.exe], input=data.encode(), stdout=subprocess.PIPE, check=True).stdout.decode().split('\n')
        return out[:len(bits_list)]


SPECIAL_BITS = [0x00000000, 0x80000000, 0x3f800000, 0xbf800000, 0x40a00000, 0x3f000000, 0x3dcccccd, 0x4b800000, 0x4b7fffff,
                0x4b000000, 0x4b000001, 0x4cebc7a5, 0x5f000000, 0x5effffff, 0x5f000001, 0xdf000000, 0xdf000001, 0x60ad78ec,
                0x7f7fffff, 0xff7fffff, 0x00000001, 0x00800000, 0x007fffff, 0x42f6e979, 0x461c4000, 0x3a83126f, 0x501502f9]


def rreal_bits(rng):
    r = rng.random()
    if r < 0.35:
        return rng.choice(SPECIAL_BITS)
    if r < 0.6:
        # small "human" numbers
        import struct
        v = round(rng.uniform(-1000, 1000), rng.randint(0, 3))
        return struct.unpack('I', struct.pack('f', v))[0]
    while True:
        b = rng.getrandbits(32)
        if (b >> 23) & 0xff != 0xff:    # finite
            return b


class ObjGen:
    def __init__(self, rng, reals, allow_ref=True, allow_stream=False):
        self.rng = rng
        self.reals = reals
        self.allow_ref = allow_ref
        self.pending_reals = []

    def real(self):
        # placeholder resolved in finish()
        bits = rreal_bits(self.rng)
        self.pending_reals.append(bits)
        return '@REAL%d@' % (len(self.pending_reals) - 1)

    def finish(self, text):
        if self.pending_reals:
            ds = self.reals.display(self.pending_reals)
            for i, d in enumerate(ds):
                text = text.replace('@REAL%d@' % i, R(d), 1)
            self.pending_reals = []
        return text

    def obj(self, depth):
        rng = self.rng
        kinds = ['null', 'bool', 'int', 'real', 'name', 'lit', 'hex']
        if depth > 0:
            kinds += ['arr', 'dict', 'arr', 'dict']
        if self.allow_ref:
            kinds += ['ref']
        k = rng.choice(kinds)
        if k == 'null':
            return NULL
        if k == 'bool':
            return B(rng.random() < 0.5)
        if k == 'int':
            return I(rng.choice([0, 1, -1, 7, 42, -300, 2**31, -2**31, 2**63 - 1, -2**63, rng.randint(-10**6, 10**6),
                                 rng.randint(-2**63, 2**63 - 1)]))
        if k == 'real':
            return self.real()
        if k == 'name':
            return N(rbytes(rng))
        if k == 'lit':
            return S(rliteral(rng))
        if k == 'hex':
            return H(rbytes(rng))
        if k == 'ref':
            return REF(rng.choice([0, 1, 2, 17, 4294967295, rng.randint(0, 2**32 - 1)]), rng.choice([0, 0, 1, 65535]))
        if k == 'arr':
            return A([self.obj(depth - 1) for _ in range(rng.choice([0, 1, 2, 3, 6]))])
        if k == 'dict':
            keys = []
            for _ in range(rng.choice([0, 1, 2, 4])):
                kk = rbytes(rng, 6)
                if kk not in keys:
                    keys.append(kk)
            return D([(kk, self.obj(depth - 1)) for kk in keys])
