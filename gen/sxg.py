"""sxg.py -- emit the case language from Python values."""

def xb(b):
    if isinstance(b, str):
        b = b.encode('latin-1')
    return 'x' + bytes(b).hex()

def L(*items):
    return '(' + ' '.join(items) + ')'

# object constructors (strings in the case language)
NULL = 'null'
def B(v): return L('b', '1' if v else '0')
def I(z): return L('i', str(int(z)))
def R(s): return L('r', xb(s))
def N(n): return L('n', xb(n))
def S(s): return L('s', xb(s))
def H(s): return L('h', xb(s))
def A(items): return L('a', *items)
def D(entries): return L('d', *[L(xb(k), v) for k, v in entries])
def ST(entries, content): return L('st', D(entries), xb(content))
def REF(i, g=0): return L('ref', str(i), str(g))
def OID(i, g=0): return L(str(i), str(g))

def DOC(version, mark, trailer_entries, objects, max_id):
    """objects: list of ((i,g), objstr)"""
    return L('doc', xb(version), xb(mark), D(trailer_entries),
             L('objs', *[L(OID(*id), o) for id, o in objects]), str(max_id))
