"""histgen.py -- reference writer for C07: assembles PDF revision histories byte by byte
(cross-reference tables, cross-reference streams, hybrid XRefStm sections, object streams, free
entries, bytes before the header), in styles lopdf cannot write itself, and returns next to the
bytes the *layout* (what is written where) that the abstract loader model consumes.

Object AST (tuples): ('null',) ('b',bool) ('i',int) ('n',bytes) ('s',bytes) ('h',bytes)
                     ('a',[o..]) ('d',[(key,o)..]) ('st',[(key,o)..],content) ('ref',id,gen)
"""
from sxg import *


# ------------------------------------------------------------------ objects
def o_sx(o):
    t = o[0]
    if t == 'null': return NULL
    if t == 'b': return B(o[1])
    if t == 'i': return I(o[1])
    if t == 'n': return N(o[1])
    if t == 's': return S(o[1])
    if t == 'h': return H(o[1])
    if t == 'a': return A([o_sx(x) for x in o[1]])
    if t == 'd': return D([(k, o_sx(v)) for k, v in o[1]])
    if t == 'st': return ST([(k, o_sx(v)) for k, v in o[1]], o[2])
    if t == 'ref': return REF(o[1], o[2])
    raise ValueError(o)


def o_pdf(o):
    """plain serialisation; only characters that need no escaping are generated"""
    t = o[0]
    if t == 'null': return b'null'
    if t == 'b': return b'true' if o[1] else b'false'
    if t == 'i': return str(o[1]).encode()
    if t == 'n': return b'/' + o[1]
    if t == 's': return b'(' + o[1] + b')'
    if t == 'h': return b'<' + o[1].hex().upper().encode() + b'>'
    if t == 'a': return b'[' + b' '.join(o_pdf(x) for x in o[1]) + b']'
    if t == 'd': return b'<<' + b''.join(b'/' + k + b' ' + o_pdf(v) for k, v in o[1]) + b'>>'
    if t == 'st': return o_pdf(('d', o[1])) + b'stream\n' + o[2] + b'\nendstream'
    if t == 'ref': return b'%d %d R' % (o[1], o[2])
    raise ValueError(o)


def stream(entries, content):
    """stream object whose dictionary ends with the right Length"""
    return ('st', list(entries) + [(b'Length', ('i', len(content)))], content)


# ------------------------------------------------------------------ history
class Rev:
    """one revision.  puts: list of (id, gen, obj, place) with place 'plain' or an int k = k-th
    object stream of this revision (gen must be 0 there); dels: list of (id, gen) freed here;
    style: 'table' | 'stream' | 'hybrid' (table + XRefStm holding the compressed entries)."""
    def __init__(self, style, puts, dels=()):
        self.style = style
        self.puts = list(puts)
        self.dels = list(dels)


def ent_sx(e):
    if e[0] == 'f': return L('f', str(e[1]))
    if e[0] == 'n': return L('n', str(e[1]), str(e[2]))
    return L('c', str(e[1]), str(e[2]))


def table_bytes(entries):
    """entries: dict id -> ('f',gen)|('n',off,gen); classic table, one subsection per run of ids"""
    out = b'xref\n'
    ids = sorted(entries)
    i = 0
    while i < len(ids):
        j = i
        while j + 1 < len(ids) and ids[j + 1] == ids[j] + 1:
            j += 1
        out += b'%d %d\n' % (ids[i], j - i + 1)
        for k in ids[i:j + 1]:
            e = entries[k]
            if e[0] == 'n':
                out += b'%010d %05d n \n' % (e[1], e[2])
            else:
                out += b'%010d %05d f \n' % (0, e[1])
        i = j + 1
    return out


def xstream_content(entries, w):
    ids = sorted(entries)
    index = []
    body = b''
    i = 0
    while i < len(ids):
        j = i
        while j + 1 < len(ids) and ids[j + 1] == ids[j] + 1:
            j += 1
        index += [ids[i], j - i + 1]
        for k in ids[i:j + 1]:
            e = entries[k]
            if e[0] == 'f': f = (0, 0, e[1])
            elif e[0] == 'n': f = (1, e[1], e[2])
            else: f = (2, e[1], e[2])
            for val, width in zip(f, w):
                body += int(val).to_bytes(width, 'big') if width else b''
        i = j + 1
    return index, body


def assemble(revs, root, junk=b'', infra_start=None, w=(1, 4, 2), upto=None, entry0=True, prev_delta=0,
             version=b'1.5', self_cycle=False):
    """revs: list of Rev; returns list over prefixes k=1..len(revs) of dict(bytes, layout_sx, hdr).
    All offsets are relative to the header (the first %PDF-), as lopdf's reader measures them.
    infra_start: first object number used for object-stream containers and xref streams."""
    if infra_start is None:
        infra_start = 1 + max([i for r in revs for (i, _, _, _) in r.puts] + [i for r in revs for (i, _) in r.dels] + [0])
    infra = infra_start
    body = b'%PDF-' + version + b'\n%\xe2\xe3\xcf\xd3\n'
    secs = []       # (off, is_stream, size, entries dict, trailer entries)
    objs = []       # (off, (id,gen), obj, members|None)
    maxid = 0
    prev = None
    outs = []
    for rn, r in enumerate(revs):
        ents = {}
        groups = {}
        for (i, g, o, place) in r.puts:
            maxid = max(maxid, i)
            if place == 'plain':
                off = len(body)
                body += b'%d %d obj\n' % (i, g) + o_pdf(o) + b'\nendobj\n'
                ents[i] = ('n', off, g)
                objs.append((off, (i, g), o, None))
            else:
                groups.setdefault(place, []).append((i, o))
        for k in sorted(groups):
            cid = infra; infra += 1
            maxid = max(maxid, cid)
            members = groups[k]
            parts = [o_pdf(o) for (_, o) in members]
            offs = []
            pos = 0
            for p in parts:
                offs.append(pos)
                pos += len(p) + 1
            head = b' '.join(b'%d %d' % (i, of) for (i, _), of in zip(members, offs)) + b'\n'
            content = head + b'\n'.join(parts)
            so = ('st', [(b'Type', ('n', b'ObjStm')), (b'N', ('i', len(members))), (b'First', ('i', len(head))),
                         (b'Length', ('i', len(content)))], content)
            off = len(body)
            body += b'%d 0 obj\n' % cid + o_pdf(so) + b'\nendobj\n'
            ents[cid] = ('n', off, 0)
            # ObjectStream::new collects into a BTreeMap: sorted by id, the last duplicate wins
            mm = {}
            for (i, o) in members:
                mm[i] = o
            objs.append((off, (cid, 0), so, sorted(mm.items())))
            for idx, (i, _) in enumerate(members):
                ents[i] = ('c', cid, idx)
        for (i, g) in r.dels:
            maxid = max(maxid, i)
            ents[i] = ('f', g)
        if entry0 and rn == 0:
            ents[0] = ('f', 65535)
        trailer = [(b'Root', ('ref', root[0], root[1]))]
        if prev is not None:
            trailer.append((b'Prev', ('i', prev + prev_delta)))
        style = r.style
        if style == 'table' and any(e[0] == 'c' for e in ents.values()):
            style = 'hybrid'
        if prev is None and self_cycle and style == 'table':
            # a Prev cycle: the oldest section names itself (the reader must stop, `already_seen`)
            trailer.append((b'Prev', ('i', len(body))))
        if style == 'table':
            xoff = len(body)
            trailer = [(b'Size', ('i', maxid + 1))] + trailer
            body += table_bytes(ents) + b'trailer\n' + o_pdf(('d', trailer)) + b'\n'
            secs.append((xoff, False, maxid + 1, dict(ents), trailer))
        elif style == 'stream':
            xid = infra; infra += 1
            maxid = max(maxid, xid)
            xoff = len(body)
            ents[xid] = ('n', xoff, 0)
            index, content = xstream_content(ents, w)
            tr = [(b'Type', ('n', b'XRef')), (b'Size', ('i', maxid + 1))] + trailer
            full = tr + [(b'W', ('a', [('i', x) for x in w])), (b'Index', ('a', [('i', x) for x in index])),
                         (b'Length', ('i', len(content)))]
            so = ('st', full, content)
            body += b'%d 0 obj\n' % xid + o_pdf(so) + b'\nendobj\n'
            objs.append((xoff, (xid, 0), so, None))
            secs.append((xoff, True, maxid + 1, dict(ents), tr))
        else:  # hybrid: compressed entries live in an xref stream named by XRefStm; the table marks them free
            xid = infra; infra += 1
            maxid = max(maxid, xid)
            comp = {i: e for i, e in ents.items() if e[0] == 'c'}
            soff = len(body)
            index, content = xstream_content(comp, w)
            tr2 = [(b'Type', ('n', b'XRef')), (b'Size', ('i', maxid + 1))]
            full = tr2 + [(b'W', ('a', [('i', x) for x in w])), (b'Index', ('a', [('i', x) for x in index])),
                          (b'Length', ('i', len(content)))]
            so = ('st', full, content)
            body += b'%d 0 obj\n' % xid + o_pdf(so) + b'\nendobj\n'
            tab = {i: (e if e[0] != 'c' else ('f', 0)) for i, e in ents.items()}
            xoff = len(body)
            trailer = [(b'Size', ('i', maxid + 1))] + trailer + [(b'XRefStm', ('i', soff))]
            body += table_bytes(tab) + b'trailer\n' + o_pdf(('d', trailer)) + b'\n'
            secs.append((soff, True, maxid + 1, dict(comp), tr2))
            secs.append((xoff, False, maxid + 1, dict(tab), trailer))
        body += b'startxref\n%d\n%%%%EOF\n' % xoff
        prev = xoff
        if upto is None or rn + 1 in upto:
            outs.append({'bytes': junk + body, 'hdr': len(junk), 'layout': layout_sx(len(body), xoff, secs, objs),
                         'nrev': rn + 1, 'maxid': maxid})
    return outs


def layout_sx(buflen, startxref, secs, objs):
    ss = []
    for (off, is_stream, size, ents, tr) in secs:
        ss.append(L(str(off), '1' if is_stream else '0', str(size),
                    L('ents', *[L(str(i), ent_sx(ents[i])) for i in sorted(ents)]),
                    D([(k, o_sx(v)) for k, v in tr])))
    os_ = []
    for (off, (i, g), o, members) in objs:
        m = 'nomem' if members is None else L('mem', *[L(OID(mi, 0), o_sx(mo)) for mi, mo in members])
        os_.append(L(str(off), OID(i, g), o_sx(o), m))
    return L('layout', str(buflen), str(startxref), L('secs', *ss), L('objs', *os_))


def revs_sx(revs):
    """the abstract history: per revision the user objects put and the ids freed"""
    out = []
    for r in revs:
        out.append(L('rev', L('puts', *[L(OID(i, g), o_sx(o)) for (i, g, o, _) in r.puts]),
                     L('dels', *[OID(i, g) for (i, g) in r.dels])))
    return L('revs', *out)
