(* Props/C03.v -- placeholder while the first theorems are being proved. *)
From LV Require Import Base.Bytes Model.Obj Spec.StrictReader.

Definition ex_file : bytes := Eval cbv in
  bs "%PDF-1.5" ++ [x0a; x25; xbb; xad; xc0; xde; x0a] ++
  bs "1 0 obj" ++ [x0a] ++ bs "<</A 7>>" ++ [x0a] ++ bs "endobj" ++ [x0a] ++
  bs "xref" ++ [x0a] ++ bs "0 2" ++ [x0a] ++
  bs "0000000000 65535 f " ++ [x0a] ++ bs "0000000015 00000 n " ++ [x0a] ++
  bs "trailer" ++ [x0a] ++ bs "<</Size 2>>" ++ [x0a] ++ bs "startxref" ++ [x0a] ++ bs "39" ++ [x0a] ++ bs "%%EOF".

Theorem C03_example_accepts :
  exists d, strict_load ex_file = SOk d /\ s_objects d = [((1, 0), ODict [(bs "A", OInt 7)])]%N.
Proof. eexists. split; vm_compute; reflexivity. Qed.

Print Assumptions C03_example_accepts.
