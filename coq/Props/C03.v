(* Props/C03.v -- property C03: saved files are valid PDF for a strict third-party reader.
   Statements only; proofs live in Proofs/StrictReaderProofs.v (about the specification reader)
   and Proofs/SaveStrictProofs.v (about the model of the writer, Model/Save.v). *)
From LV Require Import Base.Bytes Base.Sx Model.Obj Model.Writer Model.Save Proofs.SaveProofs
  Spec.StrictReader Proofs.StrictReaderProofs Proofs.SaveStrictProofs
  Proofs.ObjectRtProofs Spec.SaveSpec Proofs.StrictObjectProofs Proofs.StrictFileProofs Proofs.StrictTilingProofs
  Proofs.StrictLoadProofs Proofs.StrictLoadStreamProofs Proofs.StrictSaveProofs
  Model.Incremental Proofs.StrictRevisionProofs Proofs.StrictIncrementalProofs Proofs.StrictIncSaveProofs
  Proofs.StrictHistoryProofs Proofs.StrictHistorySaveProofs Proofs.StrictHistoryExample.
From LV Require Model.Loader Proofs.IncrementalProofs Proofs.C07BytesTable Proofs.C07BytesHistory Proofs.C07BytesExample.

Local Open Scope N_scope.

(* ------------------------------------------------------------------------------------------ *)
(* Part 1: what acceptance by the strict reader MEANS (soundness of the specification reader). *)
(* ./check C03 runs the extracted [strict_load] on the bytes the real crate wrote; these        *)
(* theorems say which facts about those bytes follow from the answer "ok".                      *)
(* ------------------------------------------------------------------------------------------ *)

(* (1.1) header + binary comment; startxref holds the offset of the newest cross-reference
   section; every section (also those reached through Prev) starts at exactly its offset with
   the keyword xref or the "n g obj" header of a /Type /XRef stream; every in-use entry holds
   the exact offset of "id gen obj" with the same id and gen; Size exceeds every object number
   and no number occurs twice in a section; every byte of the file lies in exactly one span. *)
Theorem C03_accept_sound :
  forall file d,
    strict_load file = SOk d ->
    (exists m rest, file = KW_pdf ++ s_version d ++ rest /\ version_ok (s_version d) = true /\
                    (exists r1, p_eol rest = Some (x25 :: m ++ r1)) /\ (4 <= length (filter is_high m))%nat) /\
    find_tail file = Some (s_startxref d) /\
    (exists newest older, s_revs d = newest :: older /\ r_x newest = s_startxref d /\
                          s_trailer d = r_trailer newest) /\
    Forall (starts_at_xref_or_xref_stream file) (s_revs d) /\
    Forall (fun r => Forall (entry_points_at_header file) (r_entries r)) (s_revs d) /\
    Forall (fun r => Forall (fun ie => fst ie < r_size r) (r_entries r) /\ NoDup (map fst (r_entries r))) (s_revs d) /\
    chain 0 (effective (0, 0) (s_spans d)) (lenN file).
Proof. exact strict_load_sound. Qed.

(* (1.2) what "chain" gives: every position below the end lies in a span, and two different
   spans of a chain do not overlap. *)
Theorem C03_chain_covers :
  forall c l fin, chain c l fin -> forall p, c <= p < fin -> exists a b, In (a, b) l /\ a <= p < b.
Proof. exact chain_cover. Qed.

Theorem C03_chain_disjoint :
  forall c l fin, chain c l fin ->
  forall i j a b a' b', (i < j)%nat -> nth_error l i = Some (a, b) -> nth_error l j = Some (a', b') -> b <= a'.
Proof. exact chain_disjoint. Qed.

(* (1.3) table entries are exactly 20 bytes: ten digits, space, five digits, space, n|f, 2-byte EOL;
   a subsection "first count" is followed by exactly count such entries numbered first, first+1, ... *)
Theorem C03_entry_20_bytes :
  forall s e r,
    p_entry s = Some (e, r) ->
    exists a g k e1 e2,
      s = a ++ x20 :: g ++ x20 :: k :: e1 :: e2 :: r /\
      length a = 10%nat /\ length g = 5%nat /\
      forallb is_digit a = true /\ forallb is_digit g = true /\
      (k = x6e \/ k = x66) /\
      ((e1 = x20 /\ (e2 = x0d \/ e2 = x0a)) \/ (e1 = x0d /\ e2 = x0a)).
Proof. exact p_entry_20. Qed.

Theorem C03_subsection_exact :
  forall k id s l r,
    p_entries k id s = Some (l, r) ->
    exists t, s = t ++ r /\ length t = (20 * k)%nat /\ length l = k /\
              map fst l = map (fun i => id + N.of_nat i) (seq 0 k).
Proof. exact p_entries_spec. Qed.

(* (1.4) cross-reference streams: Type XRef, no filter, W = three widths <= 8, and
   |data| = (sum of the Index counts) * (sum of the widths), one entry per counted number. *)
Theorem C03_xref_stream_consistent :
  forall x d data es,
    decode_xstream x d data = SOk es ->
    dict_get d N_Type = Some (OName N_XRef) /\ dict_get d N_Filter = None /\
    exists w1 w2 w3 idx,
      dict_get d N_W = Some (OArr [OInt (Z.of_N w1); OInt (Z.of_N w2); OInt (Z.of_N w3)]) /\
      w1 <= 8 /\ w2 <= 8 /\ w3 <= 8 /\
      lenN data = sum_counts idx * (w1 + w2 + w3) /\
      N.of_nat (length es) = sum_counts idx.
Proof. exact decode_xstream_consistent. Qed.

(* (1.5) every stream object reached through an entry carries exactly Length bytes between
   "stream" EOL and "endstream" (Length direct, or an indirect integer found through the tables). *)
Theorem C03_stream_lengths :
  forall file d,
    strict_load file = SOk d ->
    Forall (Forall (stream_length_ok file (s_revs d))) (s_located d).
Proof. exact strict_load_stream_lengths. Qed.

(* non-vacuity: a concrete file is accepted, with its object recovered *)
Definition ex_file : bytes := Eval cbv in
  bs "%PDF-1.5" ++ [x0a; x25; xbb; xad; xc0; xde; x0a] ++
  bs "1 0 obj" ++ [x0a] ++ bs "<</A 7>>" ++ [x0a] ++ bs "endobj" ++ [x0a] ++
  bs "xref" ++ [x0a] ++ bs "0 2" ++ [x0a] ++
  bs "0000000000 65535 f " ++ [x0a] ++ bs "0000000015 00000 n " ++ [x0a] ++
  bs "trailer" ++ [x0a] ++ bs "<</Size 2>>" ++ [x0a] ++ bs "startxref" ++ [x0a] ++ bs "39" ++ [x0a] ++ bs "%%EOF".

Theorem C03_example_accepts :
  exists d, strict_load ex_file = SOk d /\ s_objects d = [((1, 0), ODict [(bs "A", OInt 7)])]%N /\
            s_startxref d = 39.
Proof. eexists. split; [vm_compute; reflexivity|]. split; vm_compute; reflexivity. Qed.

(* ------------------------------------------------------------------------------------------ *)
(* Part 2: the writer model (Model/Save.v, Model/Writer.v: written from src/writer.rs and       *)
(* src/xref.rs, tied to the crate byte for byte by ./check C01) against the strict reader.      *)
(* Claim-ladder rung 1 of DESIGN.md section 9 for C03.                                          *)
(* ------------------------------------------------------------------------------------------ *)

(* (2.0) header and binary comment: what the writer emits first is a valid "%PDF-d.d" line followed by
   a comment line with at least four bytes >= 128; the strict reader recovers the version.
   Hypotheses = the domain: the version has the form digits.digits, the binary mark has at least
   four bytes, all >= 128 (the writer refuses smaller bytes). *)
Theorem C03_save_header :
  forall d rest,
    version_ok (d_version d) = true ->
    binary_mark_ok (d_binary_mark d) = true -> (4 <= length (d_binary_mark d))%nat ->
    p_header (header_bytes d ++ mark_bytes d ++ rest) = SOk (d_version d, skip_ws rest false).
Proof. exact save_header_accepted. Qed.

(* (2.1) every table entry the writer prints (offset < 2^32, generation < 2^16) is accepted by
   the strict 20-byte entry parser and decodes to the same offset / generation / kind *)
Theorem C03_save_entry_20 :
  forall e r, xentry_in_range e -> p_entry (write_xref_entry e ++ r) = Some (xent_of e, r).
Proof. exact save_entry_accepted. Qed.

(* (2.2) the body of a subsection: exactly count entries, numbered from the first id *)
Theorem C03_save_subsection_entries :
  forall es id r, Forall xentry_in_range es ->
    p_entries (length es) id (flat_map write_xref_entry es ++ r) = Some (number_from id es, r).
Proof. exact save_entries_accepted. Qed.

(* (2.3) startxref: in every successfully saved file (both formats) the strict reader, reading from
   the END of the file, finds the length of the body, and at exactly that offset stands the keyword
   xref (table) or the header "max_id+1 0 obj" (max_id after the writer raised it to the largest object number) of the cross-reference stream *)
Theorem C03_save_startxref_exact :
  forall xt d,
    so_status (save xt d) = SaveOk ->
    find_tail (so_bytes (save xt d)) = Some (blen (body_of d)) /\
    match xt with
    | XTable => exists rest, strip KW_xref (at_off (so_bytes (save xt d)) (blen (body_of d))) = Some rest
    | XStream => exists rest, p_objhdr (at_off (so_bytes (save xt d)) (blen (body_of d))) =
                              Some (d_max_id (raise_max_id d) + 1, 0, rest)
    end.
Proof. exact save_startxref_exact. Qed.

(* the startxref..%%EOF marker is also accepted read forwards, with the same number *)
Theorem C03_save_tail_forward :
  forall xs rest, p_tail (bs "startxref" ++ x0a :: N_dec xs ++ x0a :: bs "%%EOF" ++ rest) = Some (xs, rest).
Proof. exact save_tail_accepted. Qed.

(* (2.4) offsets: every entry the writer records holds the exact offset of "id gen obj" with the
   same id and gen AS THE STRICT READER RECOGNISES IT, in the complete file, both formats.
   Hypothesis: the body is at most 2^32 bytes (the writer keeps offsets in a u32; beyond that the
   `as u32` truncation makes the property false and it is excluded by the property's domain). *)
Theorem C03_save_offsets_exact :
  forall xt d id off g,
    so_status (save xt d) = SaveOk ->
    blen (body_of d) <= u32_mod ->
    xget (xmap_of d) id = Some (XNormal off g) ->
    exists rest, p_objhdr (at_off (so_bytes (save xt d)) off) = Some (id, g, rest) /\
                 off < lenN (so_bytes (save xt d)).
Proof. exact save_offsets_exact. Qed.

(* ... and every object that is written (pairwise distinct object numbers) has such an entry *)
Theorem C03_save_objects_all_listed :
  forall xt d id g o,
    so_status (save xt d) = SaveOk ->
    blen (body_of d) <= u32_mod ->
    NoDup (obj_numbers (d_objects d)) ->
    In ((id, g), o) (d_objects d) -> skipped o = false ->
    exists off rest, xget (xmap_of d) id = Some (XNormal off g) /\
                     p_objhdr (at_off (so_bytes (save xt d)) off) = Some (id, g, rest).
Proof. exact save_objects_all_listed. Qed.

(* (2.5) an indirect object.  What the writer prints after "id gen obj" LF for ANY object of the domain
   (a well-formed direct object, or a stream whose Length entry is the length of its content) is read
   by the strict reader's object-body parser as the normal form of that object; for a stream exactly
   Length bytes are taken between "stream" LF and LF "endstream", also when the content itself contains
   "endstream" / "endobj".  [obj_tail o rest] = separator, write_object o, end separator, LF endobj LF rest. *)
Theorem C03_save_indirect_object :
  forall resolve id o rest,
    top_wf o ->
    p_objbody resolve id (x0a :: obj_tail o rest) = SOk (norm_obj o, skip_sp rest).
Proof. exact objbody_rt. Qed.

Theorem C03_save_object_header :
  forall id g o rest, p_objhdr (write_indirect_object id g o ++ rest) = Some (id, g, x0a :: obj_tail o rest).
Proof. exact wio_objhdr. Qed.

(* (2.6) concrete instances, both formats, by computation (the general theorem is Part 3) *)
Definition ex_doc : doc := {|
  d_version := bs "1.5";
  d_binary_mark := [xbb; xad; xc0; xde];
  d_trailer := [(bs "Root", ORef 1 0)];
  d_objects := [((1, 0), ODict [(bs "Type", OName (bs "Catalog"));
                                (bs "K", OArr [OInt 1; ORef 3 0; OStr (bs "a(b") false; ONull; OStr [x00; xff] true])]);
                ((3, 0), OStream [(bs "Length", OInt 19)] (bs "endstream" ++ [x0a] ++ bs "endobj" ++ [x0a; x0d; x25]));
                ((7, 2), OInt (-5))]%N;
  d_max_id := 8 |}.

Theorem C03_example_table :
  so_status (save XTable ex_doc) = SaveOk /\
  exists s, strict_load (save_table ex_doc) = SOk s /\
            s_objects s = d_objects ex_doc /\ s_version s = d_version ex_doc /\
            s_trailer s = d_trailer (so_doc (save XTable ex_doc)) /\ s_stream s = false.
Proof. split; [reflexivity|]. eexists. split; [vm_compute; reflexivity|]. repeat split; vm_compute; reflexivity. Qed.

Theorem C03_example_stream :
  so_status (save XStream ex_doc) = SaveOk /\
  exists s, strict_load (save_stream ex_doc) = SOk s /\
            s_objects s = d_objects ex_doc /\ s_version s = d_version ex_doc /\
            s_trailer s = d_trailer (so_doc (save XStream ex_doc)) /\ s_stream s = true.
Proof. split; [reflexivity|]. eexists. split; [vm_compute; reflexivity|]. repeat split; vm_compute; reflexivity. Qed.

(* ------------------------------------------------------------------------------------------ *)
(* Part 3: the general theorems about the writer model (claim-ladder rungs 2-3).                 *)
(* ------------------------------------------------------------------------------------------ *)

(* (3.1) object level: for every well-formed direct object (integers in i64, reals = Display text of a
   finite f32, unique dictionary keys, reference numbers u32/u16; any bytes in names, strings, keys; any
   nesting depth) the strict tokenizer reads  write_object o ++ rest  back as (norm_obj o, rest), when
   rest satisfies the follow condition of the token kind [sfollow] (a keyword, name, number or reference
   must be followed by a non-regular byte; a number must not be followed by "g R").  norm_obj turns an
   integral real below 2^63 into the integer it denotes and changes nothing else. *)
Theorem C03_object_rt :
  forall o rest,
    obj_wf o -> sfollow o rest -> p_object (write_object o ++ rest) = Some (norm_obj o, rest).
Proof. exact strict_p_object_rt. Qed.

(* the separator rule of the writer is sufficient for the strict tokenizer: what it emits between two
   array elements / after a key / before the next key keeps the continuation condition *)
Theorem C03_separator_suffices :
  forall x rest, obj_wf x -> scont rest -> scont (sp_if (need_separator x) ++ write_object x ++ rest).
Proof. exact scont_elem. Qed.

(* (3.2) MAIN: the strict reader accepts every saved file and recovers exactly what was saved, both
   cross-reference formats.  [sdoc_of x d] is explicit (Proofs/StrictLoadProofs.v sdoc_table,
   Proofs/StrictLoadStreamProofs.v sdoc_stream): version, objects = normal forms, trailer, the
   cross-reference entries (table: entry 0 free 65535 + one in-use entry per object with the exact offset;
   stream: the same in-use entries + the stream's own entry), the object located by each entry, the spans.
   Hypotheses = the domain: [strict_savable] (C01's savable: distinct ascending object numbers >= 1,
   generations <= 65535, well-formed objects, stream Length = |content|, no skipped types, valid binary mark,
   no Prev/Encrypt in the trailer, max(max_id, largest number) + 2 < 2^32; plus version "d.d" and a binary
   mark of at least 4 bytes) and a file below 4 GiB (the writer keeps offsets in a u32). *)
Theorem C03_strict :
  forall x d,
    strict_savable d -> small_file x d ->
    strict_load (so_bytes (save x d)) = SOk (sdoc_of x d).
Proof. exact strict_load_save. Qed.

Theorem C03_strict_fields :
  forall x d,
    strict_savable d -> small_file x d ->
    exists s, strict_load (so_bytes (save x d)) = SOk s /\
      s_version s = d_version d /\
      s_objects s = norm_objects (d_objects d) /\
      s_trailer s = norm_dict (d_trailer (so_doc (save x d))) /\
      s_revisions s = 1 /\
      s_stream s = (match x with XTable => false | XStream => true end) /\
      s_startxref s = blen (body_of d).
Proof. exact strict_load_save_fields. Qed.

(* (3.3) every byte of every saved file lies in exactly one span: the spans the strict reader counted
   (header, one per object "id gen obj .. endobj LF", the cross-reference section, the startxref marker)
   are consecutive from 0 to |file|, they cover every position and do not overlap *)
Theorem C03_all_bytes_accounted :
  forall x d,
    strict_savable d -> small_file x d ->
    let file := so_bytes (save x d) in
    let spans := effective (0, 0) (s_spans (sdoc_of x d)) in
    chain 0 spans (lenN file) /\
    (forall p, p < lenN file -> exists a b, In (a, b) spans /\ a <= p < b) /\
    (forall i j a b a' b', (i < j)%nat -> nth_error spans i = Some (a, b) -> nth_error spans j = Some (a', b') -> b <= a').
Proof. exact all_bytes_accounted. Qed.

(* the same theorems about the pipeline after its first statement (max_id already raised), which is what
   the incremental writer shares *)
Theorem C03_strict_core_table :
  forall d, strict_savable_core d -> small_file_core XTable d ->
    strict_load (so_bytes (save_core XTable d)) = SOk (sdoc_table d).
Proof. exact strict_load_table. Qed.

Theorem C03_strict_core_stream :
  forall d, strict_savable_core d -> small_file_core XStream d ->
    strict_load (so_bytes (save_core XStream d)) = SOk (sdoc_stream d).
Proof. exact strict_load_stream. Qed.

(* non-vacuity of (3.2)/(3.3): a document of the domain whose max_id is below its largest object number,
   with an integral real and a generation-2 stream *)
Theorem C03_strict_example :
  strict_savable ex_doc3 /\ small_file XTable ex_doc3 /\ small_file XStream ex_doc3 /\
  (s_objects (sdoc_of XTable ex_doc3) =
    [((1, 0), ODict [(K_Type, OName (bs "Catalog")); (bs "V", OInt 5)]); ((3, 2), OStream [(K_Length, OInt 3)] (bs "abc"))]) /\
  (s_objects (sdoc_of XStream ex_doc3) = s_objects (sdoc_of XTable ex_doc3)) /\
  (r_entries (hd (rev_table ex_doc3 0) (s_revs (sdoc_of XStream ex_doc3))) =
    [(1, XUse 15 0); (3, XUse 52 2); (4, XUse 102 0)]).
Proof. exact strict_example. Qed.

(* ------------------------------------------------------------------------------------------ *)
(* Part 4: incremental save (c07's Model/Incremental.v inc_save = IncrementalDocument::save_to).  *)
(* ------------------------------------------------------------------------------------------ *)

(* (4.1) ONE update appended to a saved file.  [inc_update x d s] (= Proofs/StrictIncrementalProofs.inc_dom
   for the document save works on): the previous bytes are save x d and the loader remembered format x; the
   new document's objects are in the domain (ascending distinct numbers <= its max_id, generations <= 65535,
   well-formed, stream Length = |content|, no skipped types), its trailer is well formed and has
   Prev = the previous startxref (c07: C07_inc_save_prev_link), its version has no EOL byte and its binary
   mark only bytes >= 128 (they are printed as comment lines), its max_id is at least the previous one
   (+1 for the stream format: the previous cross-reference stream owns that number).
   The strict reader then accepts the whole file: it follows Prev to the first section, reads both sections,
   locates every object of both revisions, counts the previous file verbatim + the filler lines LF "%PDF-1.4"
   "%<mark>" + the new objects + the new section + the new marker as a gap-free tiling, and per object
   number the NEWEST revision decides ([omerge]: the objects of the update, then those objects of the first
   revision whose number the update's section does not list). *)
Theorem C03_strict_incremental :
  forall x d s,
    strict_savable d -> small_file x d -> inc_update x d s ->
    blen (io_bytes (inc_save s)) < u32_mod ->
    strict_load (io_bytes (inc_save s)) = SOk (sdoc_inc x (raise_max_id d) s).
Proof. exact strict_load_inc_save. Qed.

Theorem C03_strict_incremental_fields :
  forall x d s,
    strict_savable d -> small_file x d -> inc_update x d s ->
    blen (io_bytes (inc_save s)) < u32_mod ->
    let nd := xd_doc (i_new s) in
    exists r, strict_load (io_bytes (inc_save s)) = SOk r /\
      firstn (length (so_bytes (save x d))) (io_bytes (inc_save s)) = so_bytes (save x d) /\
      s_version r = d_version d /\
      s_revisions r = 2 /\
      s_stream r = is_stream x /\
      s_startxref r = io_start (inc_save s) /\
      (exists seen, s_objects r = omerge seen (norm_objects (d_objects nd)) (norm_objects (d_objects d))) /\
      dict_get (s_trailer r) K_Prev = Some (OInt (Z.of_N (blen (body_of d)))) /\
      chain 0 (effective (0, 0) (s_spans r)) (lenN (io_bytes (inc_save s))).
Proof. exact strict_load_inc_fields. Qed.

(* (4.2) the hypotheses of (4.1) hold for every update made by create_from and then setting the new
   document's objects (set_object / add_object keep this shape) *)
Theorem C03_incremental_domain :
  forall x d prev m,
    xd_start prev = blen (body_of d) -> xd_type prev = x -> blen (body_of d) < u32_mod ->
    obj_wf (ODict (d_trailer (xd_doc prev))) ->
    d_max_id d + (if is_stream x then 1 else 0) <= d_max_id (xd_doc prev) -> d_max_id (xd_doc prev) + 2 < u32_mod ->
    increasing 0 (obj_numbers m) ->
    Forall (fun io : oid * obj => fst (fst io) <= d_max_id (xd_doc prev) /\ snd (fst io) <= 65535 /\
                                  top_wf (snd io) /\ skipped (snd io) = false) m ->
    inc_dom x d (set_new_objects (create_from (so_bytes (save_core x d)) prev) m).
Proof. exact inc_dom_create. Qed.

(* the core form: any document of the pipeline's domain as first revision *)
Theorem C03_strict_incremental_core :
  forall x d s,
    strict_savable_core d -> small_file_core x d -> inc_dom x d s ->
    blen (io_bytes (inc_save s)) < u32_mod ->
    strict_load (io_bytes (inc_save s)) = SOk (sdoc_inc x d s).
Proof. exact strict_load_inc. Qed.

(* non-vacuity: object 1 replaced, object 3 replaced under a new generation; two revisions *)
Theorem C03_incremental_example :
  inc_update XTable ex_doc3 ex_update /\ blen (io_bytes (inc_save ex_update)) < u32_mod /\
  s_objects (sdoc_inc XTable (raise_max_id ex_doc3) ex_update) =
    [((1, 0), ODict [(K_Type, OName (bs "Catalog")); (bs "V", OReal (bs "2.5"))]); ((3, 3), OStr (bs "replaced") false)] /\
  s_revisions (sdoc_inc XTable (raise_max_id ex_doc3) ex_update) = 2.
Proof. exact strict_inc_example. Qed.

(* ------------------------------------------------------------------------------------------ *)
(* Part 5: A HISTORY -- a saved file followed by ANY NUMBER of incremental saves.                *)
(* ------------------------------------------------------------------------------------------ *)

(* (5.1) the layout level.  [hist] (Proofs/StrictHistoryProofs.v): HBase x d = the file save writes for d,
   HUpd h x nd = the file h followed by LF, the repeated "%PDF-" and binary-mark lines, the objects of nd, ONE
   cross-reference section in format x and a startxref marker (formats may differ from revision to revision).
   [h_dom]: the first document is in the domain of (3.2); every later document is in the writer's domain
   ([rev_dom]: ascending distinct numbers <= its max_id, generations <= 65535, well-formed objects, stream
   Length = |content|, no skipped types, well-formed trailer), its version has no EOL byte and its binary mark
   only bytes >= 128, its trailer has Prev = the startxref of the file before it, and its max_id is not below
   any object number listed by an older section.  Then the strict reader accepts the whole file and returns
   [sdoc_hist h]: it follows Prev through all k sections (induction over read_chain), checks every section
   against its own Size and the newest Size, locates every object of every revision, counts k fillers, and the
   spans sort to [tiling]: revision after revision, each one filler / objects / section / marker (+ the
   repetition of a cross-reference stream's own span), which tile [0, |file|); per object number the newest
   revision that lists it decides ([omerge_list]). *)
Theorem C03_strict_chain :
  forall h, h_dom h -> h_len h < u32_mod -> strict_load (h_bytes h) = SOk (sdoc_hist h).
Proof. exact strict_load_hist. Qed.

(* (5.2) the histories are c07's: [shist] carries the data of C07BytesHistory.lopdf_history (SBase fmt d =
   Document::save; SUpd sh s = IncrementalDocument::save of s, where s was made from the bytes of sh and from
   the document, xref_start and cross-reference type the LOADER MODEL returned for them); [sh_ok] has exactly
   the premises of lopdf_history's constructors. *)
Theorem C03_history_same :
  (forall sh, sh_ok sh -> C07BytesHistory.lopdf_history (sh_bytes sh) (sh_start sh) (sh_fmt sh) (sh_objs sh)) /\
  (forall F xs fmt objs, C07BytesHistory.lopdf_history F xs fmt objs ->
     exists sh, sh_ok sh /\ sh_bytes sh = F /\ sh_start sh = xs /\ sh_fmt sh = fmt /\ sh_objs sh = objs).
Proof. split; [exact sh_ok_history | exact history_sh]. Qed.

(* (5.3) the shape of every update is DERIVED from the model, not assumed: the bytes are the layout [h_bytes],
   startxref is the offset of the newest section, and the domain of (5.1) holds -- Prev = the previous startxref
   comes from c07's domain of an update (established by create_from + any edits, see (5.6)); "max_id not below
   any number listed before" comes from the loader model: new_from_prev copies the max_id the loader returned,
   which is the largest key of the merged table, and that table holds every number any older section lists. *)
Theorem C03_history_shape :
  forall sh, sh_ok sh -> sh_strict sh ->
    h_bytes (sh_hist sh) = sh_bytes sh /\ h_start (sh_hist sh) = sh_start sh /\ h_dom (sh_hist sh).
Proof.
  intros sh H1 H2. destruct (sh_layout sh H1 H2) as [A [B [C _]]]. exact (conj A (conj B C)).
Qed.

(* (5.4) MAIN, histories: for every history of c07's kind whose FIRST document has a version "d.d" and a
   binary mark of at least 4 bytes and whose later header lines have no EOL byte in the version ([sh_strict];
   new_from_prev always writes "1.4"), every file of the history is accepted by the strict reader, which
   returns the explicit [sdoc_of_history sh]. *)
Theorem C03_strict_history :
  forall sh, sh_ok sh -> sh_strict sh -> strict_load (sh_bytes sh) = SOk (sdoc_of_history sh).
Proof. exact strict_load_history. Qed.

(* the same, starting from c07's inductive predicate *)
Theorem C03_strict_lopdf_history :
  forall F xs fmt objs, C07BytesHistory.lopdf_history F xs fmt objs ->
    exists sh, sh_bytes sh = F /\ sh_start sh = xs /\ sh_fmt sh = fmt /\ sh_objs sh = objs /\ sh_ok sh /\
               (sh_strict sh -> strict_load F = SOk (sdoc_of_history sh)).
Proof. exact strict_load_lopdf_history. Qed.

(* (5.5) field by field: version of the FIRST header, 1 + number of updates revisions, startxref = the value the
   writer returned, Prev of the recovered trailer = the previous startxref, the previous file is a verbatim
   prefix, the counted spans form a chain 0 .. |file| *)
Theorem C03_strict_history_fields :
  forall sh, sh_ok sh -> sh_strict sh ->
    exists r, strict_load (sh_bytes sh) = SOk r /\
      s_version r = d_version (sh_first sh) /\
      s_revisions r = sh_updates sh + 1 /\
      s_stream r = is_stream (sh_fmt sh) /\
      s_startxref r = sh_start sh /\
      s_objects r = omerge_list (h_list h_merge_item (sh_hist sh)) [] [] /\
      (match sh with
       | SBase _ _ => dict_get (s_trailer r) K_Prev = None
       | SUpd sh' s =>
         dict_get (s_trailer r) K_Prev = Some (OInt (Z.of_N (sh_start sh'))) /\
         firstn (length (sh_bytes sh')) (sh_bytes sh) = sh_bytes sh'
       end) /\
      chain 0 (effective (0, 0) (s_spans r)) (lenN (sh_bytes sh)).
Proof. exact strict_load_history_fields. Qed.

(* per identifier (n, g): what the reader recovers is what the NEWEST revision whose cross-reference section lists
   number n has under (n, g) -- nothing when that revision holds the number under another generation (the older
   generations are gone: one entry per number) or when no section lists n.  [newest_listing] walks the revisions
   newest first; an item = (numbers listed by the section, normal forms of the revision's objects). *)
Theorem C03_history_newest_wins :
  forall sh n g, sh_ok sh -> sh_strict sh ->
    lookup (s_objects (sdoc_of_history sh)) (n, g) =
    match newest_listing (h_list h_merge_item (sh_hist sh)) n with
    | Some objs => lookup objs (n, g)
    | None => None
    end.
Proof. exact history_newest_wins. Qed.

(* (5.6) the induction step through the MODELLED API: from any history and what the loader returned for its
   newest file, create_from + any sequence of modelled edits (set_object, add_object,
   opt_clone_object_to_new_document, get_or_create_resources, add_xobject) + IncrementalDocument::save succeeds
   and gives a history again, also for the strict reader: Prev, the version "1.4", the binary mark and max_id
   need no hypothesis.  What remains are the hypotheses about the NEW OBJECTS: in the writer's domain, outside
   C01's known class, identifiers as in c07's theorem, file below 4 GiB. *)
Theorem C03_history_update_step :
  forall sh pd edits,
    sh_ok sh ->
    Loader.load (sh_bytes sh) = Loader.LOk pd (xtype_of (sh_fmt sh)) ->
    let s := fold_left IncrementalProofs.apply_edit edits
               (create_from (sh_bytes sh) {| xd_doc := pd; xd_start := sh_start sh; xd_type := sh_fmt sh |}) in
    let nd := xd_doc (i_new s) in
    rev_dom nd -> known_deep nd = false ->
    blen (io_bytes (inc_save s)) < u32_mod ->
    Forall (fun io : oid * obj => In (fst io) (map fst (d_objects pd)) \/ ~ In (fst (fst io)) (obj_numbers (d_objects pd))) (d_objects nd) ->
    io_status (inc_save s) = IncOk /\ sh_ok (SUpd sh s) /\ (sh_strict sh -> sh_strict (SUpd sh s)).
Proof. exact history_update_step. Qed.

(* (5.7) every byte of every file of a history is accounted for: the counted spans are consecutive from 0 to
   |file|, cover every position, do not overlap; the listed spans are, oldest revision first, for every revision
   filler (header lines) / one span per object / cross-reference section / startxref marker, consecutive from the
   end of the previous file [g_a] to the end of this revision [g_q] ([block_once]), + the repetition of a
   cross-reference stream's span + one empty span at the end; each revision starts where the previous ends. *)
Theorem C03_all_bytes_accounted_history :
  forall sh, sh_ok sh -> sh_strict sh ->
    let file := sh_bytes sh in
    let spans := effective (0, 0) (s_spans (sdoc_of_history sh)) in
    chain 0 spans (lenN file) /\
    (forall p, p < lenN file -> exists a b, In (a, b) spans /\ a <= p < b) /\
    (forall i j a b a' b', (i < j)%nat -> nth_error spans i = Some (a, b) -> nth_error spans j = Some (a', b') -> b <= a') /\
    s_spans (sdoc_of_history sh) = tiling (h_geos (sh_hist sh)) ++ [(lenN file, lenN file)] /\
    Forall (fun g => chain (g_a g) (block_once g) (g_q g)) (h_geos (sh_hist sh)) /\
    geos_ok (h_geos (sh_hist sh)) /\ g_below (h_geos (sh_hist sh)) = lenN file.
Proof. exact all_bytes_accounted_history. Qed.

(* (5.8) non-vacuity: c07's example document saved, then updated three times through the modelled API (every
   hypothesis discharged); 4 revisions; object 1 from update 1, object 2 from update 3, objects 3 and 4 from
   update 2; the executable reader run on the model's bytes gives the same record *)
Theorem C03_history_example :
  sh_ok ex_h3 /\ sh_strict ex_h3 /\
  strict_load (sh_bytes ex_h3) = SOk (sdoc_of_history ex_h3) /\
  s_revisions (sdoc_of_history ex_h3) = 4 /\
  s_objects (sdoc_of_history ex_h3) =
    [((1, 0), C07BytesExample.ex_cat2); ((2, 0), OInt 9); ((3, 0), OStr (bs "newer") false); ((4, 0), ORef 1 0)] /\
  map r_x (s_revs (sdoc_of_history ex_h3)) =
    [io_start (inc_save ex_s3); io_start (inc_save C07BytesExample.ex_s2); io_start (inc_save C07BytesExample.ex_s);
     blen (body_of C07BytesExample.ex_d)].
Proof. exact history_example. Qed.

Print Assumptions C03_accept_sound.
Print Assumptions C03_chain_covers.
Print Assumptions C03_chain_disjoint.
Print Assumptions C03_entry_20_bytes.
Print Assumptions C03_subsection_exact.
Print Assumptions C03_xref_stream_consistent.
Print Assumptions C03_stream_lengths.
Print Assumptions C03_example_accepts.
Print Assumptions C03_save_header.
Print Assumptions C03_save_entry_20.
Print Assumptions C03_save_subsection_entries.
Print Assumptions C03_save_startxref_exact.
Print Assumptions C03_save_tail_forward.
Print Assumptions C03_save_offsets_exact.
Print Assumptions C03_save_objects_all_listed.
Print Assumptions C03_save_indirect_object.
Print Assumptions C03_save_object_header.
Print Assumptions C03_example_table.
Print Assumptions C03_example_stream.
Print Assumptions C03_object_rt.
Print Assumptions C03_separator_suffices.
Print Assumptions C03_strict.
Print Assumptions C03_strict_fields.
Print Assumptions C03_all_bytes_accounted.
Print Assumptions C03_strict_core_table.
Print Assumptions C03_strict_core_stream.
Print Assumptions C03_strict_example.
Print Assumptions C03_strict_incremental.
Print Assumptions C03_strict_incremental_fields.
Print Assumptions C03_incremental_domain.
Print Assumptions C03_strict_incremental_core.
Print Assumptions C03_incremental_example.
Print Assumptions C03_strict_chain.
Print Assumptions C03_history_same.
Print Assumptions C03_history_shape.
Print Assumptions C03_strict_history.
Print Assumptions C03_strict_lopdf_history.
Print Assumptions C03_strict_history_fields.
Print Assumptions C03_history_newest_wins.
Print Assumptions C03_history_update_step.
Print Assumptions C03_all_bytes_accounted_history.
Print Assumptions C03_history_example.
