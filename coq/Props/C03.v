(* Props/C03.v -- property C03: saved files are valid PDF for a strict third-party reader.
   Statements only; proofs live in Proofs/StrictReaderProofs.v (about the specification reader)
   and Proofs/SaveStrictProofs.v (about the model of the writer, Model/Save.v). *)
From LV Require Import Base.Bytes Model.Obj Spec.StrictReader Proofs.StrictReaderProofs.

Local Open Scope N_scope.

(* ------------------------------------------------------------------------------------------ *)
(* Part 1: what acceptance by the strict reader MEANS (soundness of the specification reader). *)
(* ./check C03 runs the extracted [strict_load] on the bytes the real crate wrote; these        *)
(* theorems say which facts about those bytes follow from the answer "ok".                      *)
(* ------------------------------------------------------------------------------------------ *)

(* (1.1) header + binary comment; startxref holds the offset of the newest cross-reference
   section; every section (also those reached through Prev) starts at exactly its offset with
   the keyword xref or the "n g obj" header of a /Type /XRef stream; every in-use entry holds
   the exact offset of "id gen obj" with the same id and gen; Size exceeds every object number
   and no number occurs twice in a section; every byte of the file lies in exactly one span. *)
Theorem C03_accept_sound :
  forall file d,
    strict_load file = SOk d ->
    (exists m rest, file = KW_pdf ++ s_version d ++ rest /\ version_ok (s_version d) = true /\
                    (exists r1, p_eol rest = Some (x25 :: m ++ r1)) /\ (4 <= length (filter is_high m))%nat) /\
    find_tail file = Some (s_startxref d) /\
    (exists newest older, s_revs d = newest :: older /\ r_x newest = s_startxref d /\
                          s_trailer d = r_trailer newest) /\
    Forall (starts_at_xref_or_xref_stream file) (s_revs d) /\
    Forall (fun r => Forall (entry_points_at_header file) (r_entries r)) (s_revs d) /\
    Forall (fun r => Forall (fun ie => fst ie < r_size r) (r_entries r) /\ NoDup (map fst (r_entries r))) (s_revs d) /\
    chain 0 (effective (0, 0) (s_spans d)) (lenN file).
Proof. exact strict_load_sound. Qed.

(* (1.2) what "chain" gives: every position below the end lies in a span, and two different
   spans of a chain do not overlap. *)
Theorem C03_chain_covers :
  forall c l fin, chain c l fin -> forall p, c <= p < fin -> exists a b, In (a, b) l /\ a <= p < b.
Proof. exact chain_cover. Qed.

Theorem C03_chain_disjoint :
  forall c l fin, chain c l fin ->
  forall i j a b a' b', (i < j)%nat -> nth_error l i = Some (a, b) -> nth_error l j = Some (a', b') -> b <= a'.
Proof. exact chain_disjoint. Qed.

(* (1.3) table entries are exactly 20 bytes: ten digits, space, five digits, space, n|f, 2-byte EOL;
   a subsection "first count" is followed by exactly count such entries numbered first, first+1, ... *)
Theorem C03_entry_20_bytes :
  forall s e r,
    p_entry s = Some (e, r) ->
    exists a g k e1 e2,
      s = a ++ x20 :: g ++ x20 :: k :: e1 :: e2 :: r /\
      length a = 10%nat /\ length g = 5%nat /\
      forallb is_digit a = true /\ forallb is_digit g = true /\
      (k = x6e \/ k = x66) /\
      ((e1 = x20 /\ (e2 = x0d \/ e2 = x0a)) \/ (e1 = x0d /\ e2 = x0a)).
Proof. exact p_entry_20. Qed.

Theorem C03_subsection_exact :
  forall k id s l r,
    p_entries k id s = Some (l, r) ->
    exists t, s = t ++ r /\ length t = (20 * k)%nat /\ length l = k /\
              map fst l = map (fun i => id + N.of_nat i) (seq 0 k).
Proof. exact p_entries_spec. Qed.

(* (1.4) cross-reference streams: Type XRef, no filter, W = three widths <= 8, and
   |data| = (sum of the Index counts) * (sum of the widths), one entry per counted number. *)
Theorem C03_xref_stream_consistent :
  forall x d data es,
    decode_xstream x d data = SOk es ->
    dict_get d N_Type = Some (OName N_XRef) /\ dict_get d N_Filter = None /\
    exists w1 w2 w3 idx,
      dict_get d N_W = Some (OArr [OInt (Z.of_N w1); OInt (Z.of_N w2); OInt (Z.of_N w3)]) /\
      w1 <= 8 /\ w2 <= 8 /\ w3 <= 8 /\
      lenN data = sum_counts idx * (w1 + w2 + w3) /\
      N.of_nat (length es) = sum_counts idx.
Proof. exact decode_xstream_consistent. Qed.

(* (1.5) every stream object reached through an entry carries exactly Length bytes between
   "stream" EOL and "endstream" (Length direct, or an indirect integer found through the tables). *)
Theorem C03_stream_lengths :
  forall file d,
    strict_load file = SOk d ->
    Forall (Forall (stream_length_ok file (s_revs d))) (s_located d).
Proof. exact strict_load_stream_lengths. Qed.

(* non-vacuity: a concrete file is accepted, with its object recovered *)
Definition ex_file : bytes := Eval cbv in
  bs "%PDF-1.5" ++ [x0a; x25; xbb; xad; xc0; xde; x0a] ++
  bs "1 0 obj" ++ [x0a] ++ bs "<</A 7>>" ++ [x0a] ++ bs "endobj" ++ [x0a] ++
  bs "xref" ++ [x0a] ++ bs "0 2" ++ [x0a] ++
  bs "0000000000 65535 f " ++ [x0a] ++ bs "0000000015 00000 n " ++ [x0a] ++
  bs "trailer" ++ [x0a] ++ bs "<</Size 2>>" ++ [x0a] ++ bs "startxref" ++ [x0a] ++ bs "39" ++ [x0a] ++ bs "%%EOF".

Theorem C03_example_accepts :
  exists d, strict_load ex_file = SOk d /\ s_objects d = [((1, 0), ODict [(bs "A", OInt 7)])]%N /\
            s_startxref d = 39.
Proof. eexists. split; [vm_compute; reflexivity|]. split; vm_compute; reflexivity. Qed.

(* placeholder: part 2 (theorems about Model/Save.v) is added below when proved *)

Print Assumptions C03_accept_sound.
Print Assumptions C03_chain_covers.
Print Assumptions C03_chain_disjoint.
Print Assumptions C03_entry_20_bytes.
Print Assumptions C03_subsection_exact.
Print Assumptions C03_xref_stream_consistent.
Print Assumptions C03_stream_lengths.
Print Assumptions C03_example_accepts.
