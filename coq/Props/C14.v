(* Props/C14.v -- property C14: content streams survive encode and decode.
   Statements only; proofs live in Proofs/{LexProofs,LitStringProofs,RealProofs}.v.
   placeholder: rung 1 only (token round trips); the main theorem is being added. *)
From LV Require Import Base.Bytes Base.Sx Model.Obj Model.Writer Model.Parser Gen.Lex
  Proofs.LexProofs Proofs.LitStringProofs Proofs.RealProofs.

(* every byte string written as a name is read back, whatever follows that is not a regular byte *)
Theorem C14_name_rt_partial :
  forall n rest, name_follow rest = true -> name (write_name n ++ rest) = POk n rest.
Proof. exact name_rt. Qed.

(* every byte string written as a literal string is read back (any parenthesis nesting) *)
Theorem C14_literal_rt_partial :
  forall t rest fuel, length (write_literal t ++ rest) <= fuel ->
    literal_string fuel (write_literal t ++ rest) = POk t rest.
Proof. exact literal_string_rt. Qed.

Theorem C14_hex_rt_partial :
  forall s rest, hexadecimal_string (write_hex s ++ rest) = POk s rest.
Proof. exact hex_string_rt. Qed.

Theorem C14_integer_rt_partial :
  forall z rest, in_i64 z = true -> starts_with is_dec_digit rest = false ->
    integer (Z_dec z ++ rest) = POk z rest.
Proof. exact integer_rt. Qed.

Print Assumptions C14_name_rt_partial.
Print Assumptions C14_literal_rt_partial.
Print Assumptions C14_hex_rt_partial.
Print Assumptions C14_integer_rt_partial.
