(* Props/C14.v -- property C14: content streams survive encode and decode.
   Statements only; proofs live in Proofs/{LexProofs,LitStringProofs,RealProofs,ObjectRtProofs,
   ContentProofs,ParserSoundProofs,DecodeRtProofs}.v.  Model: Model/Writer.v (Content::encode, Writer::write_object) and
   Model/Parser.v (Content::decode: operation / operand / operator / inline_image / content). *)
From LV Require Import Base.Bytes Base.Sx Model.Obj Model.Writer Model.Parser Gen.Lex
  Proofs.LexProofs Proofs.LitStringProofs Proofs.RealProofs Proofs.ObjectRtProofs Proofs.ContentProofs
  Proofs.ParserSoundProofs Proofs.DecodeRtProofs.

(* ---------------------------------------------------------------------------------------------
   (1) The main theorem.  For every sequence of operations in the domain of the property
   ([op_dom]: operator non-empty over the parser's alphabet; operands direct objects other than
   references -- i64 integers, finite reals, any bytes in names / strings / keys, unique
   dictionary keys, arbitrary nesting -- or an inline image whose dictionary implies its data
   length; the operator is not one of the keywords null / true / false, which are operands, nor a
   lone BI) and outside the known class ([known_class]: finding C14-deep-nesting), decoding the encoded bytes returns the same operators with the operands in
   normal form ([norm_op]: an integral real below 2^63 comes back as the integer of the same value,
   an integral real from 2^63 on as the same digits followed by ".0", everything else
   unchanged; an inline image comes back with its Length entry set). *)
Theorem C14_rt :
  forall ops, Forall op_dom ops -> Forall (fun op => known_class op = false) ops ->
    decode_content (encode_content ops) = DecOk (map norm_op ops).
Proof. exact content_rt_dom. Qed.

(* non-vacuity: seven operations (no operand, numbers incl. integral and huge reals, literal
   strings with unbalanced parentheses / backslash / CR LF, nested array + dictionary with
   delimiter bytes in names and an empty key and a nested reference, an inline image whose data
   contains ") EI") meet the hypotheses, and the decoded value is the expected one *)
Theorem C14_example :
  (Forall op_dom ex_ops /\ Forall (fun op => known_class op = false) ex_ops) /\
  decode_content (encode_content ex_ops) =
  DecOk [ mkop "q" [];
          mkop "cm" [OInt 1; OReal (bs "0.5"); OInt (-3); OInt (-7); OReal (bs "100000000000000000000.0"); OInt 0];
          mkop "Tj" [OStr (bs "a(b\c)d)(") false];
          mkop "TJ" [OArr [OStr [x00; xff; x28] true; OInt 120; ONull; OBool true;
                           ODict [(bs "K /#", OName (bs "a b#")); (bs "", OArr [ORef 12 0; OInt 5; OInt 0])]]];
          mkop "BI" [OStream [(bs "W", OInt 2); (bs "H", OInt 1); (bs "CS", OName (bs "RGB")); (bs "BPC", OInt 8);
                              (bs "Length", OInt 6)] (bs "ab) EI")];
          mkop "'" [OStr [x0d; x0a; x5c] false];
          mkop "f*" [] ].
Proof. split; [exact ex_ops_dom|exact ex_ops_result]. Qed.

(* ---------------------------------------------------------------------------------------------
   (2) The second sentence of the property: content DECODED from any byte string, encoded again,
   decodes to the same operations.

   (a) Soundness of the parser model, for EVERY input: what decode returns are operations whose
   operator is over the parser's alphabet and whose operands are parsed values ([pv]: i64 integers,
   reals in the source syntax of the real parser, unique keys, u32/u16 references inside containers,
   no stream, not a reference, nested within MAX_NESTING levels), or one inline image whose
   dictionary has unique keys, parsed values, implies exactly the data length and has Length set. *)
Theorem C14_decoded_sound :
  forall bs ops, decode_content bs = DecOk ops -> Forall op_dec ops.
Proof. exact decoded_ops_sound. Qed.

(* the same for the object parser shared with the document reader (for C01) *)
Theorem C14_parsed_value_sound :
  (forall f depth s o r, direct_objects_at f depth s = POk o r -> pv o /\ nest o <= depth) /\
  (forall s o, parse_direct_object s = Some o -> pv o /\ nest o <= MAX_DEPTH) /\
  (forall fuel s o r, operand fuel s = POk o r -> pv o /\ ref_ok false o /\ nest o <= MAX_DEPTH).
Proof.
  split; [exact direct_objects_at_sound|]. split; [exact parse_direct_object_sound|exact operand_sound].
Qed.

(* a parsed value is a fixed point of the normal form: what a second cycle can change is only the
   SPELLING of reals (the parser keeps "+1.50", Rust holds the f32 and prints "1.5") *)
Theorem C14_parsed_value_normal : forall o, pv o -> norm_obj o = o.
Proof. exact pv_norm_fixed. Qed.

Theorem C14_inline_image_decoded :
  forall fuel s ops op r,
    inline_image fuel s = POk (ops, op) r ->
    op = bs "BI" /\
    exists d c, ops = [OStream d c] /\ NoDup (map fst d) /\
                img_len d = Some (N.of_nat (length c)) /\
                dict_get d K_Length = Some (OInt (Z.of_nat (length c))).
Proof. exact inline_image_sound. Qed.

(* (b) THE SECOND SENTENCE, for ALL byte strings.  [canon] is Display o from_str on f32 (how Rust
   re-prints a real read from an arbitrary spelling), specified by the float assumptions of DESIGN 3
   written out in [canon_spec]: for a source spelling that does not overflow f32 the output has the
   shape of a finite Display text, and printing it with a point and reading it again gives the same
   text (from_str (to_string x) = x; "r.0" is the same f32 as "r").  [map (canon_op canon) ops] is
   what Rust holds after decoding bs; it is encoded; the bytes decode to ops2; and what Rust then holds
   is the same operations up to the difference the property allows (an integral real below 2^63 is an
   integer: [intnorm_op]).  Outside ([known_dec], decidable on the decoded operations): a real whose
   spelling overflows f32 (OPEN finding C14-real-overflow), an operator that is exactly null / true /
   false or a lone BI (OPEN finding C14-keyword-residual: returned only for a malformed token such as
   "null1" or "true" + 0xFF), and inline-image data longer than isize::MAX (impossible in Rust). *)
Theorem C14_decode_encode_decode :
  forall canon, canon_spec canon ->
  forall bs ops, decode_content bs = DecOk ops -> Forall (fun op => known_dec op = false) ops ->
    exists ops2,
      decode_content (encode_content (map (canon_op canon) ops)) = DecOk ops2 /\
      map (canon_op canon) ops2 = map intnorm_op (map (canon_op canon) ops).
Proof. exact decode_encode_decode. Qed.

(* the same, with the excluded class as a decidable predicate on the INPUT bytes ([known_input bs]: some
   operation bs decodes to is in [known_dec]); props/c14.py [classify] mirrors it *)
Theorem C14_decode_encode_decode_input :
  forall canon, canon_spec canon ->
  forall bs ops, decode_content bs = DecOk ops -> known_input bs = false ->
    exists ops2,
      decode_content (encode_content (map (canon_op canon) ops)) = DecOk ops2 /\
      map (canon_op canon) ops2 = map intnorm_op (map (canon_op canon) ops).
Proof. exact decode_encode_decode_input. Qed.

(* the float assumptions are consistent: exact decimal canonicalisation (drop "+", supply the leading
   zero, drop trailing zeros of the fraction) satisfies them *)
Theorem C14_canon_spec_consistent : canon_spec canon_exact.
Proof. exact canon_exact_spec. Qed.

(* non-vacuity: a stream with a comment, reals in five non-canonical spellings, an operator beginning
   with a keyword, nested containers, an inline image with long keys, CR LF after ID, data beginning
   with a space and containing "EI": it decodes, no operation is in the excluded class; the values
   Rust holds and the result of the second decode are written out *)
Theorem C14_decode_encode_decode_example :
  (decode_content ex_stream = DecOk ex_decoded /\ forallb (fun op => negb (known_dec op)) ex_decoded = true) /\
  map (canon_op canon_exact) ex_decoded =
  [ mkop "cm" [OReal (bs "1.5"); OReal (bs "0.5"); OReal (bs "5"); OReal (bs "-0"); OReal (bs "00.25")];
    mkop "Tf" [OName (bs "F1"); OReal (bs "12")];
    mkop "nullify" [OArr [OStr (bs "a)b") false; OReal (bs "-7"); OStr [x40] true; OArr [ORef 1 0]]];
    mkop "BI" [OStream [(bs "Width", OInt 2); (bs "Height", OInt 1); (bs "ColorSpace", OName (bs "RGB"));
                        (bs "BitsPerComponent", OInt 8); (bs "Length", OInt 6)] (bs " EI EI")];
    mkop "Q" [] ] /\
  decode_content (encode_content (map (canon_op canon_exact) ex_decoded)) =
  DecOk [ mkop "cm" [OReal (bs "1.5"); OReal (bs "0.5"); OInt 5; OInt 0; OReal (bs "00.25")];
          mkop "Tf" [OName (bs "F1"); OInt 12];
          mkop "nullify" [OArr [OStr (bs "a)b") false; OInt (-7); OStr [x40] true; OArr [ORef 1 0]]];
          mkop "BI" [OStream [(bs "Width", OInt 2); (bs "Height", OInt 1); (bs "ColorSpace", OName (bs "RGB"));
                              (bs "BitsPerComponent", OInt 8); (bs "Length", OInt 6)] (bs " EI EI")];
          mkop "Q" [] ].
Proof. split; [exact ex_stream_decodes|exact ex_stream_second_cycle]. Qed.

(* the excluded classes are real *)
Theorem C14_real_overflow_refuted :
  decode_content overflow_witness = DecOk [mkop "w" [OReal (bs "340282356779733661637539395458142568448.0")]] /\
  known_dec (mkop "w" [OReal (bs "340282356779733661637539395458142568448.0")]) = true /\
  known_dec (mkop "w" [OReal (bs "340282356779733661637539395458142568447.999")]) = false /\
  decode_content (encode_content [mkop "w" [OReal (bs "inf")]]) = DecOk [mkop "inf" []; mkop "w" []].
Proof. exact overflow_witness_class. Qed.

Theorem C14_keyword_residual_refuted :
  decode_content (bs "null1 x") = DecOk [mkop "null" []; mkop "x" [OInt 1]] /\
  known_dec (mkop "null" []) = true /\
  decode_content (encode_content [mkop "null" []; mkop "x" [OInt 1]]) = DecOk [mkop "x" [ONull; OInt 1]].
Proof. exact kw_residual_witness. Qed.

(* KnownClass witnesses on the input: the witnesses of both open findings and the other shapes of the
   keyword residual ("true" + 0xFF: the input the thorough tier found; a lone BI glued to a digit, whose
   re-encoding does not decode at all) are inside; a keyword followed by a delimiter or an operator
   character, or inside a name / a string, and the example stream are outside *)
Theorem C14_known_input_witness :
  known_input (bs "null1 x") = true /\ known_input overflow_witness = true /\
  known_input (bs "true" ++ [xff] ++ bs " cm") = true /\
  decode_content (bs "true" ++ [xff] ++ bs " cm") = DecOk [mkop "true" []] /\
  decode_content (encode_content [mkop "true" []]) = DecOk [] /\
  known_input (bs "BI1 ") = true /\ decode_content (bs "BI1 ") = DecOk [mkop "BI" []] /\
  decode_content (encode_content [mkop "BI" []]) = DecErr /\
  known_input (bs "1 false.5 x") = true /\
  known_input (bs "null(a) Tj") = false /\ known_input (bs "true/N nullx") = false /\
  known_input (bs "/null1 (true2) BI* [false] BIx") = false /\ known_input ex_stream = false.
Proof. exact known_input_witness. Qed.

(* (c) and for any inline image of the class, within a sequence or alone (instance of C14_rt) *)
Theorem C14_inline_image_rt :
  forall op, image_dom op -> alphabet_op (op_operator op) = true -> known_class op = false ->
    decode_content (encode_content [op]) = DecOk [norm_op op].
Proof.
  intros op Hi Ha Hk. apply (content_rt_dom [op]).
  - apply Forall_cons; [split; [exact Ha|right; exact Hi]|apply Forall_nil].
  - apply Forall_cons; [exact Hk|apply Forall_nil].
Qed.

(* ---------------------------------------------------------------------------------------------
   (3) Operand level: Writer::write_object followed by the parser's ordered choice
   (_direct_objects_at with references, the content operand without) is the identity up to
   norm_obj, for any continuation satisfying the follow condition of the token, at any depth
   that admits the operand's nesting. *)
Theorem C14_object_rt :
  forall o ar rest f depth,
    obj_wf o -> ref_ok ar o -> follow_ok ar o rest ->
    length (write_object o ++ rest) <= f -> nest o <= depth ->
    object_alts_c (direct_objects_at f (pred depth)) (depth_ok depth) ar f (write_object o ++ rest) =
    POk (norm_obj o) rest.
Proof. exact object_rt. Qed.

(* the writer's separator rule (need_separator) establishes the follow condition between
   adjacent elements, including "the integer does not begin a reference" *)
Theorem C14_separator_rule :
  forall x rest, obj_wf x -> cont_ok rest -> cont_ok (sp_if (need_separator x) ++ write_object x ++ rest).
Proof. exact cont_elem. Qed.

Theorem C14_separator_suffices :
  forall ar o rest, cont_ok rest -> follow_ok ar o rest.
Proof. exact cont_follow. Qed.

(* the normal form is a fixed point: a second encode/decode cycle changes nothing more *)
Theorem C14_norm_stable :
  forall o, obj_wf o -> obj_wf (norm_obj o) /\ norm_obj (norm_obj o) = norm_obj o.
Proof. exact norm_obj_wf. Qed.

(* what the normal form does to a real (the only kind it changes) *)
Theorem C14_norm_real_integral :
  forall neg ds, ds <> [] -> forallb is_dec_digit ds = true ->
    norm_real (real_text neg ds []) =
    if (REAL_POINT_DISPLAY_THRESHOLD <=? digits_val ds)%N then OReal (real_text neg ds [x30])
    else OInt (int_of_text neg ds).
Proof. exact norm_real_int. Qed.

Theorem C14_norm_real_fraction :
  forall neg ds fs, ds <> [] -> forallb is_dec_digit ds = true -> fs <> [] ->
    norm_real (real_text neg ds fs) = OReal (real_text neg ds fs).
Proof. exact norm_real_frac. Qed.

(* ---------------------------------------------------------------------------------------------
   (4) Token level, every byte string (the sweeps over the regenerated byte sets live in the proofs) *)
Theorem C14_name_rt :
  forall n rest, name_follow rest = true -> name (write_name n ++ rest) = POk n rest.
Proof. exact name_rt. Qed.

Theorem C14_literal_rt :
  forall t rest fuel, length (write_literal t ++ rest) <= fuel ->
    literal_string fuel (write_literal t ++ rest) = POk t rest.
Proof. exact literal_string_rt. Qed.

Theorem C14_hex_rt :
  forall s rest, hexadecimal_string (write_hex s ++ rest) = POk s rest.
Proof. exact hex_string_rt. Qed.

Theorem C14_integer_rt :
  forall z rest, in_i64 z = true -> starts_with is_dec_digit rest = false ->
    integer (Z_dec z ++ rest) = POk z rest.
Proof. exact integer_rt. Qed.

Theorem C14_real_rt :
  forall r rest, real_wf r -> starts_with digit_or_point rest = false ->
    (exists r', norm_real r = OReal r' /\ real (write_real r ++ rest) = POk r' rest) \/
    (exists z, norm_real r = OInt z /\ real (write_real r ++ rest) = PErr /\
               integer (write_real r ++ rest) = POk z rest).
Proof. exact real_rt. Qed.

(* ---------------------------------------------------------------------------------------------
   (5) The known class is real (KnownClass witness, replayed on the crate by ./check); the classes
   of the two repaired findings now round-trip *)
Theorem C14_deep_nesting_refuted :
  op_dom deep_witness /\ known_class deep_witness = true /\
  decode_content (encode_content [deep_witness]) = DecOk [].
Proof. exact deep_witness_refutes. Qed.

Theorem C14_deep_limit_example :
  decode_content (encode_content [mkop "x" [nested MAX_DEPTH]]) = DecOk [mkop "x" [nested MAX_DEPTH]].
Proof. exact deep_limit_ok. Qed.

(* fixed finding C14-keyword-operator: an operator that merely begins with null / true / false / BI *)
Theorem C14_keyword_boundary_fixed :
  op_dom kw_witness /\ known_class kw_witness = false /\
  decode_content (encode_content [kw_witness; bi_witness; mkop "trueType" [OBool true; ONull]; mkop "falsey" [ONull]]) =
  DecOk [kw_witness; bi_witness; mkop "trueType" [OBool true; ONull]; mkop "falsey" [ONull]].
Proof. exact kw_witness_fixed. Qed.

(* fixed finding C14-image-leading-space: image data beginning with white-space bytes *)
Theorem C14_image_space_data_fixed :
  decode_content (encode_content
    [mkop "BI" [OStream [(bs "W", OInt 2); (bs "H", OInt 1); (bs "CS", OName (bs "Gray")); (bs "BPC", OInt 8)] [x20; x0a]]]) =
  DecOk [mkop "BI" [OStream [(bs "W", OInt 2); (bs "H", OInt 1); (bs "CS", OName (bs "Gray")); (bs "BPC", OInt 8);
                             (bs "Length", OInt 2)] [x20; x0a]]].
Proof. exact image_space_data_fixed. Qed.

(* (6) The documented domain restrictions are necessary *)
Theorem C14_keyword_operator_refuted :
  decode_content (encode_content [mkop "null" []]) = DecOk [] /\
  decode_content (encode_content [mkop "true" [OInt 1]]) = DecOk [] /\
  decode_content (encode_content [mkop "q" []; mkop "false" []; mkop "Q" []]) = DecOk [mkop "q" []; mkop "Q" [OBool false]] /\
  decode_content (encode_content [mkop "BI" []]) = DecErr.
Proof. exact keyword_operator_refuted. Qed.

Theorem C14_reference_operand_refuted :
  decode_content (encode_content [mkop "x" [ORef 1 0]]) = DecOk [mkop "R" [OInt 1; OInt 0]; mkop "x" []].
Proof. exact reference_operand_refuted. Qed.

Theorem C14_nonfinite_real_refuted :
  decode_content (encode_content [mkop "x" [OReal (bs "NaN")]]) = DecOk [mkop "NaN" []; mkop "x" []].
Proof. exact nan_operand_refuted. Qed.

Print Assumptions C14_rt.
Print Assumptions C14_example.
Print Assumptions C14_decoded_sound.
Print Assumptions C14_parsed_value_sound.
Print Assumptions C14_parsed_value_normal.
Print Assumptions C14_inline_image_decoded.
Print Assumptions C14_decode_encode_decode.
Print Assumptions C14_canon_spec_consistent.
Print Assumptions C14_decode_encode_decode_example.
Print Assumptions C14_real_overflow_refuted.
Print Assumptions C14_keyword_residual_refuted.
Print Assumptions C14_decode_encode_decode_input.
Print Assumptions C14_known_input_witness.
Print Assumptions C14_inline_image_rt.
Print Assumptions C14_object_rt.
Print Assumptions C14_separator_rule.
Print Assumptions C14_separator_suffices.
Print Assumptions C14_norm_stable.
Print Assumptions C14_norm_real_integral.
Print Assumptions C14_norm_real_fraction.
Print Assumptions C14_name_rt.
Print Assumptions C14_literal_rt.
Print Assumptions C14_hex_rt.
Print Assumptions C14_integer_rt.
Print Assumptions C14_real_rt.
Print Assumptions C14_keyword_operator_refuted.
Print Assumptions C14_keyword_boundary_fixed.
Print Assumptions C14_deep_nesting_refuted.
Print Assumptions C14_deep_limit_example.
Print Assumptions C14_reference_operand_refuted.
Print Assumptions C14_nonfinite_real_refuted.
Print Assumptions C14_image_space_data_fixed.
