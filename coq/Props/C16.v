(* Props/C16.v -- property C16: text strings and one-byte encodings round-trip text.
   Statements only; proofs live in Proofs/TextProofs{Utf,Tables,String,Extract}.v.
   Strings are lists of Unicode scalar values; [ustring_wf] (every element is a scalar value) is what
   the Rust type `String` guarantees, so it is the domain of the property, not a restriction. *)
From LV Require Import Base.Bytes Model.Utf Model.Obj Model.OneByte Model.TextString Model.TextExtract
  Gen.Tables Spec.PublishedTables Spec.ShownText Spec.ShownBlocks
  Proofs.TextProofsUtf Proofs.TextProofsTables Proofs.TextProofsString Proofs.TextProofsExtract Proofs.TextProofsBlocks Proofs.TextProofsFilter.
Local Open Scope N_scope.
Local Open Scope string_scope.

(* ---- (0) the transformation formats, all scalar values, by arithmetic ---- *)
Theorem C16_utf16_rt : forall s, ustring_wf s -> utf16_decode (utf16_encode s) = Some s.
Proof. exact utf16_rt. Qed.

Theorem C16_utf8_rt : forall s, ustring_wf s -> utf8_decode (utf8_encode s) = Some s.
Proof. exact utf8_rt. Qed.

(* ---- (1) text strings: EVERY Unicode string survives (current tree, after two fix: commits) ---- *)
Theorem C16_text_string_rt : forall s, ustring_wf s -> decode_text_string (text_string s) = Ok s.
Proof. exact text_string_rt. Qed.

(* "ASCII stays PDFDocEncoding, everything else becomes UTF-16BE with a byte-order mark" *)
Theorem C16_text_string_shape :
  forall s, ustring_wf s ->
    (text_string s = OStr (map byte_of_N s) false /\ Forall (fun c => c < 128) s) \/
    text_string s = OStr (DEC_MARK_UTF16 ++ flat_map be_bytes (utf16_encode s)) true.
Proof. exact text_string_shape. Qed.

Theorem C16_text_string_printable_ascii :
  forall s, Forall (fun c => 0x20 <= c <= 0x7E) s -> text_string s = OStr (map byte_of_N s) false.
Proof. exact text_string_printable_ascii. Qed.

(* "UTF-8 with a mark decodes too", and the explicit UTF-16BE encoder *)
Theorem C16_utf8_marked_rt :
  forall s fmt, ustring_wf s -> decode_text_string (OStr (encode_utf8 s) fmt) = Ok s.
Proof. exact utf8_marked_rt. Qed.

Theorem C16_utf16_marked_rt :
  forall s fmt, ustring_wf s -> decode_text_string (OStr (encode_utf16_be s) fmt) = Ok s.
Proof. exact utf16_marked_rt. Qed.

(* on the PINNED tree both were false (model of the pinned code kept in Model/TextString.v):
   "a\nb\tc" came back as "abc"; encode_utf8 output came back with a leading U+FEFF *)
Theorem C16_text_string_rt_refuted :
  exists s, ustring_wf s /\ decode_text_string_pinned (text_string_pinned s) = Ok [97; 98; 99] /\
            s <> [97; 98; 99].
Proof. exact text_string_rt_pinned_refuted. Qed.

Theorem C16_utf8_marked_refuted :
  exists s, ustring_wf s /\ decode_text_string_pinned (OStr (encode_utf8 s) false) = Ok (0xFEFF :: s).
Proof. exact utf8_marked_pinned_refuted. Qed.

Theorem C16_witnesses_repaired :
  decode_text_string (text_string witness_ctl) = Ok witness_ctl /\
  decode_text_string (OStr (encode_utf8 witness_utf8) false) = Ok witness_utf8.
Proof. exact witnesses_repaired. Qed.

(* ---- (2) the predefined one-byte encodings (tables regenerated from the source on every run) ---- *)

(* no table cell is a surrogate (256 bytes x every reachable table) *)
Theorem C16_no_surrogate_cell :
  forall t, In t reachable_tables -> forall b u, cell t b = Some u -> is_surrogate u = false.
Proof. exact no_surrogate_cell. Qed.

(* decoding never fails: whatever font dictionary selects a one-byte encoding, decode_text returns Ok
   on every byte string (the `expect` in bytes_to_string is unreachable) *)
Theorem C16_decode_never_fails :
  forall font t, get_font_encoding font = Ok (EncOneByte t) ->
    forall bs, enc_bytes_to_string (EncOneByte t) bs = Ok (bytes_to_units t bs).
Proof.
  intros font t H bs. apply bytes_to_string_total. exact (font_encoding_reachable font t H).
Qed.

(* re-encoding decoded text reproduces bytes that decode to the same text: every byte string *)
Theorem C16_reencode_stable :
  forall font t, get_font_encoding font = Ok (EncOneByte t) ->
    forall bs, exists s bs',
      enc_bytes_to_string (EncOneByte t) bs = Ok s /\
      enc_string_to_bytes (EncOneByte t) s = Ok bs' /\
      enc_bytes_to_string (EncOneByte t) bs' = Ok s.
Proof.
  intros font t H bs.
  destruct (reencode_stable t (font_encoding_reachable font t H) bs) as [s [H1 H2]].
  exists s, (string_to_bytes t s). split; [exact H1|]. split; [reflexivity|exact H2].
Qed.

(* the same for the table decode_text_string uses, and the fallback *)
Theorem C16_reencode_stable_tables :
  forall t, In t reachable_tables -> forall bs,
    exists s, bytes_to_string t bs = Ok s /\ bytes_to_string t (string_to_bytes t s) = Ok s.
Proof. exact reencode_stable. Qed.

(* agreement with ISO 32000-1 Annex D wherever the published table assigns a code (this contains the
   printable-ASCII and Latin-1 portions), for the tables the names select *)
Theorem C16_agrees_with_published :
  (exists t, table_named "WinAnsiEncoding" = Some t /\
     forall b u, published WIN_ANSI_PUBLISHED (N_of_byte b) = Some u -> cell t b = Some u) /\
  (exists t, table_named "MacRomanEncoding" = Some t /\
     forall b u, published MAC_ROMAN_PUBLISHED (N_of_byte b) = Some u -> cell t b = Some u) /\
  (exists t, table_named "PDFDocEncoding" = Some t /\
     forall b u, published PDF_DOC_PUBLISHED (N_of_byte b) = Some u -> cell t b = Some u) /\
  (forall b u, published PDF_DOC_PUBLISHED (N_of_byte b) = Some u -> cell TEXT_STRING_ENCODING b = Some u).
Proof. exact agrees_with_published. Qed.

(* ... and the only cells defined beyond it are the bullet fill of WinAnsi (Annex D footnote 3) and
   the Mac OS Roman symbols PDF leaves out *)
Theorem C16_beyond_published :
  (exists t, table_named "WinAnsiEncoding" = Some t /\
     forall b u, cell t b = Some u -> published WIN_ANSI_PUBLISHED (N_of_byte b) = None ->
                 In (N_of_byte b, u) WIN_ANSI_BULLET_FILL) /\
  (exists t, table_named "MacRomanEncoding" = Some t /\
     forall b u, cell t b = Some u -> published MAC_ROMAN_PUBLISHED (N_of_byte b) = None ->
                 In (N_of_byte b, u) MAC_OS_ROMAN_EXTRA) /\
  (exists t, table_named "PDFDocEncoding" = Some t /\
     forall b u, cell t b = Some u -> published PDF_DOC_PUBLISHED (N_of_byte b) = None -> In (N_of_byte b, u) []).
Proof. exact beyond_published. Qed.

(* the two portions stated without a typed table: printable ASCII and Latin-1 (except the soft hyphen
   code) are the identity *)
Theorem C16_ascii_latin1_identity :
  (forall name, In name ["WinAnsiEncoding"; "MacRomanEncoding"; "PDFDocEncoding"] ->
     exists t, table_named name = Some t /\
       forall b, printable_ascii (N_of_byte b) = true -> cell t b = Some (N_of_byte b)) /\
  (forall name, In name ["WinAnsiEncoding"; "PDFDocEncoding"] ->
     exists t, table_named name = Some t /\
       forall b, latin1_code (N_of_byte b) = true -> N_of_byte b <> 0xAD -> cell t b = Some (N_of_byte b)).
Proof. exact ascii_latin1_identity. Qed.

(* text over the repertoire is encoded losslessly *)
Theorem C16_repertoire_rt :
  forall font t, get_font_encoding font = Ok (EncOneByte t) ->
    forall s, Forall (in_repertoire t) s ->
      enc_bytes_to_string (EncOneByte t) (string_to_bytes t s) = Ok s.
Proof.
  intros font t H s Hs. exact (repertoire_rt t (font_encoding_reachable font t H) s Hs).
Qed.

(* ... and on ARBITRARY text, encode_text followed by decode_text removes exactly the characters the table does
   not hold (astral characters included) and changes nothing else; [held] is membership in the repertoire *)
Theorem C16_encode_decode_filter :
  forall font t, get_font_encoding font = Ok (EncOneByte t) ->
    forall s, ustring_wf s ->
      exists bs, enc_string_to_bytes (EncOneByte t) s = Ok bs /\
                 enc_bytes_to_string (EncOneByte t) bs = Ok (filter (held t) s).
Proof.
  intros font t H s Hs. exists (string_to_bytes t s). split; [reflexivity|].
  exact (encode_decode_filter t (font_encoding_reachable font t H) s Hs).
Qed.

Theorem C16_held_is_repertoire :
  forall font t, get_font_encoding font = Ok (EncOneByte t) ->
    forall c, held t c = true <-> in_repertoire t c.
Proof. intros font t H c. exact (held_repertoire t (font_encoding_reachable font t H) c). Qed.

(* ---- (3) text shown with such an encoding is what extract_text returns ----
   In memory.  "Also after the document is saved and reloaded" is evaluated directly on the
   implementation for every extraction case (harness) and follows from C01 for the model. *)
Theorem C16_extract_shown_text :
  forall font t fname size ps,
    get_font_encoding font = Ok (EncOneByte t) ->
    Forall (piece_over (in_repertoire t)) ps ->
    extract_text [page_showing fname font size t ps] [1] = Ok (shown_text ps).
Proof. exact extract_shown_text. Qed.

(* ... several text objects on a page, the font selected ONCE -- before the first BT (inside = false) or in the
   first text object only (inside = true): the font is graphics state, every later BT .. ET that shows
   something is extracted with it.  [block_shows]: the text object shows at least one character or TJ
   array (an empty text object after a finished line adds no second line break in extract_text; that
   layout detail is outside the property). *)
Theorem C16_extract_shown_blocks :
  forall font t inside fname size bss,
    get_font_encoding font = Ok (EncOneByte t) ->
    Forall (Forall (piece_over (in_repertoire t))) bss -> Forall block_shows bss ->
    extract_text [page_blocks inside fname font size t bss] [1] = Ok (shown_blocks bss).
Proof. exact extract_shown_blocks. Qed.

(* ---- non-vacuity ---- *)
Theorem C16_example_text :
  ustring_wf [97; 10; 233; 0x1F600; 0xFEFF; 0xD7FF; 0xE000; 0x10FFFF] /\
  decode_text_string (text_string [97; 10; 233; 0x1F600; 0xFEFF; 0xD7FF; 0xE000; 0x10FFFF])
    = Ok [97; 10; 233; 0x1F600; 0xFEFF; 0xD7FF; 0xE000; 0x10FFFF].
Proof. split; [repeat constructor | vm_compute; reflexivity]. Qed.

Theorem C16_example_tables :
  length reachable_tables = 8%nat /\
  Forall (fun t => length t = 256%nat) reachable_tables /\
  (forall name, In name (map fst FONT_ENCODINGS) ->
     exists t, get_font_encoding [(K_Type, OName K_Font); (K_Encoding, OName name)] = Ok (EncOneByte t)).
Proof.
  split; [reflexivity|]. split.
  - apply Forall_forall. exact tables_len.
  - intros name H. cbn in H.
    repeat (destruct H as [<-|H]; [eexists; vm_compute; reflexivity|]). destruct H.
Qed.

Theorem C16_example_shown :
  exists t, get_font_encoding ex_font = Ok (EncOneByte t) /\
            Forall (piece_over (in_repertoire t)) ex_pieces /\
            extract_text [page_showing (bs "F1") ex_font (OInt 12) t ex_pieces] [1] =
              Ok [72; 233; 108; 108; 111; 87; 32; 111; 114; 108; 100; 8364; 32; 10].
Proof. exact ex_shown. Qed.

Theorem C16_example_blocks :
  exists t, get_font_encoding ex_font = Ok (EncOneByte t) /\
            Forall (Forall (piece_over (in_repertoire t))) ex_blocks /\ Forall block_shows ex_blocks /\
            extract_text [page_blocks false (bs "F1") ex_font (OInt 12) t ex_blocks] [1] =
              Ok [72; 233; 108; 108; 111; 87; 32; 111; 114; 108; 100; 8364; 32; 10; 111; 107; 10] /\
            extract_text [page_blocks true (bs "F1") ex_font (OInt 12) t ex_blocks] [1] =
              Ok [72; 233; 108; 108; 111; 87; 32; 111; 114; 108; 100; 8364; 32; 10; 111; 107; 10].
Proof. exact ex_blocks_shown. Qed.

Print Assumptions C16_utf16_rt.
Print Assumptions C16_utf8_rt.
Print Assumptions C16_text_string_rt.
Print Assumptions C16_text_string_shape.
Print Assumptions C16_text_string_printable_ascii.
Print Assumptions C16_utf8_marked_rt.
Print Assumptions C16_utf16_marked_rt.
Print Assumptions C16_text_string_rt_refuted.
Print Assumptions C16_utf8_marked_refuted.
Print Assumptions C16_witnesses_repaired.
Print Assumptions C16_no_surrogate_cell.
Print Assumptions C16_decode_never_fails.
Print Assumptions C16_reencode_stable.
Print Assumptions C16_reencode_stable_tables.
Print Assumptions C16_agrees_with_published.
Print Assumptions C16_beyond_published.
Print Assumptions C16_ascii_latin1_identity.
Print Assumptions C16_repertoire_rt.
Print Assumptions C16_encode_decode_filter.
Print Assumptions C16_held_is_repertoire.
Print Assumptions C16_extract_shown_text.
Print Assumptions C16_example_text.
Print Assumptions C16_example_tables.
Print Assumptions C16_example_shown.
Print Assumptions C16_extract_shown_blocks.
Print Assumptions C16_example_blocks.

(* ------------------------------------------------------------------------------------------
   (3') "... also after the document is saved and reloaded": composition with C01_full
   (proofs in Proofs/ComposeText.v).  The extraction model starts from a page's fonts and decoded operations;
   [doc_page decomp decode fuel objects pid] is that view of a Document: Document::get_page_fonts and
   Document::get_page_content as modelled in Model/Query.v (C13's model), then Content::decode -- [decode] and the
   stream decoder [decomp] are ANY functions.  [savable], [known_deep], [small_file] are C01's domain, [load] / [save]
   the models C01_full is about.  [content_normal]: the dictionaries of the page's content streams hold no integral
   real (a decode parameter written 12.0 is ignored as a real and obeyed once reloaded as an integer).
   [unreferenced xt d]: nothing for the table format; for the stream format no object mentions the identifier
   [xref_id d] = (max(max_id, largest number) + 1, 0), under which the loader keeps the cross-reference stream (a
   Contents reference dangling there would resolve to that stream after the reload).
   The section imports are local to it.
   ------------------------------------------------------------------------------------------ *)
From LV Require Model.Save Model.Xref Model.Loader Spec.SaveSpec Proofs.ComposeReload Proofs.ComposeText.
Section AfterSaveAndReload.
  Import Model.Save Model.Xref Model.Loader Spec.SaveSpec Proofs.ComposeReload Proofs.ComposeText.

  (* the page of C16_extract_shown_text, both cross-reference formats: the written file loads, the loaded document
     has a page view again, and the text extracted from it is the text shown *)
  Theorem C16_extract_after_save_load :
    forall decomp decode xt d fuel pid font t fname size ps,
      savable d -> known_deep d = false -> small_file xt d -> unreferenced xt d ->
      content_normal fuel (d_objects d) pid ->
      doc_page decomp decode fuel (d_objects d) pid = Some (page_showing fname font size t ps) ->
      get_font_encoding font = Ok (EncOneByte t) ->
      Forall (piece_over (in_repertoire t)) ps ->
      exists d' p',
        load (so_bytes (save xt d)) = LOk d' (xtype_of xt) /\
        doc_page decomp decode fuel (d_objects d') pid = Some p' /\
        extract_text [p'] [1] = Ok (shown_text ps).
  Proof. exact extract_shown_after_save_load. Qed.

  (* ... and the page of C16_extract_shown_blocks *)
  Theorem C16_extract_blocks_after_save_load :
    forall decomp decode xt d fuel pid font t inside fname size bss,
      savable d -> known_deep d = false -> small_file xt d -> unreferenced xt d ->
      content_normal fuel (d_objects d) pid ->
      doc_page decomp decode fuel (d_objects d) pid = Some (page_blocks inside fname font size t bss) ->
      get_font_encoding font = Ok (EncOneByte t) ->
      Forall (Forall (piece_over (in_repertoire t))) bss -> Forall block_shows bss ->
      exists d' p',
        load (so_bytes (save xt d)) = LOk d' (xtype_of xt) /\
        doc_page decomp decode fuel (d_objects d') pid = Some p' /\
        extract_text [p'] [1] = Ok (shown_blocks bss).
  Proof. exact extract_blocks_after_save_load. Qed.

  (* whatever the pages hold (any fonts, any operations, any page numbers): the reloaded document extracts exactly
     the chunks and the text the document in memory extracts -- the harness verdict for arbitrary operation lists *)
  Theorem C16_extract_same_after_save_load :
    forall decomp decode xt d fuel pids pages nums,
      savable d -> known_deep d = false -> small_file xt d -> unreferenced xt d ->
      Forall (fun pid => lookup (d_objects d) pid <> None /\ content_normal fuel (d_objects d) pid) pids ->
      Forall2 (fun pid p => doc_page decomp decode fuel (d_objects d) pid = Some p) pids pages ->
      exists d' pages',
        load (so_bytes (save xt d)) = LOk d' (xtype_of xt) /\
        Forall2 (fun pid p => doc_page decomp decode fuel (d_objects d') pid = Some p) pids pages' /\
        extract_text_chunks pages' nums = extract_text_chunks pages nums /\
        extract_text pages' nums = extract_text pages nums.
  Proof. exact extract_same_after_save_load. Qed.

  (* non-vacuity: a five-object document (catalog, page tree, page with an inline Resources dictionary, WinAnsi font,
     content stream) meets every hypothesis in both formats; its page view is the page of C16_example_shown *)
  Theorem C16_example_after_save_load :
    get_font_encoding ex_font = Ok (EncOneByte ex_table) /\
    Forall (piece_over (in_repertoire ex_table)) ex_pieces /\
    savable ex_text_doc /\ known_deep ex_text_doc = false /\
    small_file XTable ex_text_doc /\ small_file XStream ex_text_doc /\
    unreferenced XTable ex_text_doc /\ unreferenced XStream ex_text_doc /\
    content_normal 200 (d_objects ex_text_doc) (3, 0) /\
    doc_page (fun _ _ => None) ex_decode 200 (d_objects ex_text_doc) (3, 0)
      = Some (page_showing (bs "F1") ex_font (OInt 12) ex_table ex_pieces) /\
    xref_id ex_text_doc = (6, 0).
  Proof. exact ex_text_after_save_load. Qed.
End AfterSaveAndReload.

Print Assumptions C16_extract_after_save_load.
Print Assumptions C16_extract_blocks_after_save_load.
Print Assumptions C16_extract_same_after_save_load.
Print Assumptions C16_example_after_save_load.

(* ------------------------------------------------------------------------------------------
   (3'') the two parameters of (3') instantiated, and Document::compress() before the save.
   (a) [decode] := C14's model of Content::decode ([content_decode] = Model/Parser.v [decode_content] on pairs
       (operator, operands); [content_encode] = Model/Writer.v [encode_content], i.e. Content::encode).  By C14_rt the
       text-showing operations of (3), WRITTEN with Content::encode, decode to themselves (the font size in normal
       form), so the theorems start from the operations the user wrote: [page_written decomp fuel objects pid fname font
       ops] = get_page_fonts returns exactly that font and get_page_content returns Content::encode of [ops].
       Domain: [operand_dom size] (the size operand is a direct object C14 round-trips: i64 / finite real / ..., not a
       reference, nested at most MAX_NESTING) and [piece_i64] (a TJ adjustment is an Object::Integer, an i64).
   (b) [decomp] := [stream_decomp inflate lzw] = C09's model of Stream::decompressed_content around a zlib decoder and
       an LZW decoder, and [compress_doc deflate nocomp d] = Document::compress (C09's [doc_compress]: every stream that
       allows compression and gets more than COMPRESS_SLACK bytes shorter is Flate-compressed).  Assumptions about
       third-party code, stated as in C09: [implements_inflate inflate] (absent in the [gallina] instance, where lopdf's
       filter code runs on the RFC 1950/1951 decoder of Spec/Inflate.v) and [zlib_compressor deflate objects]: for the
       content c of every stream object, [valid_zlib_output deflate c] (flate2's compressor writes a zlib stream for its
       input).
       C01's domain ([savable], [known_deep], [unreferenced], [content_normal]) is asked of the document the user
       holds; that Document::compress keeps a document inside it is C16_compress_keeps_domain.  Only [small_file] --
       the size of the file that is written -- is asked of the compressed document (the file is normally smaller, but the
       dictionary grows by /Filter /FlateDecode while the content shrinks by at least COMPRESS_SLACK + 1 = 20 bytes: not
       derived).
   ------------------------------------------------------------------------------------------ *)
From LV Require Spec.StreamCodecSpec Spec.ZlibStoredSpec Proofs.InflateProofs Proofs.ObjectRtProofs Proofs.ComposeTextDecode
  Proofs.ComposeTextCompress Proofs.ComposeTextCompressDomain.
Section DecodeAndCompress.
  Import Model.Save Model.Xref Model.Loader Spec.SaveSpec Proofs.ComposeReload Proofs.ComposeText.
  Import Spec.StreamCodecSpec Proofs.ObjectRtProofs Proofs.ComposeTextDecode Proofs.ComposeTextCompress
    Proofs.ComposeTextCompressDomain.

  (* Content::decode (Content::encode ops) = ops for the operations that show text (instance of C14_rt) *)
  Theorem C16_decode_written_ops :
    forall fname size t ps, operand_dom size -> Forall piece_i64 ps ->
      content_decode (content_encode (show_ops fname size t ps)) = Some (show_ops fname (norm_obj size) t ps).
  Proof. exact decode_show_ops. Qed.

  Theorem C16_decode_written_blocks :
    forall inside fname size t bss, operand_dom size -> Forall (Forall piece_i64) bss ->
      content_decode (content_encode (blocks_ops inside fname size t bss)) = Some (blocks_ops inside fname (norm_obj size) t bss).
  Proof. exact decode_blocks_ops. Qed.

  (* (a) from the operations written, with the real Content::decode; any stream decoder *)
  Theorem C16_extract_written_after_save_load :
    forall decomp xt d fuel pid font t fname size ps,
      savable d -> known_deep d = false -> small_file xt d -> unreferenced xt d ->
      content_normal fuel (d_objects d) pid ->
      page_written decomp fuel (d_objects d) pid fname font (show_ops fname size t ps) ->
      operand_dom size -> Forall piece_i64 ps ->
      get_font_encoding font = Ok (EncOneByte t) ->
      Forall (piece_over (in_repertoire t)) ps ->
      exists d' p',
        load (so_bytes (save xt d)) = LOk d' (xtype_of xt) /\
        doc_page decomp content_decode fuel (d_objects d') pid = Some p' /\
        extract_text [p'] [1] = Ok (shown_text ps).
  Proof. exact extract_written_after_save_load. Qed.

  Theorem C16_extract_written_blocks_after_save_load :
    forall decomp xt d fuel pid font t inside fname size bss,
      savable d -> known_deep d = false -> small_file xt d -> unreferenced xt d ->
      content_normal fuel (d_objects d) pid ->
      page_written decomp fuel (d_objects d) pid fname font (blocks_ops inside fname size t bss) ->
      operand_dom size -> Forall (Forall piece_i64) bss ->
      get_font_encoding font = Ok (EncOneByte t) ->
      Forall (Forall (piece_over (in_repertoire t))) bss -> Forall block_shows bss ->
      exists d' p',
        load (so_bytes (save xt d)) = LOk d' (xtype_of xt) /\
        doc_page decomp content_decode fuel (d_objects d') pid = Some p' /\
        extract_text [p'] [1] = Ok (shown_blocks bss).
  Proof. exact extract_written_blocks_after_save_load. Qed.

  (* the page view does not change under Document::compress: same fonts, same content bytes
     ([compressible]: distinct dictionary keys and a zlib stream from the compressor, for every stream object) *)
  Theorem C16_page_unchanged_by_compress :
    forall inflate lzw deflate, implements_inflate inflate ->
    forall nocomp m fuel pid,
      compressible deflate m ->
      Query.get_page_content (stream_decomp inflate lzw) fuel (StreamFilt.doc_compress deflate nocomp m) pid
        = Query.get_page_content (stream_decomp inflate lzw) fuel m pid /\
      Query.get_page_fonts fuel (StreamFilt.doc_compress deflate nocomp m) pid = Query.get_page_fonts fuel m pid.
  Proof. exact page_content_compress. Qed.

  (* Document::compress keeps a document inside the domain of the save + load composition *)
  Theorem C16_compress_keeps_domain :
    forall deflate nocomp d, savable d ->
      savable (compress_doc deflate nocomp d) /\
      (known_deep d = false -> known_deep (compress_doc deflate nocomp d) = false) /\
      (forall xt, unreferenced xt d -> unreferenced xt (compress_doc deflate nocomp d)) /\
      (forall fuel pid, zlib_compressor deflate (d_objects d) ->
         content_normal fuel (d_objects d) pid -> content_normal fuel (d_objects (compress_doc deflate nocomp d)) pid).
  Proof.
    intros deflate nocomp d S. split; [apply savable_compress; exact S|].
    split; [apply known_deep_compress; exact S|].
    split; [intros xt; apply unreferenced_compress; exact S|].
    intros fuel pid Z.
    apply (content_normal_compress gallina_inflate gallina_lzw deflate FilterProofsCodec.gallina_inflate_implements nocomp d fuel pid S Z).
  Qed.

  (* (a) + (b): written operations -> Document::compress -> save -> load -> extract_text *)
  Theorem C16_extract_after_compress_save_load :
    forall inflate lzw deflate, implements_inflate inflate ->
    forall nocomp xt d fuel pid font t fname size ps,
      savable d -> known_deep d = false -> unreferenced xt d -> content_normal fuel (d_objects d) pid ->
      small_file xt (compress_doc deflate nocomp d) ->
      zlib_compressor deflate (d_objects d) ->
      page_written (stream_decomp inflate lzw) fuel (d_objects d) pid fname font (show_ops fname size t ps) ->
      operand_dom size -> Forall piece_i64 ps ->
      get_font_encoding font = Ok (EncOneByte t) ->
      Forall (piece_over (in_repertoire t)) ps ->
      exists d' p',
        load (so_bytes (save xt (compress_doc deflate nocomp d))) = LOk d' (xtype_of xt) /\
        doc_page (stream_decomp inflate lzw) content_decode fuel (d_objects d') pid = Some p' /\
        extract_text [p'] [1] = Ok (shown_text ps).
  Proof. exact extract_written_after_compress_save_load_dom. Qed.

  Theorem C16_extract_blocks_after_compress_save_load :
    forall inflate lzw deflate, implements_inflate inflate ->
    forall nocomp xt d fuel pid font t inside fname size bss,
      savable d -> known_deep d = false -> unreferenced xt d -> content_normal fuel (d_objects d) pid ->
      small_file xt (compress_doc deflate nocomp d) ->
      zlib_compressor deflate (d_objects d) ->
      page_written (stream_decomp inflate lzw) fuel (d_objects d) pid fname font (blocks_ops inside fname size t bss) ->
      operand_dom size -> Forall (Forall piece_i64) bss ->
      get_font_encoding font = Ok (EncOneByte t) ->
      Forall (Forall (piece_over (in_repertoire t))) bss -> Forall block_shows bss ->
      exists d' p',
        load (so_bytes (save xt (compress_doc deflate nocomp d))) = LOk d' (xtype_of xt) /\
        doc_page (stream_decomp inflate lzw) content_decode fuel (d_objects d') pid = Some p' /\
        extract_text [p'] [1] = Ok (shown_blocks bss).
  Proof. exact extract_written_blocks_after_compress_save_load_dom. Qed.

  (* lopdf's filter code on the Gallina decoders: the only assumption about third-party code left is the compressor's *)
  Theorem C16_extract_after_compress_save_load_gallina :
    forall deflate nocomp xt d fuel pid font t fname size ps,
      savable d -> known_deep d = false -> unreferenced xt d -> content_normal fuel (d_objects d) pid ->
      small_file xt (compress_doc deflate nocomp d) ->
      zlib_compressor deflate (d_objects d) ->
      page_written (stream_decomp gallina_inflate gallina_lzw) fuel (d_objects d) pid fname font (show_ops fname size t ps) ->
      operand_dom size -> Forall piece_i64 ps ->
      get_font_encoding font = Ok (EncOneByte t) ->
      Forall (piece_over (in_repertoire t)) ps ->
      exists d' p',
        load (so_bytes (save xt (compress_doc deflate nocomp d))) = LOk d' (xtype_of xt) /\
        doc_page (stream_decomp gallina_inflate gallina_lzw) content_decode fuel (d_objects d') pid = Some p' /\
        extract_text [p'] [1] = Ok (shown_text ps).
  Proof.
    intro deflate.
    exact (extract_written_after_compress_save_load_dom gallina_inflate gallina_lzw deflate FilterProofsCodec.gallina_inflate_implements).
  Qed.

  (* ... and with a stored-block compressor (Spec/ZlibStoredSpec.v, any block size) NO assumption about third-party code
     is left: inflate (zlib_stored k c) = Some c is C09_inflate_stored_any_block_size.  (Such a compressor never makes a
     stream shorter, so Document::compress keeps every stream: the instance shows that the assumption of the general
     theorem is about the compressor's output only.) *)
  Theorem C16_extract_after_compress_save_load_stored :
    forall k nocomp xt d fuel pid font t fname size ps,
      savable d -> known_deep d = false -> unreferenced xt d -> content_normal fuel (d_objects d) pid ->
      small_file xt (compress_doc (ZlibStoredSpec.zlib_stored k) nocomp d) ->
      page_written (stream_decomp gallina_inflate gallina_lzw) fuel (d_objects d) pid fname font (show_ops fname size t ps) ->
      operand_dom size -> Forall piece_i64 ps ->
      get_font_encoding font = Ok (EncOneByte t) ->
      Forall (piece_over (in_repertoire t)) ps ->
      exists d' p',
        load (so_bytes (save xt (compress_doc (ZlibStoredSpec.zlib_stored k) nocomp d))) = LOk d' (xtype_of xt) /\
        doc_page (stream_decomp gallina_inflate gallina_lzw) content_decode fuel (d_objects d') pid = Some p' /\
        extract_text [p'] [1] = Ok (shown_text ps).
  Proof.
    intros k nocomp xt d fuel pid font t fname size ps S K U Hn Hsm.
    apply (extract_written_after_compress_save_load_dom gallina_inflate gallina_lzw (ZlibStoredSpec.zlib_stored k)
             FilterProofsCodec.gallina_inflate_implements nocomp xt d fuel pid font t fname size ps S K U Hn Hsm).
    intros id sd c _. apply InflateProofs.inflate_zlib_stored.
  Qed.

  (* ANY pages, ANY Content::decode: Document::compress + save + load changes no extracted chunk and no extracted text
     (the harness verdict "after compress + save and reload" for arbitrary operation lists) *)
  Theorem C16_extract_same_after_compress_save_load :
    forall inflate lzw deflate, implements_inflate inflate ->
    forall decode nocomp xt d fuel pids pages nums,
      savable d -> known_deep d = false -> unreferenced xt d ->
      Forall (fun pid => lookup (d_objects d) pid <> None /\ content_normal fuel (d_objects d) pid) pids ->
      small_file xt (compress_doc deflate nocomp d) ->
      zlib_compressor deflate (d_objects d) ->
      Forall2 (fun pid p => doc_page (stream_decomp inflate lzw) decode fuel (d_objects d) pid = Some p) pids pages ->
      exists d' pages',
        load (so_bytes (save xt (compress_doc deflate nocomp d))) = LOk d' (xtype_of xt) /\
        Forall2 (fun pid p => doc_page (stream_decomp inflate lzw) decode fuel (d_objects d') pid = Some p) pids pages' /\
        extract_text_chunks pages' nums = extract_text_chunks pages nums /\
        extract_text pages' nums = extract_text pages nums.
  Proof. exact extract_same_after_compress_save_load_dom. Qed.

  (* ANY operations written with Content::encode that are plain operations of C14's domain ([plain_ok]: operator over the
     operator alphabet and not null / true / false, operands direct objects other than references nested at most MAX_NESTING,
     BI not alone) -- any operators, any order, any number of font selections: after compress + save + load extract_text
     returns what it makes of those operations ([norm_pair]: reals in C14's normal form) *)
  Theorem C16_extract_any_written_after_compress_save_load :
    forall inflate lzw deflate, implements_inflate inflate ->
    forall nocomp xt d fuel pid fname font ops nums,
      savable d -> known_deep d = false -> unreferenced xt d -> content_normal fuel (d_objects d) pid ->
      small_file xt (compress_doc deflate nocomp d) ->
      zlib_compressor deflate (d_objects d) ->
      page_written (stream_decomp inflate lzw) fuel (d_objects d) pid fname font ops -> Forall plain_ok ops ->
      exists d' p',
        load (so_bytes (save xt (compress_doc deflate nocomp d))) = LOk d' (xtype_of xt) /\
        doc_page (stream_decomp inflate lzw) content_decode fuel (d_objects d') pid = Some p' /\
        extract_text_chunks [p'] nums = extract_text_chunks [{| p_fonts := [(fname, font)]; p_ops := map norm_pair ops |}] nums /\
        extract_text [p'] nums = extract_text [{| p_fonts := [(fname, font)]; p_ops := map norm_pair ops |}] nums.
  Proof. exact extract_any_written_after_compress_save_load_dom. Qed.
End DecodeAndCompress.

Print Assumptions C16_decode_written_ops.
Print Assumptions C16_decode_written_blocks.
Print Assumptions C16_extract_written_after_save_load.
Print Assumptions C16_extract_written_blocks_after_save_load.
Print Assumptions C16_page_unchanged_by_compress.
Print Assumptions C16_compress_keeps_domain.
Print Assumptions C16_extract_after_compress_save_load.
Print Assumptions C16_extract_blocks_after_compress_save_load.
Print Assumptions C16_extract_after_compress_save_load_gallina.
Print Assumptions C16_extract_after_compress_save_load_stored.
Print Assumptions C16_extract_same_after_compress_save_load.
Print Assumptions C16_extract_any_written_after_compress_save_load.

(* non-vacuity of (3''): a five-object document whose page content is Content::encode of text-showing operations (187
   bytes); a compressor that answers that content with a genuine deflate stream (57 bytes, fixed Huffman codes, written by
   zlib at level 9) and everything else with stored blocks, so [valid_zlib_output] holds for EVERY input and
   Document::compress really rewrites the content stream (Filter FlateDecode, Length 57).  Both the document and the
   compressed document meet C01's domain in both cross-reference formats, and the page view of the compressed document
   -- lopdf's filter code on the Gallina inflate, then C14's Content::decode -- is the page of C16_extract_shown_text. *)
From LV Require Gen.Filters Proofs.ComposeTextCompressDomain Proofs.ComposeTextExample.
Section DecodeAndCompressExample.
  Import Model.Save Model.Xref Model.Loader Spec.SaveSpec Proofs.ComposeReload Proofs.ComposeText.
  Import Spec.StreamCodecSpec Proofs.ObjectRtProofs Proofs.ComposeTextDecode Proofs.ComposeTextCompress Proofs.ComposeTextExample.

  Theorem C16_example_after_compress_save_load :
    (forall c, valid_zlib_output ex_deflate c) /\
    compressible ex_deflate (d_objects ex_cdoc) /\ ComposeTextCompressDomain.zlib_compressor ex_deflate (d_objects ex_cdoc) /\
    savable ex_cdoc /\ known_deep ex_cdoc = false /\ small_file XTable ex_cdoc /\ small_file XStream ex_cdoc /\
    unreferenced XTable ex_cdoc /\ unreferenced XStream ex_cdoc /\
    content_normal 200 (d_objects ex_cdoc) (3, 0) /\
    page_written (stream_decomp gallina_inflate gallina_lzw) 200 (d_objects ex_cdoc) (3, 0) (bs "F1") ex_font ex_long_ops /\
    length (content_encode ex_long_ops) = 187%nat /\
    lookup (d_objects (compress_doc ex_deflate [] ex_cdoc)) (5, 0)
      = Some (OStream [(K_Length, OInt 57); (K_Filter, OName Filters.COMPRESS_FILTER)] ex_long_z) /\
    savable (compress_doc ex_deflate [] ex_cdoc) /\ known_deep (compress_doc ex_deflate [] ex_cdoc) = false /\
    small_file XTable (compress_doc ex_deflate [] ex_cdoc) /\ small_file XStream (compress_doc ex_deflate [] ex_cdoc) /\
    unreferenced XTable (compress_doc ex_deflate [] ex_cdoc) /\ unreferenced XStream (compress_doc ex_deflate [] ex_cdoc) /\
    content_normal 200 (d_objects (compress_doc ex_deflate [] ex_cdoc)) (3, 0) /\
    operand_dom (OInt 12) /\ Forall piece_i64 ex_long_pieces /\
    get_font_encoding ex_font = Ok (EncOneByte ex_table) /\
    Forall (piece_over (in_repertoire ex_table)) ex_long_pieces /\
    doc_page (stream_decomp gallina_inflate gallina_lzw) content_decode 200 (d_objects (compress_doc ex_deflate [] ex_cdoc)) (3, 0)
      = Some (page_showing (bs "F1") ex_font (OInt 12) ex_table ex_long_pieces).
  Proof.
    destruct ex_compress_after_save_load as (V & H). split; [exact V|]. destruct H as (C & H). split; [exact C|].
    split; [intros id sd c _; apply V | exact H].
  Qed.
End DecodeAndCompressExample.

Print Assumptions C16_example_after_compress_save_load.
