(* Props/C12.v -- property C12: page enumeration is the depth-first order of the page tree.
   Statements only; proofs live in Proofs/PageTreeProofs.v. *)
From LV Require Import Base.Bytes Model.Obj Model.DocQ Model.PageTree Model.PageTreeHint Spec.Dfs Spec.DfsCounts Gen.Consts
  Proofs.PageTreeProofs Proofs.PageTreeHintProofs.

(* (1) On every document whose catalog points to a represented page tree with pairwise distinct
   nodes and height within the limit, enumeration is exactly the DFS leaf order. *)
Theorem C12_dfs :
  forall d cat i g ks,
    catalog d = Some cat ->
    dict_get cat K_Pages = Some (ORef i g) ->
    tree_wf d (PNode (i, g) ks) ->
    (N.of_nat (height (PNode (i, g) ks)) <= PAGE_TREE_DEPTH_LIMIT + 1)%N ->
    page_iter d = leaves (PNode (i, g) ks).
Proof. exact page_iter_dfs. Qed.

(* (2) Numbering is 1..n in the same order. *)
Theorem C12_numbered :
  forall d, get_pages d = numbered 1 (page_iter d) /\
            map snd (get_pages d) = page_iter d /\
            map fst (get_pages d) = map N.of_nat (seq 1 (length (page_iter d))).
Proof. exact get_pages_numbered. Qed.

(* (3) On ANY document (cyclic, ill-typed, dangling): the enumeration is finite, bounded by the
   number of objects, and yields only ids of Page dictionaries. *)
Theorem C12_total :
  forall d,
    length (page_iter d) <= length (d_objects d) /\
    Forall (fun id => exists pd, get_dictionary (d_objects d) id = Some pd /\ get_type pd = Some K_Page)
           (page_iter d).
Proof.
  intro d. destruct (page_iter_total d) as [H1 H2]. split; [exact H1|].
  eapply Forall_impl; [|exact H2]. intros id H. apply node_type_page_spec. exact H.
Qed.

(* (4) size_hint, observed on the fresh iterator and after every yielded page, on ANY document: the pages the
   observation records are page_iter; the promised upper bound covers the pages still to come at every
   observed state (so get_pages, which sizes its collection from the hint, and adapters relying on the
   bound are safe), and the lower bound never exceeds the upper bound. *)
Theorem C12_size_hint_sound :
  forall d,
    (fst (fst (page_hints d)) <= snd (fst (page_hints d)))%N /\
    (N.of_nat (length (snd (page_hints d))) <= snd (fst (page_hints d)))%N /\
    steps_ok (snd (page_hints d)) /\
    map fst (snd (page_hints d)) = page_iter d.
Proof. exact page_hints_ok. Qed.

(* (5) ... and on a represented tree (distinct nodes, height within the limit) whose sections all carry the
   right Count, the lower bound is exact at every observed state: the fresh iterator announces n pages and
   after the k-th page n-k (count-down n, n-1, .., 0).  |objects| <= usize::MAX is guaranteed by the type
   of objects.len(). *)
Theorem C12_size_hint_countdown :
  forall d cat i g ks,
    catalog d = Some cat ->
    dict_get cat K_Pages = Some (ORef i g) ->
    tree_wf d (PNode (i, g) ks) ->
    Forall (counts_exact (d_objects d)) ks ->
    (N.of_nat (height (PNode (i, g) ks)) <= PAGE_TREE_DEPTH_LIMIT + 1)%N ->
    (N.of_nat (length (d_objects d)) <= USIZE_MAX)%N ->
    fst (fst (page_hints d)) :: lowers (snd (page_hints d)) = countdown (S (length (leaves (PNode (i, g) ks)))).
Proof. exact hint_countdown. Qed.

Theorem C12_example_size_hint :
  exists cat, catalog ex_doc_counts = Some cat /\ dict_get cat K_Pages = Some (ORef 2 0) /\
              tree_wf ex_doc_counts ex_tree /\
              Forall (counts_exact (d_objects ex_doc_counts))
                     [PLeaf (3,0)%N; PNode (4,0)%N [PLeaf (5,0)%N]; PLeaf (6,0)%N] /\
              page_hints ex_doc_counts = ((3, 7), [((3,0), (2, 6)); ((5,0), (1, 4)); ((6,0), (0, 3))])%N.
Proof. exact ex_counts. Qed.

(* non-vacuity *)
Theorem C12_example :
  exists cat, catalog ex_doc = Some cat /\ dict_get cat K_Pages = Some (ORef 2 0) /\
              tree_wf ex_doc ex_tree /\
              (N.of_nat (height ex_tree) <= PAGE_TREE_DEPTH_LIMIT + 1)%N /\
              page_iter ex_doc = [(3,0); (5,0); (6,0)]%N.
Proof. exact ex_hyps. Qed.

Print Assumptions C12_dfs.
Print Assumptions C12_numbered.
Print Assumptions C12_total.
Print Assumptions C12_size_hint_sound.
Print Assumptions C12_size_hint_countdown.
Print Assumptions C12_example_size_hint.
Print Assumptions C12_example.

(* ------------------------------------------------------------------------------------------
   After save and reload (composition with C01_full; proofs in Proofs/ComposeReload.v).
   [savable], [known_deep], [small_file] are C01's domain (Spec/SaveSpec.v), [load] / [save] the models of
   Reader::read / Document::save_to C01_full is about.  The section imports are local to it.
   ------------------------------------------------------------------------------------------ *)
From LV Require Model.Save Model.Xref Model.Loader Spec.SaveSpec Proofs.ComposeReload.
Section AfterSaveAndReload.
  Import Model.Save Model.Xref Model.Loader Spec.SaveSpec Proofs.ComposeReload.

  (* (6) cross-reference TABLE format, EVERY document of C01's domain -- cyclic, ill-typed and dangling page trees
     included: the file save writes loads to a document with the same page enumeration.  (The reloaded objects are
     the saved ones up to a real becoming an integer; the iterator reads references, Type names and Kids arrays,
     never Count, and objects.len() is unchanged.) *)
  Theorem C12_after_save_load_table :
    forall d, savable d -> known_deep d = false -> small_file XTable d ->
      exists d', load (so_bytes (save XTable d)) = LOk d' XTTable /\
                 page_iter d' = page_iter d /\ get_pages d' = get_pages d.
  Proof. exact c12_after_save_load_table. Qed.

  (* (7) either format, page trees meeting the hypotheses of (1): still exactly the depth-first leaves *)
  Theorem C12_after_save_load :
    forall xt d cat i g ks,
      savable d -> known_deep d = false -> small_file xt d ->
      catalog d = Some cat ->
      dict_get cat K_Pages = Some (ORef i g) ->
      tree_wf d (PNode (i, g) ks) ->
      (N.of_nat (height (PNode (i, g) ks)) <= PAGE_TREE_DEPTH_LIMIT + 1)%N ->
      exists d', load (so_bytes (save xt d)) = LOk d' (xtype_of xt) /\
                 page_iter d' = leaves (PNode (i, g) ks) /\ page_iter d' = page_iter d /\ get_pages d' = get_pages d.
  Proof. exact c12_after_save_load. Qed.

  (* (8) why (7) has the hypotheses of (1) in the cross-reference STREAM format: the loader keeps the cross-reference
     stream as an object, so objects.len() -- the iterator's budget -- is one larger after the reload; on a cyclic tree
     (node 2 lists page 3 and itself) the walk stops when the budget is used up and so yields the page once more.
     Both enumerations terminate and yield only pages, as the property demands of malformed trees. *)
  Theorem C12_stream_reload_budget_witness :
    savable cyc_doc /\ known_deep cyc_doc = false /\ small_file XStream cyc_doc /\ cycles_fit XStream cyc_doc /\
    load (so_bytes (save XStream cyc_doc)) = LOk (reloaded XStream cyc_doc) XTStream /\
    page_iter cyc_doc = [(3, 0); (3, 0)]%N /\
    page_iter (reloaded XStream cyc_doc) = [(3, 0); (3, 0); (3, 0)]%N /\
    page_iter (reloaded XTable cyc_doc) = [(3, 0); (3, 0)]%N.
  Proof. exact stream_cyclic_witness. Qed.
End AfterSaveAndReload.

Print Assumptions C12_after_save_load_table.
Print Assumptions C12_after_save_load.
Print Assumptions C12_stream_reload_budget_witness.
