(* Props/C12.v -- property C12: page enumeration is the depth-first order of the page tree.
   Statements only; proofs live in Proofs/PageTreeProofs.v. *)
From LV Require Import Base.Bytes Model.Obj Model.DocQ Model.PageTree Spec.Dfs Gen.Consts
  Proofs.PageTreeProofs.

(* (1) On every document whose catalog points to a represented page tree with pairwise distinct
   nodes and height within the limit, enumeration is exactly the DFS leaf order. *)
Theorem C12_dfs :
  forall d cat i g ks,
    catalog d = Some cat ->
    dict_get cat K_Pages = Some (ORef i g) ->
    tree_wf d (PNode (i, g) ks) ->
    (N.of_nat (height (PNode (i, g) ks)) <= PAGE_TREE_DEPTH_LIMIT + 1)%N ->
    page_iter d = leaves (PNode (i, g) ks).
Proof. exact page_iter_dfs. Qed.

(* (2) Numbering is 1..n in the same order. *)
Theorem C12_numbered :
  forall d, get_pages d = numbered 1 (page_iter d) /\
            map snd (get_pages d) = page_iter d /\
            map fst (get_pages d) = map N.of_nat (seq 1 (length (page_iter d))).
Proof. exact get_pages_numbered. Qed.

(* (3) On ANY document (cyclic, ill-typed, dangling): the enumeration is finite, bounded by the
   number of objects, and yields only ids of Page dictionaries. *)
Theorem C12_total :
  forall d,
    length (page_iter d) <= length (d_objects d) /\
    Forall (fun id => exists pd, get_dictionary (d_objects d) id = Some pd /\ get_type pd = Some K_Page)
           (page_iter d).
Proof.
  intro d. destruct (page_iter_total d) as [H1 H2]. split; [exact H1|].
  eapply Forall_impl; [|exact H2]. intros id H. apply node_type_page_spec. exact H.
Qed.

(* non-vacuity *)
Theorem C12_example :
  exists cat, catalog ex_doc = Some cat /\ dict_get cat K_Pages = Some (ORef 2 0) /\
              tree_wf ex_doc ex_tree /\
              (N.of_nat (height ex_tree) <= PAGE_TREE_DEPTH_LIMIT + 1)%N /\
              page_iter ex_doc = [(3,0); (5,0); (6,0)]%N.
Proof. exact ex_hyps. Qed.

Print Assumptions C12_dfs.
Print Assumptions C12_numbered.
Print Assumptions C12_total.
Print Assumptions C12_example.
