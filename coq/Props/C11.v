(* Props/C11.v -- property C11: editing operations keep the document sound.
   Statements only; proofs live in Proofs/EditProofs*.v.  The model is Model/Edit.v:
   [sstep O s op] is one public editing call on the whole Document ([step O d op] for the operations that only touch the
   object graph), [srun_ops O s ops] a whole program. *)
From LV Require Import Base.Bytes Model.Obj Model.DocQ Model.PageTree Model.Traverse Model.Edit
  Spec.RenumberSpec Spec.AbstractDoc Proofs.EditProofs Proofs.EditProofsEx Proofs.EditProofsTrav
  Proofs.EditProofsDelete Proofs.EditProofsKF Proofs.EditProofsContent Model.EditV0 Model.Renumber
  Proofs.EditProofsBm Proofs.EditProofsOutline.
From LV Require Model.Outline Spec.OutlineSpec Proofs.OutlineProofs.

(* ------------------------------------------------------------------------------------------ *)
(* Allocation.  The state of a program is the whole Document: [state] = the base document (objects, trailer, max_id)
   plus the bookmark fields; [sstep O s o] is one public call, [srun_ops O s ops] a whole program over
   [sop] = SDoc <any operation of Model/Edit.v's op, incl. save> | SAddBookmark .. | SBuildOutline.
   [alloc_ok d]: max_id is at least every object number in use.  [doc_wf d]: the representation invariant of the
   BTreeMap (keys strictly increasing).  [sprog_dom]: every set_object of the program targets an id at or below the
   cursor at that moment ("replace" an object that exists or was handed out), every renumber_objects is inside the
   domain proved for C10 (bookmark targets included).  No hypothesis on the bookmark table: build_outline is covered
   for every table.  For EVERY program and every interleaving of the operations: *)

(* (1) the invariant survives the whole program *)
Theorem C11_alloc_invariant :
  forall O ops s, doc_wf (Outline.base s) -> alloc_ok (Outline.base s) -> sprog_dom O s ops ->
    doc_wf (Outline.base (srun_ops O s ops)) /\ alloc_ok (Outline.base (srun_ops O s ops)).
Proof. exact srun_ops_inv. Qed.

(* (2) an id handed out by new_object_id / add_object (directly or inside any program step that returns an id) lies above
   the cursor, so under the invariant it collides with no existing object -- not even with one of another generation --
   and the cursor moves to it *)
Theorem C11_alloc_fresh :
  forall O s o s' id, sstep O s o = (s', OId id) ->
    (d_max_id (Outline.base s) < fst id)%N /\ d_max_id (Outline.base s') = fst id /\ snd id = 0%N /\
    (alloc_ok (Outline.base s) -> forall k, has_obj (d_objects (Outline.base s)) k -> fst k <> fst id).
Proof. exact s_alloc_fresh. Qed.

(* (2') build_outline, on EVERY bookmark table: it reserves the numbers the cursor passes over ([reserved]); every object it
   writes carries a reserved number, all of them lie above the old cursor -- so under the invariant no existing object is
   overwritten or altered --, the returned root is max_id + 1, trailer and bookmark fields are unchanged, and when it
   returns None or panics (an object number would reach 2^32) nothing at all changed *)
Theorem C11_frame_build_outline :
  forall O s s' r, sstep O s SBuildOutline = (s', r) ->
    let d := Outline.base s in let d' := Outline.base s' in
    d_trailer d' = d_trailer d /\ (d_max_id d <= d_max_id d')%N /\
    Outline.bookmark_table s' = Outline.bookmark_table s /\ Outline.bookmarks s' = Outline.bookmarks s /\
    (forall x, has_obj (d_objects d') x -> ~ has_obj (d_objects d) x -> In x (reserved d d')) /\
    (forall x, In x (reserved d d') -> (d_max_id d < fst x)%N) /\
    (alloc_ok d -> forall x, has_obj (d_objects d) x -> lookup (d_objects d') x = lookup (d_objects d) x) /\
    (forall id, r = ORoot (Some id) -> id = ((d_max_id d + 1)%N, 0%N) /\ In id (reserved d d')) /\
    (r = ORoot None \/ r = OPanic \/ r = OFuel -> s' = s).
Proof. exact frame_build_outline. Qed.

(* (2'') composition with C17: at the end of ANY renumbering-free program started on a document without bookmarks, the
   bookmark table is the forest its add_bookmark calls denote ([forest_of_program], Spec/OutlineSpec.v), and build_outline
   returns max_id + 1, reserves exactly the 1 + 2|f| consecutive numbers max_id+1 .. max_id+1+2|f|, EVERY one of them names
   a dictionary afterwards (the cursor ends at the last object written: nothing above it, nothing skipped -- the seeded
   defect "max_id advanced per top-level bookmark only" contradicts this clause), every other object and the trailer are
   unchanged *)
Theorem C11_outline_after_program :
  forall O d0 ops, s_no_renumber ops ->
    let s := srun_ops O (Outline.fresh_bdoc d0) ops in
    let f := forest_of_program ops in
    let m0 := d_max_id (Outline.base s) in
    let m' := (m0 + 1 + 2 * N.of_nat (OutlineSpec.fsize f))%N in
    f <> [] -> (m' < Outline.U32_LIMIT)%N ->
    exists s',
      sstep O s SBuildOutline = (s', ORoot (Some ((m0 + 1)%N, 0%N))) /\
      d_max_id (Outline.base s') = m' /\
      d_trailer (Outline.base s') = d_trailer (Outline.base s) /\
      reserved (Outline.base s) (Outline.base s') =
        map (fun n => (n, 0%N)) (OutlineProofs.nseq (m0 + 1) (S (2 * OutlineSpec.fsize f))) /\
      (forall id, In id (reserved (Outline.base s) (Outline.base s')) ->
                  exists dd, lookup (d_objects (Outline.base s')) id = Some (ODict dd)) /\
      (forall id, ~ In id (reserved (Outline.base s) (Outline.base s')) ->
                  lookup (d_objects (Outline.base s')) id = lookup (d_objects (Outline.base s)) id).
Proof. exact outline_after_program. Qed.

(* (3) no object number is handed out (new_object_id, add_object) or reserved (build_outline) twice, whatever is
   interleaved (delete, prune, content and resource edits, bookmarks, save, ...); renumber_objects compacts the numbers
   and restarts the cursor, so the statement is per renumbering-free program *)
Theorem C11_alloc_no_collision :
  forall O ops s, s_no_renumber ops -> sprog_dom O s ops -> NoDup (map fst (s_handed_out O s ops)).
Proof. exact s_alloc_no_collision. Qed.

(* add_bookmark touches nothing but the bookmark fields; save touches no object and never lowers the cursor *)
Theorem C11_frame_add_bookmark :
  forall O s t f c p par s' r, sstep O s (SAddBookmark t f c p par) = (s', r) ->
    Outline.base s' = Outline.base s /\ r = ONum (Outline.max_bookmark_id s + 1)%N /\
    Outline.max_bookmark_id s' = (Outline.max_bookmark_id s + 1)%N.
Proof. exact frame_add_bookmark. Qed.

Theorem C11_frame_save :
  forall stream d, let d' := fst (save_effect stream d) in
    d_objects d' = d_objects d /\ (d_max_id d <= d_max_id d')%N.
Proof. exact frame_save. Qed.

(* ------------------------------------------------------------------------------------------ *)
(* Pruning removes exactly the objects that are not reachable from the trailer ([reach] is the
   specification of Spec/RenumberSpec.v); every reachable object, the trailer and the cursor are unchanged;
   and it always terminates (cyclic graphs included). *)
Theorem C11_prune :
  forall d d' ids, doc_wf d -> prune_objects d = Some (d', ids) ->
    (forall id, In id ids <-> has_obj (d_objects d) id /\ ~ reach (d_trailer d) (d_objects d) id) /\
    (forall id, reach (d_trailer d) (d_objects d) id -> lookup (d_objects d') id = lookup (d_objects d) id) /\
    (forall id, ~ reach (d_trailer d) (d_objects d) id -> lookup (d_objects d') id = None) /\
    d_trailer d' = d_trailer d /\ d_max_id d' = d_max_id d.
Proof. exact I_prune. Qed.

Theorem C11_prune_total : forall d, prune_objects d <> None.
Proof. exact prune_total. Qed.

(* ------------------------------------------------------------------------------------------ *)
(* Frames of the allocation operations: nothing but the named object changes. *)
Theorem C11_frame_new :
  forall O d d' r, step O d NewObjectId = (d', r) -> d_objects d' = d_objects d /\ d_trailer d' = d_trailer d.
Proof. exact frame_new. Qed.

Theorem C11_frame_add :
  forall O d x d' id, step O d (AddObject x) = (d', OId id) ->
    d_trailer d' = d_trailer d /\ lookup (d_objects d') id = Some x /\
    forall y, y <> id -> lookup (d_objects d') y = lookup (d_objects d) y.
Proof. exact frame_add. Qed.

Theorem C11_frame_set :
  forall O d id x, let d' := fst (step O d (SetObject id x)) in
    d_trailer d' = d_trailer d /\ d_max_id d' = d_max_id d /\ lookup (d_objects d') id = Some x /\
    forall y, y <> id -> lookup (d_objects d') y = lookup (d_objects d) y.
Proof. exact frame_set. Qed.

(* ------------------------------------------------------------------------------------------ *)
(* Deletion (the code after the four repairs recorded in known_findings.json: every array occurrence,
   stream dictionaries, the trailer's own entries, an indirect object that is itself the reference).
   After delete_object(id) no reference to id is left in the trailer or in any object that a traversal from
   the trailer reaches -- on every document, cyclic and dangling ones included. *)
Theorem C11_delete_no_reference_left :
  forall d id d' r, doc_wf d -> delete_object d id = Some (d', r) ->
    ~ In id (refs_of_dict (d_trailer d')) /\
    forall x o, reach (d_trailer d') (d_objects d') x -> lookup (d_objects d') x = Some o -> ~ In id (refs_of o).
Proof. exact delete_object_no_ref. Qed.

(* its frame: it always terminates; the object goes away and is returned; the objects reachable (in the graph
   without the references to id) lose exactly those references -- [strip id] is the code's action, which
   Proofs/EditProofsDelete.v shows free of references to id --; every other object, and the cursor, are unchanged *)
Theorem C11_delete_frame :
  forall d id, doc_wf d ->
  exists d' r,
    delete_object d id = Some (d', r) /\
    d_trailer d' = del_trailer d id /\ d_max_id d' = d_max_id d /\
    lookup (d_objects d') id = None /\
    (forall x, x <> id -> reach (del_trailer d id) (del_graph d id) x ->
               lookup (d_objects d') x = option_map (strip id) (lookup (d_objects d) x)) /\
    (forall x, x <> id -> ~ reach (del_trailer d id) (del_graph d id) x ->
               lookup (d_objects d') x = lookup (d_objects d) x) /\
    (r = lookup (d_objects d) id \/ r = option_map (strip id) (lookup (d_objects d) id)).
Proof. exact delete_object_spec. Qed.

Theorem C11_strip_no_reference : forall id o, ~ In id (refs_of (strip id o)).
Proof. exact strip_no_ref. Qed.

(* the pinned code (Model/EditV0.v, before the four repairs) violated this clause: one document on which a
   reference to the deleted object survives in the trailer, in an array, in a stream dictionary and as an indirect
   object that is itself the reference (each reproduced on the crate through the harness before the repair) *)
Theorem C11_delete_v0_refuted :
  exists d' r, delete_object_v0 ex_del (5, 0)%N = Some (d', r) /\
    In (5, 0)%N (refs_of_dict (d_trailer d')) /\
    (exists o, lookup (d_objects d') (1, 0)%N = Some o /\ In (5, 0)%N (refs_of o)) /\
    (exists o, lookup (d_objects d') (3, 0)%N = Some o /\ In (5, 0)%N (refs_of o)) /\
    (exists o, lookup (d_objects d') (4, 0)%N = Some o /\ In (5, 0)%N (refs_of o)) /\
    lookup (d_objects d') (5, 0)%N = None.
Proof. exact delete_v0_refuted. Qed.

(* ------------------------------------------------------------------------------------------ *)
(* Open known findings (known_findings.json): the clauses "each page's decoded content is what the content
   edits imply" and "adding a resource never takes away a resource" FAIL on the classes below.  Each class is
   a boolean predicate on the document before the call (mirrored by the harness), each witness is computed on
   the faithful model and replayed on the crate by ./check.  Content and resources are those of the abstract
   document of Spec/AbstractDoc.v (ISO 32000 semantics: nearest inherited Resources; Contents a stream or an
   array of streams behind any references). *)
(* repaired (fix: commit recorded for C11-resources-shadow in known_findings.json): before it, get_or_create_resources
   gave a page that only inherits Resources an EMPTY own dictionary, hiding the inherited one (Model/EditV0.v) *)
Theorem C11_resources_shadow_v0_refuted :
  KnownClass_resources_shadow ex_doc (3, 0)%N = true /\
  exists d', add_xobject_v0 ex_doc (3, 0)%N K_Im1 (5, 0)%N = (d', OOk) /\
             effective_resources (d_objects ex_doc) (3, 0)%N = Some [(K_Font, K_F1, ORef 6 0)] /\
             effective_resources (d_objects d') (3, 0)%N = Some [(K_XObject, K_Im1, ORef 5 0)] /\
             ~ res_le (effective_resources (d_objects ex_doc) (3, 0)%N) (effective_resources (d_objects d') (3, 0)%N).
Proof. exact resources_shadow_v0_witness. Qed.

(* the repaired code on the same document: the page keeps the inherited font and gains the XObject; its sibling is untouched *)
Theorem C11_resources_shadow_repaired_example :
  exists d', step O0 ex_doc (AddXObject (3, 0)%N K_Im1 (5, 0)%N) = (d', OOk) /\
             effective_resources (d_objects d') (3, 0)%N = Some [(K_Font, K_F1, ORef 6 0); (K_XObject, K_Im1, ORef 5 0)] /\
             effective_resources (d_objects d') (4, 0)%N = Some [(K_Font, K_F1, ORef 6 0)].
Proof. exact resources_shadow_repaired_example. Qed.

Theorem C11_content_shared_refuted :
  KnownClass_content_shared ex_doc (3, 0)%N = true /\
  exists d', step O0 ex_doc (ChangePageContent (3, 0)%N (bs "BT ET")) = (d', OOk) /\
             page_content decode0 (d_objects ex_doc) (4, 0)%N = Some (bs "q Q") /\
             page_content decode0 (d_objects d') (4, 0)%N = Some (bs "BT ET").
Proof. exact content_shared_witness. Qed.

Theorem C11_content_indirect_refuted :
  KnownClass_content_indirect ex_doc_ind (3, 0)%N = true /\
  exists d', step O0 ex_doc_ind (AddPageContents (3, 0)%N (bs "BT ET")) = (d', OOk) /\
             page_content decode0 (d_objects ex_doc_ind) (3, 0)%N = Some (bs "q Q") /\
             get_page_content O0 (d_objects ex_doc_ind) (3, 0)%N = Some (bs "q Q") /\
             page_content decode0 (d_objects d') (3, 0)%N = None /\
             get_page_content O0 (d_objects d') (3, 0)%N = Some (bs "BT ET").
Proof. exact content_indirect_witness. Qed.

(* I_content for add_page_contents, outside the class C11-content-indirect (pages that are direct dictionary objects
   whose Contents is absent, a reference that directly names a stream, or a direct array of such references
   -- [plain_contents]): for every stream decoder, every document satisfying the allocation invariant and every
   content, the call succeeds, the abstract page then shows its old content followed by what the new stream
   decodes to, every other plain page shows what it showed before, and the trailer is unchanged.
   (change_page_content and the resource operations: not yet proved in general -- harness verdicts + correspondence.) *)
Theorem C11_add_page_contents_content :
  forall (decode : dict -> bytes -> bytes) d page pd c,
    doc_wf d -> alloc_ok d -> (d_max_id d < U32_MAX)%N ->
    lookup (d_objects d) page = Some (ODict pd) -> plain_contents (d_objects d) pd ->
    exists d' old,
      add_page_contents d page c = (d', OOk) /\
      page_content decode (d_objects d) page = Some old /\
      page_content decode (d_objects d') page = Some (old ++ decode (new_dict c) c) /\
      (forall q qd, q <> page -> lookup (d_objects d) q = Some (ODict qd) -> plain_contents (d_objects d) qd ->
                    page_content decode (d_objects d') q = page_content decode (d_objects d) q) /\
      d_trailer d' = d_trailer d.
Proof. exact add_page_contents_plain. Qed.

(* non-vacuity of the hypotheses of C11_add_page_contents_content: a concrete instance *)
Theorem C11_content_example_partial :
  KnownClass_content_indirect ex_doc (3, 0)%N = false /\
  exists d', step O0 ex_doc (AddPageContents (3, 0)%N (bs "BT ET")) = (d', OOk) /\
             page_content decode0 (d_objects d') (3, 0)%N = Some (bs "q Q" ++ bs "BT ET") /\
             page_content decode0 (d_objects d') (4, 0)%N = Some (bs "q Q").
Proof. exact content_ok_example. Qed.

(* ------------------------------------------------------------------------------------------ *)
(* non-vacuity: a concrete document with a page tree and a program that adds a nested bookmark forest (1 > 2 > 3, and 4),
   allocates, builds the outline, allocates again, saves with a cross-reference stream and allocates once more meets the
   hypotheses of (1), (2'') and (3); twelve numbers are taken, all different (19 is the cross-reference stream's) *)
Theorem C11_example :
  doc_wf (Outline.base (Outline.fresh_bdoc ex_doc)) /\ alloc_ok (Outline.base (Outline.fresh_bdoc ex_doc)) /\
  sprog_dom O0 (Outline.fresh_bdoc ex_doc) ex_sops /\ s_no_renumber ex_sops /\
  s_handed_out O0 (Outline.fresh_bdoc ex_doc) ex_sops =
    [(8, 0); (9, 0); (10, 0); (11, 0); (12, 0); (13, 0); (14, 0); (15, 0); (16, 0); (17, 0); (18, 0); (20, 0)]%N /\
  d_max_id (Outline.base (srun_ops O0 (Outline.fresh_bdoc ex_doc) ex_sops)) = 20%N /\
  forest_of_program ex_sops <> [].
Proof.
  destruct ex_s_hyps as [H1 [H2 [H3 H4]]]. destruct ex_s_run as [H5 [_ [H7 H8]]].
  exact (conj H1 (conj H2 (conj H3 (conj H4 (conj H5 (conj H7 H8)))))).
Qed.

(* the same for programs of document-level operations only (replacement, deletion, pruning) *)
Theorem C11_example_doc_ops :
  doc_wf ex_doc /\ alloc_ok ex_doc /\ prog_dom O0 ex_doc ex_ops /\ no_renumber ex_ops /\
  handed_out O0 ex_doc ex_ops = [(8, 0); (9, 0); (10, 0)]%N /\
  map fst (d_objects (run_ops O0 ex_doc ex_ops)) = [(1, 0); (2, 0); (4, 0); (5, 0); (6, 0)]%N /\
  d_max_id (run_ops O0 ex_doc ex_ops) = 10%N.
Proof.
  destruct ex_hyps as [H1 [H2 [H3 H4]]]. destruct ex_run as [H5 [H6 H7]].
  exact (conj H1 (conj H2 (conj H3 (conj H4 (conj H5 (conj H6 H7)))))).
Qed.

Print Assumptions C11_alloc_invariant.
Print Assumptions C11_alloc_fresh.
Print Assumptions C11_alloc_no_collision.
Print Assumptions C11_frame_build_outline.
Print Assumptions C11_outline_after_program.
Print Assumptions C11_frame_add_bookmark.
Print Assumptions C11_frame_save.
Print Assumptions C11_prune.
Print Assumptions C11_prune_total.
Print Assumptions C11_frame_new.
Print Assumptions C11_frame_add.
Print Assumptions C11_frame_set.
Print Assumptions C11_delete_no_reference_left.
Print Assumptions C11_delete_frame.
Print Assumptions C11_strip_no_reference.
Print Assumptions C11_delete_v0_refuted.
Print Assumptions C11_resources_shadow_v0_refuted.
Print Assumptions C11_resources_shadow_repaired_example.
Print Assumptions C11_content_shared_refuted.
Print Assumptions C11_content_indirect_refuted.
Print Assumptions C11_add_page_contents_content.
Print Assumptions C11_content_example_partial.
Print Assumptions C11_example.
Print Assumptions C11_example_doc_ops.
