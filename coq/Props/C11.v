(* Props/C11.v -- placeholder until the theorems are in place *)
From LV Require Import Base.Bytes Model.Obj Model.Edit.
Theorem C11_placeholder : True.
Proof. exact I. Qed.
Print Assumptions C11_placeholder.
