(* Props/C11.v -- property C11: editing operations keep the document sound.
   Statements only; proofs live in Proofs/EditProofs*.v.  The model is Model/Edit.v:
   [sstep O s op] is one public editing call on the whole Document ([step O d op] for the operations that only touch the
   object graph), [srun_ops O s ops] a whole program. *)
From LV Require Import Base.Bytes Model.Obj Model.DocQ Model.PageTree Model.Traverse Model.Edit
  Spec.RenumberSpec Spec.AbstractDoc Proofs.EditProofs Proofs.EditProofsEx Proofs.EditProofsTrav
  Proofs.EditProofsDelete Proofs.EditProofsKF Proofs.EditProofsContent Model.EditV0 Model.Renumber
  Proofs.EditProofsBm Proofs.EditProofsOutline Proofs.EditProofsContent2 Proofs.EditProofsDecode Proofs.EditProofsRes
  Proofs.EditProofsEx2 Proofs.EditProofsCount Model.StreamFilt.
From LV Require Import Gen.Consts Spec.Dfs Spec.DfsCounts Spec.PageTreeEdit Proofs.EditProofsTree Proofs.EditProofsTree2 Proofs.EditProofsRes2 Proofs.EditProofsFrame Proofs.EditProofsTree3.
From LV Require Import Spec.PageTreeEditInd Proofs.EditProofsTreeInd Spec.PageTreeEditRef Proofs.EditProofsTreeRef Proofs.EditProofsTreeRef2.
From LV Require Proofs.PageTreeProofs.
From LV Require Proofs.FilterProofsDict.
From LV Require Model.Outline Spec.OutlineSpec Proofs.OutlineProofs.

(* ------------------------------------------------------------------------------------------ *)
(* Allocation.  The state of a program is the whole Document: [state] = the base document (objects, trailer, max_id)
   plus the bookmark fields; [sstep O s o] is one public call, [srun_ops O s ops] a whole program over
   [sop] = SDoc <any operation of Model/Edit.v's op, incl. save> | SAddBookmark .. | SBuildOutline.
   [alloc_ok d]: max_id is at least every object number in use.  [doc_wf d]: the representation invariant of the
   BTreeMap (keys strictly increasing).  [sprog_dom]: every set_object of the program targets an id at or below the
   cursor at that moment ("replace" an object that exists or was handed out), every renumber_objects meets a
   document with fewer than 2^32 objects.  No hypothesis on the bookmark table: build_outline is covered
   for every table.  For EVERY program and every interleaving of the operations: *)

(* (1) the invariant survives the whole program *)
Theorem C11_alloc_invariant :
  forall O ops s, doc_wf (Outline.base s) -> alloc_ok (Outline.base s) -> sprog_dom O s ops ->
    doc_wf (Outline.base (srun_ops O s ops)) /\ alloc_ok (Outline.base (srun_ops O s ops)).
Proof. exact srun_ops_inv. Qed.

(* (2) an id handed out by new_object_id / add_object (directly or inside any program step that returns an id) lies above
   the cursor, so under the invariant it collides with no existing object -- not even with one of another generation --
   and the cursor moves to it *)
Theorem C11_alloc_fresh :
  forall O s o s' id, sstep O s o = (s', OId id) ->
    (d_max_id (Outline.base s) < fst id)%N /\ d_max_id (Outline.base s') = fst id /\ snd id = 0%N /\
    (alloc_ok (Outline.base s) -> forall k, has_obj (d_objects (Outline.base s)) k -> fst k <> fst id).
Proof. exact s_alloc_fresh. Qed.

(* (2') build_outline, on EVERY bookmark table: it reserves the numbers the cursor passes over ([reserved]); every object it
   writes carries a reserved number, all of them lie above the old cursor -- so under the invariant no existing object is
   overwritten or altered --, the returned root is max_id + 1, trailer and bookmark fields are unchanged, and when it
   returns None or panics (an object number would reach 2^32) nothing at all changed *)
Theorem C11_frame_build_outline :
  forall O s s' r, sstep O s SBuildOutline = (s', r) ->
    let d := Outline.base s in let d' := Outline.base s' in
    d_trailer d' = d_trailer d /\ (d_max_id d <= d_max_id d')%N /\
    Outline.bookmark_table s' = Outline.bookmark_table s /\ Outline.bookmarks s' = Outline.bookmarks s /\
    (forall x, has_obj (d_objects d') x -> ~ has_obj (d_objects d) x -> In x (reserved d d')) /\
    (forall x, In x (reserved d d') -> (d_max_id d < fst x)%N) /\
    (alloc_ok d -> forall x, has_obj (d_objects d) x -> lookup (d_objects d') x = lookup (d_objects d) x) /\
    (forall id, r = ORoot (Some id) -> id = ((d_max_id d + 1)%N, 0%N) /\ In id (reserved d d')) /\
    (r = ORoot None \/ r = OPanic \/ r = OFuel -> s' = s).
Proof. exact frame_build_outline. Qed.

(* (2'') composition with C17: at the end of ANY renumbering-free program started on a document without bookmarks, the
   bookmark table is the forest its add_bookmark calls denote ([forest_of_program], Spec/OutlineSpec.v), and build_outline
   returns max_id + 1, reserves exactly the 1 + 2|f| consecutive numbers max_id+1 .. max_id+1+2|f|, EVERY one of them names
   a dictionary afterwards (the cursor ends at the last object written: nothing above it, nothing skipped -- the seeded
   defect "max_id advanced per top-level bookmark only" contradicts this clause), every other object and the trailer are
   unchanged *)
Theorem C11_outline_after_program :
  forall O d0 ops, s_no_renumber ops ->
    let s := srun_ops O (Outline.fresh_bdoc d0) ops in
    let f := forest_of_program ops in
    let m0 := d_max_id (Outline.base s) in
    let m' := (m0 + 1 + 2 * N.of_nat (OutlineSpec.fsize f))%N in
    f <> [] -> (m' < Outline.U32_LIMIT)%N ->
    exists s',
      sstep O s SBuildOutline = (s', ORoot (Some ((m0 + 1)%N, 0%N))) /\
      d_max_id (Outline.base s') = m' /\
      d_trailer (Outline.base s') = d_trailer (Outline.base s) /\
      reserved (Outline.base s) (Outline.base s') =
        map (fun n => (n, 0%N)) (OutlineProofs.nseq (m0 + 1) (S (2 * OutlineSpec.fsize f))) /\
      (forall id, In id (reserved (Outline.base s) (Outline.base s')) ->
                  exists dd, lookup (d_objects (Outline.base s')) id = Some (ODict dd)) /\
      (forall id, ~ In id (reserved (Outline.base s) (Outline.base s')) ->
                  lookup (d_objects (Outline.base s')) id = lookup (d_objects (Outline.base s)) id).
Proof. exact outline_after_program. Qed.

(* (3) no object number is handed out (new_object_id, add_object) or reserved (build_outline) twice, whatever is
   interleaved (delete, prune, content and resource edits, bookmarks, save, ...); renumber_objects compacts the numbers
   and restarts the cursor, so the statement is per renumbering-free program *)
Theorem C11_alloc_no_collision :
  forall O ops s, s_no_renumber ops -> sprog_dom O s ops -> NoDup (map fst (s_handed_out O s ops)).
Proof. exact s_alloc_no_collision. Qed.

(* add_bookmark touches nothing but the bookmark fields; save touches no object, never lowers the cursor and (since
   /repo 19ab1a6 raises max_id to the largest object number first) leaves the allocation invariant TRUE whatever it was *)
Theorem C11_frame_add_bookmark :
  forall O s t f c p par s' r, sstep O s (SAddBookmark t f c p par) = (s', r) ->
    Outline.base s' = Outline.base s /\ r = ONum (Outline.max_bookmark_id s + 1)%N /\
    Outline.max_bookmark_id s' = (Outline.max_bookmark_id s + 1)%N.
Proof. exact frame_add_bookmark. Qed.

Theorem C11_frame_save :
  forall stream d, let d' := fst (save_effect stream d) in
    d_objects d' = d_objects d /\ (d_max_id d <= d_max_id d')%N /\ alloc_ok d'.
Proof. exact frame_save. Qed.

(* ------------------------------------------------------------------------------------------ *)
(* Pruning removes exactly the objects that are not reachable from the trailer ([reach] is the
   specification of Spec/RenumberSpec.v); every reachable object, the trailer and the cursor are unchanged;
   and it always terminates (cyclic graphs included). *)
Theorem C11_prune :
  forall d d' ids, doc_wf d -> prune_objects d = Some (d', ids) ->
    (forall id, In id ids <-> has_obj (d_objects d) id /\ ~ reach (d_trailer d) (d_objects d) id) /\
    (forall id, reach (d_trailer d) (d_objects d) id -> lookup (d_objects d') id = lookup (d_objects d) id) /\
    (forall id, ~ reach (d_trailer d) (d_objects d) id -> lookup (d_objects d') id = None) /\
    d_trailer d' = d_trailer d /\ d_max_id d' = d_max_id d.
Proof. exact I_prune. Qed.

Theorem C11_prune_total : forall d, prune_objects d <> None.
Proof. exact prune_total. Qed.

(* ------------------------------------------------------------------------------------------ *)
(* Frames of the allocation operations: nothing but the named object changes. *)
Theorem C11_frame_new :
  forall O d d' r, step O d NewObjectId = (d', r) -> d_objects d' = d_objects d /\ d_trailer d' = d_trailer d.
Proof. exact frame_new. Qed.

Theorem C11_frame_add :
  forall O d x d' id, step O d (AddObject x) = (d', OId id) ->
    d_trailer d' = d_trailer d /\ lookup (d_objects d') id = Some x /\
    forall y, y <> id -> lookup (d_objects d') y = lookup (d_objects d) y.
Proof. exact frame_add. Qed.

Theorem C11_frame_set :
  forall O d id x, let d' := fst (step O d (SetObject id x)) in
    d_trailer d' = d_trailer d /\ d_max_id d' = d_max_id d /\ lookup (d_objects d') id = Some x /\
    forall y, y <> id -> lookup (d_objects d') y = lookup (d_objects d) y.
Proof. exact frame_set. Qed.

(* ------------------------------------------------------------------------------------------ *)
(* Deletion (the code after the four repairs recorded in known_findings.json: every array occurrence,
   stream dictionaries, the trailer's own entries, an indirect object that is itself the reference).
   After delete_object(id) no reference to id is left in the trailer or in any object that a traversal from
   the trailer reaches -- on every document, cyclic and dangling ones included. *)
Theorem C11_delete_no_reference_left :
  forall d id d' r, doc_wf d -> delete_object d id = Some (d', r) ->
    ~ In id (refs_of_dict (d_trailer d')) /\
    forall x o, reach (d_trailer d') (d_objects d') x -> lookup (d_objects d') x = Some o -> ~ In id (refs_of o).
Proof. exact delete_object_no_ref. Qed.

(* its frame: it always terminates; the object goes away and is returned; the objects reachable (in the graph
   without the references to id) lose exactly those references -- [strip id] is the code's action, which
   Proofs/EditProofsDelete.v shows free of references to id --; every other object, and the cursor, are unchanged *)
Theorem C11_delete_frame :
  forall d id, doc_wf d ->
  exists d' r,
    delete_object d id = Some (d', r) /\
    d_trailer d' = del_trailer d id /\ d_max_id d' = d_max_id d /\
    lookup (d_objects d') id = None /\
    (forall x, x <> id -> reach (del_trailer d id) (del_graph d id) x ->
               lookup (d_objects d') x = option_map (strip id) (lookup (d_objects d) x)) /\
    (forall x, x <> id -> ~ reach (del_trailer d id) (del_graph d id) x ->
               lookup (d_objects d') x = lookup (d_objects d) x) /\
    (r = lookup (d_objects d) id \/ r = option_map (strip id) (lookup (d_objects d) id)).
Proof. exact delete_object_spec. Qed.

Theorem C11_strip_no_reference : forall id o, ~ In id (refs_of (strip id o)).
Proof. exact strip_no_ref. Qed.

(* the pinned code (Model/EditV0.v, before the four repairs) violated this clause: one document on which a
   reference to the deleted object survives in the trailer, in an array, in a stream dictionary and as an indirect
   object that is itself the reference (each reproduced on the crate through the harness before the repair) *)
Theorem C11_delete_v0_refuted :
  exists d' r, delete_object_v0 ex_del (5, 0)%N = Some (d', r) /\
    In (5, 0)%N (refs_of_dict (d_trailer d')) /\
    (exists o, lookup (d_objects d') (1, 0)%N = Some o /\ In (5, 0)%N (refs_of o)) /\
    (exists o, lookup (d_objects d') (3, 0)%N = Some o /\ In (5, 0)%N (refs_of o)) /\
    (exists o, lookup (d_objects d') (4, 0)%N = Some o /\ In (5, 0)%N (refs_of o)) /\
    lookup (d_objects d') (5, 0)%N = None.
Proof. exact delete_v0_refuted. Qed.

(* ------------------------------------------------------------------------------------------ *)
(* Repaired findings (known_findings.json, status fixed): for each, the code as it was (Model/EditV0.v) shows the defect on a
   concrete document -- replayed on the crate before the repair through the harness -- and the repaired code (Model/Edit.v,
   what the runner executes) behaves on the same document.  Content and resources are those of the abstract document of
   Spec/AbstractDoc.v (ISO 32000 semantics: nearest inherited Resources; Contents a stream or an array of streams behind any
   references). *)
(* C11-resources-shadow: before the repair, get_or_create_resources gave a page that only inherits Resources an EMPTY own
   dictionary, hiding the inherited one *)
Theorem C11_resources_shadow_v0_refuted :
  KnownClass_resources_shadow ex_doc (3, 0)%N = true /\
  exists d', add_xobject_v0 ex_doc (3, 0)%N K_Im1 (5, 0)%N = (d', OOk) /\
             effective_resources (d_objects ex_doc) (3, 0)%N = Some [(K_Font, K_F1, ORef 6 0)] /\
             effective_resources (d_objects d') (3, 0)%N = Some [(K_XObject, K_Im1, ORef 5 0)] /\
             ~ res_le (effective_resources (d_objects ex_doc) (3, 0)%N) (effective_resources (d_objects d') (3, 0)%N).
Proof. exact resources_shadow_v0_witness. Qed.

(* the repaired code on the same document: the page keeps the inherited font and gains the XObject; its sibling is untouched *)
Theorem C11_resources_shadow_repaired_example :
  exists d', step O0 ex_doc (AddXObject (3, 0)%N K_Im1 (5, 0)%N) = (d', OOk) /\
             effective_resources (d_objects d') (3, 0)%N = Some [(K_Font, K_F1, ORef 6 0); (K_XObject, K_Im1, ORef 5 0)] /\
             effective_resources (d_objects d') (4, 0)%N = Some [(K_Font, K_F1, ORef 6 0)].
Proof. exact resources_shadow_repaired_example. Qed.

(* C11-content-shared: before the repair, change_page_content rewrote the one stream of a page in place whoever else showed
   it -- page 4 of ex_doc changed with page 3 *)
Theorem C11_content_shared_v0_refuted :
  exists d', change_page_content_v0 O0 ex_doc (3, 0)%N (bs "BT ET") = (d', OOk) /\
             page_content decode0 (d_objects ex_doc) (4, 0)%N = Some (bs "q Q") /\
             page_content decode0 (d_objects d') (4, 0)%N = Some (bs "BT ET").
Proof. exact content_shared_v0_witness. Qed.

(* the repaired code on the same document: the shared stream 5 is left alone, page 3 gets the fresh stream 8 *)
Theorem C11_content_shared_repaired_example :
  is_content_stream_of_another_page ex_doc (5, 0)%N (3, 0)%N = true /\
  exists d', step O0 ex_doc (ChangePageContent (3, 0)%N (bs "BT ET")) = (d', OOk) /\
             page_content decode0 (d_objects d') (3, 0)%N = Some (bs "BT ET") /\
             page_content decode0 (d_objects d') (4, 0)%N = Some (bs "q Q") /\
             lookup (d_objects d') (5, 0)%N = lookup (d_objects ex_doc) (5, 0)%N /\
             lookup (d_objects d') (8, 0)%N = Some (new_stream (bs "BT ET")).
Proof. exact content_shared_repaired_example. Qed.

(* C11-content-indirect: before the repair, Contents was looked at without following references.  Page 3 of ex_doc_ind has
   Contents -> 8 0 R, the array object [5 0 R]: add_page_contents lost the old content, change_page_content changed nothing *)
Theorem C11_content_indirect_v0_refuted :
  (exists d', add_page_contents_v0 ex_doc_ind (3, 0)%N (bs "BT ET") = (d', OOk) /\
              page_content decode0 (d_objects ex_doc_ind) (3, 0)%N = Some (bs "q Q") /\
              get_page_content O0 (d_objects ex_doc_ind) (3, 0)%N = Some (bs "q Q") /\
              page_content decode0 (d_objects d') (3, 0)%N = None /\
              get_page_content O0 (d_objects d') (3, 0)%N = Some (bs "BT ET")) /\
  change_page_content_v0 O0 ex_doc_ind (3, 0)%N (bs "BT ET") = (ex_doc_ind, OOk).
Proof. exact content_indirect_v0_witness. Qed.

Theorem C11_content_indirect_repaired_example :
  (exists d', step O0 ex_doc_ind (AddPageContents (3, 0)%N (bs "BT ET")) = (d', OOk) /\
              page_content decode0 (d_objects d') (3, 0)%N = Some (bs "q Q" ++ bs "BT ET") /\
              get_page_content O0 (d_objects d') (3, 0)%N = Some (bs "q Q" ++ bs "BT ET") /\
              page_content decode0 (d_objects d') (4, 0)%N = Some (bs "q Q")) /\
  (exists d', step O0 ex_doc_ind (ChangePageContent (3, 0)%N (bs "BT ET")) = (d', OOk) /\
              page_content decode0 (d_objects d') (3, 0)%N = Some (bs "BT ET") /\
              page_content decode0 (d_objects d') (4, 0)%N = Some (bs "q Q")).
Proof. exact content_indirect_repaired_example. Qed.

(* ------------------------------------------------------------------------------------------ *)
(* I_content: "each page's decoded content is what the sequence of content edits implies".  No class of pages is excluded any
   more.  [decode] is ANY stream decoder; [page_content decode m p] is the content of the abstract page (Spec/AbstractDoc.v):
   defined (Some) when p leads -- through any reference objects -- to a dictionary whose Contents is absent, or leads --
   through any references -- to a stream or to an array whose items all lead to streams.  "Another page" = a page whose
   dictionary is another object ([get_object_mut_id m q]: the object the references from q end at; two ids that end at the same
   dictionary are the same page).  A page whose content is undefined before the call (an ill-typed Contents: an item that is
   no stream, a dangling reference -- which a new object could capture) is not spoken about; the harness decides those shapes
   on the implementation with the reader get_page_content. *)

(* add_page_contents: for every document satisfying the allocation invariant, every page whose content is defined and every
   new content, the call succeeds, the page then shows its old content followed by what the new stream decodes to, every
   other page with a defined content shows what it showed before, and the trailer is unchanged *)
Theorem C11_add_page_contents_content :
  forall (decode : dict -> bytes -> bytes) d page c old,
    alloc_ok d -> (d_max_id d < U32_MAX)%N ->
    page_content decode (d_objects d) page = Some old ->
    exists d',
      add_page_contents d page c = (d', OOk) /\
      page_content decode (d_objects d') page = Some (old ++ decode (new_dict c) c) /\
      (forall q b, get_object_mut_id (d_objects d) q <> get_object_mut_id (d_objects d) page ->
                   page_content decode (d_objects d) q = Some b -> page_content decode (d_objects d') q = Some b) /\
      d_trailer d' = d_trailer d.
Proof. exact add_page_contents_content. Qed.

Theorem C11_add_to_page_content_content :
  forall (decode : dict -> bytes -> bytes) d page ops old,
    alloc_ok d -> (d_max_id d < U32_MAX)%N ->
    page_content decode (d_objects d) page = Some old ->
    let c := Writer.encode_content ops in
    exists d',
      add_to_page_content d page ops = (d', OOk) /\
      page_content decode (d_objects d') page = Some (old ++ decode (new_dict c) c) /\
      (forall q b, get_object_mut_id (d_objects d) q <> get_object_mut_id (d_objects d) page ->
                   page_content decode (d_objects d) q = Some b -> page_content decode (d_objects d') q = Some b) /\
      d_trailer d' = d_trailer d.
Proof. exact atpc_content. Qed.

(* non-vacuity: page 3 of ex_doc_solo sits behind the reference object 9 and its Contents is the indirect array 8 = [5 0 R] *)
Theorem C11_content_example :
  page_content decode0 (d_objects ex_doc_solo) (9, 0)%N = Some (bs "q Q") /\
  let d' := fst (add_page_contents ex_doc_solo (9, 0)%N (bs "BT ET")) in
  page_content decode0 (d_objects d') (9, 0)%N = Some (bs "q Q" ++ bs "BT ET") /\
  page_content decode0 (d_objects d') (3, 0)%N = Some (bs "q Q" ++ bs "BT ET") /\
  page_content decode0 (d_objects d') (4, 0)%N = Some [].
Proof. exact apc_example. Qed.

(* change_content_stream: nothing but the named object changes, and only when it is a stream; it becomes
   compress (set_plain_content old new-content) *)
Theorem C11_change_content_stream_frame :
  forall O d id c, let d' := change_content_stream O d id c in
    d_trailer d' = d_trailer d /\ d_max_id d' = d_max_id d /\ map fst (d_objects d') = map fst (d_objects d) /\
    (forall x, x <> id -> lookup (d_objects d') x = lookup (d_objects d) x) /\
    (forall sd c0, lookup (d_objects d) id = Some (OStream sd c0) ->
                   lookup (d_objects d') id = Some (stream_obj (rewritten_stream O sd c0 c))) /\
    ((forall sd c0, lookup (d_objects d) id <> Some (OStream sd c0)) -> d' = d).
Proof. exact ccs_frame. Qed.

(* ... and what the pages show afterwards, whatever their shape: a page that does not show the stream ([page_shows_stream]:
   neither its Contents nor an item of the array its Contents leads to ends at the stream) keeps its content; a page that
   shows this stream alone ([single_stream]) shows exactly the new data; a page whose Contents leads to an array shows its
   items with every item that ends at the stream replaced by the new data ([expect]) *)
Theorem C11_change_content_stream_content :
  forall (decode : dict -> bytes -> bytes) O d id c sd c0,
    lookup (d_objects d) id = Some (OStream sd c0) ->
    let s' := rewritten_stream O sd c0 c in
    let d' := change_content_stream O d id c in
    let nd := decode (s_dict s') (s_content s') in
    (forall q b, page_shows_stream (d_objects d) id q = false ->
                 page_content decode (d_objects d) q = Some b -> page_content decode (d_objects d') q = Some b) /\
    (forall q qd x, get_dictionary (d_objects d) q = Some qd -> dict_get qd K_Contents = Some x ->
                    single_stream (d_objects d) x = Some id -> page_content decode (d_objects d') q = Some nd) /\
    (forall q qd x r l b, get_dictionary (d_objects d) q = Some qd -> dict_get qd K_Contents = Some x ->
                          dereference (d_objects d) x = Some (r, OArr l) -> page_content decode (d_objects d) q = Some b ->
                          page_content decode (d_objects d') q = expect decode (d_objects d) id nd l).
Proof. exact ccs_content. Qed.

(* change_page_content on ANY page that has a Contents entry, whatever the entry is (a stream or an array behind references,
   an array with items that are no streams, a number, a dangling reference): the call succeeds; the page then shows exactly
   what the ONE stream written decodes to -- the stream the page showed alone, rewritten in place (only when no other page of
   the document shows it: [is_content_stream_of_another_page] = false), or a fresh stream; every other page of the document
   with a defined content shows what it showed before; the trailer is unchanged *)
Theorem C11_change_page_content_content :
  forall (decode : dict -> bytes -> bytes) O d page pd c x,
    alloc_ok d -> (d_max_id d < U32_MAX)%N ->
    get_dictionary (d_objects d) page = Some pd -> dict_get pd K_Contents = Some x ->
    exists d' sd' c',
      change_page_content O d page c = (d', OOk) /\
      ((exists id sd c0, single_stream (d_objects d) x = Some id /\ is_content_stream_of_another_page d id page = false /\
                         lookup (d_objects d) id = Some (OStream sd c0) /\
                         OStream sd' c' = stream_obj (rewritten_stream O sd c0 c)) \/
       OStream sd' c' = new_stream c) /\
      page_content decode (d_objects d') page = Some (decode sd' c') /\
      (forall q b, In q (page_iter d) -> get_object_mut_id (d_objects d) q <> get_object_mut_id (d_objects d) page ->
                   page_content decode (d_objects d) q = Some b -> page_content decode (d_objects d') q = Some b) /\
      d_trailer d' = d_trailer d.
Proof. exact cpc_content. Qed.

(* ... and read with the crate's own decoder (decompressed_content, C09) the page shows EXACTLY the new content; the two
   facts about flate2 concern this one content (as in C09_compress_unfiltered_lossless); [dict_wf]: no duplicate keys, the
   representation invariant of the IndexMap behind Dictionary *)
Theorem C11_change_page_content_shows_new_content :
  forall O d page pd c x,
    alloc_ok d -> (d_max_id d < U32_MAX)%N ->
    (forall id sd c0, lookup (d_objects d) id = Some (OStream sd c0) -> FilterProofsDict.dict_wf sd) ->
    o_inflate O (o_deflate O c) = c -> o_deflate O c <> [] ->
    get_dictionary (d_objects d) page = Some pd -> dict_get pd K_Contents = Some x ->
    exists d',
      change_page_content O d page c = (d', OOk) /\
      page_content (decode_c09 O) (d_objects d') page = Some c /\
      (forall q b, In q (page_iter d) -> get_object_mut_id (d_objects d) q <> get_object_mut_id (d_objects d) page ->
                   page_content (decode_c09 O) (d_objects d) q = Some b -> page_content (decode_c09 O) (d_objects d') q = Some b) /\
      d_trailer d' = d_trailer d.
Proof. exact cpc_shows_new_content. Qed.

Theorem C11_change_page_content_no_contents :
  forall O d page pd c, get_dictionary (d_objects d) page = Some pd -> dict_get pd K_Contents = None ->
    change_page_content O d page c = (d, OErr).
Proof. exact cpc_no_contents. Qed.

(* non-vacuity of the hypotheses of C11_change_page_content_shows_new_content, on the in-place branch: page 3 of ex_doc_solo
   has the indirect array 8 = [5 0 R] as its Contents, no other page shows stream 5, which is rewritten in place *)
Theorem C11_change_page_content_example :
  alloc_ok ex_doc_solo /\ (d_max_id ex_doc_solo < U32_MAX)%N /\
  (forall id sd c0, lookup (d_objects ex_doc_solo) id = Some (OStream sd c0) -> FilterProofsDict.dict_wf sd) /\
  o_inflate O0 (o_deflate O0 (bs "BT ET")) = bs "BT ET" /\ o_deflate O0 (bs "BT ET") <> [] /\
  get_dictionary (d_objects ex_doc_solo) (3, 0)%N = Some ex_page3 /\
  dict_get ex_page3 K_Contents = Some (ORef 8 0) /\
  single_stream (d_objects ex_doc_solo) (ORef 8 0) = Some (5, 0)%N /\
  is_content_stream_of_another_page ex_doc_solo (5, 0)%N (3, 0)%N = false /\
  let d' := fst (change_page_content O0 ex_doc_solo (3, 0)%N (bs "BT ET")) in
  page_content (decode_c09 O0) (d_objects d') (3, 0)%N = Some (bs "BT ET") /\
  lookup (d_objects d') (5, 0)%N = Some (OStream [(K_Length, OInt 5)] (bs "BT ET")) /\ d_max_id d' = 9%N.
Proof. exact cpc_example. Qed.

(* ------------------------------------------------------------------------------------------ *)
(* I_resources (the code after the repair of C11-resources-shadow): after the call EVERY node q of EVERY object graph --
   cyclic Parent chains, reference chains, objects that play several roles at once -- can still use every resource name
   (category, name) it could use before; effective resources = nearest Resources up the Parent chain (Spec/AbstractDoc.v).
   No class is excluded for get_or_create_resources and add_graphics_state. *)
Theorem C11_resources_get_or_create :
  forall d page d' loc, get_or_create_resources d page = (d', loc) ->
    forall q, res_le (effective_resources (d_objects d) q) (effective_resources (d_objects d') q).
Proof. exact gocr_resources. Qed.

Theorem C11_resources_add_graphics_state :
  forall d page nm g d' r, add_graphics_state d page nm g = (d', r) ->
    forall q, res_le (effective_resources (d_objects d) q) (effective_resources (d_objects d') q).
Proof. exact add_graphics_state_resources. Qed.

(* add_xobject.  The XObject entry of the page's resource dictionary absent or a direct dictionary: EVERY object graph, no
   hypothesis ([xobject_target] is None then).  The XObject entry an indirect reference: the call writes  name -> Reference(x)
   into the separate dictionary object t the reference leads to ([xobject_target d page] = the map at that moment, t, its
   dictionary xd).  [xobject_typed d page nm] -- the typing this case needs, nothing more:
     (1) nm is not "Parent" / "Resources" (the conclusion speaks of EVERY node q, t included: read as a page-tree node, t may
         not have these two entries rewritten; ISO 32000-1 7.8.3 names resources /Im1, /Fm0, ..),
     (2) nm is new in xd (then t only gains an entry that none of its possible roles reads: every graph, any aliasing), OR t is
         not ALSO the dictionary some dictionary's Resources entry leads to ([no_resources_leads_to]: ISO 32000-1 Table 33, the
         XObject value is a dictionary of external objects, not a resource dictionary) -- then an existing name may be
         overwritten: as a category t keeps all its names, as a node it keeps Parent and Resources.
   Both are restrictions on the ill-typed part of the domain (the generator builds XObject dictionaries as objects of their
   own); C11_resources_add_xobject_alias_witness shows that (2) cannot be dropped. *)
Theorem C11_resources_add_xobject :
  forall d page nm x d' r, xobject_typed d page nm ->
    add_xobject d page nm x = (d', r) ->
    forall q, res_le (effective_resources (d_objects d) q) (effective_resources (d_objects d') q).
Proof. exact add_xobject_resources. Qed.

(* the direct case on its own: no hypothesis on names or aliasing *)
Theorem C11_resources_add_xobject_direct :
  forall d page nm x d' r, ~ category_indirect d page K_XObject ->
    add_xobject d page nm x = (d', r) ->
    forall q, res_le (effective_resources (d_objects d) q) (effective_resources (d_objects d') q).
Proof. exact add_xobject_resources_partial. Qed.

(* why (2): page 3's Resources is object 4 whose XObject entry leads back to object 4 itself; add_xobject(page 3, "Font", 6)
   overwrites the Font category and the page loses /Font /F1.  The starting document is ill-typed, the call does what it
   was asked to; replayed on the crate through the harness (same trace, its direct verdict reports the lost font). *)
Theorem C11_resources_add_xobject_alias_witness :
  exists d', add_xobject alias_doc (3, 0)%N K_Font' (6, 0)%N = (d', OOk) /\
    effective_resources (d_objects alias_doc) (3, 0)%N =
      Some [(K_Font', K_F1', ORef 5 0); (K_XObject, K_Font', ODict [(K_F1', ORef 5 0)]); (K_XObject, K_XObject, ORef 4 0)] /\
    ~ res_le (effective_resources (d_objects alias_doc) (3, 0)%N) (effective_resources (d_objects d') (3, 0)%N) /\
    ~ xobject_typed alias_doc (3, 0)%N K_Font'.
Proof. exact alias_witness. Qed.

(* non-vacuity of the reference case: page 3's XObject entry is a reference to the dictionary object 4, which holds Im0;
   overwriting Im0 meets (2) by the second alternative, the new name F1 by the first; the page can use both afterwards *)
Theorem C11_resources_add_xobject_example :
  (exists m2, xobject_target xref_doc (3, 0)%N = Some (m2, (4, 0)%N, [(K_Im0, ORef 6 0)])) /\
  xobject_typed xref_doc (3, 0)%N K_Im0 /\ xobject_typed xref_doc (3, 0)%N K_F1' /\
  effective_resources (d_objects (fst (add_xobject xref_doc (3, 0)%N K_F1' (6, 0)%N))) (3, 0)%N =
    Some [(K_Font', K_F1', ORef 5 0); (K_XObject, K_Im0, ORef 6 0); (K_XObject, K_F1', ORef 6 0)].
Proof. exact xref_example. Qed.

(* frame of add_xobject / add_graphics_state (any graph): trailer and cursor unchanged, no object added or removed, at most
   two objects differ afterwards (the page when it gets its own Resources entry, and the holder of the category) *)
Theorem C11_frame_resource_ops :
  forall follow key d page nm x d' r, add_resource follow key d page nm x = (d', r) ->
    d_trailer d' = d_trailer d /\ d_max_id d' = d_max_id d /\
    exists t1 t2, touches_at_most (d_objects d) (d_objects d') t1 t2.
Proof. exact add_resource_frame. Qed.

Theorem C11_resources_example : ~ category_indirect ex_doc (3, 0)%N K_XObject.
Proof. exact res_example. Qed.

(* ------------------------------------------------------------------------------------------ *)
(* Frames of the remaining operations, on EVERY object graph and whatever the call returns (ok, error or panic): "no operation
   other than an explicit deletion removes or alters an object".
   Content operations (change_content_stream, change_page_content, add_page_contents, add_to_page_content): trailer unchanged;
   the cursor stays or moves by exactly one; NO object is removed; the only id that can appear is max_id + 1 (the fresh content
   stream); at most ONE existing object differs afterwards (the page dictionary whose Contents entry is set, or the stream
   rewritten in place). *)
Theorem C11_frame_content_ops :
  forall O d o, is_content_op o = true ->
    let d' := fst (step O d o) in
    d_trailer d' = d_trailer d /\
    (d_max_id d' = d_max_id d \/ d_max_id d' = (d_max_id d + 1)%N) /\
    (forall y, has_obj (d_objects d) y -> has_obj (d_objects d') y) /\
    (forall y, has_obj (d_objects d') y -> has_obj (d_objects d) y \/ y = ((d_max_id d + 1)%N, 0%N)) /\
    exists t, forall y, y <> ((d_max_id d + 1)%N, 0%N) -> y <> t -> lookup (d_objects d') y = lookup (d_objects d) y.
Proof. exact content_ops_frame. Qed.

(* remove_object (annotation), get_or_create_resources: only dictionary objects can differ, and they stay dictionaries;
   compress, decompress (also when a filter panics half-way): only stream objects can differ, and they stay streams;
   get_page_content: nothing.  Trailer, cursor and the set of object ids are unchanged in all five. *)
Theorem C11_frame_keeping_ops :
  forall O d o P, keeps_kind o = Some P ->
    let d' := fst (step O d o) in
    d_trailer d' = d_trailer d /\ d_max_id d' = d_max_id d /\ map fst (d_objects d') = map fst (d_objects d) /\
    forall y, lookup (d_objects d') y = lookup (d_objects d) y \/ (P (lookup (d_objects d) y) /\ P (lookup (d_objects d') y)).
Proof. exact keeps_frame. Qed.

(* ------------------------------------------------------------------------------------------ *)
(* I_count.  (a) On ANY object graph: the Count bookkeeping of delete_pages along the Parent chain (the code after the repairs
   of C11-count-indirect and C11-page-reference-object).  [ref_chain m r l]: l is the chain of dictionary objects the loop meets
   when it follows Parent from r in m (it ends at a missing Parent, a non-reference Parent or a non-dictionary); each is recorded
   with [read_count m d] -- its Count when the entry is an integer or leads through references to one (ISO 32000-1 7.3.10: any
   value may be an indirect object) --, none with Count = i64::MIN.  On a chain of pairwise different objects the loop
   terminates within the fuel delete_pages gives it (never the "hang" outcome), sets the Count entry of EVERY ancestor that
   has such a Count to that number minus one, leaves everything else alone; delete_pages([n]) = delete_object(page n) followed
   by exactly that, on the Parent chain of the page dictionary -- the object stored under the page id, or the dictionary a
   reference object stored there leads to.  (b) The tree-level clause is C11_delete_pages_tree below. *)
Theorem C11_count_loop_chain :
  forall m r l fuel, ref_chain m r l -> NoDup (map anc_id l) ->
    (length l < S (length m))%nat /\
    ((length l < fuel)%nat -> count_loop fuel m r = (dec_all m l, LOk)) /\
    (forall x, ~ In x (map anc_id l) -> lookup (dec_all m l) x = lookup m x) /\
    (forall id d c, In (id, d, c) l -> lookup m id = Some (ODict d) ->
       lookup (dec_all m l) id =
       Some (ODict (match c with Some z => dict_set d K_Count (OInt (z - 1)) | None => d end))).
Proof.
  intros m r l fuel C ND. split; [apply (ref_chain_fuel m r l C ND)|].
  split; [intro Hf; apply count_loop_ref_chain; assumption|].
  split; [apply dec_all_other | intros id d c; apply dec_all_member; exact ND].
Qed.

Theorem C11_delete_pages_one_chain :
  forall d n pid d1 page rp pd l,
    assoc_N (get_pages d) n = Some pid ->
    delete_object d pid = Some (d1, Some page) ->
    dereference (d_objects d1) page = Some (rp, ODict pd) ->
    ref_chain (d_objects d1) (as_ref (dict_get pd K_Parent)) l -> NoDup (map anc_id l) ->
    delete_pages d [n] = (with_objs d1 (dec_all (d_objects d1) l), LOk).
Proof. exact delete_pages_one. Qed.

(* the two repaired findings: before the repairs (Model/EditV0.v) delete_pages left the Count of the Pages node at 2 with one
   page left -- when the Count is the indirect object 9 (ex_doc_cind), and when page 3 is the reference object 3 0 obj 8 0 R
   (ex_doc_pref); both replayed on the crate through the harness before the repairs *)
Theorem C11_count_indirect_v0_refuted :
  page_iter ex_doc_cind = [(3, 0); (4, 0)]%N /\ count_at ex_doc_cind = Some 2%Z /\
  exists d', delete_pages_v0 ex_doc_cind [1%N] = (d', LOk) /\ page_iter d' = [(4, 0)%N] /\ count_at d' = Some 2%Z.
Proof. exact count_indirect_v0_witness. Qed.

Theorem C11_page_reference_v0_refuted :
  page_iter ex_doc_pref = [(3, 0); (4, 0)]%N /\ count_at ex_doc_pref = Some 2%Z /\
  exists d', delete_pages_v0 ex_doc_pref [1%N] = (d', LOk) /\ page_iter d' = [(4, 0)%N] /\ count_at d' = Some 2%Z.
Proof. exact page_reference_v0_witness. Qed.

(* the repaired code on the same documents: the Count is the number of pages left; an indirect Count entry becomes the number *)
Theorem C11_count_repaired_examples :
  (exists d', delete_pages ex_doc_cind [1%N] = (d', LOk) /\ page_iter d' = [(4, 0)%N] /\ count_at d' = Some 1%Z /\
              lookup (d_objects d') (2, 0)%N =
                Some (ODict [(K_Type, OName K_Pages); (K_Kids, OArr [ORef 4 0]); (K_Count, OInt 1)])) /\
  (exists d', delete_pages ex_doc_pref [1%N] = (d', LOk) /\ page_iter d' = [(4, 0)%N] /\ count_at d' = Some 1%Z).
Proof. exact count_repaired_examples. Qed.

(* both shapes at once, as an instance of C11_delete_pages_one_chain: the page object is the reference 8 0 R, the chain holds
   the Pages node 2 with the Count 2 read through the reference 9 0 R *)
Theorem C11_count_refs_example :
  page_iter ex_doc_refs = [(3, 0); (4, 0)]%N /\
  exists d1 pd l,
    delete_object ex_doc_refs (3, 0)%N = Some (d1, Some (ORef 8 0)) /\
    dereference (d_objects d1) (ORef 8 0) = Some (Some (8, 0)%N, ODict pd) /\
    ref_chain (d_objects d1) (as_ref (dict_get pd K_Parent)) l /\ map anc_id l = [(2, 0)%N] /\ map snd l = [Some 2%Z] /\
    page_iter (fst (delete_pages ex_doc_refs [1%N])) = [(4, 0)%N] /\
    option_map (fun o => match o with ODict nd => dict_get nd K_Count | _ => None end)
               (lookup (d_objects (fst (delete_pages ex_doc_refs [1%N]))) (2, 0)%N) = Some (Some (OInt 1)).
Proof. exact count_refs_example. Qed.

(* non-vacuity: deleting page 1 of the example document: its one ancestor's Count goes from 2 to 1, page 2 remains *)
Theorem C11_count_example_partial :
  exists d1 pd l,
    assoc_N (get_pages ex_doc) 1 = Some (3, 0)%N /\
    delete_object ex_doc (3, 0)%N = Some (d1, Some (ODict pd)) /\
    ref_chain (d_objects d1) (as_ref (dict_get pd K_Parent)) l /\ NoDup (map anc_id l) /\
    map anc_id l = [(2, 0)%N] /\
    page_iter (fst (delete_pages ex_doc [1%N])) = [(4, 0)%N] /\
    option_map (fun o => match o with ODict nd => dict_get nd K_Count | _ => None end)
               (lookup (d_objects (fst (delete_pages ex_doc [1%N]))) (2, 0)%N) = Some (Some (OInt 1)).
Proof. exact count_example. Qed.

(* I_count, the tree-level clause ("Page-tree Counts equal the number of leaf pages", delete_pages).
   Domain ([page_doc d t], Spec/PageTreeEdit.v -- the page tree as every writer lays it out): the trailer's Root names a catalog
   dictionary object whose Pages entry names the root of the tree t; every node of t is a dictionary OBJECT with unique keys
   (IndexMap); a leaf has Type Page, an intermediate node Type Pages, Kids = the array of references to its kids, Count =
   the number of leaf pages below it (an integer, in the dictionary itself); every node below the root names the node it
   hangs under as its Parent and the root has no Parent reference; the nodes are pairwise different (no page or section is
   shared between two parents) and the catalog is none of them; the tree is no higher than C12's limit.  NOTHING is assumed
   about the rest of the graph (other objects may refer to the pages, carry any entries, be unreachable, ..) nor about ns
   (numbers may repeat or name no page).
   [prune p t] (the abstract deletion): the kid named p is taken out of the kid list of the node it hangs under, nothing else
   moves.  The page numbers refer to the numbering BEFORE the call ([get_pages d] is computed once, processor.rs:43).
   Then delete_pages(ns) neither panics nor hangs, the document again holds a page tree in the same sense -- in particular
   EVERY Pages node's Count is again the number of leaf pages below it ([page_doc], and in C12's words [tree_wf] and
   [counts_exact]) --, that tree is the old one with the selected leaves pruned, and the page enumeration afterwards is the
   old one minus the pages whose NUMBER is in ns, order kept. *)
Theorem C11_delete_pages_tree :
  forall d t ns,
    doc_wf d -> page_doc d t -> (N.of_nat (height t) <= PAGE_TREE_DEPTH_LIMIT + 1)%N ->
    exists d',
      delete_pages d ns = (d', LOk) /\ doc_wf d' /\
      let t' := prune_all (sel (get_pages d) ns) t in
      page_doc d' t' /\ PageTreeProofs.tree_wf d' t' /\ counts_exact (d_objects d') t' /\
      page_iter d = leaves t /\ page_iter d' = leaves t' /\
      page_iter d' = map snd (filter (fun np => negb (existsb (N.eqb (fst np)) ns)) (get_pages d)).
Proof.
  intros d t ns W PD Hh. destruct (delete_pages_tree d t ns W PD Hh) as [d' [E [W' [PD' [I1 [I2 I3]]]]]].
  exists d'. split; [exact E|]. split; [exact W'|]. cbv zeta.
  destruct (page_doc_tree_wf _ _ PD') as [TW CE]. repeat (split; [assumption|]). exact I3.
Qed.

(* one round of the loop = the abstract deletion of one kid: for a page p of the tree, or an id that names no object any more
   (a page number given twice), whatever the page map [pages] says elsewhere *)
Theorem C11_delete_page_step :
  forall d t p, doc_wf d -> page_doc d t -> (In p (leaves t) \/ lookup (d_objects d) p = None) ->
    exists d2,
      (forall pages n ns, assoc_N pages n = Some p ->
         delete_pages_loop pages (n :: ns) d = delete_pages_loop pages ns d2) /\
      doc_wf d2 /\ page_doc d2 (prune p t) /\ leaves (prune p t) = without p (leaves t) /\
      lookup (d_objects d2) p = None /\
      (forall x, lookup (d_objects d) x = None -> lookup (d_objects d2) x = None).
Proof. exact delete_page_step. Qed.

(* the domain in C12's vocabulary: a [page_doc] is a [tree_wf] document with exact Counts *)
Theorem C11_page_doc_is_tree_wf :
  forall d t, page_doc d t -> PageTreeProofs.tree_wf d t /\ counts_exact (d_objects d) t.
Proof. exact page_doc_tree_wf. Qed.

(* non-vacuity: a three-level tree (catalog 1, root 2 with kids page 3, section 4 (page 5), page 6); numbers 2, 2 again and 9
   (no such page): page 5 goes, section 4 stays with no kids, pages 3 and 6 remain in order *)
Theorem C11_delete_pages_tree_example :
  doc_wf tree_doc /\ page_doc tree_doc tree_ex /\ (N.of_nat (height tree_ex) <= PAGE_TREE_DEPTH_LIMIT + 1)%N /\
  get_pages tree_doc = [(1, (3,0)); (2, (5,0)); (3, (6,0))]%N /\
  prune_all (sel (get_pages tree_doc) [2; 2; 9]%N) tree_ex = PNode (2,0)%N [PLeaf (3,0)%N; PNode (4,0)%N []; PLeaf (6,0)%N] /\
  page_iter (fst (delete_pages tree_doc [2; 2; 9]%N)) = [(3,0); (6,0)]%N.
Proof. exact tree_example. Qed.

(* ------------------------------------------------------------------------------------------ *)
(* I_count as an INVARIANT of editing programs: "Page-tree Counts equal the number of leaf pages" after every sequence of calls.
   [page_doc d t] survives every operation of [step] (allocate, add, replace, delete object, remove annotation, prune, delete
   pages, compress, decompress, the four content operations, the three resource operations, get_page_content, save in
   either format) with the SAME tree t, except that delete_pages prunes it ([tree_after]).  Domain of a step ([tree_op_dom]):
   * set_object / delete_object do not aim at a node of the tree or at the catalog ([tree_or_cat]) -- these two calls replace
     or delete one object and by design do no page-tree bookkeeping; deleting a page is what delete_pages is for
     (set_object also meets C11_alloc_invariant's condition: the id is at or below the cursor);
   * renumber_objects is excluded here: it renames the nodes (C10: the graph is the same up to the renaming);
   * add_xobject is not given Type / Kids / Count / Parent / Pages as the resource NAME (with an indirect XObject entry that
     leads to a page-tree node -- an ill-typed graph -- such a name would overwrite the node's entry).
   Method (Proofs/EditProofsTree3.v): the tree only reads these five entries of dictionary objects and the trailer's Root; every
   other operation leaves them alone in EVERY dictionary object, keeps keys unique and removes no node (prune_objects: the
   tree is reachable from the trailer; compress / decompress / change_content_stream touch streams only). *)
Theorem C11_count_invariant_step :
  forall O d t o,
    doc_wf d -> alloc_ok d -> page_doc d t -> hbound t -> tree_op_dom d t o ->
    page_doc (fst (step O d o)) (tree_after d t o) /\ hbound (tree_after d t o).
Proof. exact step_page_doc. Qed.

(* ... over whole programs: at the end the document holds the tree [tree_end] (the starting tree pruned by the delete_pages
   calls of the program, each reading ITS page numbers off the document it meets), every Pages node's Count is the number of
   leaves below it, and the page enumeration is the leaves of that tree *)
Theorem C11_count_invariant :
  forall O ops d t,
    doc_wf d -> alloc_ok d -> page_doc d t -> hbound t -> tree_prog_dom O d t ops ->
    let d' := run_ops O d ops in let t' := tree_end O d t ops in
    doc_wf d' /\ alloc_ok d' /\ page_doc d' t' /\ hbound t' /\
    page_iter d' = leaves t' /\ counts_exact (d_objects d') t'.
Proof. exact run_ops_page_doc. Qed.

(* non-vacuity: on the three-level tree: append content to page 3, add an object (7), add an XObject name to page 6 (this
   allocates nothing), delete page 2, delete object 8 (absent), save, compress, delete page 1 twice *)
Theorem C11_count_invariant_example :
  doc_wf tree_doc /\ alloc_ok tree_doc /\ page_doc tree_doc tree_ex /\ hbound tree_ex /\
  tree_prog_dom O_id tree_doc tree_ex tree_prog /\
  tree_end O_id tree_doc tree_ex tree_prog = PNode (2,0)%N [PNode (4,0)%N []; PLeaf (6,0)%N] /\
  page_iter (run_ops O_id tree_doc tree_prog) = [(6,0)%N].
Proof. exact tree_prog_example. Qed.

(* ------------------------------------------------------------------------------------------ *)
(* non-vacuity: a concrete document with a page tree and a program that adds a nested bookmark forest (1 > 2 > 3, and 4),
   allocates, builds the outline, allocates again, saves with a cross-reference stream and allocates once more meets the
   hypotheses of (1), (2'') and (3); twelve numbers are taken, all different (19 is the cross-reference stream's) *)
Theorem C11_example :
  doc_wf (Outline.base (Outline.fresh_bdoc ex_doc)) /\ alloc_ok (Outline.base (Outline.fresh_bdoc ex_doc)) /\
  sprog_dom O0 (Outline.fresh_bdoc ex_doc) ex_sops /\ s_no_renumber ex_sops /\
  s_handed_out O0 (Outline.fresh_bdoc ex_doc) ex_sops =
    [(8, 0); (9, 0); (10, 0); (11, 0); (12, 0); (13, 0); (14, 0); (15, 0); (16, 0); (17, 0); (18, 0); (20, 0)]%N /\
  d_max_id (Outline.base (srun_ops O0 (Outline.fresh_bdoc ex_doc) ex_sops)) = 20%N /\
  forest_of_program ex_sops <> [].
Proof.
  destruct ex_s_hyps as [H1 [H2 [H3 H4]]]. destruct ex_s_run as [H5 [_ [H7 H8]]].
  exact (conj H1 (conj H2 (conj H3 (conj H4 (conj H5 (conj H7 H8)))))).
Qed.

(* the same for programs of document-level operations only (replacement, deletion, pruning) *)
Theorem C11_example_doc_ops :
  doc_wf ex_doc /\ alloc_ok ex_doc /\ prog_dom O0 ex_doc ex_ops /\ no_renumber ex_ops /\
  handed_out O0 ex_doc ex_ops = [(8, 0); (9, 0); (10, 0)]%N /\
  map fst (d_objects (run_ops O0 ex_doc ex_ops)) = [(1, 0); (2, 0); (4, 0); (5, 0); (6, 0)]%N /\
  d_max_id (run_ops O0 ex_doc ex_ops) = 10%N.
Proof.
  destruct ex_hyps as [H1 [H2 [H3 H4]]]. destruct ex_run as [H5 [H6 H7]].
  exact (conj H1 (conj H2 (conj H3 (conj H4 (conj H5 (conj H6 H7)))))).
Qed.

(* ------------------------------------------------------------------------------------------ *)
(* The tree-level clause on the domain /repo e03ecb9 opened: a Pages node's Count may sit BEHIND REFERENCES.
   [page_doc_ind d t] (Spec/PageTreeEditInd.v) = [page_doc d t] with "Count = number of leaves below the node" read the way
   ISO 32000-1 7.3.10 allows: the entry is that integer, or a reference that leads -- through any number of reference
   objects within the crate's dereference limit -- to an integer object holding it ([count_reads]); such integer objects may
   be shared between nodes.  [page_doc d t -> page_doc_ind d t] (C11_page_doc_ind_contains_page_doc).
   Conclusion of C11_delete_pages_tree, and: a Count that was a direct integer stays one; every Count the call rewrites
   ([touched]: the ancestors of each deleted page, in the tree it is deleted from) is a DIRECT integer afterwards (the code
   replaces the entry by the number, it never writes into the shared integer object); the others keep their entry and still
   read the right number.
   Here leaves are still dictionary OBJECTS and the document stays in that domain ([page_doc_ind d' t']); pages that are
   reference objects: C11_delete_pages_tree_indirect below, which contains this domain. *)
Theorem C11_delete_pages_tree_indirect_counts :
  forall d t ns,
    doc_wf d -> page_doc_ind d t -> (N.of_nat (height t) <= PAGE_TREE_DEPTH_LIMIT + 1)%N ->
    exists d',
      delete_pages d ns = (d', LOk) /\ doc_wf d' /\
      let t' := prune_all (sel (get_pages d) ns) t in
      page_doc_ind d' t' /\ PageTreeProofs.tree_wf d' t' /\ counts_exact (d_objects d') t' /\
      page_iter d = leaves t /\ page_iter d' = leaves t' /\
      page_iter d' = map snd (filter (fun np => negb (existsb (N.eqb (fst np)) ns)) (get_pages d)) /\
      (forall x, In x (nodes t) -> count_is_direct (d_objects d) x -> count_is_direct (d_objects d') x) /\
      (forall x, In x (touched (sel (get_pages d) ns) t) -> count_is_direct (d_objects d') x).
Proof.
  intros d t ns W PD Hh. destruct (delete_pages_tree_ind d t ns W PD Hh) as [d' [E [W' [PD' [I1 [I2 [I3 [K T]]]]]]]].
  exists d'. split; [exact E|]. split; [exact W'|]. cbv zeta.
  destruct (page_doc_ind_tree_wf _ _ PD') as [TW CE]. repeat (split; [assumption|]). exact T.
Qed.

(* one round of the loop on that domain; the ancestors of p ([chain p t], nearest first) get direct Counts *)
Theorem C11_delete_page_step_indirect :
  forall d t p, doc_wf d -> page_doc_ind d t -> (In p (leaves t) \/ lookup (d_objects d) p = None) ->
    exists d2,
      (forall pages n ns, assoc_N pages n = Some p ->
         delete_pages_loop pages (n :: ns) d = delete_pages_loop pages ns d2) /\
      doc_wf d2 /\ page_doc_ind d2 (prune p t) /\ leaves (prune p t) = without p (leaves t) /\
      lookup (d_objects d2) p = None /\
      (forall x, lookup (d_objects d) x = None -> lookup (d_objects d2) x = None) /\
      ~ In p (nodes t) /\
      (forall x, In x (chain p t) -> count_is_direct (d_objects d2) x) /\
      (forall x, In x (ids t) -> x <> p -> count_is_direct (d_objects d) x -> count_is_direct (d_objects d2) x).
Proof. exact delete_page_step_ind. Qed.

(* the wider domain contains the old one, and is a [tree_wf] document with exact Counts in C12's vocabulary *)
Theorem C11_page_doc_ind_contains_page_doc :
  (forall d t, page_doc d t -> page_doc_ind d t) /\
  (forall d t, page_doc_ind d t -> PageTreeProofs.tree_wf d t /\ counts_exact (d_objects d) t) /\
  (forall m d n, count_reads m d n <-> read_count m d = Some n).
Proof. exact (conj page_doc_is_ind (conj page_doc_ind_tree_wf count_reads_read)). Qed.

(* non-vacuity: root 2 (Count -> object 7 -> object 8 = 3) with kids page 3, section 4 (page 5; Count -> object 9 = 1), section 10
   (page 11; Count -> the SAME object 9); not a [page_doc].  delete_pages [2; 2; 9] removes page 5: sections 4 and 2 are touched and
   hold the direct integers 0 and 2, section 10 still refers to object 9, which still holds 1 *)
Theorem C11_delete_pages_tree_indirect_example :
  doc_wf tree_doc_ind /\ page_doc_ind tree_doc_ind tree_ex_ind /\ ~ page_doc tree_doc_ind tree_ex_ind /\
  (N.of_nat (height tree_ex_ind) <= PAGE_TREE_DEPTH_LIMIT + 1)%N /\
  get_pages tree_doc_ind = [(1, (3,0)); (2, (5,0)); (3, (11,0))]%N /\
  prune_all (sel (get_pages tree_doc_ind) [2; 2; 9]%N) tree_ex_ind =
    PNode (2,0)%N [PLeaf (3,0)%N; PNode (4,0)%N []; PNode (10,0)%N [PLeaf (11,0)%N]] /\
  touched (sel (get_pages tree_doc_ind) [2; 2; 9]%N) tree_ex_ind = [(4,0); (2,0)]%N /\
  let d' := fst (delete_pages tree_doc_ind [2; 2; 9]%N) in
  page_iter d' = [(3,0); (11,0)]%N /\
  count_entry d' (2,0)%N = Some (OInt 2) /\ count_entry d' (4,0)%N = Some (OInt 0) /\
  count_entry d' (10,0)%N = Some (ORef 9 0) /\ lookup (d_objects d') (9,0)%N = Some (OInt 1).
Proof.
  destruct tree_ind_example as [H1 [H2 [H3 H4]]].
  exact (conj H1 (conj H2 (conj tree_ind_example_not_direct (conj H3 H4)))).
Qed.


(* ------------------------------------------------------------------------------------------ *)
(* The tree-level clause on the whole domain the two repairs /repo e03ecb9 and 526b3cc opened.
   [page_doc_ref d t] (Spec/PageTreeEditRef.v) = [page_doc d t] where
   * a Pages node's Count may sit behind references ([count_reads], as above), and
   * a page may be a REFERENCE OBJECT: the id listed in Kids (and by page_iter / get_pages) names an object that [leads],
     through any number of reference objects within the crate's dereference limit, to the page dictionary (Type Page,
     unique keys, Parent = the node the id hangs under); [via] = the ids passed.  A dictionary object is the case via = [];
   * besides "the listed ids are pairwise different" the objects the page ids END at ([end_of]: the object that holds the
     dictionary) are pairwise different: two ids that end at one dictionary are one page listed twice (the harness' tree_wf
     refuses that shape too).
   [page_doc_ind d t -> page_doc_ref d t] (C11_page_doc_ref_contains_page_doc_ind), hence [page_doc d t -> page_doc_ref d t].
   Nothing is assumed about the rest of the graph or about ns.  Then delete_pages(ns) neither panics nor hangs and the
   conclusion of C11_delete_pages_tree holds: the document holds the pruned tree in the same sense -- EVERY Pages node's
   Count reads the number of leaf pages below it (C12: [tree_wf], [counts_exact], both read through references) --, the
   page list is the old one minus the pages whose NUMBER is in ns, order kept; a Count that was direct stays direct and
   every Count the call rewrites ([touched]) is a direct integer afterwards.  For a page that is a reference object the
   call removes the REFERENCE OBJECT (the id the page list names); the dictionary it led to stays behind as an object
   nothing in the tree refers to (C11_delete_pages_tree_indirect_example: object 13), as in the code. *)
Theorem C11_delete_pages_tree_indirect :
  forall d t ns,
    doc_wf d -> page_doc_ref d t -> (N.of_nat (height t) <= PAGE_TREE_DEPTH_LIMIT + 1)%N ->
    exists d',
      delete_pages d ns = (d', LOk) /\ doc_wf d' /\
      let t' := prune_all (sel (get_pages d) ns) t in
      page_doc_ref d' t' /\ PageTreeProofs.tree_wf d' t' /\ counts_exact (d_objects d') t' /\
      page_iter d = leaves t /\ page_iter d' = leaves t' /\
      page_iter d' = map snd (filter (fun np => negb (existsb (N.eqb (fst np)) ns)) (get_pages d)) /\
      (forall x, In x (nodes t) -> count_is_direct (d_objects d) x -> count_is_direct (d_objects d') x) /\
      (forall x, In x (touched (sel (get_pages d) ns) t) -> count_is_direct (d_objects d') x).
Proof.
  intros d t ns W PD Hh. destruct (delete_pages_tree_ref d t ns W PD Hh) as [d' [E [W' [PD' [I1 [I2 [I3 [K T]]]]]]]].
  exists d'. split; [exact E|]. split; [exact W'|]. cbv zeta.
  destruct (page_doc_ref_tree_wf _ _ PD') as [TW CE]. repeat (split; [assumption|]). exact T.
Qed.

(* one round of the loop on that domain *)
Theorem C11_delete_page_step_ref :
  forall d t p, doc_wf d -> page_doc_ref d t -> (In p (leaves t) \/ lookup (d_objects d) p = None) ->
    exists d2,
      (forall pages n ns, assoc_N pages n = Some p ->
         delete_pages_loop pages (n :: ns) d = delete_pages_loop pages ns d2) /\
      doc_wf d2 /\ page_doc_ref d2 (prune p t) /\ leaves (prune p t) = without p (leaves t) /\
      lookup (d_objects d2) p = None /\
      (forall x, lookup (d_objects d) x = None -> lookup (d_objects d2) x = None) /\
      ~ In p (nodes t) /\
      (forall x, In x (chain p t) -> count_is_direct (d_objects d2) x) /\
      (forall x, In x (ids t) -> x <> p -> count_is_direct (d_objects d) x -> count_is_direct (d_objects d2) x).
Proof. exact delete_page_step_ref. Qed.

(* the domain contains the earlier ones, is a [tree_wf] document with exact Counts in C12's vocabulary, and [leads] / [end_of]
   are what the crate's dereference computes *)
Theorem C11_page_doc_ref_contains_page_doc_ind :
  (forall d t, page_doc_ind d t -> page_doc_ref d t) /\
  (forall d t, page_doc_ref d t -> PageTreeProofs.tree_wf d t /\ counts_exact (d_objects d) t) /\
  (forall m o via dd, leads m o via dd -> (N.of_nat (length via) <= DEREF_LIMIT)%N ->
     dereference m o = Some (fold_left (fun _ x => Some x) via None, ODict dd)) /\
  (forall m id o via dd, lookup m id = Some o -> leads m o via dd -> (N.of_nat (length via) <= DEREF_LIMIT)%N ->
     end_of m id = Some (fold_left (fun _ x => x) via id)).
Proof. exact (conj page_doc_ind_is_ref (conj page_doc_ref_tree_wf (conj leads_dereference end_of_leads))). Qed.

(* non-vacuity: the tree of C11_delete_pages_tree_indirect_example with page 3 = a reference object (-> 14), page 5 = a
   reference object two hops from its dictionary (-> 12 -> 13), page 11 a dictionary; Counts of 2 and 4 behind references.
   Not a [page_doc_ind].  delete_pages [2; 2; 9; 1] removes the reference objects 5 and 3; Counts 1 / 0 / 1, all direct;
   the dictionary 13 stays, untouched *)
Theorem C11_delete_pages_tree_indirect_ref_example :
  doc_wf tree_doc_ref /\ page_doc_ref tree_doc_ref tree_ex_ind /\ ~ page_doc_ind tree_doc_ref tree_ex_ind /\
  (N.of_nat (height tree_ex_ind) <= PAGE_TREE_DEPTH_LIMIT + 1)%N /\
  get_pages tree_doc_ref = [(1, (3,0)); (2, (5,0)); (3, (11,0))]%N /\
  let d' := fst (delete_pages tree_doc_ref [2; 2; 9; 1]%N) in
  snd (delete_pages tree_doc_ref [2; 2; 9; 1]%N) = LOk /\
  page_iter d' = [(11,0)]%N /\
  count_entry d' (2,0)%N = Some (OInt 1) /\ count_entry d' (4,0)%N = Some (OInt 0) /\
  count_entry d' (10,0)%N = Some (OInt 1) /\
  lookup (d_objects d') (5,0)%N = None /\ lookup (d_objects d') (3,0)%N = None /\
  lookup (d_objects d') (13,0)%N = Some (ODict [(K_Type, OName K_Page); (K_Parent, ORef 4 0)]).
Proof.
  destruct tree_ref_example as [H1 [H2 [H3 H4]]].
  exact (conj H1 (conj H2 (conj tree_ref_example_not_ind (conj H3 H4)))).
Qed.

(* ------------------------------------------------------------------------------------------ *)
(* C11_count_invariant on the wider domain [page_doc_ref] (Counts behind references, pages behind reference objects):
   [page_doc_ref d t] survives every operation of [step] with the same tree, delete_pages pruning it
   (C11_delete_pages_tree_indirect).  What the tree READS is wider here, so the domain of a step is narrower ([tree_op_dom_ref]):
   set_object / delete_object must stay off the SUPPORT of the tree ([tree_support d t x]):
   * the catalog and the nodes (as in [tree_op_dom]);
   * the objects on a page id's path to its dictionary: the reference objects passed and the object holding the page dictionary
     (replacing one of them makes the id listed in Kids lead elsewhere or nowhere: the page is gone or another one, no Count
     is adjusted -- the same by-design absence of bookkeeping as for a node);
   * the objects on the path from a Pages node's Count entry to its integer: the reference objects passed and the integer
     object (replacing the integer object changes the Count the node reads while the leaves stay).
   [tree_op_dom_ref d t o -> tree_op_dom d t o]; on a [page_doc] (direct Counts, dictionary leaves) the two coincide up to the
   Type clause (the paths are empty).  renumber_objects and the add_xobject name clause: as in C11_count_invariant.
   Every operation of [step] but renumber_objects is covered: new_object_id, add_object, set_object, delete_object,
   remove_object, prune_objects, delete_pages, compress, decompress, the four content operations, the three resource
   operations, get_page_content, save.
   Method (Proofs/EditProofsTreeRef2.v): [page_doc_ref] reads the five structural entries of dictionary objects ([stable]) and
   the reference / integer objects on its paths; an operation that keeps both ON THE SUPPORT ([frame_on]) keeps the tree;
   every operation but set_object / prune_objects / delete_object keeps them everywhere (they replace dictionaries or streams or
   insert at a fresh id), set_object stays off the support, prune_objects keeps what the trailer reaches and the support is
   reachable; delete_object(p) with p off the support strips the references to p from the other objects: a node's dictionary
   keeps Type / Kids / Parent, its Count chain does not pass p ([read_count_del3]), no page's path passes p ([leads_del]). *)
Theorem C11_count_invariant_ref_step :
  forall O d t o,
    doc_wf d -> alloc_ok d -> page_doc_ref d t -> hbound t -> tree_op_dom_ref d t o ->
    page_doc_ref (fst (step O d o)) (tree_after d t o) /\ hbound (tree_after d t o).
Proof. exact step_page_doc_ref. Qed.

Theorem C11_count_invariant_ref :
  forall O ops d t,
    doc_wf d -> alloc_ok d -> page_doc_ref d t -> hbound t -> tree_prog_dom_ref O d t ops ->
    let d' := run_ops O d ops in let t' := tree_end O d t ops in
    doc_wf d' /\ alloc_ok d' /\ page_doc_ref d' t' /\ hbound t' /\
    page_iter d' = leaves t' /\ counts_exact (d_objects d') t'.
Proof. exact run_ops_page_doc_ref. Qed.

(* the domains: the step domain implies C11_count_invariant's; the support contains the nodes and the catalog, is reachable
   from the trailer, and is computed by [support_list] (plus the catalog) *)
Theorem C11_tree_op_dom_ref_facts :
  (forall d t o, tree_op_dom_ref d t o -> tree_op_dom d t o) /\
  (forall d t x, tree_or_cat d t x -> tree_support d t x) /\
  (forall d t x, page_doc_ref d t -> tree_support d t x -> RenumberSpec.reach (d_trailer d) (d_objects d) x) /\
  (forall m I L x, sup m I L x -> In x (support_list m I L)).
Proof. exact (conj tree_op_dom_ref_dom (conj tree_support_contains (conj support_reach sup_in_list))). Qed.

(* non-vacuity: on the document of C11_delete_pages_tree_indirect_ref_example: add an object (15), replace it, append content to
   page 11, add an XObject name to page 11 (value: a reference to 15), delete object 15 (the reference is stripped), delete
   page 2 (the reference object 5), prune (drops 12, 13 and the rest the trailer no longer reaches), save, compress, delete
   page 1 twice.  15 is outside the support; the integer object 8 (Count of
   2, behind 7) and the dictionary object 13 (page 5, behind 12) are in it *)
Theorem C11_count_invariant_ref_example :
  doc_wf tree_doc_ref /\ alloc_ok tree_doc_ref /\ page_doc_ref tree_doc_ref tree_ex_ind /\ hbound tree_ex_ind /\
  tree_prog_dom_ref O_id tree_doc_ref tree_ex_ind tree_prog_ref /\
  tree_end O_id tree_doc_ref tree_ex_ind tree_prog_ref = PNode (2,0)%N [PNode (4,0)%N []; PNode (10,0)%N [PLeaf (11,0)%N]] /\
  page_iter (run_ops O_id tree_doc_ref tree_prog_ref) = [(11,0)%N] /\
  ~ tree_support tree_doc_ref tree_ex_ind (15,0)%N /\
  tree_support tree_doc_ref tree_ex_ind (8,0)%N /\ tree_support tree_doc_ref tree_ex_ind (13,0)%N.
Proof. exact tree_prog_ref_example. Qed.

Print Assumptions C11_alloc_invariant.
Print Assumptions C11_alloc_fresh.
Print Assumptions C11_alloc_no_collision.
Print Assumptions C11_frame_build_outline.
Print Assumptions C11_outline_after_program.
Print Assumptions C11_frame_add_bookmark.
Print Assumptions C11_frame_save.
Print Assumptions C11_prune.
Print Assumptions C11_prune_total.
Print Assumptions C11_frame_new.
Print Assumptions C11_frame_add.
Print Assumptions C11_frame_set.
Print Assumptions C11_delete_no_reference_left.
Print Assumptions C11_delete_frame.
Print Assumptions C11_strip_no_reference.
Print Assumptions C11_delete_v0_refuted.
Print Assumptions C11_resources_shadow_v0_refuted.
Print Assumptions C11_resources_shadow_repaired_example.
Print Assumptions C11_content_shared_v0_refuted.
Print Assumptions C11_content_shared_repaired_example.
Print Assumptions C11_content_indirect_v0_refuted.
Print Assumptions C11_content_indirect_repaired_example.
Print Assumptions C11_add_page_contents_content.
Print Assumptions C11_content_example.
Print Assumptions C11_change_content_stream_frame.
Print Assumptions C11_change_content_stream_content.
Print Assumptions C11_change_page_content_content.
Print Assumptions C11_change_page_content_shows_new_content.
Print Assumptions C11_change_page_content_no_contents.
Print Assumptions C11_add_to_page_content_content.
Print Assumptions C11_change_page_content_example.
Print Assumptions C11_resources_get_or_create.
Print Assumptions C11_resources_add_graphics_state.
Print Assumptions C11_resources_add_xobject.
Print Assumptions C11_resources_add_xobject_direct.
Print Assumptions C11_resources_add_xobject_alias_witness.
Print Assumptions C11_resources_add_xobject_example.
Print Assumptions C11_frame_resource_ops.
Print Assumptions C11_resources_example.
Print Assumptions C11_frame_content_ops.
Print Assumptions C11_frame_keeping_ops.
Print Assumptions C11_count_loop_chain.
Print Assumptions C11_delete_pages_one_chain.
Print Assumptions C11_count_indirect_v0_refuted.
Print Assumptions C11_page_reference_v0_refuted.
Print Assumptions C11_count_repaired_examples.
Print Assumptions C11_count_refs_example.
Print Assumptions C11_count_example_partial.
Print Assumptions C11_delete_pages_tree.
Print Assumptions C11_delete_page_step.
Print Assumptions C11_page_doc_is_tree_wf.
Print Assumptions C11_delete_pages_tree_example.
Print Assumptions C11_count_invariant_step.
Print Assumptions C11_count_invariant.
Print Assumptions C11_count_invariant_example.
Print Assumptions C11_example.
Print Assumptions C11_example_doc_ops.
Print Assumptions C11_delete_pages_tree_indirect_counts.
Print Assumptions C11_delete_page_step_indirect.
Print Assumptions C11_page_doc_ind_contains_page_doc.
Print Assumptions C11_delete_pages_tree_indirect_example.
Print Assumptions C11_delete_pages_tree_indirect.
Print Assumptions C11_delete_page_step_ref.
Print Assumptions C11_page_doc_ref_contains_page_doc_ind.
Print Assumptions C11_delete_pages_tree_indirect_ref_example.
Print Assumptions C11_count_invariant_ref_step.
Print Assumptions C11_count_invariant_ref.
Print Assumptions C11_tree_op_dom_ref_facts.
Print Assumptions C11_count_invariant_ref_example.
