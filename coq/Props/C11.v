(* Props/C11.v -- property C11: editing operations keep the document sound.
   Statements only; proofs live in Proofs/EditProofs*.v.  The model is Model/Edit.v:
   [step O d op] is one public editing call, [run_ops O d ops] a whole program. *)
From LV Require Import Base.Bytes Model.Obj Model.DocQ Model.PageTree Model.Traverse Model.Edit
  Spec.RenumberSpec Proofs.EditProofs Proofs.EditProofsEx.

(* ------------------------------------------------------------------------------------------ *)
(* Allocation.  [alloc_ok d]: max_id is at least every object number in use.  [doc_wf d]: the
   representation invariant of the BTreeMap (keys strictly increasing).  [prog_dom]: every
   set_object of the program targets an id at or below the cursor at that moment ("replace" an
   object that exists or was handed out), every renumber_objects is inside the domain proved for
   C10.  For EVERY program and every interleaving of the operations: *)

(* (1) the invariant survives the whole program *)
Theorem C11_alloc_invariant :
  forall O ops d, doc_wf d -> alloc_ok d -> prog_dom O d ops ->
    doc_wf (run_ops O d ops) /\ alloc_ok (run_ops O d ops).
Proof. exact run_ops_inv. Qed.

(* (2) an id handed out by new_object_id / add_object lies above the cursor, so under the invariant it
   collides with no existing object -- not even with one of another generation -- and the cursor moves to it *)
Theorem C11_alloc_fresh :
  forall O d o d' id, step O d o = (d', OId id) ->
    (d_max_id d < fst id)%N /\ d_max_id d' = fst id /\ snd id = 0%N /\
    (alloc_ok d -> forall k, has_obj (d_objects d) k -> fst k <> fst id).
Proof. exact alloc_fresh. Qed.

(* (3) no object number is handed out twice, whatever is interleaved (delete, prune, content and resource
   edits, ...); renumber_objects compacts the numbers and restarts the cursor, so the statement is per
   renumbering-free program *)
Theorem C11_alloc_no_collision :
  forall O ops d, no_renumber ops -> prog_dom O d ops -> NoDup (map fst (handed_out O d ops)).
Proof. exact alloc_no_collision. Qed.

(* ------------------------------------------------------------------------------------------ *)
(* Pruning removes exactly the objects that are not reachable from the trailer ([reach] is the
   specification of Spec/RenumberSpec.v); every reachable object, the trailer and the cursor are unchanged;
   and it always terminates (cyclic graphs included). *)
Theorem C11_prune :
  forall d d' ids, doc_wf d -> prune_objects d = Some (d', ids) ->
    (forall id, In id ids <-> has_obj (d_objects d) id /\ ~ reach (d_trailer d) (d_objects d) id) /\
    (forall id, reach (d_trailer d) (d_objects d) id -> lookup (d_objects d') id = lookup (d_objects d) id) /\
    (forall id, ~ reach (d_trailer d) (d_objects d) id -> lookup (d_objects d') id = None) /\
    d_trailer d' = d_trailer d /\ d_max_id d' = d_max_id d.
Proof. exact I_prune. Qed.

Theorem C11_prune_total : forall d, prune_objects d <> None.
Proof. exact prune_total. Qed.

(* ------------------------------------------------------------------------------------------ *)
(* Frames of the allocation operations: nothing but the named object changes. *)
Theorem C11_frame_new :
  forall O d d' r, step O d NewObjectId = (d', r) -> d_objects d' = d_objects d /\ d_trailer d' = d_trailer d.
Proof. exact frame_new. Qed.

Theorem C11_frame_add :
  forall O d x d' id, step O d (AddObject x) = (d', OId id) ->
    d_trailer d' = d_trailer d /\ lookup (d_objects d') id = Some x /\
    forall y, y <> id -> lookup (d_objects d') y = lookup (d_objects d) y.
Proof. exact frame_add. Qed.

Theorem C11_frame_set :
  forall O d id x, let d' := fst (step O d (SetObject id x)) in
    d_trailer d' = d_trailer d /\ d_max_id d' = d_max_id d /\ lookup (d_objects d') id = Some x /\
    forall y, y <> id -> lookup (d_objects d') y = lookup (d_objects d) y.
Proof. exact frame_set. Qed.

(* ------------------------------------------------------------------------------------------ *)
(* non-vacuity: a concrete document with a page tree and a program mixing allocation, replacement,
   deletion and pruning meets the hypotheses; three ids are handed out, all different *)
Theorem C11_example :
  doc_wf ex_doc /\ alloc_ok ex_doc /\ prog_dom O0 ex_doc ex_ops /\ no_renumber ex_ops /\
  handed_out O0 ex_doc ex_ops = [(8, 0); (9, 0); (10, 0)]%N /\
  map fst (d_objects (run_ops O0 ex_doc ex_ops)) = [(1, 0); (2, 0); (4, 0); (5, 0); (6, 0)]%N /\
  d_max_id (run_ops O0 ex_doc ex_ops) = 10%N.
Proof.
  destruct ex_hyps as [H1 [H2 [H3 H4]]]. destruct ex_run as [H5 [H6 H7]].
  exact (conj H1 (conj H2 (conj H3 (conj H4 (conj H5 (conj H6 H7)))))).
Qed.

Print Assumptions C11_alloc_invariant.
Print Assumptions C11_alloc_fresh.
Print Assumptions C11_alloc_no_collision.
Print Assumptions C11_prune.
Print Assumptions C11_prune_total.
Print Assumptions C11_frame_new.
Print Assumptions C11_frame_add.
Print Assumptions C11_frame_set.
Print Assumptions C11_example.
