(* C04 -- Parsing untrusted bytes never panics, aborts or hangs.   (placeholder until ./check C04 is green)
   Statements only; the proofs are in Proofs/Safe*Proofs.v.  [bytes] is [list byte]: "forall bs" is every byte string. *)
From LV Require Import Base.Bytes Model.Utf Model.OneByte Model.RangeMap Model.CMap Model.CMapParser Gen.Tables
     Model.Safe Model.SafeFilt Model.SafeText Proofs.SafeFiltProofs Proofs.SafeTextProofs.
Local Open Scope N_scope.

(* ---------------- Stream::decode_ascii85 ---------------- *)
Theorem C04_a85_no_panic : forall bs, no_panic (sa85 bs).
Proof. exact sa85_no_panic. Qed.
Theorem C04_a85_terminates : forall bs, terminates (sa85 bs) /\ steps (sa85 bs) <= SafeFilt.blen bs + 5.
Proof. intros bs. split; [apply sa85_terminates | apply sa85_steps]. Qed.
Theorem C04_a85_alloc : forall bs, max_alloc (sa85 bs) <= 4 * SafeFilt.blen bs + 4.
Proof. exact sa85_alloc. Qed.
Theorem C04_a85_depth : forall bs, max_depth (sa85 bs) = 0.
Proof. exact sa85_depth. Qed.

(* ---------------- PNG predictor: decompress_predictor / decode_frame, any geometry ---------------- *)
Theorem C04_predictor_no_panic : forall predictor columns colors bits data,
  no_panic (spredictor predictor columns colors bits data).
Proof. exact spredictor_no_panic. Qed.
Theorem C04_predictor_terminates : forall predictor columns colors bits data,
  terminates (spredictor predictor columns colors bits data)
  /\ steps (spredictor predictor columns colors bits data) <= SafeFilt.blen data.
Proof. intros. split; [apply spredictor_terminates | apply spredictor_steps]. Qed.
Theorem C04_predictor_alloc : forall predictor columns colors bits data,
  max_alloc (spredictor predictor columns colors bits data) <= SafeFilt.blen data.
Proof. exact spredictor_alloc. Qed.
Theorem C04_decode_frame_safe : forall content bpp ppr,
  no_panic (sdecode_frame content bpp ppr) /\ terminates (sdecode_frame content bpp ppr)
  /\ steps (sdecode_frame content bpp ppr) <= SafeFilt.blen content
  /\ max_alloc (sdecode_frame content bpp ppr) <= SafeFilt.blen content.
Proof.
  intros. repeat split.
  - apply sdecode_frame_no_panic.
  - apply sdecode_frame_terminates.
  - apply sdecode_frame_steps.
  - apply sdecode_frame_alloc.
Qed.
(* the geometry as pinned: overflow panic, and a 4 GB row buffer for a 4-byte stream (repaired by 686bd3f, 22cc8e0) *)
Theorem C04_predictor_pinned_refuted :
  (exists data, outcome (spredictor_pinned 12 1 9223372036854775807 9223372036854775807 data) = SPanic ROverflow)
  /\ (exists data, max_alloc (spredictor_pinned 12 4000000000 1 8 data) = 4000000000 /\ SafeFilt.blen data = 4).
Proof. exact spredictor_pinned_refuted. Qed.

(* ---------------- decode_text_string ---------------- *)
Theorem C04_text_string_no_panic : forall bs, no_panic (stext_string bs).
Proof. exact stext_string_no_panic. Qed.
Theorem C04_text_string_cost : forall bs,
  steps (stext_string bs) <= SafeText.blen bs /\ max_alloc (stext_string bs) <= 3 * SafeText.blen bs + 1
  /\ max_depth (stext_string bs) = 0.
Proof. exact stext_string_cost. Qed.
(* the `expect` in bytes_to_string is a real site: it holds because no shipped table contains a surrogate *)
Theorem C04_one_byte_tables_no_panic : forall name t bs, In (name, t) FONT_ENCODINGS -> no_panic (sbytes_to_string t bs).
Proof.
  intros name t bs Hin. apply sbytes_to_string_no_panic.
  pose proof font_tables_ok as H. rewrite Forall_forall in H. apply (H (name, t) Hin).
Qed.
Theorem C04_expect_site_is_real : exists t bs, length t = 256%nat /\ outcome (sbytes_to_string t bs) = SPanic RUnwrap.
Proof. exact sbytes_to_string_needs_table. Qed.

(* ---------------- ToUnicode CMap: ToUnicodeCMap::get and Encoding::bytes_to_string ---------------- *)
Theorem C04_cmap_get_no_panic : forall secs cm code len, from_sections secs = FsOk cm -> no_panic (sget cm code len).
Proof. intros. apply sget_no_panic. eapply from_sections_ok; eassumption. Qed.
Theorem C04_cmap_get_is_model_get : forall secs cm code len,
  from_sections secs = FsOk cm -> outcome (sget cm code len) = SOk (get cm code len).
Proof. intros. apply sget_spec. eapply from_sections_ok; eassumption. Qed.
Theorem C04_cmap_text_no_panic : forall cmap_bytes cm text, cmap_parse cmap_bytes = ParseOk cm -> no_panic (scmap_text cm text).
Proof.
  intros cb cm text H. unfold cmap_parse in H.
  destruct (cmap_stream cb) as [secs r| | | |]; try discriminate.
  destruct (from_sections secs) eqn:E; try discriminate. injection H as <-.
  eapply cmap_decode_no_panic; eassumption.
Qed.
Theorem C04_cmap_sub_site_is_real : exists cm code len, outcome (sget cm code len) = SPanic ROverflow.
Proof. exact sget_site_is_real. Qed.
(* non-vacuity: a CMap that parses, and a text it decodes *)
Definition example_cmap : bytes := Eval cbv in bs
  "/CIDInit /ProcSet findresource begin 12 dict begin begincmap /CMapType 2 def 1 begincodespacerange <00> <ff> endcodespacerange 1 beginbfrange <41> <43> <0061> endbfrange endcmap CMapName currentdict /CMap defineresource pop end end".
Theorem C04_example_cmap :
  match cmap_parse example_cmap with ParseOk cm => outcome (scmap_text cm [x41; x42; x7a]) = SOk 3 | _ => False end.
Proof. vm_compute. reflexivity. Qed.

Print Assumptions C04_a85_no_panic.
Print Assumptions C04_a85_terminates.
Print Assumptions C04_a85_alloc.
Print Assumptions C04_a85_depth.
Print Assumptions C04_predictor_no_panic.
Print Assumptions C04_predictor_terminates.
Print Assumptions C04_predictor_alloc.
Print Assumptions C04_decode_frame_safe.
Print Assumptions C04_predictor_pinned_refuted.
Print Assumptions C04_text_string_no_panic.
Print Assumptions C04_text_string_cost.
Print Assumptions C04_one_byte_tables_no_panic.
Print Assumptions C04_expect_site_is_real.
Print Assumptions C04_cmap_get_no_panic.
Print Assumptions C04_cmap_get_is_model_get.
Print Assumptions C04_cmap_text_no_panic.
Print Assumptions C04_cmap_sub_site_is_real.
Print Assumptions C04_example_cmap.
