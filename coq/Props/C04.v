(* C04 -- Parsing untrusted bytes never panics, aborts or hangs.
   Statements only; the proofs are in Proofs/Safe*Proofs.v.  [bytes] is [list byte]: "forall bs" is every byte string. *)
From LV Require Import Base.Bytes Model.Utf Model.OneByte Model.RangeMap Model.CMap Model.CMapParser Gen.Tables Gen.ObjStmC
     Model.Obj Model.Parser Model.Xref Model.Loader Model.LoaderExt Model.LoaderEnc Model.Safe Model.SafeFilt Model.SafeText Model.SafeContent
     Model.SafeXref Model.SafeObjStm
     Proofs.SafeFiltProofs Proofs.SafeTextProofs Proofs.SafeContentProofs Proofs.SafeXrefProofs
     Proofs.SafeParserFuel Proofs.SafeSearchProofs Proofs.SafeObjStmProofs Proofs.SafeLoadProofs.
From LV Require Proofs.LoaderEncProofs.
Local Open Scope N_scope.

(* ---------------- Stream::decode_ascii85 ---------------- *)
Theorem C04_a85_no_panic : forall bs, no_panic (sa85 bs).
Proof. exact sa85_no_panic. Qed.
Theorem C04_a85_terminates : forall bs, terminates (sa85 bs) /\ steps (sa85 bs) <= SafeFilt.blen bs + 5.
Proof. intros bs. split; [apply sa85_terminates | apply sa85_steps]. Qed.
Theorem C04_a85_alloc : forall bs, max_alloc (sa85 bs) <= 4 * SafeFilt.blen bs + 4.
Proof. exact sa85_alloc. Qed.
Theorem C04_a85_depth : forall bs, max_depth (sa85 bs) = 0.
Proof. exact sa85_depth. Qed.

(* ---------------- PNG predictor: decompress_predictor / decode_frame, any geometry ---------------- *)
Theorem C04_predictor_no_panic : forall predictor columns colors bits data,
  no_panic (spredictor predictor columns colors bits data).
Proof. exact spredictor_no_panic. Qed.
Theorem C04_predictor_terminates : forall predictor columns colors bits data,
  terminates (spredictor predictor columns colors bits data)
  /\ steps (spredictor predictor columns colors bits data) <= SafeFilt.blen data.
Proof. intros. split; [apply spredictor_terminates | apply spredictor_steps]. Qed.
Theorem C04_predictor_alloc : forall predictor columns colors bits data,
  max_alloc (spredictor predictor columns colors bits data) <= SafeFilt.blen data.
Proof. exact spredictor_alloc. Qed.
Theorem C04_decode_frame_safe : forall content bpp ppr,
  no_panic (sdecode_frame content bpp ppr) /\ terminates (sdecode_frame content bpp ppr)
  /\ steps (sdecode_frame content bpp ppr) <= SafeFilt.blen content
  /\ max_alloc (sdecode_frame content bpp ppr) <= SafeFilt.blen content.
Proof.
  intros. repeat split.
  - apply sdecode_frame_no_panic.
  - apply sdecode_frame_terminates.
  - apply sdecode_frame_steps.
  - apply sdecode_frame_alloc.
Qed.
(* the geometry as pinned: overflow panic, and a 4 GB row buffer for a 4-byte stream (repaired by 686bd3f, 22cc8e0) *)
Theorem C04_predictor_pinned_refuted :
  (exists data, outcome (spredictor_pinned 12 1 9223372036854775807 9223372036854775807 data) = SPanic ROverflow)
  /\ (exists data, max_alloc (spredictor_pinned 12 4000000000 1 8 data) = 4000000000 /\ SafeFilt.blen data = 4).
Proof. exact spredictor_pinned_refuted. Qed.

(* ---------------- decode_text_string ---------------- *)
Theorem C04_text_string_no_panic : forall bs, no_panic (stext_string bs).
Proof. exact stext_string_no_panic. Qed.
Theorem C04_text_string_cost : forall bs,
  steps (stext_string bs) <= SafeText.blen bs /\ max_alloc (stext_string bs) <= 3 * SafeText.blen bs + 1
  /\ max_depth (stext_string bs) = 0.
Proof. exact stext_string_cost. Qed.
(* the `expect` in bytes_to_string is a real site: it holds because no shipped table contains a surrogate *)
Theorem C04_one_byte_tables_no_panic : forall name t bs, In (name, t) FONT_ENCODINGS -> no_panic (sbytes_to_string t bs).
Proof.
  intros name t bs Hin. apply sbytes_to_string_no_panic.
  pose proof font_tables_ok as H. rewrite Forall_forall in H. apply (H (name, t) Hin).
Qed.
Theorem C04_expect_site_is_real : exists t bs, length t = 256%nat /\ outcome (sbytes_to_string t bs) = SPanic RUnwrap.
Proof. exact sbytes_to_string_needs_table. Qed.

(* ---------------- ToUnicode CMap: ToUnicodeCMap::get and Encoding::bytes_to_string ---------------- *)
Theorem C04_cmap_get_no_panic : forall secs cm code len, from_sections secs = FsOk cm -> no_panic (sget cm code len).
Proof. intros. apply sget_no_panic. eapply from_sections_ok; eassumption. Qed.
Theorem C04_cmap_get_is_model_get : forall secs cm code len,
  from_sections secs = FsOk cm -> outcome (sget cm code len) = SOk (get cm code len).
Proof. intros. apply sget_spec. eapply from_sections_ok; eassumption. Qed.
Theorem C04_cmap_text_no_panic : forall cmap_bytes cm text, cmap_parse cmap_bytes = ParseOk cm -> no_panic (scmap_text cm text).
Proof.
  intros cb cm text H. unfold cmap_parse in H.
  destruct (cmap_stream cb) as [secs r| | | |]; try discriminate.
  destruct (from_sections secs) eqn:E; try discriminate. injection H as <-.
  eapply cmap_decode_no_panic; eassumption.
Qed.
Theorem C04_cmap_sub_site_is_real : exists cm code len, outcome (sget cm code len) = SPanic ROverflow.
Proof. exact sget_site_is_real. Qed.
(* non-vacuity: a CMap that parses, and a text it decodes *)
Definition example_cmap : bytes := Eval cbv in bs
  "/CIDInit /ProcSet findresource begin 12 dict begin begincmap /CMapType 2 def 1 begincodespacerange <00> <ff> endcodespacerange 1 beginbfrange <41> <43> <0061> endbfrange endcmap CMapName currentdict /CMap defineresource pop end end".
Theorem C04_example_cmap :
  match cmap_parse example_cmap with ParseOk cm => outcome (scmap_text cm [x41; x42; x7a]) = SOk 3 | _ => False end.
Proof. vm_compute. reflexivity. Qed.

(* ---------------- Content::decode and the object parser (ObjectStream members, operands) ---------------- *)
(* for every byte string the grammar model of Content::decode ends in operations or an error, never in a panic *)
Theorem C04_content_no_panic : forall bs, decode_content bs <> DecPanic.
Proof. exact decode_content_no_panic. Qed.
(* parser::direct_object, at every fuel and for every byte string *)
Theorem C04_direct_object_no_panic : forall fuel bs, direct_object fuel bs <> PPanic.
Proof. exact direct_object_no_panic. Qed.
(* inline image W / H / BPC: checked arithmetic, and the data taken is never longer than what is left of the stream *)
Theorem C04_inline_image_safe : forall nc w h bpc rest,
  no_panic (sinline_data nc w h bpc rest)
  /\ max_alloc (sinline_data nc w h bpc rest) <= N.of_nat (length rest)
  /\ steps (sinline_data nc w h bpc rest) <= N.of_nat (length rest).
Proof. exact sinline_data_safe. Qed.
Theorem C04_inline_image_pinned_refuted :
  outcome (sinline_len_pinned 3 9223372036854775807 1 8) = SPanic ROverflow
  /\ outcome (sinline_len_pinned 1 (-1) 1 8) = SPanic ROverflow.
Proof. exact sinline_len_pinned_refuted. Qed.
(* recursion depth (repair 61b571d): a value parsed at depth d parses its elements at depth d - 1 and only when d > 0;
   at depth 0 no recursive call is made, whatever the input.  So the recursion is at most MAX_NESTING + 1 containers
   deep (MAX_NESTING = 16 since ce95661: in a debug build a container level costs 24-30 KiB of stack), plus
   MAX_BRACKET + 1 for the parentheses of a literal string: PARSER_DEPTH_BOUND. *)
Theorem C04_parser_depth_decreases : forall f d s,
  direct_objects_at (S f) d s = object_alts_c (direct_objects_at f (pred d)) (depth_ok d) true f s.
Proof. exact depth_decreases. Qed.
Theorem C04_parser_depth0_no_recursion : forall elem1 elem2 ar n s,
  object_alts_c elem1 false ar n s = object_alts_c elem2 false ar n s.
Proof. exact depth0_no_recursion. Qed.

(* ---------------- xref::decode_xref_stream, after decompression ---------------- *)
(* for every W, Index and content: no panic, the row loop stops (fuel content.len() + 1 per section suffices whatever
   count the file gives), the largest request is the content length + 1 or the two integer arrays, and no more
   entries are inserted than the content has bytes *)
Theorem C04_xref_stream_safe : forall index ws content,
  Forall in_i64 ws -> SafeXref.blen content < ISIZE_MAX ->
  no_panic (sxref_stream index ws content)
  /\ terminates (sxref_stream index ws content)
  /\ max_alloc (sxref_stream index ws content)
     <= N.max (SafeXref.blen content + 1) (8 * N.max (N.of_nat (length index)) (N.of_nat (length ws)))
  /\ forall n, outcome (sxref_stream index ws content) = SOk n -> n <= SafeXref.blen content.
Proof. exact sxref_stream_safe. Qed.
Theorem C04_example_xref_stream :
  Forall in_i64 [1; 1; 1]%Z /\ SafeXref.blen [x01; x00; x00; x01; x00; x00; x01; x00; x00] < ISIZE_MAX
  /\ outcome (sxref_stream [9223372036854775806; 3]%Z [1; 1; 1]%Z [x01; x00; x00; x01; x00; x00; x01; x00; x00]) = SOk 3.
Proof. split; [repeat constructor; unfold I64_MIN, I64_MAX; lia|]. split; vm_compute; reflexivity. Qed.
(* the code before 42cc00d / 960142a / 7320cb4: a 2^63-1 byte buffer for 3 bytes of data; a loop that is where it
   started after 1000 rows; start + j overflowing *)
Theorem C04_xref_stream_pinned_refuted :
  max_alloc (sxref_stream_pinned 10 [0; 3]%Z [9223372036854775807; 1; 1]%Z c3) = 9223372036854775807
  /\ outcome (sxref_stream_pinned 1000 [0; 4000000000]%Z [0; 0; 0]%Z c3) = SFuel
  /\ outcome (sxref_stream_pinned 10 [9223372036854775806; 3]%Z [1; 1; 1]%Z
               [x01; x00; x00; x01; x00; x00; x01; x00; x00]) = SPanic ROverflow.
Proof. exact sxref_stream_pinned_refuted. Qed.
(* ---------------- rung 3: fuel sufficiency of the grammar model (an explicit LINEAR polynomial) ---------------- *)
(* every loop iteration and every recursive call of the nom grammar consumes at least one input byte: with more fuel
   than input bytes the model never answers out-of-fuel; the entry points use |s| + 2 *)
Theorem C04_parser_fuel : forall fuel depth s, (length s < fuel)%nat -> direct_objects_at fuel depth s <> POut.
Proof. intros fuel depth s H. apply direct_objects_at_fine. exact H. Qed.
Theorem C04_direct_object_terminates : forall s, direct_object (fuel_for s) s <> POut /\ fuel_for s = S (S (length s)).
Proof. intro s. split; [apply direct_object_fuel|reflexivity]. Qed.
Theorem C04_content_terminates : forall s, decode_content s <> DecOut.
Proof. exact decode_content_fuel. Qed.
(* hence: on EVERY byte string Content::decode (as modelled) ends in a value or an error *)
Theorem C04_content_total : forall s, decode_content s = DecErr \/ exists ops, decode_content s = DecOk ops.
Proof.
  intro s. pose proof (decode_content_fuel s) as H1. pose proof (decode_content_no_panic s) as H2.
  destruct (decode_content s) as [ops| | |]; try congruence; [right; exists ops; reflexivity|left; reflexivity].
Qed.

(* ---------------- rung 3: Reader::search_substring and Reader::get_xref_start, every buffer ---------------- *)
(* the scan loop: no panic site is reached (buffer[seek_pos], pattern[index], seek_pos -= index, seek_pos - index),
   at most (|buffer| + 1) * (|pattern| + 1) iterations; search_substring: one level of recursion per match, every
   activation starts behind the previous match: depth <= |buffer| - start_pos *)
Theorem C04_search_substring_safe : forall buffer pattern depth_fuel scan_fuel start,
  SafeXref.blen buffer < USIZE_MAX ->
  start <= SafeXref.blen buffer -> SafeXref.blen buffer - start < N.of_nat depth_fuel ->
  (SafeXref.blen buffer + 1) * (SafeXref.blen pattern + 1) < N.of_nat scan_fuel ->
  no_panic (ssearch depth_fuel scan_fuel buffer pattern start)
  /\ terminates (ssearch depth_fuel scan_fuel buffer pattern start)
  /\ max_depth (ssearch depth_fuel scan_fuel buffer pattern start) <= SafeXref.blen buffer - start
  /\ max_alloc (ssearch depth_fuel scan_fuel buffer pattern start) = 0
  /\ forall r, outcome (ssearch depth_fuel scan_fuel buffer pattern start) = SOk (Some r) ->
       start <= r /\ r + SafeXref.blen pattern <= SafeXref.blen buffer.
Proof. intros buffer pattern df sf start H1 H2 H3 H4. exact (ssearch_safe buffer pattern H1 df sf start H2 H3 H4). Qed.
(* get_xref_start looks at the last 512 bytes, then from 25 bytes before the last %%EOF of that window: whatever the file
   contains the recursion is at most 537 deep, nothing is allocated, and the position returned lies in the buffer *)
Theorem C04_get_xref_start_safe : forall buffer, SafeXref.blen buffer < USIZE_MAX ->
  no_panic (sget_xref_start buffer) /\ terminates (sget_xref_start buffer)
  /\ max_depth (sget_xref_start buffer) <= 537
  /\ max_alloc (sget_xref_start buffer) = 0
  /\ forall p, outcome (sget_xref_start buffer) = SOk p -> p <= SafeXref.blen buffer.
Proof. exact sget_xref_start_safe. Qed.
Theorem C04_example_get_xref_start :
  outcome (sget_xref_start (bs "%PDF-1.5 0123456789012345678901234567890 startxref 9 %%EOF startxref 7 %%EOF")) = SOk 59.
Proof. vm_compute. reflexivity. Qed.

(* ---------------- rung 3: ObjectStream::new ---------------- *)
(* `first_offset + chunk[1] as usize` cannot overflow (first_offset <= content.len() <= isize::MAX, the other a u32),
   `numbers[..len]` is in range; the bytes parsed and kept by one object stream: every single request at most
   |content|, the total -- what the members are charged: the span of the object, the whole rest where there is none --
   at most (MAX_MEMBER_OVERLAP + 1) * |content| for EVERY index and whatever the parser answers: LINEAR since the repair of
   C04-objstm-shared-offsets (the last run may start at the limit and take |content| more).  On the pinned code every
   pair ran: the sum of the rests, pairs * |content| when pairs share an offset (a 12.8 KB file made load_mem allocate
   more than 1 GiB): C04_objstm_pinned_quadratic. *)
Theorem C04_objstm_arith_no_panic : forall first off numbers, first <= ISIZE_MAX -> off <= U32_MAX ->
  sobjstm_offset first off = ret (first + off) /\ no_panic (sobjstm_even numbers).
Proof. intros. split; [apply sobjstm_offset_no_panic; assumption|apply sobjstm_even_no_panic]. Qed.
Theorem C04_objstm_work : forall len first ous, first <= ISIZE_MAX -> Forall (fun ou => fst ou <= U32_MAX) ous ->
  no_panic (sobjstm_work len first ous)
  /\ exists spent, outcome (sobjstm_work len first ous) = SOk spent
     /\ steps (sobjstm_work len first ous) <= spent
     /\ max_alloc (sobjstm_work len first ous) <= len
     /\ spent <= (MAX_MEMBER_OVERLAP + 1) * len.
Proof. exact sobjstm_work_safe. Qed.
Theorem C04_objstm_pinned_quadratic : forall n len, 0 < len ->
  total_rest len 0 (repeat 0 n) = N.of_nat n * len.
Proof. exact sobjstm_work_quadratic_witness. Qed.
Theorem C04_objstm_shared_offsets_linear : forall n len used,
  exists spent, outcome (sobjstm_work len 0 (repeat (0, used) n)) = SOk spent /\ spent <= (MAX_MEMBER_OVERLAP + 1) * len.
Proof. exact sobjstm_shared_offsets_linear. Qed.

(* ---------------- rung 3: the cross-reference table, and the composition Reader::read ---------------- *)
(* c02's Model/Xref.v: the table parser and the stream decoder end in a value or an error on every input
   (fuel |s| + 1: every entry and every subsection consumes input) *)
Theorem C04_xref_table_safe : forall s, xref_and_trailer_table s <> XPanic /\ xref_and_trailer_table s <> XOut.
Proof. exact xref_and_trailer_table_safe. Qed.
Theorem C04_xref_stream_model_safe : forall decompress d c,
  decode_xref_stream decompress d c <> XPanic /\ decode_xref_stream decompress d c <> XOut.
Proof. exact decode_xref_stream_safe. Qed.
(* c01's Model/LoaderExt.v = Reader::read (header, get_xref_start, xref_and_trailer, the Prev loop with already_seen
   and XRefStm, read_object with Length references cut at MAX_LENGTH_CHAIN, object streams, the zero-length pass), for
   ALL byte strings and EVERY behaviour of Stream::decompress.
   _partial: (1) a trailer with Encrypt is answered [LUnmodelled] (authenticate_password("") / decrypt are not part of
   the loader model): nothing is claimed for those inputs; (2) Stream::decompress is a parameter: its own termination
   and panics are C04_a85_*, C04_predictor_* and the flate2 / weezl assumption; (3) no allocation bound is proved for the
   composition (C04_load_alloc is missing: the loader models carry no cost annotation; the harness measures it). *)
Theorem C04_load_no_panic_partial : forall decompress can_decompress bs, load_ext decompress can_decompress bs <> LPanic.
Proof. intros d c bs. apply (load_ext_safe d c bs). Qed.
(* the fuels: grammar |s| + 2, table |s| + 1, Prev loop |buf| + 2 (every iteration adds a new offset in 0..|buf| to
   already_seen), Length chain MAX_LENGTH_CHAIN + 1 -- never exhausted *)
Theorem C04_load_terminates_partial : forall decompress can_decompress bs, load_ext decompress can_decompress bs <> LOut.
Proof. intros d c bs. apply (load_ext_safe d c bs). Qed.

(* The same with the Encrypt branch (c01's Model/LoaderEnc.v, round 5): Reader::read on EVERY file.  With Encrypt in the
   trailer the objects are read as for any file (object streams stay closed), then the document goes to
   `if document.authenticate_password("").is_ok() { document.decrypt("")? }`, the parameter [after].  Item (1) of
   _partial above is gone: for every byte string the reader itself contributes neither a panic nor an exhausted fuel;
   [load_enc after] answers LPanic / LOut only if [after] does.  What stays outside: the decrypt attempt itself
   (Model/LoaderCrypt.v instantiates it with c05's handler, whose only panic site, the assert of Rc4::new, is argued
   unreachable from file bytes in notes/C04.md and exercised by the load-encrypt family); (2) and (3) as above. *)
Theorem C04_load_enc_no_panic_partial :
  forall decompress can_decompress (after : doc -> xtype -> lres),
    (forall d t, after d t <> LPanic /\ after d t <> LOut) ->
    forall bs, load_enc decompress can_decompress after bs <> LPanic.
Proof. intros dc cd after Ha bs. apply (load_enc_safe dc cd after Ha bs). Qed.
Theorem C04_load_enc_terminates_partial :
  forall decompress can_decompress (after : doc -> xtype -> lres),
    (forall d t, after d t <> LPanic /\ after d t <> LOut) ->
    forall bs, load_enc decompress can_decompress after bs <> LOut.
Proof. intros dc cd after Ha bs. apply (load_enc_safe dc cd after Ha bs). Qed.
(* in general (any result type of the decrypt attempt): the load answers one of the reader's own results, which is
   neither a panic nor out-of-fuel, or exactly what the decrypt attempt answers for the document that was read *)
Theorem C04_load_enc_answers :
  forall decompress can_decompress (R : Type) (ret : lres -> R) (after : xmap -> doc -> xtype -> R) bs,
    (exists r, load_encx decompress can_decompress R ret after bs = ret r /\ r <> LPanic /\ r <> LOut) \/
    (exists x d t, load_encx decompress can_decompress R ret after bs = after x d t).
Proof. exact load_encx_answers. Qed.
(* a file without Encrypt: the decrypt attempt is not consulted *)
Theorem C04_load_enc_is_load_ext :
  forall decompress can_decompress (after : doc -> xtype -> lres) bs,
    file_encrypted decompress can_decompress bs = false ->
    load_enc decompress can_decompress after bs = load_ext decompress can_decompress bs.
Proof. intros dc cd after bs H. apply (Proofs.LoaderEncProofs.load_enc_agrees dc cd lres (fun r => r) (fun _ => after) bs H). Qed.

(* Reader::search_substring recurses once per occurrence of the pattern (get_xref_start scans the last 512 + 25 bytes only) *)
Theorem C04_search_substring_depth_example :
  let buf := EOF5 ++ [x0a] ++ EOF5 ++ [x0a] ++ EOF5 in
  outcome (ssearch 10 100 buf EOF5 0) = SOk (Some 12) /\ max_depth (ssearch 10 100 buf EOF5 0) = 3.
Proof. exact ssearch_depth_example. Qed.

Print Assumptions C04_content_no_panic.
Print Assumptions C04_direct_object_no_panic.
Print Assumptions C04_inline_image_safe.
Print Assumptions C04_inline_image_pinned_refuted.
Print Assumptions C04_parser_depth_decreases.
Print Assumptions C04_parser_depth0_no_recursion.
Print Assumptions C04_xref_stream_safe.
Print Assumptions C04_example_xref_stream.
Print Assumptions C04_xref_stream_pinned_refuted.
Print Assumptions C04_search_substring_depth_example.
Print Assumptions C04_a85_no_panic.
Print Assumptions C04_a85_terminates.
Print Assumptions C04_a85_alloc.
Print Assumptions C04_a85_depth.
Print Assumptions C04_predictor_no_panic.
Print Assumptions C04_predictor_terminates.
Print Assumptions C04_predictor_alloc.
Print Assumptions C04_decode_frame_safe.
Print Assumptions C04_predictor_pinned_refuted.
Print Assumptions C04_text_string_no_panic.
Print Assumptions C04_text_string_cost.
Print Assumptions C04_one_byte_tables_no_panic.
Print Assumptions C04_expect_site_is_real.
Print Assumptions C04_cmap_get_no_panic.
Print Assumptions C04_cmap_get_is_model_get.
Print Assumptions C04_cmap_text_no_panic.
Print Assumptions C04_cmap_sub_site_is_real.
Print Assumptions C04_example_cmap.
Print Assumptions C04_parser_fuel.
Print Assumptions C04_direct_object_terminates.
Print Assumptions C04_content_terminates.
Print Assumptions C04_content_total.
Print Assumptions C04_search_substring_safe.
Print Assumptions C04_get_xref_start_safe.
Print Assumptions C04_example_get_xref_start.
Print Assumptions C04_objstm_arith_no_panic.
Print Assumptions C04_objstm_work.
Print Assumptions C04_objstm_pinned_quadratic.
Print Assumptions C04_objstm_shared_offsets_linear.
Print Assumptions C04_xref_table_safe.
Print Assumptions C04_xref_stream_model_safe.
Print Assumptions C04_load_no_panic_partial.
Print Assumptions C04_load_terminates_partial.
Print Assumptions C04_load_enc_no_panic_partial.
Print Assumptions C04_load_enc_terminates_partial.
Print Assumptions C04_load_enc_answers.
Print Assumptions C04_load_enc_is_load_ext.
