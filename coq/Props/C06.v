(* C06 -- placeholder while the theorems are being built (Proofs/IsoProofs*.v). *)
From LV Require Import Base.Bytes Spec.Crypto.Iso Spec.Crypto.IsoConcrete.

Theorem C06_placeholder_vectors : P_of_flags 3900 = (-4)%Z.
Proof. exact P_all. Qed.

Print Assumptions C06_placeholder_vectors.
