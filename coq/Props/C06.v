(* Props/C06.v -- property C06: the standard security handler agrees with the ISO 32000 algorithms.
   Statements only; proofs live in Proofs/IsoProofs*.v.

   Two sides.  [Handler.*] is the model of lopdf written from the Rust source (Model/Crypto/Handler.v, property
   C05's model, tied to the crate by C05's and C06's differential runs).  [Iso.*] is the standard's own
   formulation (Spec/Crypto/Iso.v), which shares no definition with the model except the PDF object type; the
   extracted [Iso] is the independent implementation the check runs lopdf against.
   [P : prims] are the third-party primitives (MD5, SHA-2, the AES block function), the same abstract functions on
   both sides ([iprims_of P]); RC4 is lopdf's own code on both sides (anchored by RFC 6229 vectors).
   Assumed of the primitives, where used: [forall m, length (p_md5 P m) = 16] (true of the Gallina MD5:
   C06_md5_length), [aes_ok P] (AES decryption inverts encryption on 16-byte blocks; proved of the Gallina AES:
   Proofs/CryptoProofsAES.v) and, for revisions 5 / 6, the SHA-2 output sizes (proved of the Gallina SHA-2:
   C06_sha2_lengths).
   Passwords are the prepared byte strings (PDFDocEncoding / SASLprep are an oracle outside the development).

   Domain (each a restriction the property text itself makes, see notes/C06.md): revisions 2-6; key lengths
   40..128 in steps of 8; conforming permission words; direct objects hold no streams; the Filter entry of a stream
   is a name or an array of names (and a stream whose only filter is Crypt, given as a name, has a dictionary as
   DecodeParms -- ISO 32000 Table 5).  The former finding classes decodeparms-array, eff-ignored and
   direct-encrypt-dict are repaired in /repo (f8740d3, 0fbc00d, fbda92c) and are inside the theorems' domain now. *)
From LV Require Import Base.Bytes Base.Sx Model.Obj Model.DocQ Gen.Crypto
  Model.Crypto.Word Model.Crypto.MD5 Model.Crypto.RC4 Model.Crypto.PKCS5 Model.Crypto.Handler Model.Crypto.Concrete
  Spec.Crypto.Iso Spec.Crypto.IsoConcrete
  Proofs.CryptoProofs Proofs.CryptoProofsFilter Proofs.CryptoProofsObject Proofs.IsoProofs Proofs.IsoProofsData
  Proofs.CryptoProofsDoc Proofs.IsoProofsObj Proofs.IsoProofsFilter Proofs.IsoProofsAuth Proofs.IsoProofsDoc Proofs.IsoProofsRT
  Proofs.IsoProofsDoc2 Proofs.IsoProofsPerms Proofs.IsoProofsDoc6 Proofs.IsoProofsDoc7 Proofs.IsoProofsExamples Proofs.CryptoProofsAES
  Model.Crypto.SHA2 Proofs.CryptoProofsSHA.
Local Open Scope N_scope.

(* ---------------- rung 1: constants and formulations ---------------- *)
(* what the translator reads out of the Rust source is what the standard prints *)
Theorem C06_constants :
  PAD_BYTES = padding_string /\ MD5_ITER = 50 /\ RC4_ITER = 19 /\ AES_SALT = [x73; x41; x6c; x54] /\
  PW_TRUNC = 127 /\ PW_PAD_LEN = 32 /\ PERM_FLAGS = perm_bits_mask /\
  P_RESERVED = perm_reserved_ones + 4294967295 * 4294967296 /\
  HASH_MIN_ROUNDS = 64 /\ HASH_ROUND_OFFSET = 32 /\ KEYLEN_MIN = 40 /\ KEYLEN_MAX = 128.
Proof. exact consts_agree. Qed.

(* "pad or truncate to exactly 32 bytes": lopdf's min/slices are append-then-truncate, for every password *)
Theorem C06_padding : forall pw, pad_pw pw = pad32 pw.
Proof. exact pad_pw_eq. Qed.

(* Algorithm 2.B (c): the byte sum lopdf takes and the big-endian number the standard takes agree modulo 3, for
   every byte string *)
Theorem C06_sum_bytes_mod3 : forall l, sum_bytes l mod 3 = be_value l mod 3.
Proof. exact sum_bytes_mod3. Qed.

(* lopdf rebuilds P from its bit flags; for every conforming permission word that is P itself, as the 32-bit
   number of Algorithm 2 (d), the 64-bit number of Algorithm 10 (a) and the integer written as /P *)
Theorem C06_p_value_conforming : forall p, conforming_P p = true ->
  p_value (perms_of_Z p) = P_u32 p + 4294967295 * 4294967296 /\ p_value_i64 (perms_of_Z p) = p.
Proof. exact p_value_conforming. Qed.

(* the Gallina MD5 yields 16 bytes *)
Theorem C06_md5_length : forall m, length (md5 m) = 16%nat.
Proof. exact md5_length. Qed.

(* Algorithm 1 (a)-(d): the per-object key, min(n + 5, 16) bytes, "sAlT" for AES *)
Theorem C06_alg1_key : forall P m fek id,
  cf_compute_key P (meth_cfm m) fek id =
  match m with
  | M_RC4 => alg1_key (iprims_of P) false fek id
  | M_AESV2 => alg1_key (iprims_of P) true fek id
  | _ => fek
  end.
Proof. exact alg1_key_refines. Qed.

(* Algorithm 2: the file encryption key *)
Theorem C06_alg2 : forall P, (forall m, length (p_md5 P m) = 16%nat) ->
  forall a R Length O U Pz em (d : doc) id0 pw,
  matches_r4 a R Length O U Pz em -> file_id_0 d = Ok id0 ->
  compute_fek_r4 P a d pw = Ok (alg2 (iprims_of P) R Length O Pz id0 em pw).
Proof. exact alg2_refines. Qed.

(* ---------------- rung 2: Algorithms 3-7 (revisions 2-4) ---------------- *)
Theorem C06_alg3 : forall P, (forall m, length (p_md5 P m) = 16%nat) ->
  forall a R Length O U Pz em owner user, matches_r4 a R Length O U Pz em ->
  owner_value_r4 P a owner user = Ok (alg3 (iprims_of P) R Length (Some owner) user).
Proof. exact alg3_refines. Qed.

Theorem C06_alg4 : forall P, (forall m, length (p_md5 P m) = 16%nat) ->
  forall a Length O U Pz em (d : doc) id0 user, matches_r4 a 2 Length O U Pz em -> file_id_0 d = Ok id0 ->
  user_value_r2 P a d user = Ok (alg4 (iprims_of P) Length O Pz id0 em user).
Proof. exact alg4_refines. Qed.

Theorem C06_alg5 : forall P, (forall m, length (p_md5 P m) = 16%nat) ->
  forall a R Length O U Pz em (d : doc) id0 user rnd, matches_r4 a R Length O U Pz em -> file_id_0 d = Ok id0 ->
  user_value_r3 P a d user rnd = Ok (alg5 (iprims_of P) R Length O Pz id0 em user rnd).
Proof. exact alg5_refines. Qed.

Theorem C06_alg6 : forall P, (forall m, length (p_md5 P m) = 16%nat) ->
  forall a R Length O U Pz em (d : doc) id0 pw,
  matches_r4 a R Length O U Pz em -> file_id_0 d = Ok id0 -> length U = 32%nat ->
  auth_user_r4 P a d pw =
  match alg6 (iprims_of P) R Length O U Pz id0 em pw with Some _ => Ok tt | None => Err D_IncorrectPassword end.
Proof. exact alg6_refines. Qed.

(* Algorithm 7 (a), (b): "from 19 to 0" against lopdf's 19..1 followed by the key itself *)
Theorem C06_alg7_user : forall P, (forall m, length (p_md5 P m) = 16%nat) ->
  forall a R Length O U Pz em pw, matches_r4 a R Length O U Pz em ->
  recover_user_r4 P a pw = Ok (alg7_user (iprims_of P) R Length O pw).
Proof. exact alg7_user_refines. Qed.

Theorem C06_alg7 : forall P, (forall m, length (p_md5 P m) = 16%nat) ->
  forall a R Length O U Pz em (d : doc) id0 pw,
  matches_r4 a R Length O U Pz em -> file_id_0 d = Ok id0 -> length U = 32%nat ->
  auth_owner_r4 P a d pw =
  match alg7 (iprims_of P) R Length O U Pz id0 em pw with Some _ => Ok tt | None => Err D_IncorrectPassword end.
Proof. exact alg7_refines. Qed.

(* the key lopdf decrypts with is the key the standard's opening procedure yields, for the user password and for
   the owner password (Algorithm 7 (c): the recovered user password's key) *)
Theorem C06_open_key_r4 : forall P, (forall m, length (p_md5 P m) = 16%nat) ->
  forall a R Length O U Pz em (d : doc) id0 pw k,
  matches_r4 a R Length O U Pz em -> file_id_0 d = Ok id0 -> length U = 32%nat ->
  match alg6 (iprims_of P) R Length O U Pz id0 em pw with
  | Some k0 => Some k0
  | None => alg7 (iprims_of P) R Length O U Pz id0 em pw
  end = Some k ->
  compute_fek P a d pw = Ok k.
Proof. exact open_key_r4_refines. Qed.

(* ---------------- rung 2: Algorithms 2.A, 2.B, 8-13 (revisions 5, 6) ---------------- *)
(* Algorithm 2.B: 64 rounds, then "while the last byte of E > round number - 32", against lopdf's single loop
   with its exit test; revision 5: the plain SHA-256 *)
Theorem C06_alg2B : forall P a R pw salt uk, pa_revision a = R ->
  compute_hash P a pw salt uk = hash_r56 (iprims_of P) R pw salt uk.
Proof. exact alg2B_refines. Qed.

Theorem C06_alg8 : forall P a R fek pw rnd, pa_revision a = R -> length fek = 32%nat ->
  user_value_r6 P a fek pw rnd = alg8 (iprims_of P) R fek pw rnd.
Proof. exact alg8_refines. Qed.

Theorem C06_alg9 : forall P a R fek pw rnd, pa_revision a = R -> length fek = 32%nat ->
  owner_value_r6 P a fek pw rnd = alg9 (iprims_of P) R fek pw (pa_U a) rnd.
Proof. exact alg9_refines. Qed.

Theorem C06_alg10 : forall P a Pz em fek rnd,
  pa_perms a = perms_of_Z Pz -> conforming_P Pz = true -> pa_encrypt_metadata a = em ->
  perms_r6 P a fek rnd = alg10 (iprims_of P) Pz em fek rnd.
Proof. exact alg10_refines. Qed.

Theorem C06_alg11 : forall P a R pw, pa_revision a = R ->
  auth_user_r6 P a pw = if alg11 (iprims_of P) R (pa_U a) pw then Ok tt else Err D_IncorrectPassword.
Proof. exact alg11_refines. Qed.

Theorem C06_alg12 : forall P a R pw, pa_revision a = R ->
  auth_owner_r6 P a pw = if alg12 (iprims_of P) R (pa_O a) (pa_U a) pw then Ok tt else Err D_IncorrectPassword.
Proof. exact alg12_refines. Qed.

(* Algorithm 13, direction standard -> lopdf: lopdf accepts every Perms the standard accepts (it compares 3 of the 4
   permission bytes) whose byte 8 is the 'T'/'F' Algorithm 10 (c) writes -- lopdf checks that byte, the standard's
   text does not.  The other direction: C06_alg13_two_way below. *)
Theorem C06_alg13_forward : forall P a Pz em fek,
  pa_perms a = perms_of_Z Pz -> conforming_P Pz = true -> pa_encrypt_metadata a = em ->
  alg13 (iprims_of P) Pz fek (pa_perms_enc a) = true ->
  nth 8 (p_aes_dec P fek (pa_perms_enc a)) x00 = (if em then "T"%byte else "F"%byte) ->
  validate_permissions P a fek = Ok tt.
Proof. exact alg13_refines. Qed.

(* Algorithm 2.A, direction standard -> lopdf: whenever the standard retrieves a key (owner or user password, Perms
   valid), lopdf retrieves the same key.  The other direction: C06_alg2A_converse below. *)
Theorem C06_alg2A_forward : forall P a R O U OE UE Perms Pz em pw k,
  matches_r6 a R O U OE UE Perms Pz em ->
  alg2A (iprims_of P) R O U OE UE Perms Pz pw = Some k ->
  nth 8 (p_aes_dec P k Perms) x00 = (if em then "T"%byte else "F"%byte) ->
  compute_fek_r6 P a pw = Ok k.
Proof. exact alg2A_refines. Qed.

(* Algorithm 13, exactly: what lopdf's validate_permissions checks -- bytes 9-11 = "adb", bytes 0-2 (the standard:
   0-3) equal to P's, byte 8 = 'T' / 'F' according to EncryptMetadata (not in the standard's text) *)
Theorem C06_alg13_exact : forall P a Pz em fek,
  pa_perms a = perms_of_Z Pz -> conforming_P Pz = true -> pa_encrypt_metadata a = em ->
  let b := p_aes_dec P fek (pa_perms_enc a) in
  validate_permissions P a fek = Ok tt <->
  (bytes_eqb (sub b 9 3) [x61; x64; x62] = true /\ firstn 3 b = firstn 3 (le_bytes 4 (P_u32 Pz)) /\ nth 8 b x00 = TF em).
Proof. exact validate_permissions_iff. Qed.

(* Algorithm 13 in both directions: whenever byte 3 of the decrypted Perms is 0xFF -- which it is in every block
   Algorithm 10 makes from a conforming P (C06_perms_block_shape): bits 25-32 are reserved ones --, lopdf accepts
   exactly the Perms the standard accepts whose byte 8 is the T/F of Algorithm 10 (c).  The superset lopdf accepts
   consists of Perms no conforming writer produces (byte 3 differing from P's); accepting them changes no key, hash
   or ciphertext, and both interoperability statements of the property quantify over conforming writers. *)
Theorem C06_alg13_two_way : forall P a Pz em fek,
  pa_perms a = perms_of_Z Pz -> conforming_P Pz = true -> pa_encrypt_metadata a = em ->
  let b := p_aes_dec P fek (pa_perms_enc a) in
  (4 <= length b)%nat -> nth 3 b x00 = xff ->
  (validate_permissions P a fek = Ok tt <-> alg13 (iprims_of P) Pz fek (pa_perms_enc a) = true /\ nth 8 b x00 = TF em).
Proof. exact alg13_two_way. Qed.

Theorem C06_perms_block_shape : forall Pz em rnd, conforming_P Pz = true ->
  length (perms_block Pz em rnd) = 16%nat /\ nth 3 (perms_block Pz em rnd) x00 = xff /\
  nth 8 (perms_block Pz em rnd) x00 = TF em.
Proof. exact perms_block_shape. Qed.

(* Algorithm 2.A, the other direction: a key lopdf retrieves is the key the standard retrieves, provided Perms is
   valid for it by the standard's Algorithm 13 (lopdf does not look at Perms on the owner path, Algorithm 2.A (f)
   does: again a superset of files no conforming writer produces) *)
Theorem C06_alg2A_converse : forall P a R O U OE UE Perms Pz em,
  matches_r6 a R O U OE UE Perms Pz em -> forall pw k,
  compute_fek_r6 P a pw = Ok k -> alg13 (iprims_of P) Pz k Perms = true ->
  alg2A (iprims_of P) R O U OE UE Perms Pz pw = Some k.
Proof. exact alg2A_converse. Qed.

(* and a password that is neither the owner password (Algorithm 12) nor the user password (Algorithm 11) is rejected
   by both *)
Theorem C06_alg2A_reject : forall P a R O U OE UE Perms Pz em,
  matches_r6 a R O U OE UE Perms Pz em -> forall pw,
  alg12 (iprims_of P) R O U pw = false -> alg11 (iprims_of P) R U pw = false ->
  compute_fek_r6 P a pw = Err D_IncorrectPassword /\ alg2A (iprims_of P) R O U OE UE Perms Pz pw = None.
Proof. exact alg2A_reject. Qed.

(* ---------------- rung 3: data, crypt filters, objects ---------------- *)
(* Algorithm 1 / 1.A: the bytes lopdf writes for one string or stream are the bytes the standard defines (key, IV
   in front, RFC 2898 padding, CBC chaining; RC4; Identity) *)
Theorem C06_alg1_encrypt : forall P, (forall m, length (p_md5 P m) = 16%nat) ->
  forall m fek id s ivs, method_ok m fek -> (1 <= length fek)%nat ->
  cf_encrypt P (meth_cfm m) (cf_compute_key P (meth_cfm m) fek id) s ivs = Ok (iso_enc_step P m fek id s ivs).
Proof. exact data_encrypt_refines. Qed.

(* one string or stream: written by the standard's rules, decrypted by lopdf *)
Theorem C06_iso_data_lopdf_decrypt : forall P, (forall m, length (p_md5 P m) = 16%nat) ->
  forall m fek id s ivs, aes_ok P -> method_ok m fek -> (1 <= length fek)%nat ->
  cf_decrypt P (meth_cfm m) (cf_compute_key P (meth_cfm m) fek id) (fst (iso_enc_step P m fek id s ivs)) = Ok s.
Proof. exact iso_data_lopdf_decrypt. Qed.

(* one string or stream: written by lopdf, decrypted by the standard's rules *)
Theorem C06_lopdf_data_iso_decrypt : forall P, (forall m, length (p_md5 P m) = 16%nat) ->
  forall m fek id s ivs ct ivs', aes_ok P -> method_ok m fek -> (1 <= length fek)%nat ->
  cf_encrypt P (meth_cfm m) (cf_compute_key P (meth_cfm m) fek id) s ivs = Ok (ct, ivs') ->
  data_decrypt (iprims_of P) m fek id ct = Some s.
Proof. exact lopdf_data_iso_decrypt. Qed.

(* crypt filter selection (StmF, StrF, CF, the predefined Identity, the Crypt filter of a stream and its default,
   RC4 for V < 4): lopdf's state selects the standard's method for every string and stream *)
Theorem C06_filter_selection : forall st ip fek, state_matches st ip fek -> agree st ip fek.
Proof. exact agree_of_state. Qed.

(* what is encrypted: for every indirect object lopdf writes exactly what the standard's writer writes -- all
   strings incl. those of stream dictionaries, all streams, except XRef streams and (EncryptMetadata false) the
   metadata stream *)
Theorem C06_encrypt_object : forall P, (forall m, length (p_md5 P m) = 16%nat) ->
  forall st ip fek id o ivs, agree st ip fek -> indirect_ok ip o ->
  encrypt_object P st id o ivs = Ok (encrypt_indirect (iprims_of P) ip fek id o ivs).
Proof. exact encrypt_object_refines. Qed.

Theorem C06_encrypt_objects : forall P, (forall m, length (p_md5 P m) = 16%nat) ->
  forall st ip fek, agree st ip fek ->
  forall m, Forall (fun io => indirect_ok ip (snd io)) m -> forall ivs,
  Handler.encrypt_objects P st m ivs = Ok (Iso.encrypt_objects (iprims_of P) ip fek m ivs).
Proof. exact encrypt_objects_refines. Qed.

(* an object encrypted by the standard's writer is decrypted by lopdf to the object itself ([norm_len]: with
   Stream::set_content's Length bookkeeping, the identity on streams whose Length is right) *)
Theorem C06_iso_encrypt_lopdf_decrypt_object : forall P, (forall m, length (p_md5 P m) = 16%nat) ->
  forall st ip fek id o ivs, aes_ok P -> agree st ip fek -> indirect_ok ip o ->
  decrypt_object P st id (fst (encrypt_indirect (iprims_of P) ip fek id o ivs)) = Ok (norm_len st o).
Proof. exact iso_encrypt_lopdf_decrypt_object. Qed.

(* ---------------- rung 4: whole documents, revisions 2-4 ---------------- *)
(* The standard's own consistency: the encryption dictionary the standard's writer makes (Algorithms 3, 4/5)
   authenticates its user password by Algorithm 6 and its owner password by Algorithm 7, and yields the key of
   Algorithm 2 the writer encrypted with.  (An owner password that Algorithm 6 takes for the user password is taken
   for it by the standard and by lopdf alike; that it then yields the same key is cryptographic, not logical.) *)
Theorem C06_iso_open_key_user_r4 : forall P, (forall m, length (p_md5 P m) = 16%nat) ->
  forall R L owner user Pz id0 em arb, (2 <= R <= 4)%Z ->
  let O := make_O P R L owner user in
  let U := make_U P R L O Pz id0 em user arb in
  match alg6 (iprims_of P) R L O U Pz id0 em user with Some k => Some k | None => alg7 (iprims_of P) R L O U Pz id0 em user end
  = Some (alg2 (iprims_of P) R L O Pz id0 em user).
Proof. exact open_key_user_r4. Qed.

Theorem C06_iso_open_key_owner_r4 : forall P, (forall m, length (p_md5 P m) = 16%nat) ->
  forall R L opw user Pz id0 em arb, (2 <= R <= 4)%Z ->
  let O := make_O P R L (Some opw) user in
  let U := make_U P R L O Pz id0 em user arb in
  alg6 (iprims_of P) R L O U Pz id0 em opw = None ->
  match alg6 (iprims_of P) R L O U Pz id0 em opw with Some k => Some k | None => alg7 (iprims_of P) R L O U Pz id0 em opw end
  = Some (alg2 (iprims_of P) R L O Pz id0 em user).
Proof. exact open_key_owner_r4. Qed.

(* lopdf opens what ANY conforming writer wrote (revisions 2-4): for every encryption dictionary [ip] of the shapes
   Table 20 defines (V 1 / R 2; V 2 / R 3 with 40..128 bits; V 4 / R 4 with crypt filters, EFF, EncryptMetadata), every
   key [fek] the standard's opening procedure yields for the password, every document encrypted object by object as
   the standard prescribes -- with the encryption dictionary as an indirect object ([eid = Some _]) or directly in
   the trailer ([eid = None]) --, Document::decrypt_raw returns Ok and leaves the plain document: every object (with
   Stream::set_content's Length bookkeeping: [norm_objs], the identity when Length is right -- C06_opened_exact),
   the trailer without Encrypt, the encryption dictionary object removed *)
Theorem C06_lopdf_opens_r4 : forall P, (forall m, length (p_md5 P m) = 16%nat) ->
  forall ip fek eid d ivs id0 pw,
  aes_ok P -> shape_r4 ip -> cf_ok ip -> conforming_P (ip_P ip) = true ->
  length (ip_O ip) = 32%nat -> length (ip_U ip) = 32%nat ->
  doc_ok ip d eid -> file_id_0 d = Ok id0 ->
  open_r4 P ip id0 pw = Some fek ->
  doc_decrypt_raw P (enc_doc ip (fst (Iso.encrypt_objects (iprims_of P) ip fek (d_objects d) ivs)) eid d) pw =
  DOk (opened_doc d eid (st_of ip fek)) (st_of ip fek).
Proof. exact lopdf_opens_r4. Qed.

(* the interoperability statement of the property, direction standard -> lopdf, revisions 2-4: a document encrypted
   by the standard's writer (Iso.encrypt_document: Algorithms 3, 4/5, 2, 1 with explicit random choices) opens in
   lopdf (Document::decrypt) with the user password ... *)
Theorem C06_iso_encrypt_lopdf_decrypt_user_r4 : forall P, (forall m, length (p_md5 P m) = 16%nat) ->
  forall rq eid rnd ivs d id0,
  aes_ok P -> request_ok_r4 rq -> doc_ok (rq_core rq) d eid -> file_id_0 d = Ok id0 ->
  doc_decrypt P (encrypt_document (iprims_of P) rq eid rnd ivs d) (rq_user rq) =
  DOk (opened_doc d eid (st_of (ip_r4 P rq id0 rnd) (fek_r4 P rq id0))) (st_of (ip_r4 P rq id0 rnd) (fek_r4 P rq id0)).
Proof. exact iso_encrypt_lopdf_decrypt_user_r4. Qed.

(* ... and with the owner password *)
Theorem C06_iso_encrypt_lopdf_decrypt_owner_r4 : forall P, (forall m, length (p_md5 P m) = 16%nat) ->
  forall rq eid rnd ivs d id0,
  aes_ok P -> request_ok_r4 rq -> doc_ok (rq_core rq) d eid -> file_id_0 d = Ok id0 ->
  forall opw, rq_owner rq = Some opw ->
  alg6 (iprims_of P) (rq_R rq) (rq_Length rq) (ip_O (ip_r4 P rq id0 rnd)) (ip_U (ip_r4 P rq id0 rnd)) (rq_P rq) id0
       (rq_EncryptMetadata rq) opw = None ->
  doc_decrypt P (encrypt_document (iprims_of P) rq eid rnd ivs d) opw =
  DOk (opened_doc d eid (st_of (ip_r4 P rq id0 rnd) (fek_r4 P rq id0))) (st_of (ip_r4 P rq id0 rnd) (fek_r4 P rq id0)).
Proof. exact iso_encrypt_lopdf_decrypt_owner_r4. Qed.

Theorem C06_opened_exact : forall d eid st, Forall (fun io => lengths_ok st (snd io)) (d_objects d) ->
  opened_doc d eid st =
  {| d_version := d_version d; d_binary_mark := d_binary_mark d; d_trailer := d_trailer d; d_objects := d_objects d;
     d_max_id := match eid with Some e => N.max (d_max_id d) (fst e) | None => d_max_id d end |}.
Proof. exact opened_doc_exact. Qed.

(* non-vacuity: the V 2 request and document of the computed instances below, with the dictionary indirect and
   direct; a V 4 request with two crypt filters, EFF and EncryptMetadata false *)

(* ---- direction lopdf -> standard ---- *)
(* the standard's reader undoes the standard's writer on EVERY object (strings at every depth, stream dictionaries,
   stream data, exemptions; the crypt filter a stream selects does not depend on the contents of its strings);
   [iso_norm]: a stream comes back with its Length entry set (itself when Length was right: C06_iso_norm_exact) *)
Theorem C06_iso_object_roundtrip : forall P, (forall m, length (p_md5 P m) = 16%nat) -> aes_ok P ->
  forall ip fek id, method_ok (string_method ip) fek -> (forall sd, method_ok (stream_method ip sd) fek) ->
  forall o ivs,
  decrypt_indirect (iprims_of P) ip fek id (fst (encrypt_indirect (iprims_of P) ip fek id o ivs)) = Some (iso_norm ip o).
Proof. exact indirect_rt. Qed.

(* the standard reads out of the dictionary EncryptionState::encode writes (Tables 20, 21, 25 with their defaults)
   the parameters lopdf encrypted with *)
Theorem C06_read_params_encode : forall st, st_shape_r4 st -> NoDup (map fst (es_crypt_filters st)) ->
  read_params (encode st) = Some (ip_of_st st).
Proof. exact read_params_encode. Qed.

(* the standard's reader opens what lopdf wrote: for ANY state of the shapes try_from(V1 / V2 / V4) makes and any
   password for which the standard's opening procedure (Algorithm 6, else 7) yields the key lopdf encrypted with *)
Theorem C06_iso_opens_lopdf_r4 : forall P, (forall m, length (p_md5 P m) = 16%nat) -> aes_ok P ->
  forall st d ivs d1 pw,
  lst_ok st -> max_id_ok d -> dict_get (d_trailer d) K_Encrypt = None ->
  Forall (fun io => indirect_ok (ip_of_st st) (snd io)) (d_objects d) ->
  doc_encrypt P st d ivs = DOk d1 tt ->
  open_key (iprims_of P) (ip_of_st st) (file_id0 (d_trailer d)) pw = Some (es_key st) ->
  open_document (iprims_of P) d1 pw =
  Opened {| d_version := d_version d; d_binary_mark := d_binary_mark d; d_trailer := d_trailer d;
            d_objects := iso_norm_objs (ip_of_st st) (d_objects d); d_max_id := d_max_id d + 1 |} (es_key st).
Proof. exact iso_opens_lopdf_r4. Qed.

(* EncryptionState::try_from(V1 / V2 / V4) computes the standard's O (Algorithm 3; an empty owner password = none),
   U (Algorithm 4 / 5) and key (Algorithm 2) *)
Theorem C06_try_from_version : forall P, (forall m, length (p_md5 P m) = 16%nat) ->
  forall d id0, file_id_0 d = Ok id0 -> forall v rnd, version_ok v ->
  try_from_version P d v rnd = Ok (st_of_version P id0 v rnd).
Proof. exact try_from_version_eq. Qed.

(* the interoperability statement of the property, direction lopdf -> standard, revisions 2-4: what
   EncryptionState::try_from + Document::encrypt produce is opened by the standard's reader with the user password
   ... *)
Theorem C06_lopdf_encrypt_iso_decrypt_user_r4 : forall P, (forall m, length (p_md5 P m) = 16%nat) -> aes_ok P ->
  forall d id0 v rnd ivs st d1,
  file_id_0 d = Ok id0 -> version_ok v -> max_id_ok d -> dict_get (d_trailer d) K_Encrypt = None ->
  Forall (fun io => indirect_ok (ip_of_st (st_of_version P id0 v rnd)) (snd io)) (d_objects d) ->
  try_from_version P d v rnd = Ok st -> doc_encrypt P st d ivs = DOk d1 tt ->
  open_document (iprims_of P) d1 (v_user v) = Opened (plain_again d st) (es_key st).
Proof. exact lopdf_encrypt_iso_decrypt_user_r4. Qed.

(* ... and with the owner password *)
Theorem C06_lopdf_encrypt_iso_decrypt_owner_r4 : forall P, (forall m, length (p_md5 P m) = 16%nat) -> aes_ok P ->
  forall d id0 v rnd ivs st d1,
  file_id_0 d = Ok id0 -> version_ok v -> max_id_ok d -> dict_get (d_trailer d) K_Encrypt = None ->
  Forall (fun io => indirect_ok (ip_of_st (st_of_version P id0 v rnd)) (snd io)) (d_objects d) ->
  try_from_version P d v rnd = Ok st -> doc_encrypt P st d ivs = DOk d1 tt ->
  v_owner v <> [] ->
  alg6 (iprims_of P) (ip_R (ip_of_st st)) (ip_Length (ip_of_st st)) (ip_O (ip_of_st st)) (ip_U (ip_of_st st))
       (ip_P (ip_of_st st)) id0 (ip_EncryptMetadata (ip_of_st st)) (v_owner v) = None ->
  open_document (iprims_of P) d1 (v_owner v) = Opened (plain_again d st) (es_key st).
Proof. exact lopdf_encrypt_iso_decrypt_owner_r4. Qed.

Theorem C06_iso_norm_exact : forall ip m, Forall (fun io => iso_length_ok ip (snd io)) m -> iso_norm_objs ip m = m.
Proof. exact iso_norm_objs_id. Qed.


(* For the executable primitives (the Gallina MD5 / AES the extracted specification runs with) the two hypotheses
   are theorems -- C06_md5_length, and aes_ok concrete (Proofs/CryptoProofsAES.v; property C05's C05_aes_inverse) --, so
   both directions hold with no hypothesis about the primitives: *)
Theorem C06_iso_encrypt_lopdf_decrypt_user_r4_concrete : forall rq eid rnd ivs d id0,
  request_ok_r4 rq -> doc_ok (rq_core rq) d eid -> file_id_0 d = Ok id0 ->
  doc_decrypt concrete (encrypt_document iconcrete rq eid rnd ivs d) (rq_user rq) =
  DOk (opened_doc d eid (st_of (ip_r4 concrete rq id0 rnd) (fek_r4 concrete rq id0)))
      (st_of (ip_r4 concrete rq id0 rnd) (fek_r4 concrete rq id0)).
Proof.
  intros rq eid rnd ivs d id0. exact (iso_encrypt_lopdf_decrypt_user_r4 concrete md5_length rq eid rnd ivs d id0 concrete_aes_ok).
Qed.

Theorem C06_lopdf_encrypt_iso_decrypt_user_r4_concrete : forall d id0 v rnd ivs st d1,
  file_id_0 d = Ok id0 -> version_ok v -> max_id_ok d -> dict_get (d_trailer d) K_Encrypt = None ->
  Forall (fun io => indirect_ok (ip_of_st (st_of_version concrete id0 v rnd)) (snd io)) (d_objects d) ->
  try_from_version concrete d v rnd = Ok st -> doc_encrypt concrete st d ivs = DOk d1 tt ->
  open_document iconcrete d1 (v_user v) = Opened (plain_again d st) (es_key st).
Proof. exact (lopdf_encrypt_iso_decrypt_user_r4 concrete md5_length concrete_aes_ok). Qed.

(* ---------------- rung 4: whole documents, revisions 5 and 6 (direction standard -> lopdf) ---------------- *)
(* Under the laws of the primitives -- AES decryption inverts encryption (aes_ok: a theorem for the Gallina AES), the
   SHA-2 functions return 32 / 48 / 64 bytes --: *)
(* the standard's own consistency: what Algorithms 8, 9, 10 make, Algorithm 2.A (with 12, 11, 13) opens with the owner
   password and with the user password, and retrieves the file encryption key *)
Theorem C06_iso_open_owner_r6 : forall P, aes_ok P ->
  (forall m, length (p_sha256 P m) = 32%nat) -> (forall m, length (p_sha384 P m) = 48%nat) ->
  (forall m, length (p_sha512 P m) = 64%nat) ->
  forall R fek user owner ru ro rp Pz em, length fek = 32%nat -> conforming_P Pz = true ->
  let I := iprims_of P in
  let Uv := fst (alg8 I R fek user ru) in let UE := snd (alg8 I R fek user ru) in
  let Ov := fst (alg9 I R fek owner Uv ro) in let OE := snd (alg9 I R fek owner Uv ro) in
  alg2A I R Ov Uv OE UE (alg10 I Pz em fek rp) Pz owner = Some fek.
Proof. exact open_owner_r6. Qed.

Theorem C06_iso_open_user_r6 : forall P, aes_ok P ->
  (forall m, length (p_sha256 P m) = 32%nat) -> (forall m, length (p_sha384 P m) = 48%nat) ->
  (forall m, length (p_sha512 P m) = 64%nat) ->
  forall R fek user owner ru ro rp Pz em, length fek = 32%nat -> conforming_P Pz = true ->
  let I := iprims_of P in
  let Uv := fst (alg8 I R fek user ru) in let UE := snd (alg8 I R fek user ru) in
  let Ov := fst (alg9 I R fek owner Uv ro) in let OE := snd (alg9 I R fek owner Uv ro) in
  alg12 I R Ov Uv user = false ->
  alg2A I R Ov Uv OE UE (alg10 I Pz em fek rp) Pz user = Some fek.
Proof. exact open_user_r6. Qed.

(* lopdf opens what ANY conforming writer of revision 5 / 6 wrote (V 5; O, U of 48, OE, UE of 32, Perms of 16 bytes;
   AESV2 / AESV3 / None crypt filters, EFF, EncryptMetadata; dictionary indirect or direct), for every password for
   which the standard's Algorithm 2.A retrieves the key the objects were encrypted with *)
Theorem C06_lopdf_opens_r6 : forall P, (forall m, length (p_md5 P m) = 16%nat) ->
  forall ip fek eid d ivs pw,
  aes_ok P -> shape_r6 ip -> lengths_r6 ip -> cf_ok ip -> conforming_P (ip_P ip) = true ->
  doc_ok ip d eid -> length fek = 32%nat ->
  open_r6 P ip pw = Some fek ->
  nth 8 (p_aes_dec P fek (ip_Perms ip)) x00 = (if ip_EncryptMetadata ip then "T"%byte else "F"%byte) ->
  doc_decrypt_raw P (enc_doc ip (fst (Iso.encrypt_objects (iprims_of P) ip fek (d_objects d) ivs)) eid d) pw =
  DOk (opened_doc d eid (st_of ip fek)) (st_of ip fek).
Proof. exact lopdf_opens_r6. Qed.

(* the interoperability statement, direction standard -> lopdf, revisions 5 and 6: owner password ... *)
Theorem C06_iso_encrypt_lopdf_decrypt_owner_r6 : forall P, (forall m, length (p_md5 P m) = 16%nat) -> aes_ok P ->
  (forall m, length (p_sha256 P m) = 32%nat) -> (forall m, length (p_sha384 P m) = 48%nat) ->
  (forall m, length (p_sha512 P m) = 64%nat) ->
  forall rq eid rnd ivs d, request_ok_r6 rq -> doc_ok (rq_core rq) d eid ->
  doc_decrypt P (encrypt_document (iprims_of P) rq eid rnd ivs d) (owner_r6 rq) =
  DOk (opened_doc d eid (st_of (ip_r6 P rq rnd) (rq_fek rq))) (st_of (ip_r6 P rq rnd) (rq_fek rq)).
Proof. exact iso_encrypt_lopdf_decrypt_owner_r6. Qed.

(* ... and user password (one that Algorithm 12 does not take for the owner password) *)
Theorem C06_iso_encrypt_lopdf_decrypt_user_r6 : forall P, (forall m, length (p_md5 P m) = 16%nat) -> aes_ok P ->
  (forall m, length (p_sha256 P m) = 32%nat) -> (forall m, length (p_sha384 P m) = 48%nat) ->
  (forall m, length (p_sha512 P m) = 64%nat) ->
  forall rq eid rnd ivs d, request_ok_r6 rq -> doc_ok (rq_core rq) d eid ->
  alg12 (iprims_of P) (rq_R rq) (ip_O (ip_r6 P rq rnd)) (ip_U (ip_r6 P rq rnd)) (rq_user rq) = false ->
  doc_decrypt P (encrypt_document (iprims_of P) rq eid rnd ivs d) (rq_user rq) =
  DOk (opened_doc d eid (st_of (ip_r6 P rq rnd) (rq_fek rq))) (st_of (ip_r6 P rq rnd) (rq_fek rq)).
Proof. exact iso_encrypt_lopdf_decrypt_user_r6. Qed.

(* ---- direction lopdf -> standard, revisions 5 and 6 ---- *)
Theorem C06_read_params_encode_r6 : forall st, st_shape_r6 st -> NoDup (map fst (es_crypt_filters st)) ->
  read_params (encode st) = Some (ip_of_st6 st).
Proof. exact read_params_encode6. Qed.

(* try_from(R5 / V5) computes the standard's U, UE (Algorithm 8), O, OE (Algorithm 9) and Perms (Algorithm 10) *)
Theorem C06_try_from_version_r6 : forall P d v rnd, version_ok6 v ->
  try_from_version P d v rnd = Ok (st_of_version6 P v rnd).
Proof. exact try_from_version_eq6. Qed.

Theorem C06_iso_opens_lopdf_r6 : forall P, (forall m, length (p_md5 P m) = 16%nat) -> aes_ok P ->
  forall st d ivs d1 pw,
  lst_ok6 st -> max_id_ok d -> dict_get (d_trailer d) K_Encrypt = None ->
  Forall (fun io => indirect_ok (ip_of_st6 st) (snd io)) (d_objects d) ->
  doc_encrypt P st d ivs = DOk d1 tt ->
  open_key (iprims_of P) (ip_of_st6 st) (file_id0 (d_trailer d)) pw = Some (es_key st) ->
  open_document (iprims_of P) d1 pw =
  Opened {| d_version := d_version d; d_binary_mark := d_binary_mark d; d_trailer := d_trailer d;
            d_objects := iso_norm_objs (ip_of_st6 st) (d_objects d); d_max_id := d_max_id d + 1 |} (es_key st).
Proof. exact iso_opens_lopdf_r6. Qed.

(* the interoperability statement, direction lopdf -> standard, revisions 5 and 6 *)
Theorem C06_lopdf_encrypt_iso_decrypt_owner_r6 : forall P, (forall m, length (p_md5 P m) = 16%nat) -> aes_ok P ->
  (forall m, length (p_sha256 P m) = 32%nat) -> (forall m, length (p_sha384 P m) = 48%nat) ->
  (forall m, length (p_sha512 P m) = 64%nat) ->
  forall d v rnd ivs st d1,
  version_ok6 v -> max_id_ok d -> dict_get (d_trailer d) K_Encrypt = None ->
  Forall (fun io => indirect_ok (ip_of_st6 (st_of_version6 P v rnd)) (snd io)) (d_objects d) ->
  try_from_version P d v rnd = Ok st -> doc_encrypt P st d ivs = DOk d1 tt ->
  open_document (iprims_of P) d1 (v_owner v) = Opened (plain_again6 d st) (es_key st).
Proof. exact lopdf_encrypt_iso_decrypt_owner_r6. Qed.

Theorem C06_lopdf_encrypt_iso_decrypt_user_r6 : forall P, (forall m, length (p_md5 P m) = 16%nat) -> aes_ok P ->
  (forall m, length (p_sha256 P m) = 32%nat) -> (forall m, length (p_sha384 P m) = 48%nat) ->
  (forall m, length (p_sha512 P m) = 64%nat) ->
  forall d v rnd ivs st d1,
  version_ok6 v -> max_id_ok d -> dict_get (d_trailer d) K_Encrypt = None ->
  Forall (fun io => indirect_ok (ip_of_st6 (st_of_version6 P v rnd)) (snd io)) (d_objects d) ->
  try_from_version P d v rnd = Ok st -> doc_encrypt P st d ivs = DOk d1 tt ->
  alg12 (iprims_of P) (ip_R (ip_of_st6 st)) (ip_O (ip_of_st6 st)) (ip_U (ip_of_st6 st)) (v_user v) = false ->
  open_document (iprims_of P) d1 (v_user v) = Opened (plain_again6 d st) (es_key st).
Proof. exact lopdf_encrypt_iso_decrypt_user_r6. Qed.



(* For the executable primitives the SHA-2 output sizes are theorems too (Proofs/CryptoProofsSHA.v: the digest is the
   serialisation of eight 32- / 64-bit words, whatever the message -- no hash is computed), so the revision 5 / 6
   statements hold with no hypothesis about the primitives either: *)
Theorem C06_sha2_lengths :
  (forall m, length (sha256 m) = 32%nat) /\ (forall m, length (sha384 m) = 48%nat) /\ (forall m, length (sha512 m) = 64%nat).
Proof. exact (conj sha256_length (conj sha384_length sha512_length)). Qed.

Theorem C06_iso_encrypt_lopdf_decrypt_owner_r6_concrete : forall rq eid rnd ivs d,
  request_ok_r6 rq -> doc_ok (rq_core rq) d eid ->
  doc_decrypt concrete (encrypt_document iconcrete rq eid rnd ivs d) (owner_r6 rq) =
  DOk (opened_doc d eid (st_of (ip_r6 concrete rq rnd) (rq_fek rq))) (st_of (ip_r6 concrete rq rnd) (rq_fek rq)).
Proof.
  exact (iso_encrypt_lopdf_decrypt_owner_r6 concrete md5_length concrete_aes_ok sha256_length sha384_length sha512_length).
Qed.

Theorem C06_lopdf_encrypt_iso_decrypt_owner_r6_concrete : forall d v rnd ivs st d1,
  version_ok6 v -> max_id_ok d -> dict_get (d_trailer d) K_Encrypt = None ->
  Forall (fun io => indirect_ok (ip_of_st6 (st_of_version6 concrete v rnd)) (snd io)) (d_objects d) ->
  try_from_version concrete d v rnd = Ok st -> doc_encrypt concrete st d ivs = DOk d1 tt ->
  open_document iconcrete d1 (v_owner v) = Opened (plain_again6 d st) (es_key st).
Proof.
  exact (lopdf_encrypt_iso_decrypt_owner_r6 concrete md5_length concrete_aes_ok sha256_length sha384_length sha512_length).
Qed.

(* ---------------- non-vacuity and computed whole-document instances ---------------- *)
(* every hypothesis record of the theorems above is satisfiable: requests and documents for the standard's writer
   (V 2 with indirect and direct dictionary, V 4 with two crypt filters, EFF and EncryptMetadata false, V 5 / R 6),
   versions for lopdf's writer (V2, V4, V5, R5), lopdf's PasswordAlgorithm and EncryptionState against the standard's
   parameters *)
Theorem C06_example_hypotheses :
  ((request_ok_r4 ex_rq_v2 /\ doc_ok (rq_core ex_rq_v2) ex_doc (Some (5, 0)) /\
   doc_ok (rq_core ex_rq_v2) ex_doc None /\ file_id_0 ex_doc = Ok (bs "0123456789abcdef")) /\
  (request_ok_r4 ex_rq_v4 /\ doc_ok (rq_core ex_rq_v4) ex_doc None)) /\
  (version_ok (EV2 [] (bs "user") 128 2052) /\
  version_ok (EV4 false [(KP, CF_Identity); (KS, CF_AESV2)] KS N_Identity (bs "owner") (bs "user") 2052) /\
  max_id_ok ex_doc /\ dict_get (d_trailer ex_doc) K_Encrypt = None) /\
  (version_ok6 (EV5 false [(KS, CF_AESV3)] (zeros 32) KS KS (bs "owner") (bs "user") 2052) /\
  version_ok6 (ER5 true [(KP, CF_Identity); (KS, CF_AESV3)] (zeros 32) KS N_Identity [] (bs "user") 0)) /\
  (request_ok_r6 ex_rq_v5 /\ doc_ok (rq_core ex_rq_v5) ex_doc (Some (5, 0))) /\
  (matches_r4 ex_palg 3 128 (zeros 32) (zeros 32) (-1340) true) /\
  (state_matches ex_st ex_ip (zeros 16)).
Proof. exact (conj (conj ex_request_ok_v2 ex_request_ok_v4) (conj ex_version_ok (conj ex_version_ok6 (conj ex_request_ok_v5 (conj ex_matches_r4 ex_state_matches))))). Qed.



Theorem C06_example_iso_encrypt_lopdf_decrypt :
  match doc_decrypt concrete ex_enc_v2 (bs "user") with
  | DOk d' _ => bytes_eqb (sx_print (objmap_to_sx (d_objects d'))) (sx_print (objmap_to_sx (d_objects ex_doc)))
  | _ => false
  end = true.
Proof. exact iso_encrypt_lopdf_decrypt_v2. Qed.

Theorem C06_example_lopdf_encrypt_iso_decrypt :
  match ex_lopdf_enc_v2 with
  | Some e => match open_document iconcrete e (bs "user") with
              | Opened d' _ => bytes_eqb (sx_print (objmap_to_sx (d_objects d'))) (sx_print (objmap_to_sx (d_objects ex_doc)))
              | _ => false
              end
  | None => false
  end = true.
Proof. exact lopdf_encrypt_iso_decrypt_v2. Qed.

Theorem C06_example_writers_agree :
  match ex_lopdf_enc_v2 with
  | Some e => bytes_eqb (sx_print (objmap_to_sx (remove (d_objects e) (5, 0))))
                        (sx_print (objmap_to_sx (remove (d_objects ex_enc_v2) (5, 0))))
  | None => false
  end = true.
Proof. exact writers_agree_v2. Qed.

(* no owner password: the empty password does not open the document *)
Theorem C06_example_empty_password_rejected :
  match open_document iconcrete ex_enc_v2 [] with WrongPassword => true | _ => false end = true.
Proof. exact empty_password_rejected_v2. Qed.

(* ---------------- the repaired finding classes, as instances ---------------- *)
(* EFF names the crypt filter of embedded file streams (state and parameters related by state_matches) *)
Theorem C06_example_eff :
  state_matches ex_st_eff ex_ip_eff (zeros 16) /\
  stream_cf ex_st_eff (OStream [(bs "Type", OName (bs "EmbeddedFile"))] []) = CF_Identity /\
  stream_method ex_ip_eff [(bs "Type", OName (bs "EmbeddedFile"))] = M_Identity /\
  stream_cf ex_st_eff (OStream [] []) = CF_AESV2.
Proof. split; [exact ex_state_matches_eff | exact eff_example]. Qed.

(* DecodeParms given as the array parallel to Filter, Crypt in second place *)
Theorem C06_example_decodeparms_array :
  stream_cf ex_st (OStream ex_sd_dparr []) = CF_Identity /\ stream_method ex_ip ex_sd_dparr = M_Identity /\
  stream_ok ex_ip ex_sd_dparr.
Proof. exact decodeparms_array_example. Qed.

(* the encryption dictionary as a direct object of the trailer: recognised, and the document opens *)
Theorem C06_example_direct_encrypt : opens_direct ex_doc_direct ex_doc (bs "user") = true.
Proof. exact direct_encrypt_example. Qed.

Print Assumptions C06_constants.
Print Assumptions C06_padding.
Print Assumptions C06_sum_bytes_mod3.
Print Assumptions C06_p_value_conforming.
Print Assumptions C06_md5_length.
Print Assumptions C06_alg1_key.
Print Assumptions C06_alg2.
Print Assumptions C06_alg3.
Print Assumptions C06_alg4.
Print Assumptions C06_alg5.
Print Assumptions C06_alg6.
Print Assumptions C06_alg7_user.
Print Assumptions C06_alg7.
Print Assumptions C06_open_key_r4.
Print Assumptions C06_alg2B.
Print Assumptions C06_alg8.
Print Assumptions C06_alg9.
Print Assumptions C06_alg10.
Print Assumptions C06_alg11.
Print Assumptions C06_alg12.
Print Assumptions C06_alg13_forward.
Print Assumptions C06_alg2A_forward.
Print Assumptions C06_alg13_exact.
Print Assumptions C06_alg13_two_way.
Print Assumptions C06_perms_block_shape.
Print Assumptions C06_alg2A_converse.
Print Assumptions C06_alg2A_reject.
Print Assumptions C06_alg1_encrypt.
Print Assumptions C06_iso_data_lopdf_decrypt.
Print Assumptions C06_lopdf_data_iso_decrypt.
Print Assumptions C06_filter_selection.
Print Assumptions C06_encrypt_object.
Print Assumptions C06_encrypt_objects.
Print Assumptions C06_iso_encrypt_lopdf_decrypt_object.
Print Assumptions C06_iso_open_key_user_r4.
Print Assumptions C06_iso_open_key_owner_r4.
Print Assumptions C06_lopdf_opens_r4.
Print Assumptions C06_iso_encrypt_lopdf_decrypt_user_r4.
Print Assumptions C06_iso_encrypt_lopdf_decrypt_owner_r4.
Print Assumptions C06_opened_exact.
Print Assumptions C06_iso_object_roundtrip.
Print Assumptions C06_read_params_encode.
Print Assumptions C06_iso_opens_lopdf_r4.
Print Assumptions C06_try_from_version.
Print Assumptions C06_lopdf_encrypt_iso_decrypt_user_r4.
Print Assumptions C06_lopdf_encrypt_iso_decrypt_owner_r4.
Print Assumptions C06_iso_norm_exact.
Print Assumptions C06_iso_encrypt_lopdf_decrypt_user_r4_concrete.
Print Assumptions C06_lopdf_encrypt_iso_decrypt_user_r4_concrete.
Print Assumptions C06_iso_open_owner_r6.
Print Assumptions C06_iso_open_user_r6.
Print Assumptions C06_lopdf_opens_r6.
Print Assumptions C06_iso_encrypt_lopdf_decrypt_owner_r6.
Print Assumptions C06_iso_encrypt_lopdf_decrypt_user_r6.
Print Assumptions C06_read_params_encode_r6.
Print Assumptions C06_try_from_version_r6.
Print Assumptions C06_iso_opens_lopdf_r6.
Print Assumptions C06_lopdf_encrypt_iso_decrypt_owner_r6.
Print Assumptions C06_lopdf_encrypt_iso_decrypt_user_r6.
Print Assumptions C06_sha2_lengths.
Print Assumptions C06_iso_encrypt_lopdf_decrypt_owner_r6_concrete.
Print Assumptions C06_lopdf_encrypt_iso_decrypt_owner_r6_concrete.
Print Assumptions C06_example_hypotheses.
Print Assumptions C06_example_iso_encrypt_lopdf_decrypt.
Print Assumptions C06_example_lopdf_encrypt_iso_decrypt.
Print Assumptions C06_example_writers_agree.
Print Assumptions C06_example_empty_password_rejected.
Print Assumptions C06_example_eff.
Print Assumptions C06_example_decodeparms_array.
Print Assumptions C06_example_direct_encrypt.
