(* Props/C07.v -- property C07: incremental updates -- latest revision wins, history preserved.
   Statements only; proofs live in Proofs/{XrefMergeProofs,XrefLoadProofs,IncrementalProofs,C07Witness}.v (layout level)
   and Proofs/C07Bytes{,Table,Stream,History,Example}.v (byte level).

   Two levels.
   BYTE LEVEL (part C): for histories written by lopdf itself -- Document::save followed by any number of
     IncrementalDocument::save, both cross-reference formats -- the statements are about the real byte-level loader
     model Model/Loader.v (c01; tied to the crate by ./check C01 and C07) and the writer models Model/Save.v /
     Model/Incremental.v: load (inc_save ..) = overlay, and the result can be updated again (induction over the saves).
   LAYOUT LEVEL (parts A, B4-B5): for files of ANY producer (hybrid-reference files, object streams, free entries, Prev
     cycles) parsing is abstracted by a layout -- what parser::xref_and_trailer / parser::indirect_object /
     ObjectStream::new find at which offset -- and the statements are about Model/XrefMerge.v (Xref::merge, the Prev
     loop with merge_xref_stream, object loading, object-stream expansion of src/reader.rs + src/xref.rs); the layout is
     tied to the crate by the differential run of ./check C07 (merged tables, loaded objects, every history prefix).

   Vocabulary
     layout        sections with their RAW entries at their offsets, objects with the id written there
     first_def     the entry of the first table in a list that has one for the number
     chain_layout  the sections reachable from startxref form a Prev chain without cycle; hybrid-reference sections
                   (XRefStm) are allowed anywhere in the chain
     KnownClass    the open finding freed-comes-back, decided on the input history (Spec/History.v)
     good_file / lopdf_history   Proofs/C07Bytes.v / C07BytesHistory.v: the invariant of a file written by lopdf (a chain of
                   k well-formed revisions whose merged table maps each number to the exact offset of the object in the
                   newest revision defining it) and the inductive family of such files                             *)
From LV Require Import Base.Bytes Base.Sx Model.Obj Model.Save Model.XrefMerge Model.Incremental Spec.History
  Proofs.XrefMergeProofs Proofs.XrefLoadProofs Proofs.IncrementalProofs Proofs.C07Full Proofs.C07Witness.
From LV Require Model.Loader Model.Xref Spec.SaveSpec Proofs.SaveProofs Proofs.LoadProofsXref Proofs.FilterProofsDict Proofs.StrictRevisionProofs Proofs.StrictIncrementalProofs Proofs.C07Bytes Proofs.C07BytesTable
  Proofs.C07BytesStream Proofs.C07BytesHistory Proofs.C07BytesExample Spec.AbstractDoc Proofs.C07ResProofs
  Proofs.C07BytesMixed Proofs.C07BytesMixedExample Proofs.C07BytesMaxId.

Local Open Scope N_scope.

(* ---------------------------------------------------------------------------------------------------------
   A. Latest revision wins (loader side)
   --------------------------------------------------------------------------------------------------------- *)

(* (A1) Xref::merge over ANY list of sections (x0 the newest, then in the order the Prev loop reads them):
   every object number gets the entry of the newest section that has one. *)
Theorem C07_merge_chain_latest : forall (revs : list xref) (x0 : xref) (k : N),
  xget (xr_entries (fold_left xmerge revs x0)) k = first_def (map xr_entries (x0 :: revs)) k.
Proof. exact merge_chain_latest. Qed.

(* (A2) On every file whose sections form a Prev chain -- hybrid-reference sections included -- the reader computes
   exactly that merge: the table it ends with gives each number the entry of the first table that has one in the
   order  newest section, the cross-reference stream its trailer names by XRefStm, the section named by Prev, ITS
   cross-reference stream, ... (ISO 32000-1 7.5.8.4; reader.rs as repaired: merge_xref_stream); trailer, xref_start and
   table type are those of the newest section.  (Size/max_id fit u32 -- the code returns InvalidXref otherwise.  The
   XRefStm of a file WITHOUT Prev is not read by the code: head_xref / chain_tabs say so.)
   Partial: layout level.  The byte-level counterpart for files written by lopdf is (C2)/(C3). *)
Theorem C07_read_chain_partial : forall L s0 c fuel,
  chain_layout L s0 c -> (length c <= fuel)%nat ->
  (xt_max_id (xr_entries (fold_left xmerge (map (fun ps => sec_full L (snd ps)) c) (head_xref L s0 c))) + 1 < 4294967296) ->
  exists m, read_xref fuel L = LOk m /\
            m_trailer m = head_trailer s0 c /\
            m_start m = Z.to_N (l_startxref L) /\
            xr_stream (m_xref m) = s_stream s0 /\
            forall k, xget (xr_entries (m_xref m)) k = first_def (chain_tabs L s0 c) k.
Proof. exact read_xref_chain. Qed.

(* (A3) The loader always terminates (cycles of Prev are cut by `already_seen`) within the stated fuel,
   on ANY layout. *)
Theorem C07_load_terminates : forall L, load_abs (load_fuel L) L <> LOutOfFuel.
Proof. exact load_never_out_of_fuel. Qed.

Theorem C07_prev_cycle_is_cut : forall fuel L x tr seen p,
  In p seen -> prev_loop fuel L x tr seen (Some (OInt p)) = LOk (x, tr).
Proof. exact prev_loop_seen. Qed.

(* (A4) From the table to the objects.  An object the merged table lists as in use (Normal) is the object
   found at that offset and nothing replaces it (object-stream members are only added). *)
Theorem C07_normal_entry_wins : forall L enc t l1 kv l2 p,
  t = l1 ++ kv :: l2 ->
  entry_object L enc kv = Some p ->
  (forall kv' p', In kv' l2 -> entry_object L enc kv' = Some p' -> p_id p' <> p_id p) ->
  lookup (load_objects L enc t) (p_id p) = Some (p_obj p).
Proof. exact load_normal_wins. Qed.

(* (A5) An object the merged table places in object stream c (Compressed) is the member of THAT stream,
   whichever other (older) object streams hold the same number: expected refutation (i) of the design,
   repaired in the crate by 44beb46 -- the model follows the repaired code. *)
Theorem C07_compressed_entry_names_container : forall L enc t x c i o b1 ms b2,
  lookup (normals L enc t) x = None ->
  xget t (fst x) = Some (XCompressed c i) ->
  blocks L enc t = b1 ++ (c, ms) :: b2 ->
  (forall b, In b b1 -> fst b <> c) ->
  lookup ms x = Some o ->
  lookup (load_objects L enc t) x = Some o.
Proof. exact load_compressed_named. Qed.

(* (A5') One generation per object number (reader.rs as repaired: a member of an object stream is added only when no
   object of its NUMBER is present): when the table gives an object of number n -- read through a Normal entry, or a
   member of the object stream the table names --, no other generation of n comes out of any object stream.
   This closes the former finding objstm-stale-generation. *)
Theorem C07_one_generation_per_number : forall L enc t n g o,
  lookup (after_named L enc t) (n, g) = Some o ->
  forall g', lookup (load_objects L enc t) (n, g') = lookup (after_named L enc t) (n, g').
Proof. exact load_one_generation. Qed.

(* (A6) A FREE entry is no entry: a section that only frees k leaves no trace in the table it contributes,
   so by (A1) an older in-use entry for k survives the merge.  This is the root of the open finding
   freed-comes-back; (A7) shows it on a concrete history. *)
Theorem C07_free_entry_leaves_no_trace : forall stream raw k,
  (forall e, In (k, e) raw -> exists g, e = RFree g) ->
  xget (parse_entries stream raw) k = None.
Proof. exact only_free_no_entry. Qed.

(* (A7) The full claim is REFUTED on the unrepaired part of the reader: a history of the known class, its layout as
   the reference writer produces it, and the deviation of the loaded objects.  The same case is replayed on the real
   crate by ./check C07 (known_findings.json). *)
Theorem C07_freed_refuted :
  KnownClass h_freed = true /\
  lookup (latest_wins (map forget h_freed)) (2, 0) = None /\
  exists m, loaded_user L_freed = Some m /\ lookup m (2, 0) = Some (OInt 5) /\ m <> latest_wins (map forget h_freed).
Proof. exact freed_refuted. Qed.

(* (A8) The witnesses of the two REPAIRED findings now load to exactly latest_wins and are outside KnownClass:
   hybrid-update (an existing object updated inside an object stream of a hybrid-reference revision) and
   objstm-stale-generation (an object-stream member redefined with a non-zero generation). *)
Theorem C07_hybrid_fixed :
  KnownClass h_hybrid = false /\
  lookup (latest_wins (map forget h_hybrid)) (2, 0) = Some (OInt 7) /\
  loaded_user L_hybrid = Some (latest_wins (map forget h_hybrid)).
Proof. exact hybrid_fixed. Qed.

Theorem C07_stale_generation_fixed :
  KnownClass h_stale = false /\
  lookup (latest_wins (map forget h_stale)) (2, 0) = None /\
  loaded_user L_stale = Some (latest_wins (map forget h_stale)).
Proof. exact stale_generation_fixed. Qed.

(* the hybrid witness meets the hypotheses of (A2), with a cross-reference stream that IS read *)
Theorem C07_example_hybrid_chain :
  exists s0 s1 p1, chain_layout L_hybrid s0 [(p1, s1)] /\ stm_target L_hybrid (s_trailer s0) <> None.
Proof. exact hybrid_is_chain_layout. Qed.

(* non-vacuity: a three-revision history outside the known class (table and stream sections, an object
   updated from one object stream into another, one moved out of an object stream) loads to exactly
   latest_wins, and its layout meets the chain hypotheses of (A2) *)
Theorem C07_example_latest_wins :
  KnownClass h_ok = false /\ loaded_user L_ok = Some (latest_wins (map forget h_ok)).
Proof. exact ok_latest_wins. Qed.

Theorem C07_example_chain :
  exists s0 s1 s2 p1 p2, chain_layout L_ok s0 [(p1, s1); (p2, s2)] /\ (p2 < p1 < l_startxref L_ok)%Z.
Proof. exact ok_is_chain_layout. Qed.

(* ---------------------------------------------------------------------------------------------------------
   B. Incremental save (writer side)
   --------------------------------------------------------------------------------------------------------- *)

(* (B1) inc_save_prefix: for ALL previous bytes and ALL new documents -- also when the save fails half way --
   the output starts with the previous bytes, unchanged. *)
Theorem C07_inc_save_prefix : forall s,
  firstn (length (i_bytes s)) (io_bytes (inc_save s)) = i_bytes s.
Proof. exact inc_save_prefix. Qed.

(* (B2) inc_save_only_new: a successful save appends, after separator + header + binary mark, exactly the
   indirect objects of the new document (those the writer does not skip), ONE cross-reference section and
   startxref = its offset; the section lists exactly the new objects, each at the byte where its
   "id gen obj" starts, counted from the file header (u32 truncation as in the code). *)
Theorem C07_inc_save_only_new : forall s,
  io_status (inc_save s) = IncOk ->
  let nd := xd_doc (i_new s) in
  let objs := flat_map wio (written (d_objects nd)) in
  let start := start_count (i_bytes s) + blen (inc_head s) in
  exists x,
    io_bytes (inc_save s) =
      i_bytes s ++ inc_head s ++ objs ++ inc_xref_part s x (start + blen objs) ++ startxref_bytes (start + blen objs) /\
    io_start (inc_save s) = start + blen objs /\
    (forall n, ~ In n (numbers (written (d_objects nd))) -> xget x n = None) /\
    (forall l1 id g o l2, written (d_objects nd) = l1 ++ ((id, g), o) :: l2 -> ~ In id (numbers l2) ->
       xget x id = Some (XNormal ((start + blen (flat_map wio l1)) mod u32_mod) g)).
Proof. exact inc_save_only_new. Qed.

(* (B3) prev_view_unchanged: after create_from and ANY sequence of the modelled edits (set_object, add_object,
   opt_clone_object_to_new_document, get_or_create_resources, add_xobject) the previous bytes and the
   previous view are untouched, the trailer still carries Prev = the previous xref_start, and the save
   output still starts with the previous bytes. *)
Theorem C07_prev_view_unchanged : forall prev_bytes prev edits,
  let s := fold_left apply_edit edits (create_from prev_bytes prev) in
  i_bytes s = prev_bytes /\ i_prev s = prev /\
  dict_get (d_trailer (xd_doc (i_new s))) K_Prev = Some (OInt (Z.of_N (xd_start prev))) /\
  firstn (length prev_bytes) (io_bytes (inc_save s)) = prev_bytes.
Proof. exact prev_view_unchanged. Qed.

(* the trailer written by the table variant still has that Prev *)
Theorem C07_table_trailer_keeps_prev : forall s,
  dict_get (trailer_table (xd_doc (i_new s))) K_Prev = dict_get (d_trailer (xd_doc (i_new s))) K_Prev.
Proof. exact inc_table_trailer_prev. Qed.

(* ... and, for both cross-reference styles and after ANY edits, the Prev of the section the save writes is
   the previous xref_start (trailer keys unique: IndexMap's invariant) *)
Theorem C07_inc_save_prev_link : forall prev_bytes prev edits,
  NoDup (map fst (d_trailer (xd_doc prev))) ->
  let s := fold_left apply_edit edits (create_from prev_bytes prev) in
  let nd := xd_doc (i_new s) in
  dict_get (trailer_table nd) K_Prev = Some (OInt (Z.of_N (xd_start prev))) /\
  forall x p t content x1, xstream_parts nd x p = (t, content, x1) ->
                           dict_get t K_Prev = Some (OInt (Z.of_N (xd_start prev))).
Proof. exact inc_save_prev_link. Qed.

(* (B4) inc_save_reload at the level of the cross-reference table, for a file of ANY producer (layout level; the
   byte-level statement for files written by lopdf is (C2)): appending a section whose Prev is the old startxref to a
   chain file gives a file on which the reader's table has, for every number, the NEW entry (the new section's own
   table, then the cross-reference stream its trailer names) if there is one and otherwise EXACTLY the entry it found
   before the update; trailer and xref_start are the new section's.  (Hypothesis on a single old section: its XRefStm is
   read only once it is reached through Prev.) *)
Theorem C07_reload_after_append_partial : forall L s0 c off sec objs len m fuel,
  chain_layout L s0 c ->
  read_xref fuel L = LOk m -> (length c <= fuel)%nat ->
  (l_buflen L < off <= len)%Z ->
  (forall p, In p (l_startxref L :: map fst c) -> (p <= l_buflen L)%Z) ->
  dict_get (s_trailer sec) K_Prev = Some (OInt (l_startxref L)) ->
  FilterProofsDict.dict_wf (s_trailer sec) -> stm_ok (extend_layout L off sec objs len) (s_trailer sec) ->
  (c = [] -> stm_target L (s_trailer s0) = None) ->
  (xt_max_id (xr_entries (fold_left xmerge (map (fun ps => sec_full (extend_layout L off sec objs len) (snd ps)) ((l_startxref L, s0) :: c))
                                    (sec_full (extend_layout L off sec objs len) sec))) + 1 < 4294967296) ->
  exists m', read_xref (S fuel) (extend_layout L off sec objs len) = LOk m' /\
             m_trailer m' = dict_swap_remove (dict_swap_remove (s_trailer sec) K_Prev) K_XRefStm /\
             m_start m' = Z.to_N off /\
             forall k, xget (xr_entries (m_xref m')) k =
                       match first_def (sec_tabs (extend_layout L off sec objs len) sec) k with
                       | Some e => Some e
                       | None => xget (xr_entries (m_xref m)) k
                       end.
Proof. exact reload_after_append. Qed.

(* (B5) re-loadability for a further update, by induction over the history of saves (layout level): the file after
   the update meets the hypotheses of (A2)/(B4) again, with a chain one section longer. *)
Theorem C07_update_again_partial : forall L s0 c off sec objs len,
  chain_layout L s0 c ->
  (l_buflen L < off <= len)%Z ->
  (forall p, In p (l_startxref L :: map fst c) -> (p <= l_buflen L)%Z) ->
  dict_get (s_trailer sec) K_Prev = Some (OInt (l_startxref L)) ->
  FilterProofsDict.dict_wf (s_trailer sec) -> stm_ok (extend_layout L off sec objs len) (s_trailer sec) ->
  chain_layout (extend_layout L off sec objs len) sec ((l_startxref L, s0) :: c).
Proof. exact extend_chain_layout. Qed.

(* ---------------------------------------------------------------------------------------------------------
   C. Byte level: files written by lopdf itself (Model/Loader.v is the reader, nothing is abstracted)
   --------------------------------------------------------------------------------------------------------- *)
Import C07Bytes C07BytesTable C07BytesStream C07BytesHistory C07BytesExample C07BytesMixed C07BytesMixedExample C07BytesMaxId.

(* (C1) A file that satisfies the invariant loads, to exactly the document the invariant describes.  good_file F v m xs
   xt entries t objs: F begins with the header and binary-mark lines of v and m, ends with startxref xs %%EOF; reading
   the section at xs and following Prev (strictly decreasing offsets) gives the merged table [entries] and the trailer t
   -- also when any bytes are appended to F --; entries are sorted Normal entries, and objs are exactly the objects
   parser::indirect_object finds at their offsets, in key order. *)
Theorem C07_good_file_loads : forall F v m xs xt entries t objs,
  good_file F v m xs xt entries t objs -> Loader.load F = Loader.LOk (loaded v m entries t objs) xt.
Proof. exact good_file_loads. Qed.

(* (C2) inc_save_reload, byte level, BOTH cross-reference formats: a savable document d is saved, loaded
   (C01_full: the loader returns [reloaded fmt d]), an IncrementalDocument is created from those bytes and that
   document, edited by ANY sequence of the modelled operations, and saved.  The save succeeds and loading its output
   gives the overlay of the new objects over the loaded ones (stream format: plus the new cross-reference stream object
   itself, which the loader keeps as an ordinary object, as it does for a plain save).
   Hypotheses: the domain of C01 for d (no XRefStm key in its trailer: the update would inherit it); the new objects
   are writable (rev_dom: numbers increasing and <= max_id, top_wf, none of the types the writer skips; nesting below the
   reader's limit: open finding C01-deep-nesting); the file stays below 4 GiB (u32 offsets); every new identifier is
   an identifier of the loaded document or carries a new NUMBER (C07_generation_hypothesis_needed shows why). *)
Theorem C07_inc_save_reload : forall fmt d edits,
  SaveSpec.savable d -> SaveSpec.known_deep d = false -> SaveSpec.small_file fmt d -> dict_get (d_trailer d) K_XRefStm = None ->
  let F := so_bytes (save fmt d) in
  let prev := {| xd_doc := SaveSpec.reloaded fmt d; xd_start := Save.blen (SaveProofs.body_of d); xd_type := fmt |} in
  let s := fold_left apply_edit edits (create_from F prev) in
  let nd := xd_doc (i_new s) in
  StrictRevisionProofs.rev_dom nd -> SaveSpec.known_deep nd = false -> Save.blen (io_bytes (inc_save s)) < u32_mod ->
  Forall (fun io : oid * obj => In (fst io) (map fst (d_objects (SaveSpec.reloaded fmt d))) \/
                                ~ In (fst (fst io)) (SaveProofs.obj_numbers (d_objects (SaveSpec.reloaded fmt d)))) (new_objects s) ->
  io_status (inc_save s) = IncOk /\
  exists v m t mx,
    Loader.load (io_bytes (inc_save s)) =
    Loader.LOk {| d_version := v; d_binary_mark := m; d_trailer := t;
                  d_objects := step_objs fmt (d_objects (SaveSpec.reloaded fmt d)) nd (Save.blen (F ++ StrictIncrementalProofs.inc_lines nd));
                  d_max_id := mx |} (SaveSpec.xtype_of fmt).
Proof. exact inc_save_reload. Qed.

(* the table format with every field of the loaded document spelled out *)
Theorem C07_inc_save_reload_table : forall d edits,
  SaveSpec.savable d -> SaveSpec.known_deep d = false -> SaveSpec.small_file XTable d -> dict_get (d_trailer d) K_XRefStm = None ->
  let F := so_bytes (save XTable d) in
  let prev := {| xd_doc := SaveSpec.reloaded XTable d; xd_start := Save.blen (SaveProofs.body_of d); xd_type := XTable |} in
  let s := fold_left apply_edit edits (create_from F prev) in
  let nd := xd_doc (i_new s) in
  StrictRevisionProofs.rev_dom nd -> SaveSpec.known_deep nd = false -> Save.blen (io_bytes (inc_save s)) < u32_mod ->
  Forall (fun io : oid * obj => In (fst io) (map fst (d_objects (SaveSpec.written d))) \/
                                ~ In (fst (fst io)) (SaveProofs.obj_numbers (d_objects (SaveSpec.written d)))) (new_objects s) ->
  io_status (inc_save s) = IncOk /\
  Loader.load (io_bytes (inc_save s)) =
  Loader.LOk {| d_version := d_version d; d_binary_mark := d_binary_mark d; d_trailer := new_trailer nd;
                d_objects := overlay (SaveSpec.norm_objects (d_objects (SaveSpec.written d))) (SaveSpec.norm_objects (new_objects s));
                d_max_id := xmap_max (table_after d nd) |} Xref.XTTable.
Proof. exact inc_save_reload_table. Qed.

(* (C3) "... and the result can be loaded and updated again", by induction over the history of saves.
   lopdf_history F xs fmt objs: F is a file saved by Document::save (either format) followed by any number of
   IncrementalDocument saves, each made from the previous bytes and from what load returned for them.  Every such
   file satisfies the invariant of (C1) ... *)
Theorem C07_history_invariant : forall F xs fmt objs,
  lopdf_history F xs fmt objs -> exists v m entries t, good_file F v m xs (SaveSpec.xtype_of fmt) entries t objs.
Proof. exact history_good. Qed.

(* ... hence loads, to the fold of the overlays, and get_xref_start finds the newest section ... *)
Theorem C07_history_loads : forall F xs fmt objs,
  lopdf_history F xs fmt objs ->
  Loader.get_xref_start F = Some xs /\
  exists v m t mx, Loader.load F = Loader.LOk {| d_version := v; d_binary_mark := m; d_trailer := t; d_objects := objs; d_max_id := mx |}
                                              (SaveSpec.xtype_of fmt).
Proof. exact history_loads. Qed.

(* ... and ANY further update made through the modelled API from what load returned succeeds and gives a file of the
   family again: Prev, XRefStm, Encrypt, binary mark and max_id need no hypothesis (they follow from create_from and the
   edits); what remains is the domain of the new objects, the 4 GiB bound and the identifier condition. *)
Theorem C07_history_update_again : forall F xs fmt objs pd edits,
  lopdf_history F xs fmt objs ->
  Loader.load F = Loader.LOk pd (SaveSpec.xtype_of fmt) ->
  let s := fold_left apply_edit edits (create_from F {| xd_doc := pd; xd_start := xs; xd_type := fmt |}) in
  let nd := xd_doc (i_new s) in
  StrictRevisionProofs.rev_dom nd -> SaveSpec.known_deep nd = false ->
  Save.blen (io_bytes (inc_save s)) < u32_mod ->
  Forall (fun io : oid * obj => In (fst io) (map fst (d_objects pd)) \/ ~ In (fst (fst io)) (SaveProofs.obj_numbers (d_objects pd))) (d_objects nd) ->
  io_status (inc_save s) = IncOk /\
  lopdf_history (io_bytes (inc_save s)) (io_start (inc_save s)) fmt (step_objs fmt objs nd (Save.blen (F ++ StrictIncrementalProofs.inc_lines nd))).
Proof. exact history_edit_step. Qed.

(* (C4) one step for a file of EITHER previous format satisfying the invariant (mixed chains), table / stream *)
Theorem C07_inc_table_step : forall F v m xs xt entries t objs s,
  good_file F v m xs xt entries t objs ->
  i_bytes s = F -> xd_type (i_prev s) = XTable ->
  let nd := xd_doc (i_new s) in
  upd_dom xs nd ->
  Save.blen (io_bytes (inc_save s)) < u32_mod ->
  Forall (gen_ok entries) (d_objects nd) ->
  io_status (inc_save s) = IncOk /\
  good_file (io_bytes (inc_save s)) v m (io_start (inc_save s)) Xref.XTTable
            (fold_left xins (LoadProofsXref.conv_map (StrictRevisionProofs.rev_xmap nd (Save.blen (F ++ StrictIncrementalProofs.inc_lines nd)))) entries)
            (new_trailer nd)
            (overlay objs (SaveSpec.norm_objects (d_objects nd))).
Proof. exact inc_table_good. Qed.

Theorem C07_inc_stream_step : forall F v m xs xt entries t objs s,
  good_file F v m xs xt entries t objs ->
  i_bytes s = F -> xd_type (i_prev s) = XStream ->
  let nd := xd_doc (i_new s) in
  let pos0 := Save.blen (F ++ StrictIncrementalProofs.inc_lines nd) in
  upd_dom xs nd ->
  Save.blen (io_bytes (inc_save s)) < u32_mod ->
  Forall (gen_ok entries) (d_objects nd) ->
  Forall (fun ke => fst ke <= d_max_id nd) entries ->
  io_status (inc_save s) = IncOk /\
  good_file (io_bytes (inc_save s)) v m (io_start (inc_save s)) Xref.XTStream
            (fold_left xins (LoadProofsXref.conv_map (StrictRevisionProofs.str_map nd pos0)) entries)
            (str_new_trailer nd pos0)
            (overlay objs (SaveSpec.norm_objects (d_objects nd)) ++ [xso nd pos0]).
Proof. exact inc_stream_good. Qed.

(* (C5) non-vacuity and necessity.  A concrete document, saved, loaded, object 1 replaced and object 3 added, meets
   every hypothesis of (C2) and loads to the stated document; a second update of that file is a history again; the
   same in the stream format; and an update that re-uses number 2 under ANOTHER generation shows that the identifier
   hypothesis cannot be dropped: the loader (one table entry per number: latest revision wins) returns (2,1) only,
   [overlay], keyed by (number, generation), keeps (2,0) as well. *)
Theorem C07_example_reload :
  SaveSpec.savable ex_d /\ SaveSpec.known_deep ex_d = false /\ SaveSpec.small_file XTable ex_d /\ dict_get (d_trailer ex_d) K_XRefStm = None /\
  StrictRevisionProofs.rev_dom ex_nd /\ SaveSpec.known_deep ex_nd = false /\ Save.blen (io_bytes (inc_save ex_s)) < u32_mod /\
  Forall (fun io : oid * obj => In (fst io) (map fst (d_objects (SaveSpec.written ex_d))) \/
                                ~ In (fst (fst io)) (SaveProofs.obj_numbers (d_objects (SaveSpec.written ex_d)))) (new_objects ex_s) /\
  io_status (inc_save ex_s) = IncOk /\
  Loader.load (io_bytes (inc_save ex_s)) = Loader.LOk ex_result Xref.XTTable.
Proof. exact example_reload. Qed.

Theorem C07_example_second_update :
  lopdf_history (io_bytes (inc_save ex_s2)) (io_start (inc_save ex_s2)) XTable ex_result2 /\
  Loader.load (io_bytes (inc_save ex_s2)) =
  Loader.LOk {| d_version := bs "1.5"; d_binary_mark := [xbb; xad; xc0; xde];
                d_trailer := [(K_Root, ORef 1 0); (Save.K_Size, OInt 5)]; d_objects := ex_result2; d_max_id := 4 |} Xref.XTTable.
Proof. exact example_second_update. Qed.

Theorem C07_generation_hypothesis_needed :
  (exists d', Loader.load (io_bytes (inc_save ex_sg)) = Loader.LOk d' Xref.XTTable /\
              d_objects d' = [((1, 0), ODict [(K_Type, OName (bs "Catalog"))]); ((2, 1), OInt 8)]) /\
  overlay (d_objects (SaveSpec.reloaded XTable ex_d)) (SaveSpec.norm_objects (new_objects ex_sg)) =
    [((1, 0), ODict [(K_Type, OName (bs "Catalog"))]); ((2, 0), OInt 7); ((2, 1), OInt 8)].
Proof. exact gen_hypothesis_needed. Qed.

(* ---------------------------------------------------------------------------------------------------------
   (D) the resource helper of an update keeps what the page could use (finding C11-inc-resources-shadow, repaired by
   /repo e57537a).  [cur_objects s] is the document the update denotes at this moment (lookup: the object of the new
   document, otherwise the one of the previous documents); [AbstractDoc.effective_resources] is C11's specification:
   the nearest Resources entry up the Parent chain, flattened to (category, name, value).
   Hypotheses = domain: the page id names a dictionary OBJECT of the denoted document; when the page's own Resources
   entry is a reference whose target the update has not copied yet, that target is not a bare reference object of
   the previous documents (opt_clone_object_to_new_document resolves such an object inside the previous documents
   only and stores the result under the id: a quirk of the copy, not of the inheritance, outside this theorem).
   Nothing is assumed about the Parent chain (cycles, reference objects, nodes rewritten by the update).
   --------------------------------------------------------------------------------------------------------- *)
Theorem C07_inc_resources_keep_inherited : forall s page pd,
  lookup (cur_objects s) page = Some (ODict pd) ->
  (forall i g, dict_get pd K_Resources = Some (ORef i g) -> lookup (new_objects s) (i, g) = None ->
     forall o, lookup (prev_objects s) (i, g) = Some o -> match o with ORef _ _ => False | _ => True end) ->
  forall l, AbstractDoc.effective_resources (cur_objects s) page = Some l ->
  exists l', AbstractDoc.effective_resources (cur_objects (fst (get_or_create_resources s page))) page = Some l' /\
             incl l l'.
Proof. exact C07ResProofs.inc_resources_keep. Qed.

(* non-vacuity: the update replayed on the crate (corpus/C07/repaired.sx) -- page 3 0 inherits /Font /F1 from the
   Pages node through the indirect object 4 0 -- meets the hypotheses; after the helper the page still has the font,
   after add_xobject it has the font and the image *)
Theorem C07_example_inc_resources :
  (lookup (cur_objects C07ResProofs.ex_state) (3, 0) = Some (ODict C07ResProofs.ex_page_dict) /\
   (forall i g, dict_get C07ResProofs.ex_page_dict K_Resources = Some (ORef i g) -> C07ResProofs.plain_in_prev C07ResProofs.ex_state (i, g)) /\
   AbstractDoc.effective_resources (cur_objects C07ResProofs.ex_state) (3, 0) = Some [(bs "Font", bs "F1", ORef 5 0)]) /\
  AbstractDoc.effective_resources (cur_objects (fst (get_or_create_resources C07ResProofs.ex_state (3, 0)))) (3, 0) =
    Some [(bs "Font", bs "F1", ORef 5 0)] /\
  AbstractDoc.effective_resources (cur_objects (fst (add_xobject C07ResProofs.ex_state (3, 0) (bs "Im1") (5, 0)))) (3, 0) =
    Some [(bs "Font", bs "F1", ORef 5 0); (bs "XObject", bs "Im1", ORef 5 0)].
Proof. split; [exact C07ResProofs.ex_hypotheses | exact C07ResProofs.ex_repaired]. Qed.

(* the code before the repair (Dictionary::new() for a page without a Resources entry) violates the statement: in the
   same update the page has the font before the call and NO resource after it *)
Theorem C07_inc_resources_shadow_v0_refuted : exists s page pd l,
  lookup (cur_objects s) page = Some (ODict pd) /\
  (forall i g, dict_get pd K_Resources = Some (ORef i g) -> C07ResProofs.plain_in_prev s (i, g)) /\
  AbstractDoc.effective_resources (cur_objects s) page = Some l /\ l <> [] /\
  AbstractDoc.effective_resources (cur_objects (fst (get_or_create_resources_v0 s page))) page = Some [].
Proof. exact C07ResProofs.inc_resources_shadow_v0_refuted. Qed.

(* ---------------------------------------------------------------------------------------------------------------- *)
(* (C5) MIXED-FORMAT HISTORIES.  IncrementalDocument::save_internal writes the section in the format named by
   prev_documents.reference_table.cross_reference_type (Incremental.inc_save: xd_type (i_prev s)); the loader sets that
   field to the type of the NEWEST section and new_from_prev copies it, but reference_table is a public field and the
   base may come from another producer, so a history can mix the two formats.  [mixed_history base steps F xs objs]
   (Proofs/C07BytesMixed.v): a base -- a Document::save file of either format, or ANY file satisfying good_file -- followed
   by a LIST of incremental saves, newest first; each step (fmt, xt) carries its OWN format tag fmt (the type the update
   was made with, not tied to anything) and the type xt load returned for the previous bytes.
   Every file of every such history satisfies the invariant, with the type of the newest step ...                       *)
Theorem C07_mixed_history_invariant : forall base steps F xs objs,
  mixed_history base steps F xs objs ->
  exists v m entries t, good_file F v m xs (newest_type base steps) entries t objs.
Proof. exact mixed_history_good. Qed.

(* ... hence loads to the fold of the overlays (stream steps add their cross-reference stream object, as the loader does) *)
Theorem C07_mixed_history_loads : forall base steps F xs objs,
  mixed_history base steps F xs objs ->
  Loader.get_xref_start F = Some xs /\
  exists v m t mx, Loader.load F = Loader.LOk {| d_version := v; d_binary_mark := m; d_trailer := t; d_objects := objs; d_max_id := mx |}
                                              (newest_type base steps).
Proof. exact mixed_history_loads. Qed.

(* ... and can be updated again through the modelled API with ANY format tag (generalises C07_history_update_again) *)
Theorem C07_mixed_history_update_again : forall base steps F xs objs pd xt fmt edits,
  mixed_history base steps F xs objs ->
  Loader.load F = Loader.LOk pd xt ->
  let s := fold_left apply_edit edits (create_from F {| xd_doc := pd; xd_start := xs; xd_type := fmt |}) in
  let nd := xd_doc (i_new s) in
  StrictRevisionProofs.rev_dom nd -> SaveSpec.known_deep nd = false ->
  Save.blen (io_bytes (inc_save s)) < u32_mod ->
  Forall (fun io : oid * obj => In (fst io) (map fst (d_objects pd)) \/ ~ In (fst (fst io)) (SaveProofs.obj_numbers (d_objects pd))) (d_objects nd) ->
  io_status (inc_save s) = IncOk /\
  mixed_history base ((fmt, xt) :: steps) (io_bytes (inc_save s)) (io_start (inc_save s))
                (step_objs fmt objs nd (Save.blen (F ++ StrictIncrementalProofs.inc_lines nd))).
Proof. exact mixed_edit_step. Qed.

(* the one-format histories of C07_history_invariant / C07_history_loads are the special case "every tag = the base's" *)
Theorem C07_history_is_mixed : forall F xs fmt objs,
  lopdf_history F xs fmt objs -> exists n, mixed_history (SaveSpec.xtype_of fmt) (same_steps fmt n) F xs objs.
Proof. exact lopdf_history_mixed. Qed.

(* THE FORMAT IS INHERITED.  In every step the type load returns is the type of the previous step (of the base); so when
   every update is made with the type load returned ([inherits]: the API used without writing to reference_table) every
   tag equals the base's format, the newest section has it too, and over a base written by Document::save the history is
   a lopdf_history: "one format per history" is a theorem about the untouched API, not a restriction of the family. *)
Theorem C07_format_is_inherited : forall fmt steps F xs objs,
  mixed_history (SaveSpec.xtype_of fmt) steps F xs objs ->
  loaded_types_ok (SaveSpec.xtype_of fmt) steps /\
  (Forall inherits steps ->
   Forall (fun st => fst st = fmt) steps /\ newest_type (SaveSpec.xtype_of fmt) steps = SaveSpec.xtype_of fmt) /\
  (saved_base (SaveSpec.xtype_of fmt) steps F xs objs -> Forall inherits steps -> lopdf_history F xs fmt objs).
Proof.
  intros fmt steps F xs objs H. split; [exact (mixed_loaded_type _ _ _ _ _ H)|].
  split; [exact (format_is_inherited fmt steps F xs objs H) | exact (inherited_is_lopdf_history fmt steps F xs objs)].
Qed.

(* non-vacuity: save (table), update (table), then the loaded document switched to the stream format and updated: a
   cross-reference STREAM section whose Prev names a table section.  The history is a mixed_history that does NOT inherit;
   the loader model run on the bytes returns the predicted objects (1-4 and the cross-reference stream object 5). *)
Theorem C07_example_mixed :
  mixed_history Xref.XTTable [(XStream, Xref.XTTable); (XTable, Xref.XTTable)] mx_F3 (io_start (inc_save mx_s2)) mx_objs3 /\
  ~ Forall inherits [(XStream, Xref.XTTable); (XTable, Xref.XTTable)] /\
  SaveProofs.obj_numbers mx_objs3 = [1; 2; 3; 4; 5] /\
  lookup mx_objs3 (3, 0) = Some (OStr (bs "newer") false) /\ lookup mx_objs3 (2, 0) = Some (OInt 7) /\
  exists d', Loader.load mx_F3 = Loader.LOk d' Xref.XTStream /\ d_objects d' = mx_objs3 /\ d_max_id d' = 5.
Proof. exact example_mixed. Qed.

(* ... and a third update back to the TABLE format over the stream section (table / table / stream / table): the loaded
   max_id is max 5 6 = 6, the table rule of (C6) *)
Theorem C07_example_mixed_back :
  mixed_history Xref.XTTable [(XTable, Xref.XTStream); (XStream, Xref.XTTable); (XTable, Xref.XTTable)]
                mx_F4 (io_start (inc_save mx_s3)) mx_objs4 /\
  SaveProofs.obj_numbers mx_objs4 = [1; 2; 3; 4; 5; 6] /\
  lookup mx_objs4 (2, 0) = Some (OInt 9) /\ lookup mx_objs4 (3, 0) = Some (OStr (bs "newer") false) /\
  exists d', Loader.load mx_F4 = Loader.LOk d' Xref.XTTable /\ d_objects d' = mx_objs4 /\ d_max_id d' = 6.
Proof. exact example_mixed_back. Qed.

(* ---------------------------------------------------------------------------------------------------------------- *)
(* (C6) THE RELOADED max_id, EXACTLY.  The loader sets max_id to the largest key of the merged table; after an update
   that is [step_max fmt mx nd] (Proofs/C07BytesMaxId.v), mx = the max_id load returned for the previous bytes:
     table format    max mx (largest number among the new objects)   -- nums_max: "max old new"; the new document's
                     own max_id field leaves no trace in a table section (only d_max_id pd <= d_max_id nd is asked)
     stream format   max_id of the new document + 1                  -- the number of the new cross-reference stream
   One update over ANY file satisfying the invariant, either format: *)
Theorem C07_step_max_id : forall F v m xs xt entries t objs fmt s,
  good_file F v m xs xt entries t objs ->
  i_bytes s = F -> xd_type (i_prev s) = fmt ->
  let nd := xd_doc (i_new s) in
  upd_dom xs nd ->
  Save.blen (io_bytes (inc_save s)) < u32_mod ->
  Forall (fun io : oid * obj => In (fst io) (map fst objs) \/ ~ In (fst (fst io)) (SaveProofs.obj_numbers objs)) (d_objects nd) ->
  xmap_max entries <= d_max_id nd ->
  exists t',
    Loader.load (io_bytes (inc_save s)) =
    Loader.LOk {| d_version := v; d_binary_mark := m; d_trailer := t';
                  d_objects := step_objs fmt objs nd (Save.blen (F ++ StrictIncrementalProofs.inc_lines nd));
                  d_max_id := step_max fmt (xmap_max entries) nd |} (SaveSpec.xtype_of fmt).
Proof. exact good_step_max_id. Qed.

(* a step of a mixed-format history (hence of a one-format history: C07_history_is_mixed), phrased on what load returned
   for the previous bytes (pd) and returns for the new ones: version and mark kept, objects = the overlay, max_id exact *)
Theorem C07_mixed_history_step_max_id : forall base steps F xs objs pd xt fmt s,
  mixed_history base steps F xs objs ->
  Loader.load F = Loader.LOk pd xt ->
  i_bytes s = F -> i_prev s = {| xd_doc := pd; xd_start := xs; xd_type := fmt |} ->
  let nd := xd_doc (i_new s) in
  upd_dom xs nd -> d_max_id pd <= d_max_id nd ->
  Save.blen (io_bytes (inc_save s)) < u32_mod ->
  Forall (fun io : oid * obj => In (fst io) (map fst (d_objects pd)) \/ ~ In (fst (fst io)) (SaveProofs.obj_numbers (d_objects pd))) (d_objects nd) ->
  exists t',
    Loader.load (io_bytes (inc_save s)) =
    Loader.LOk {| d_version := d_version pd; d_binary_mark := d_binary_mark pd; d_trailer := t';
                  d_objects := step_objs fmt (d_objects pd) nd (Save.blen (F ++ StrictIncrementalProofs.inc_lines nd));
                  d_max_id := step_max fmt (d_max_id pd) nd |} (SaveSpec.xtype_of fmt).
Proof. exact mixed_step_max_id. Qed.

(* through the modelled API (create_from + edits, any format tag): the same, and the reloaded max_id lies between the
   previous one and the new document's max_id + 1 *)
Theorem C07_update_again_max_id : forall base steps F xs objs pd xt fmt edits,
  mixed_history base steps F xs objs ->
  Loader.load F = Loader.LOk pd xt ->
  let s := fold_left apply_edit edits (create_from F {| xd_doc := pd; xd_start := xs; xd_type := fmt |}) in
  let nd := xd_doc (i_new s) in
  StrictRevisionProofs.rev_dom nd -> SaveSpec.known_deep nd = false ->
  Save.blen (io_bytes (inc_save s)) < u32_mod ->
  Forall (fun io : oid * obj => In (fst io) (map fst (d_objects pd)) \/ ~ In (fst (fst io)) (SaveProofs.obj_numbers (d_objects pd))) (d_objects nd) ->
  exists t',
    Loader.load (io_bytes (inc_save s)) =
    Loader.LOk {| d_version := d_version pd; d_binary_mark := d_binary_mark pd; d_trailer := t';
                  d_objects := step_objs fmt (d_objects pd) nd (Save.blen (F ++ StrictIncrementalProofs.inc_lines nd));
                  d_max_id := step_max fmt (d_max_id pd) nd |} (SaveSpec.xtype_of fmt) /\
    d_max_id pd <= step_max fmt (d_max_id pd) nd /\ step_max fmt (d_max_id pd) nd <= d_max_id nd + 1.
Proof. exact mixed_edit_step_max_id. Qed.

Print Assumptions C07_merge_chain_latest.
Print Assumptions C07_read_chain_partial.
Print Assumptions C07_load_terminates.
Print Assumptions C07_prev_cycle_is_cut.
Print Assumptions C07_normal_entry_wins.
Print Assumptions C07_compressed_entry_names_container.
Print Assumptions C07_free_entry_leaves_no_trace.
Print Assumptions C07_freed_refuted.
Print Assumptions C07_hybrid_fixed.
Print Assumptions C07_stale_generation_fixed.
Print Assumptions C07_example_hybrid_chain.
Print Assumptions C07_one_generation_per_number.
Print Assumptions C07_example_latest_wins.
Print Assumptions C07_example_chain.
Print Assumptions C07_inc_save_prefix.
Print Assumptions C07_inc_save_only_new.
Print Assumptions C07_prev_view_unchanged.
Print Assumptions C07_table_trailer_keeps_prev.
Print Assumptions C07_inc_save_prev_link.
Print Assumptions C07_reload_after_append_partial.
Print Assumptions C07_update_again_partial.
Print Assumptions C07_good_file_loads.
Print Assumptions C07_inc_save_reload.
Print Assumptions C07_inc_save_reload_table.
Print Assumptions C07_history_invariant.
Print Assumptions C07_history_loads.
Print Assumptions C07_history_update_again.
Print Assumptions C07_inc_table_step.
Print Assumptions C07_inc_stream_step.
Print Assumptions C07_example_reload.
Print Assumptions C07_example_second_update.
Print Assumptions C07_generation_hypothesis_needed.
Print Assumptions C07_inc_resources_keep_inherited.
Print Assumptions C07_example_inc_resources.
Print Assumptions C07_inc_resources_shadow_v0_refuted.
Print Assumptions C07_mixed_history_invariant.
Print Assumptions C07_mixed_history_loads.
Print Assumptions C07_mixed_history_update_again.
Print Assumptions C07_history_is_mixed.
Print Assumptions C07_format_is_inherited.
Print Assumptions C07_example_mixed.
Print Assumptions C07_example_mixed_back.
Print Assumptions C07_step_max_id.
Print Assumptions C07_mixed_history_step_max_id.
Print Assumptions C07_update_again_max_id.
