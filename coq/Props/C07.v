(* Props/C07.v -- property C07: incremental updates -- latest revision wins, history preserved.
   Statements only; proofs live in Proofs/{XrefMergeProofs,XrefLoadProofs,IncrementalProofs,C07Witness}.v.

   The full file-level statement is the proposition C07_full of Proofs/C07Full.v (a Definition over the
   byte-level reference writer and loader, which do not exist in Coq yet).  What is proved here is
   about the models Model/XrefMerge.v (Xref::merge, the Prev loop, object loading, object-stream
   expansion of src/reader.rs + src/xref.rs as of commits f28e935/44beb46) and Model/Incremental.v
   (src/incremental_document.rs + IncrementalDocument::save_internal as of bb85a17), both tied to the
   crate by ./check C07 (merged tables, loaded objects, save output byte for byte).

   Vocabulary
     layout        what parser::xref_and_trailer / parser::indirect_object / ObjectStream::new find at which
                   offset of a file (sections with their RAW entries, objects with the id written there)
     first_def     the entry of the newest table in a list that has one for the number
     chain_layout  the sections reachable from startxref form a Prev chain without cycle and the newest
                   trailer has no XRefStm key (that excludes hybrid files: open finding hybrid-update)
     KnownClass    the three open findings, decided on the input history (Spec/History.v)            *)
From LV Require Import Base.Bytes Base.Sx Model.Obj Model.Save Model.XrefMerge Model.Incremental Spec.History
  Proofs.XrefMergeProofs Proofs.XrefLoadProofs Proofs.IncrementalProofs Proofs.C07Full Proofs.C07Witness.

Local Open Scope N_scope.

(* ---------------------------------------------------------------------------------------------------------
   A. Latest revision wins (loader side)
   --------------------------------------------------------------------------------------------------------- *)

(* (A1) Xref::merge over ANY list of sections (x0 the newest, then in the order the Prev loop reads them):
   every object number gets the entry of the newest section that has one. *)
Theorem C07_merge_chain_latest : forall (revs : list xref) (x0 : xref) (k : N),
  xget (xr_entries (fold_left xmerge revs x0)) k = first_def (map xr_entries (x0 :: revs)) k.
Proof. exact merge_chain_latest. Qed.

(* (A2) On every file whose sections form a Prev chain the reader computes exactly that merge: the table it
   ends with gives each number the entry of the newest section having one; trailer, xref_start and table
   type are those of the newest section.  (Size/max_id fit u32 -- the code returns InvalidXref otherwise.) *)
Theorem C07_read_chain_partial : forall L s0 c fuel,
  chain_layout L s0 c -> (length c <= fuel)%nat ->
  (xt_max_id (xr_entries (fold_left xmerge (map (fun ps => sec_xref (snd ps)) c) (sec_xref s0))) + 1 < 4294967296) ->
  exists m, read_xref fuel L = LOk m /\
            m_trailer m = dict_swap_remove (s_trailer s0) K_Prev /\
            m_start m = Z.to_N (l_startxref L) /\
            xr_stream (m_xref m) = s_stream s0 /\
            forall k, xget (xr_entries (m_xref m)) k = first_def (chain_tabs s0 c) k.
Proof. exact read_xref_chain. Qed.

(* (A3) The loader always terminates (cycles of Prev are cut by `already_seen`) within the stated fuel,
   on ANY layout. *)
Theorem C07_load_terminates : forall L, load_abs (load_fuel L) L <> LOutOfFuel.
Proof. exact load_never_out_of_fuel. Qed.

Theorem C07_prev_cycle_is_cut : forall fuel L x tr seen p,
  In p seen -> prev_loop fuel L x tr seen (Some (OInt p)) = LOk (x, tr).
Proof. exact prev_loop_seen. Qed.

(* (A4) From the table to the objects.  An object the merged table lists as in use (Normal) is the object
   found at that offset and nothing replaces it (object-stream members are only added). *)
Theorem C07_normal_entry_wins : forall L enc t l1 kv l2 p,
  t = l1 ++ kv :: l2 ->
  entry_object L enc kv = Some p ->
  (forall kv' p', In kv' l2 -> entry_object L enc kv' = Some p' -> p_id p' <> p_id p) ->
  lookup (load_objects L enc t) (p_id p) = Some (p_obj p).
Proof. exact load_normal_wins. Qed.

(* (A5) An object the merged table places in object stream c (Compressed) is the member of THAT stream,
   whichever other (older) object streams hold the same number: expected refutation (i) of the design,
   repaired in the crate by 44beb46 -- the model follows the repaired code. *)
Theorem C07_compressed_entry_names_container : forall L enc t x c i o b1 ms b2,
  lookup (normals L enc t) x = None ->
  xget t (fst x) = Some (XCompressed c i) ->
  blocks L enc t = b1 ++ (c, ms) :: b2 ->
  (forall b, In b b1 -> fst b <> c) ->
  lookup ms x = Some o ->
  lookup (load_objects L enc t) x = Some o.
Proof. exact load_compressed_named. Qed.

(* (A6) A FREE entry is no entry: a section that only frees k leaves no trace in the table it contributes,
   so by (A1) an older in-use entry for k survives the merge.  This is the root of the open finding
   freed-comes-back; (A7) shows it on a concrete history. *)
Theorem C07_free_entry_leaves_no_trace : forall stream raw k,
  (forall e, In (k, e) raw -> exists g, e = RFree g) ->
  xget (parse_entries stream raw) k = None.
Proof. exact only_free_no_entry. Qed.

(* (A7) The full claim is REFUTED on the unrepaired parts of the reader; each witness is a history of the
   known class, its layout as the reference writer produces it, and the deviation of the loaded objects.
   The same cases are replayed on the real crate by ./check C07 (known_findings.json). *)
Theorem C07_freed_refuted :
  KnownClass h_freed = true /\
  lookup (latest_wins (map forget h_freed)) (2, 0) = None /\
  exists m, loaded_user L_freed = Some m /\ lookup m (2, 0) = Some (OInt 5) /\ m <> latest_wins (map forget h_freed).
Proof. exact freed_refuted. Qed.

Theorem C07_hybrid_refuted :
  KnownClass h_hybrid = true /\
  lookup (latest_wins (map forget h_hybrid)) (2, 0) = Some (OInt 7) /\
  exists m, loaded_user L_hybrid = Some m /\ lookup m (2, 0) = Some (OInt 5).
Proof. exact hybrid_refuted. Qed.

Theorem C07_stale_generation_refuted :
  KnownClass h_stale = true /\
  lookup (latest_wins (map forget h_stale)) (2, 0) = None /\
  exists m, loaded_user L_stale = Some m /\ lookup m (2, 1) = Some (OInt 6) /\ lookup m (2, 0) = Some (OInt 5).
Proof. exact stale_generation_refuted. Qed.

(* non-vacuity: a three-revision history outside the known class (table and stream sections, an object
   updated from one object stream into another, one moved out of an object stream) loads to exactly
   latest_wins, and its layout meets the chain hypotheses of (A2) *)
Theorem C07_example_latest_wins :
  KnownClass h_ok = false /\ loaded_user L_ok = Some (latest_wins (map forget h_ok)).
Proof. exact ok_latest_wins. Qed.

Theorem C07_example_chain :
  exists s0 s1 s2 p1 p2, chain_layout L_ok s0 [(p1, s1); (p2, s2)] /\ (p2 < p1 < l_startxref L_ok)%Z.
Proof. exact ok_is_chain_layout. Qed.

(* ---------------------------------------------------------------------------------------------------------
   B. Incremental save (writer side)
   --------------------------------------------------------------------------------------------------------- *)

(* (B1) inc_save_prefix: for ALL previous bytes and ALL new documents -- also when the save fails half way --
   the output starts with the previous bytes, unchanged. *)
Theorem C07_inc_save_prefix : forall s,
  firstn (length (i_bytes s)) (io_bytes (inc_save s)) = i_bytes s.
Proof. exact inc_save_prefix. Qed.

(* (B2) inc_save_only_new: a successful save appends, after separator + header + binary mark, exactly the
   indirect objects of the new document (those the writer does not skip), ONE cross-reference section and
   startxref = its offset; the section lists exactly the new objects, each at the byte where its
   "id gen obj" starts, counted from the file header (u32 truncation as in the code). *)
Theorem C07_inc_save_only_new : forall s,
  io_status (inc_save s) = IncOk ->
  let nd := xd_doc (i_new s) in
  let objs := flat_map wio (written (d_objects nd)) in
  let start := start_count (i_bytes s) + blen (inc_head s) in
  exists x,
    io_bytes (inc_save s) =
      i_bytes s ++ inc_head s ++ objs ++ inc_xref_part s x (start + blen objs) ++ startxref_bytes (start + blen objs) /\
    io_start (inc_save s) = start + blen objs /\
    (forall n, ~ In n (numbers (written (d_objects nd))) -> xget x n = None) /\
    (forall l1 id g o l2, written (d_objects nd) = l1 ++ ((id, g), o) :: l2 -> ~ In id (numbers l2) ->
       xget x id = Some (XNormal ((start + blen (flat_map wio l1)) mod u32_mod) g)).
Proof. exact inc_save_only_new. Qed.

(* (B3) prev_view_unchanged: after create_from and ANY sequence of the modelled edits (set_object, add_object,
   opt_clone_object_to_new_document, get_or_create_resources, add_xobject) the previous bytes and the
   previous view are untouched, the trailer still carries Prev = the previous xref_start, and the save
   output still starts with the previous bytes. *)
Theorem C07_prev_view_unchanged : forall prev_bytes prev edits,
  let s := fold_left apply_edit edits (create_from prev_bytes prev) in
  i_bytes s = prev_bytes /\ i_prev s = prev /\
  dict_get (d_trailer (xd_doc (i_new s))) K_Prev = Some (OInt (Z.of_N (xd_start prev))) /\
  firstn (length prev_bytes) (io_bytes (inc_save s)) = prev_bytes.
Proof. exact prev_view_unchanged. Qed.

(* the trailer written by the table variant still has that Prev *)
Theorem C07_table_trailer_keeps_prev : forall s,
  dict_get (trailer_table (xd_doc (i_new s))) K_Prev = dict_get (d_trailer (xd_doc (i_new s))) K_Prev.
Proof. exact inc_table_trailer_prev. Qed.

(* ... and, for both cross-reference styles and after ANY edits, the Prev of the section the save writes is
   the previous xref_start (trailer keys unique: IndexMap's invariant) *)
Theorem C07_inc_save_prev_link : forall prev_bytes prev edits,
  NoDup (map fst (d_trailer (xd_doc prev))) ->
  let s := fold_left apply_edit edits (create_from prev_bytes prev) in
  let nd := xd_doc (i_new s) in
  dict_get (trailer_table nd) K_Prev = Some (OInt (Z.of_N (xd_start prev))) /\
  forall x p t content x1, xstream_parts nd x p = (t, content, x1) ->
                           dict_get t K_Prev = Some (OInt (Z.of_N (xd_start prev))).
Proof. exact inc_save_prev_link. Qed.

(* (B4) inc_save_reload, at the level of the cross-reference table (partial: the byte-level round trip of the
   appended section and objects is C01's/C02's, not available yet; it enters as the layout): appending a
   section whose Prev is the old startxref to a chain file gives a file on which the reader's table has,
   for every number, the NEW entry if the new section has one and otherwise EXACTLY the entry it found
   before the update; trailer and xref_start are the new section's. *)
Theorem C07_reload_after_append_partial : forall L s0 c off sec objs len m fuel,
  chain_layout L s0 c ->
  read_xref fuel L = LOk m -> (length c <= fuel)%nat ->
  (l_buflen L < off <= len)%Z ->
  (forall p, In p (l_startxref L :: map fst c) -> (p <= l_buflen L)%Z) ->
  dict_get (s_trailer sec) K_Prev = Some (OInt (l_startxref L)) ->
  dict_get (dict_swap_remove (s_trailer sec) K_Prev) K_XRefStm = None ->
  (xt_max_id (xr_entries (fold_left xmerge (map (fun ps => sec_xref (snd ps)) ((l_startxref L, s0) :: c)) (sec_xref sec))) + 1
     < 4294967296) ->
  exists m', read_xref (S fuel) (extend_layout L off sec objs len) = LOk m' /\
             m_trailer m' = dict_swap_remove (s_trailer sec) K_Prev /\
             m_start m' = Z.to_N off /\
             forall k, xget (xr_entries (m_xref m')) k =
                       match xget (parse_entries (s_stream sec) (s_raw sec)) k with
                       | Some e => Some e
                       | None => xget (xr_entries (m_xref m)) k
                       end.
Proof. exact reload_after_append. Qed.

(* (B5) re-loadability for a further update, by induction over the history of saves: the file after the
   update meets the hypotheses of (A2)/(B4) again, with a chain one section longer. *)
Theorem C07_update_again_partial : forall L s0 c off sec objs len,
  chain_layout L s0 c ->
  (l_buflen L < off <= len)%Z ->
  (forall p, In p (l_startxref L :: map fst c) -> (p <= l_buflen L)%Z) ->
  dict_get (s_trailer sec) K_Prev = Some (OInt (l_startxref L)) ->
  dict_get (dict_swap_remove (s_trailer sec) K_Prev) K_XRefStm = None ->
  chain_layout (extend_layout L off sec objs len) sec ((l_startxref L, s0) :: c).
Proof. exact extend_chain_layout. Qed.

Print Assumptions C07_merge_chain_latest.
Print Assumptions C07_read_chain_partial.
Print Assumptions C07_load_terminates.
Print Assumptions C07_prev_cycle_is_cut.
Print Assumptions C07_normal_entry_wins.
Print Assumptions C07_compressed_entry_names_container.
Print Assumptions C07_free_entry_leaves_no_trace.
Print Assumptions C07_freed_refuted.
Print Assumptions C07_hybrid_refuted.
Print Assumptions C07_stale_generation_refuted.
Print Assumptions C07_example_latest_wins.
Print Assumptions C07_example_chain.
Print Assumptions C07_inc_save_prefix.
Print Assumptions C07_inc_save_only_new.
Print Assumptions C07_prev_view_unchanged.
Print Assumptions C07_table_trailer_keeps_prev.
Print Assumptions C07_inc_save_prev_link.
Print Assumptions C07_reload_after_append_partial.
Print Assumptions C07_update_again_partial.
