(* Props/C07.v -- property C07 (placeholder: first increment, abstract merge core only). *)
From LV Require Import Base.Bytes Model.Obj Model.Save Model.XrefMerge Proofs.XrefMergeProofs.

(* Xref::merge over any chain of sections: every object number gets the entry of the newest section that has one *)
Theorem C07_merge_chain_latest : forall (revs : list xref) (x0 : xref) (k : N),
  xget (xr_entries (fold_left xmerge revs x0)) k = first_def (map xr_entries (x0 :: revs)) k.
Proof. exact merge_chain_latest. Qed.

Theorem C07_load_terminates : forall L, load_abs (load_fuel L) L <> LOutOfFuel.
Proof. exact load_never_out_of_fuel. Qed.

Print Assumptions C07_merge_chain_latest.
Print Assumptions C07_load_terminates.
