(* Props/C05.v -- property C05: encrypt then decrypt restores every string and stream.
   Statements only; proofs live in Proofs/CryptoProofs*.v.
   [P : prims] bundles the third-party primitives (MD5, SHA-2, AES block functions); [aes_ok P] is the one
   law assumed of them: for 16- and 32-byte keys AES decryption inverts AES encryption on 16-byte blocks,
   which stay 16 bytes.  [C05_aes_inverse] proves that law for the Gallina AES the runner executes
   ([concrete]), so every theorem below also holds outright for [P := concrete]. *)
From LV Require Import Base.Bytes Model.Obj Model.Crypto.Word Model.Crypto.RC4 Model.Crypto.PKCS5 Model.Crypto.SHA2
  Model.Crypto.Handler Proofs.CryptoProofs Proofs.CryptoProofsFilter Proofs.CryptoProofsObject
  Proofs.CryptoProofsDoc Proofs.CryptoProofsExamples Proofs.CryptoProofsAES Model.Crypto.Concrete
  Proofs.CryptoProofsSHA Proofs.IsoProofsDoc2 Proofs.IsoProofsDoc7 Proofs.CryptoProofsAuth Proofs.CryptoProofsRT.
(* the composition with property C01 (save and reload) *)
From LV Require Model.Loader Model.LoaderCrypt Spec.SaveSpec Proofs.LoadProofsXref Proofs.ComposeCrypt Proofs.ComposeCryptExample
  Proofs.ComposeCryptDomain.

(* lopdf's RC4: decrypting what was encrypted under the same key gives the message back, for every key
   the constructor accepts (1..256 bytes; any other length panics = None) and every message *)
Theorem C05_rc4_involutive :
  forall key m c, rc4 key m = Some c -> rc4 key c = Some m.
Proof. exact rc4_involutive. Qed.

Theorem C05_rc4_total :
  forall key m, (1 <= length key <= 256)%nat -> exists c, rc4 key m = Some c /\ length c = length m.
Proof.
  intros key m H. destruct (rc4_some key m H) as [c E]. exists c. split; [exact E | exact (rc4_length _ _ _ E)].
Qed.

(* lopdf's PKCS#5 padding as driven by encrypt_padded_mut / decrypt_padded_mut *)
Theorem C05_pkcs5_unpad_pad : forall m, pkcs5_unpad (pkcs5_pad m) = Some m.
Proof. exact pkcs5_unpad_pad. Qed.

(* CBC over any block cipher whose decryption inverts its encryption on 16-byte blocks *)
Theorem C05_cbc_dec_enc :
  forall (E D : bytes -> bytes),
    (forall b, length b = 16%nat -> D (E b) = b) ->
    (forall b, length b = 16%nat -> length (E b) = 16%nat) ->
    forall iv bs, length iv = 16%nat -> Forall (fun b => length b = 16%nat) bs ->
      cbc_dec D iv (cbc_enc E iv bs) = bs.
Proof. exact cbc_dec_enc. Qed.

(* the four crypt filters (Identity, V2 = RC4, AESV2, AESV3): decrypt inverts encrypt, whatever the IV *)
Theorem C05_filter_rt :
  forall P f key pt ivs ct ivs',
    aes_ok P -> cf_encrypt P f key pt ivs = Ok (ct, ivs') -> cf_decrypt P f key ct = Ok pt.
Proof. exact filter_rt. Qed.

(* after AES encryption no string or stream equals its plaintext: the ciphertext is longer *)
Theorem C05_aes_differs :
  forall P f key pt ivs ct ivs',
    aes_ok P -> is_aes f = true -> cf_encrypt P f key pt ivs = Ok (ct, ivs') -> ct <> pt.
Proof.
  intros P f key pt ivs ct ivs' HP Hf H E. subst ct.
  destruct (aes_ciphertext_longer P f key pt ivs pt ivs' HP Hf H) as [L _]. lia.
Qed.

(* RC4: ciphertext = plaintext exactly when the key stream prefix is all zero.  That this does not
   happen for >= 16 bytes is a cryptographic fact (probability 2^-128), not a logical one: partial. *)
Theorem C05_rc4_differs_partial :
  forall key st m,
    rc4_new key = Some st ->
    ~ Forall (fun b => b = x00) (rc4_stream st 0 0 (length m)) ->
    rc4 key m <> Some m.
Proof. exact rc4_ciphertext_differs. Qed.

(* decrypt_object inverts encrypt_object on EVERY object (strings nested in arrays and dictionaries,
   streams, per-stream Crypt overrides, the XRef / Metadata exemptions), whatever IVs were drawn; the
   result is the object with the /Length entries Stream::set_content writes ([norm_len]) ... *)
Theorem C05_object_rt :
  forall P st id o ivs o' ivs',
    aes_ok P -> encrypt_object P st id o ivs = Ok (o', ivs') -> decrypt_object P st id o' = Ok (norm_len st o).
Proof. intros P st id o ivs o' ivs' HP. apply object_rt. exact HP. Qed.

(* ... which is the object itself when its streams carry their own length as a direct integer *)
Theorem C05_object_rt_exact :
  forall P st id o ivs o' ivs',
    aes_ok P -> lengths_ok st o ->
    encrypt_object P st id o ivs = Ok (o', ivs') -> decrypt_object P st id o' = Ok o.
Proof. exact object_rt_exact. Qed.

(* ---------------- document level ---------------- *)
(* [P : prims] now also carries [p_decompress] = Stream::decompress, which decrypt_raw reaches through
   ObjectStream::new on every decrypted stream of Type ObjStm; every theorem holds whatever that function does.
   [xr : N -> option N] stands for the Compressed entries of Document.reference_table (object number -> container),
   which decrypt_raw's object-stream pass consults since repo 959d50f and which is not a component of the model's
   documents; every theorem holds for every [xr].  [doc_decrypt P] = [doc_decrypt_x P (fun _ => None)]: a document
   built in memory or written by lopdf (whose writer emits no such entries).

   Result of Document::decrypt after Document::encrypt, [plain_doc P xr st d]: the version, the binary mark and the
   TRAILER of d exactly (Encrypt removed); every object restored -- [norm_objs st]: with Stream::set_content's Length
   entries, i.e. the objects themselves when Length is right (C05_document_objects_exact) --; then decrypt_raw's
   object-stream pass ([opened_objects]: streams of Type ObjStm are decompressed in place; a member the cross-reference
   table places in that stream is added unless its id is present, any other member unless its NUMBER is present under
   whatever generation -- nothing happens without such streams: C05_opened_objects_plain); the encryption dictionary
   object removed; max_id one higher (add_object's increment is not undone).
   Domain: object ids at or below max_id (the invariant add_object relies on; without it encrypt overwrites an object
   with the encryption dictionary), no stale Encrypt entry in the plain trailer, [version_in_domain v]: V1; V2 with
   40..128 bits in steps of 8; V4; R5; V5 -- lopdf's Permissions (flag bits only), one crypt filter per name (BTreeMap),
   Identity not redefined, StmF / StrF naming defined filters, no AESV3 under V4's 128-bit key, a 32-byte key for
   R5 / V5.
   [right_password P d1 v pw]: pw is the user password or the owner password of v (for V1 / V2 / V4 a non-empty one: an
   empty owner password means there is none), with the two CRYPTOGRAPHIC side conditions spelled out: an owner
   password of revision 2-4 either has the padded form of the user password (equal, or equal in the first 32 bytes) or
   does not also pass the user check; a user password of revision 5/6 either has the truncated form of the owner
   password (first 127 bytes) or does not also pass the owner check.  A password passing the other check is taken for
   the other kind by lopdf (and by ISO 32000); that the key is then the same is not a logical fact.
   NO hypothesis on authentication or on key recovery: DESIGN's auth_user_ok / auth_owner_ok and
   "decode (encode st) = st up to what decrypt_object reads" ([st_equiv]) are proved for every revision
   (Proofs/CryptoProofsAuth.v). *)
Theorem C05_document_rt :
  forall P,
    (forall m, length (p_md5 P m) = 16%nat) -> aes_ok P ->
    (forall m, length (p_sha256 P m) = 32%nat) -> (forall m, length (p_sha384 P m) = 48%nat) ->
    (forall m, length (p_sha512 P m) = 64%nat) ->
  forall xr d v rnd ivs st d1 pw,
    version_in_domain v -> max_id_ok d -> dict_get (d_trailer d) K_Encrypt = None ->
    try_from_version P d v rnd = Ok st -> doc_encrypt P st d ivs = DOk d1 tt ->
    right_password P d1 v pw ->
    exists st', doc_decrypt_x P xr d1 pw = DOk (plain_doc P xr st d) st' /\ st_equiv st st'.
Proof. exact document_rt. Qed.

(* the laws of the primitives are theorems for the Gallina MD5, AES and SHA-2 the runner executes ... *)
Theorem C05_md5_length : forall m, length (Model.Crypto.MD5.md5 m) = 16%nat.
Proof. exact md5_len16. Qed.
Theorem C05_sha2_lengths :
  (forall m, length (sha256 m) = 32%nat) /\ (forall m, length (sha384 m) = 48%nat) /\ (forall m, length (sha512 m) = 64%nat).
Proof. exact (conj sha256_length (conj sha384_length sha512_length)). Qed.

(* ... so for the executable model the round trip holds with no hypothesis on them, whatever Stream::decompress is *)
Theorem C05_document_rt_concrete :
  forall dec, let P := concrete_with dec in
  forall xr d v rnd ivs st d1 pw,
    version_in_domain v -> max_id_ok d -> dict_get (d_trailer d) K_Encrypt = None ->
    try_from_version P d v rnd = Ok st -> doc_encrypt P st d ivs = DOk d1 tt ->
    right_password P d1 v pw ->
    exists st', doc_decrypt_x P xr d1 pw = DOk (plain_doc P xr st d) st' /\ st_equiv st st'.
Proof. exact document_rt_concrete. Qed.

(* the four cases one by one: user / owner password, revisions 2-4 and 5-6 *)
Theorem C05_document_rt_user_r4 :
  forall P, (forall m, length (p_md5 P m) = 16%nat) -> aes_ok P ->
  forall xr d id0 v rnd ivs st d1,
    file_id_0 d = Ok id0 -> version_ok v -> max_id_ok d -> dict_get (d_trailer d) K_Encrypt = None ->
    try_from_version P d v rnd = Ok st -> doc_encrypt P st d ivs = DOk d1 tt ->
    exists st', doc_decrypt_x P xr d1 (v_user v) = DOk (plain_doc P xr st d) st' /\ st_equiv st st'.
Proof. exact document_rt_user_r4. Qed.

Theorem C05_document_rt_owner_r4 :
  forall P, (forall m, length (p_md5 P m) = 16%nat) -> aes_ok P ->
  forall xr d id0 v rnd ivs st d1,
    file_id_0 d = Ok id0 -> version_ok v -> max_id_ok d -> dict_get (d_trailer d) K_Encrypt = None ->
    try_from_version P d v rnd = Ok st -> doc_encrypt P st d ivs = DOk d1 tt ->
    v_owner v <> [] ->
    pad_pw (v_owner v) = pad_pw (v_user v) \/ authenticate_raw_user_password P d1 (v_owner v) <> Ok tt ->
    exists st', doc_decrypt_x P xr d1 (v_owner v) = DOk (plain_doc P xr st d) st' /\ st_equiv st st'.
Proof. exact document_rt_owner_r4. Qed.

Theorem C05_document_rt_owner_r6 :
  forall P, aes_ok P ->
    (forall m, length (p_sha256 P m) = 32%nat) -> (forall m, length (p_sha384 P m) = 48%nat) ->
    (forall m, length (p_sha512 P m) = 64%nat) ->
  forall xr d v rnd ivs st d1,
    version_ok6 v -> max_id_ok d -> dict_get (d_trailer d) K_Encrypt = None ->
    try_from_version P d v rnd = Ok st -> doc_encrypt P st d ivs = DOk d1 tt ->
    exists st', doc_decrypt_x P xr d1 (v_owner v) = DOk (plain_doc P xr st d) st' /\ st_equiv st st'.
Proof. exact document_rt_owner_r6. Qed.

Theorem C05_document_rt_user_r6 :
  forall P, aes_ok P ->
    (forall m, length (p_sha256 P m) = 32%nat) -> (forall m, length (p_sha384 P m) = 48%nat) ->
    (forall m, length (p_sha512 P m) = 64%nat) ->
  forall xr d v rnd ivs st d1,
    version_ok6 v -> max_id_ok d -> dict_get (d_trailer d) K_Encrypt = None ->
    try_from_version P d v rnd = Ok st -> doc_encrypt P st d ivs = DOk d1 tt ->
    trunc_pw (v_user v) = trunc_pw (v_owner v) \/ authenticate_raw_owner_password P d1 (v_user v) <> Ok tt ->
    exists st', doc_decrypt_x P xr d1 (v_user v) = DOk (plain_doc P xr st d) st' /\ st_equiv st st'.
Proof. exact document_rt_user_r6. Qed.

(* "d' = d": with Length entries that are right and object streams expanded (or absent), the plain document of the
   theorems above IS the original one, max_id apart *)
Theorem C05_plain_doc_exact :
  forall P xr st d,
    max_id_ok d -> Forall (fun io => lengths_ok st (snd io)) (d_objects d) -> expanded P xr (d_objects d) ->
    plain_doc P xr st d =
    {| d_version := d_version d; d_binary_mark := d_binary_mark d; d_trailer := d_trailer d;
       d_objects := d_objects d; d_max_id := (d_max_id d + 1)%N |}.
Proof. exact plain_doc_exact. Qed.

(* the two ingredients, as DESIGN names them.  decode after encode: PasswordAlgorithm::try_from(&Document) reads the
   dictionary EncryptionState::encode wrote back into the values of the state (V1 / V2 / V4; R5 / V5) ... *)
Theorem C05_try_from_encode_r4 :
  forall st, st_shape_r4 st -> st_len_ok st -> length (es_O st) = 32%nat -> length (es_U st) = 32%nat ->
    Proofs.IsoProofsDoc.palg_of_dict (encode st) = Ok (palg_of_st st).
Proof. exact palg_of_encode_r4. Qed.
Theorem C05_try_from_encode_r6 :
  forall st, st_shape_r6 st ->
    length (es_O st) = 48%nat -> length (es_U st) = 48%nat -> length (es_OE st) = 32%nat -> length (es_UE st) = 32%nat ->
    length (es_perms_enc st) = 16%nat ->
    Proofs.IsoProofsDoc.palg_of_dict (encode st) = Ok (palg_of_st st).
Proof. exact palg_of_encode_r6. Qed.
(* ... and Document::get_crypt_filters reads the CF dictionary back into a map with the look-ups of the state's *)
Theorem C05_crypt_filters_encode :
  forall D st, get_encrypted D = Some (encode st) -> shape_v45 st -> NoDup (map fst (es_crypt_filters st)) ->
  forall n, bt_get (get_crypt_filters D) n = bt_get (es_crypt_filters st) n.
Proof.
  intros D st Hge Hs ND. destruct (encode_entries st Hs ND) as (C1 & _).
  exact (get_crypt_filters_encode D _ _ Hge ND C1).
Qed.

(* The general frame the four cases instantiate: ANY state (not only those try_from makes) -- whenever the password
   authenticates on the encrypted document and key recovery yields the key / filters / EncryptMetadata that
   encrypted it, decrypt_raw returns the plain document. *)
Theorem C05_document_rt_any_state :
  forall P xr st d ivs d1 pw st',
    aes_ok P -> max_id_ok d -> dict_get (d_trailer d) K_Encrypt = None ->
    doc_encrypt P st d ivs = DOk d1 tt ->
    authenticate_raw_password P d1 pw = Ok tt ->
    decode P d1 pw = Ok st' -> st_equiv st st' ->
    doc_decrypt_raw_x P xr d1 pw = DOk (plain_doc P xr st d) st'.
Proof. exact doc_rt_gen. Qed.

(* without a stream of Type ObjStm (and the number of the encryption dictionary free) the object-stream pass does
   nothing: the objects of [plain_doc] are the restored objects *)
Theorem C05_opened_objects_plain :
  forall P xr m id e, ~ In id (map fst m) -> has_objstm m = false -> opened_objects P xr m id e = m.
Proof. exact opened_objects_none. Qed.

(* the same on a LOADED document, whose object streams the reader has expanded ([expanded P xr m]: every stream of Type
   ObjStm is one Stream::decompress fails on -- it has no Filter any more --, each member the cross-reference table
   places in it is in the object map, and of every other member the number is taken): the pass adds nothing.  (Use with m := norm_objs st (d_objects d), which is
   d_objects d when the Length entries are right.)  In every other case -- a member missing from the map, e.g. deleted
   after loading, or a hand-built compressed object stream -- [opened_objects] says exactly what decrypt_raw does: the
   missing members (re)appear, the stream comes back decompressed. *)
Theorem C05_opened_objects_expanded :
  forall P xr m id e, ~ In id (map fst m) -> expanded P xr m -> opened_objects P xr m id e = m.
Proof. exact opened_objects_expanded. Qed.

Theorem C05_document_objects_exact :
  forall st m, Forall (fun io => lengths_ok st (snd io)) m -> norm_objs st m = m.
Proof. exact norm_objs_id. Qed.

(* A password that does not authenticate is rejected with that error BEFORE anything is written:
   [DErr] is the outcome "Err, document unchanged". *)
Theorem C05_reject_leaves_unchanged :
  forall P xr d pw e, authenticate_raw_password P d pw = Err e -> doc_decrypt_raw_x P xr d pw = DErr e.
Proof. exact reject_leaves_unchanged_x. Qed.

(* The AES written from FIPS 197 (Model/Crypto/AES.v) is invertible: InvCipher (Cipher b) = b for every
   16- or 32-byte key and every 16-byte block (InvSubBytes / InvShiftRows / InvMixColumns / AddRoundKey
   inverses, induction over the round keys). *)
Theorem C05_aes_inverse : aes_ok concrete.
Proof. exact concrete_aes_ok. Qed.

(* hence, for the executable model, with no hypothesis at all: *)
Theorem C05_object_rt_concrete :
  forall st id o ivs o' ivs',
    encrypt_object concrete st id o ivs = Ok (o', ivs') -> decrypt_object concrete st id o' = Ok (norm_len st o).
Proof. intros st id o ivs o' ivs'. apply object_rt. exact concrete_aes_ok. Qed.

(* non-vacuity *)
Theorem C05_example_rc4 :
  rc4 (bs "Key") (bs "Plaintext") = Some [xbb; xf3; x16; xe8; xd9; x40; xaf; x0a; xd3] /\
  rc4 (bs "Key") [xbb; xf3; x16; xe8; xd9; x40; xaf; x0a; xd3] = Some (bs "Plaintext").
Proof. split; vm_compute; reflexivity. Qed.

(* a four-object document (catalog string, content stream, hexadecimal string nested in an array, empty
   string in a dictionary, Metadata stream) under V2/128-bit RC4 and under V4/AESV2 with EncryptMetadata
   false, run through the model with the executable primitives: the user AND the owner password
   authenticate, [decode] recovers key / filters / EncryptMetadata, objects and trailer come back, the
   ciphertext differed; another password is rejected with IncorrectPassword and [DErr] (unchanged) *)
Theorem C05_example_document :
  max_id_ok ex_doc /\ dict_get (d_trailer ex_doc) K_Encrypt = None /\ has_objstm (d_objects ex_doc) = false /\
  run_example ex_v2 ex_user = Some (true, true, true, true) /\
  run_example ex_v2 ex_owner = Some (true, true, true, true) /\
  run_example ex_v4 ex_user = Some (true, true, true, true) /\
  run_example ex_v4 ex_owner = Some (true, true, true, true) /\
  run_wrong ex_v2 (bs "guess") = Some (DErr D_IncorrectPassword) /\
  run_wrong ex_v4 (bs "guess") = Some (DErr D_IncorrectPassword).
Proof.
  destruct ex_hyps as [H1 [H2 H3]].
  exact (conj H1 (conj H2 (conj H3 (conj ex_v2_user (conj ex_v2_owner (conj ex_v4_user (conj ex_v4_owner
        (conj ex_v2_wrong ex_v4_wrong)))))))).
Qed.

(* the hypotheses of C05_document_rt are satisfiable: versions V1, V2, V4, V5 in the domain; on the V2 example the
   owner password does not pass the user check (the side condition of right_password) *)
Theorem C05_example_rt_hypotheses :
  (version_in_domain ex_v1 /\ version_in_domain ex_v2 /\ version_in_domain ex_v4 /\ version_in_domain ex_v5) /\
  match ex_enc ex_v2 with
  | Some d1 => match authenticate_raw_user_password concrete d1 ex_owner with Err D_IncorrectPassword => true | _ => false end
  | None => false
  end = true.
Proof. exact (conj ex_versions ex_owner_not_user). Qed.

(* decrypt_raw's object-stream pass on a document holding a stream of Type ObjStm (object 4) with the members 7 and 5,
   and an object 5 of generation 2.  No Compressed entries: 7 is added (ObjectStream::new through Model/ObjStm.v), 5 is
   not -- its number is taken --, the stream stays.  The cross-reference table places 5 in container 4: (5, 0) is added
   beside (5, 2).  The encryption dictionary has the number 7: the member 7 is not added. *)
Theorem C05_example_objstm :
  has_objstm ex_os = true /\
  map fst (objstm_pass concrete no_xr ex_os) = [(1, 0); (4, 0); (5, 2); (7, 0)]%N /\
  lookup (objstm_pass concrete no_xr ex_os) (7, 0)%N = Some (OStr (bs "hi") false) /\
  map fst (objstm_pass concrete ex_xr ex_os) = [(1, 0); (4, 0); (5, 0); (5, 2); (7, 0)]%N /\
  lookup (objstm_pass concrete ex_xr ex_os) (5, 0)%N = Some (ODict [(bs "A", OInt 1)]) /\
  map fst (opened_objects concrete no_xr ex_os (7, 0)%N []) = [(1, 0); (4, 0); (5, 2)]%N.
Proof. exact ex_objstm_pass. Qed.

Theorem C05_example_pkcs5 :
  pkcs5_pad (bs "0123456789abcdef") = bs "0123456789abcdef" ++ repeat x10 16 /\
  pkcs5_pad (bs "abc") = bs "abc" ++ repeat x0d 13.
Proof. split; vm_compute; reflexivity. Qed.

(* ---------------- after save and reload: composition with property C01 ----------------
   (Proofs/ComposeCrypt.v; the loader with the Encrypt branch is Model/LoaderEnc.v, its decrypt attempt instantiated
   with this security handler in Model/LoaderCrypt.v: [load_crypt P can] = Document::load_mem, which ends with
   `if document.authenticate_password("").is_ok() { document.decrypt("")?; }`.)

   d: the plain document; d1 = Document::encrypt of d under the state made from version v; the file
   [so_bytes (save xt d1)] in either cross-reference format xt.  Then
     (1) the reader reads the file back to [reloaded xt d1] -- C01's reloaded document: d1's objects in normal form,
         the cross-reference stream object in the stream format -- and hands exactly that to the decrypt attempt;
     (2) if the empty password does not authenticate ([authenticate_password P d1 [] = Err e]: the user password is not
         empty; that the empty password then fails Algorithm 6 / 11 / 12 is the cryptographic part) the load returns
         [reloaded xt d1], still encrypted;
     (3) Document::decrypt on that document with the user or the owner password ([right_password], as in
         C05_document_rt) returns Ok and leaves a document d2 that is d in the sense of property C01 ([same_doc]: same
         version, every object of d in normal form under its identifier apart from cross-reference stream objects, every
         trailer entry of d in normal form apart from cross-reference bookkeeping), without an Encrypt entry, with d's
         binary mark; the recovered state is equivalent to the one that encrypted;
     (4) if the empty password IS a right password (empty user password) the load itself returns such a d2.
   Side conditions that remain: C05_document_rt's own (laws of the primitives, [version_in_domain], [max_id_ok], no
   stale Encrypt entry); the objects of d are in C01's domain (top_wf: Length = content length, direct objects inside;
   not of a type the writer drops); and the ENCRYPTED document is in the writer's domain, [savable_enc d1] (u32 room for
   the numbers, binary mark, version line, strictly increasing object numbers, well-formed objects and trailer -- each a
   restriction by type of lopdf's data, see notes/C01.md), outside C01's known class ([known_deep d1 = false]) and below
   4 GiB ([small_file xt d1]). *)
Theorem C05_encrypt_save_load_decrypt :
  forall P,
    (forall m, length (p_md5 P m) = 16%nat) -> aes_ok P ->
    (forall m, length (p_sha256 P m) = 32%nat) -> (forall m, length (p_sha384 P m) = 48%nat) ->
    (forall m, length (p_sha512 P m) = 64%nat) ->
  forall can xt d v rnd ivs st d1,
    version_in_domain v -> max_id_ok d -> dict_get (d_trailer d) K_Encrypt = None ->
    try_from_version P d v rnd = Ok st -> doc_encrypt P st d ivs = DOk d1 tt ->
    Forall (fun io : oid * obj => SaveSpec.top_wf (snd io) /\ Model.Save.skipped (snd io) = false) (d_objects d) ->
    SaveSpec.savable_enc d1 -> SaveSpec.known_deep d1 = false -> SaveSpec.small_file xt d1 ->
    exists x : Model.Save.xmap, Forall LoadProofsXref.normal_ok x /\
      LoaderCrypt.load_crypt P can (Model.Save.so_bytes (Model.Save.save xt d1)) =
        LoaderCrypt.after_crypt P (LoadProofsXref.conv_map x) (SaveSpec.reloaded xt d1) (SaveSpec.xtype_of xt) /\
      (forall e, LoaderCrypt.authenticate_password P d1 [] = Err e ->
         LoaderCrypt.load_crypt P can (Model.Save.so_bytes (Model.Save.save xt d1)) = LoaderCrypt.CLoad (Loader.LOk (SaveSpec.reloaded xt d1) (SaveSpec.xtype_of xt))) /\
      (forall xr pw, right_password P d1 v pw ->
         exists d2 st', doc_decrypt_x P xr (SaveSpec.reloaded xt d1) pw = DOk d2 st' /\ st_equiv st st' /\
                        SaveSpec.same_doc d d2 /\ dict_get (d_trailer d2) K_Encrypt = None /\
                        d_binary_mark d2 = d_binary_mark d) /\
      (right_password P d1 v [] ->
         exists d2, LoaderCrypt.load_crypt P can (Model.Save.so_bytes (Model.Save.save xt d1)) = LoaderCrypt.CLoad (Loader.LOk d2 (SaveSpec.xtype_of xt)) /\
                    SaveSpec.same_doc d d2 /\ dict_get (d_trailer d2) K_Encrypt = None /\
                    d_binary_mark d2 = d_binary_mark d).
Proof. exact ComposeCrypt.encrypt_save_load_decrypt. Qed.

(* the same for the executable model, with no hypothesis on the primitives *)
Theorem C05_encrypt_save_load_decrypt_concrete :
  forall dec, let P := concrete_with dec in
  forall can xt d v rnd ivs st d1,
    version_in_domain v -> max_id_ok d -> dict_get (d_trailer d) K_Encrypt = None ->
    try_from_version P d v rnd = Ok st -> doc_encrypt P st d ivs = DOk d1 tt ->
    Forall (fun io : oid * obj => SaveSpec.top_wf (snd io) /\ Model.Save.skipped (snd io) = false) (d_objects d) ->
    SaveSpec.savable_enc d1 -> SaveSpec.known_deep d1 = false -> SaveSpec.small_file xt d1 ->
    exists x : Model.Save.xmap, Forall LoadProofsXref.normal_ok x /\
      LoaderCrypt.load_crypt P can (Model.Save.so_bytes (Model.Save.save xt d1)) =
        LoaderCrypt.after_crypt P (LoadProofsXref.conv_map x) (SaveSpec.reloaded xt d1) (SaveSpec.xtype_of xt) /\
      (forall e, LoaderCrypt.authenticate_password P d1 [] = Err e ->
         LoaderCrypt.load_crypt P can (Model.Save.so_bytes (Model.Save.save xt d1)) = LoaderCrypt.CLoad (Loader.LOk (SaveSpec.reloaded xt d1) (SaveSpec.xtype_of xt))) /\
      (forall xr pw, right_password P d1 v pw ->
         exists d2 st', doc_decrypt_x P xr (SaveSpec.reloaded xt d1) pw = DOk d2 st' /\ st_equiv st st' /\
                        SaveSpec.same_doc d d2 /\ dict_get (d_trailer d2) K_Encrypt = None /\
                        d_binary_mark d2 = d_binary_mark d) /\
      (right_password P d1 v [] ->
         exists d2, LoaderCrypt.load_crypt P can (Model.Save.so_bytes (Model.Save.save xt d1)) = LoaderCrypt.CLoad (Loader.LOk d2 (SaveSpec.xtype_of xt)) /\
                    SaveSpec.same_doc d d2 /\ dict_get (d_trailer d2) K_Encrypt = None /\
                    d_binary_mark d2 = d_binary_mark d).
Proof.
  intros dec P. apply (ComposeCrypt.encrypt_save_load_decrypt P);
    [exact md5_len16 | exact (concrete_with_aes_ok dec) | exact sha256_length | exact sha384_length | exact sha512_length].
Qed.

(* without an Encrypt entry in the trailer the decrypt attempt at the end of Reader::read is the identity *)
Theorem C05_load_attempt_without_encrypt :
  forall P x d t, dict_get (d_trailer d) K_Encrypt = None ->
    LoaderCrypt.after_crypt P x d t = LoaderCrypt.CLoad (Loader.LOk d t).
Proof. exact ComposeCrypt.after_crypt_without_encrypt. Qed.

(* non-vacuity: C05's example document under V2 / 128-bit RC4 (the state and the encrypted document computed by the
   executable model) meets every hypothesis, in both formats; the empty password does not open it -- the load of the
   stream-format file returns [reloaded XStream d1], still encrypted --, and "user" is a right password *)
Theorem C05_example_save_load :
  match ComposeCryptExample.ex_st, ComposeCryptExample.ex_d1 with
  | Some st, Some d1 =>
    try_from_version concrete ex_doc ex_v2 ComposeCryptExample.ex_rnd = Ok st /\
    doc_encrypt concrete st ex_doc ex_ivs = DOk d1 tt /\
    version_in_domain ex_v2 /\ max_id_ok ex_doc /\ dict_get (d_trailer ex_doc) K_Encrypt = None /\
    Forall (fun io : oid * obj => SaveSpec.top_wf (snd io) /\ Model.Save.skipped (snd io) = false) (d_objects ex_doc) /\
    SaveSpec.savable_enc d1 /\ SaveSpec.known_deep d1 = false /\
    SaveSpec.small_file Model.Save.XTable d1 /\ SaveSpec.small_file Model.Save.XStream d1 /\
    LoaderCrypt.authenticate_password concrete d1 [] = Err D_IncorrectPassword /\
    right_password concrete d1 ex_v2 ex_user /\
    LoaderCrypt.load_crypt concrete (fun _ => false) (Model.Save.so_bytes (Model.Save.save Model.Save.XStream d1)) =
      LoaderCrypt.CLoad (Loader.LOk (SaveSpec.reloaded Model.Save.XStream d1) Model.Xref.XTStream)
  | _, _ => False
  end.
Proof. exact ComposeCryptExample.compose_example. Qed.

(* the part that is only about Document::decrypt: on the reloaded encrypted document it does what it does on the
   encrypted document, on normal forms -- decrypt_object commutes with C01's normal form of objects *)
Theorem C05_decrypt_commutes_with_normal_form :
  forall P st id o,
    decrypt_object P st id (Proofs.ObjectRtProofs.norm_obj o) =
    match decrypt_object P st id o with Ok o' => Ok (Proofs.ObjectRtProofs.norm_obj o') | Err e => Err e | Panic => Panic end.
Proof. exact ComposeCrypt.decrypt_norm. Qed.

(* ---------------- the encrypted document is in the writer's domain (Proofs/ComposeCryptDomain.v) ----------------
   Document::encrypt keeps a document inside property C01's domain: if the PLAIN document d is [savable] (C01's domain:
   notes/C01.md), outside C01's known class, every object number is at most max_id ([max_id_ok], as in C05_document_rt)
   and there is u32 room for one more object number, then the encrypted document d1 is in [savable_enc] (= [savable]
   without "no Encrypt entry") and outside the known class:
     * every object encrypt_object returns is well formed: a ciphertext string is a string (any bytes), dictionary keys
       are kept (so they stay unique), Stream::set_content writes Length = the length of the ciphertext as a direct
       integer, and that integer is an i64 because the body lies in a file below 4 GiB ([small_file xt d1]: the only use
       of that hypothesis here; in lopdf the length of a Vec is an i64 by type);
     * Type / Linearized are not touched, so no object the writer drops (ObjStm, XRef, Linearized) appears;
     * the dictionary EncryptionState::encode writes is well formed (i64 integers V, R, Length, P; names; strings; the
       CF dictionary of crypt filter dictionaries), has no Type entry and nests 3 deep;
     * add_object puts it under max_id + 1, after every object: the numbers stay strictly increasing;
     * nothing nests deeper than before (set_content replaces Length by an integer), the trailer gets one reference. *)
Theorem C05_encrypt_preserves_savable :
  forall P xt d v rnd ivs st d1,
    version_in_domain v -> try_from_version P d v rnd = Ok st ->
    SaveSpec.savable d -> SaveSpec.known_deep d = false -> max_id_ok d ->
    (d_max_id d + 3 < Model.Save.u32_mod)%N ->
    doc_encrypt P st d ivs = DOk d1 tt -> SaveSpec.small_file xt d1 ->
    SaveSpec.savable_enc d1 /\ SaveSpec.known_deep d1 = false.
Proof.
  intros P xt d v rnd ivs st d1 Hv Htry S K Hmax Hroom Henc Hs.
  exact (ComposeCryptDomain.encrypt_preserves_savable P xt st d ivs d1 S K Hmax Hroom
           (ComposeCryptDomain.try_from_version_i64 P d v rnd st Hv Htry) Henc Hs).
Qed.

(* C05_encrypt_save_load_decrypt WITHOUT the hypotheses on the shape of the encrypted document: the plain document d
   is in C01's domain and outside its known class, [max_id_ok d], room for one more object number; of the encrypted
   document only the file size is assumed ([small_file xt d1], below 4 GiB: the writer's offsets are u32).  That one is
   not derived from the size of the plain file: a ciphertext is up to 32 bytes longer than its plaintext (IV + padding),
   but the WRITTEN length of a ciphertext string depends on its bytes (a literal string escapes parentheses, backslash
   and CR: up to twice as long), so no bound of the form |save d| + c * (number of strings and streams) holds; an honest
   bound is about 2 * |save d| and needs a length comparison through the whole writer (the same obstacle as for
   [small_file xt (reloaded xt d)] in C01_full, see notes/C01.md). *)
Theorem C05_encrypt_save_load_decrypt_full :
  forall P,
    (forall m, length (p_md5 P m) = 16%nat) -> aes_ok P ->
    (forall m, length (p_sha256 P m) = 32%nat) -> (forall m, length (p_sha384 P m) = 48%nat) ->
    (forall m, length (p_sha512 P m) = 64%nat) ->
  forall can xt d v rnd ivs st d1,
    version_in_domain v -> max_id_ok d -> SaveSpec.savable d -> SaveSpec.known_deep d = false ->
    (d_max_id d + 3 < Model.Save.u32_mod)%N ->
    try_from_version P d v rnd = Ok st -> doc_encrypt P st d ivs = DOk d1 tt ->
    SaveSpec.small_file xt d1 ->
    exists x : Model.Save.xmap, Forall LoadProofsXref.normal_ok x /\
      LoaderCrypt.load_crypt P can (Model.Save.so_bytes (Model.Save.save xt d1)) =
        LoaderCrypt.after_crypt P (LoadProofsXref.conv_map x) (SaveSpec.reloaded xt d1) (SaveSpec.xtype_of xt) /\
      (forall e, LoaderCrypt.authenticate_password P d1 [] = Err e ->
         LoaderCrypt.load_crypt P can (Model.Save.so_bytes (Model.Save.save xt d1)) = LoaderCrypt.CLoad (Loader.LOk (SaveSpec.reloaded xt d1) (SaveSpec.xtype_of xt))) /\
      (forall xr pw, right_password P d1 v pw ->
         exists d2 st', doc_decrypt_x P xr (SaveSpec.reloaded xt d1) pw = DOk d2 st' /\ st_equiv st st' /\
                        SaveSpec.same_doc d d2 /\ dict_get (d_trailer d2) K_Encrypt = None /\
                        d_binary_mark d2 = d_binary_mark d) /\
      (right_password P d1 v [] ->
         exists d2, LoaderCrypt.load_crypt P can (Model.Save.so_bytes (Model.Save.save xt d1)) = LoaderCrypt.CLoad (Loader.LOk d2 (SaveSpec.xtype_of xt)) /\
                    SaveSpec.same_doc d d2 /\ dict_get (d_trailer d2) K_Encrypt = None /\
                    d_binary_mark d2 = d_binary_mark d).
Proof. exact ComposeCryptDomain.encrypt_save_load_decrypt_dom. Qed.

(* the same for the executable model, with no hypothesis on the primitives *)
Theorem C05_encrypt_save_load_decrypt_full_concrete :
  forall dec, let P := concrete_with dec in
  forall can xt d v rnd ivs st d1,
    version_in_domain v -> max_id_ok d -> SaveSpec.savable d -> SaveSpec.known_deep d = false ->
    (d_max_id d + 3 < Model.Save.u32_mod)%N ->
    try_from_version P d v rnd = Ok st -> doc_encrypt P st d ivs = DOk d1 tt ->
    SaveSpec.small_file xt d1 ->
    exists x : Model.Save.xmap, Forall LoadProofsXref.normal_ok x /\
      LoaderCrypt.load_crypt P can (Model.Save.so_bytes (Model.Save.save xt d1)) =
        LoaderCrypt.after_crypt P (LoadProofsXref.conv_map x) (SaveSpec.reloaded xt d1) (SaveSpec.xtype_of xt) /\
      (forall e, LoaderCrypt.authenticate_password P d1 [] = Err e ->
         LoaderCrypt.load_crypt P can (Model.Save.so_bytes (Model.Save.save xt d1)) = LoaderCrypt.CLoad (Loader.LOk (SaveSpec.reloaded xt d1) (SaveSpec.xtype_of xt))) /\
      (forall xr pw, right_password P d1 v pw ->
         exists d2 st', doc_decrypt_x P xr (SaveSpec.reloaded xt d1) pw = DOk d2 st' /\ st_equiv st st' /\
                        SaveSpec.same_doc d d2 /\ dict_get (d_trailer d2) K_Encrypt = None /\
                        d_binary_mark d2 = d_binary_mark d) /\
      (right_password P d1 v [] ->
         exists d2, LoaderCrypt.load_crypt P can (Model.Save.so_bytes (Model.Save.save xt d1)) = LoaderCrypt.CLoad (Loader.LOk d2 (SaveSpec.xtype_of xt)) /\
                    SaveSpec.same_doc d d2 /\ dict_get (d_trailer d2) K_Encrypt = None /\
                    d_binary_mark d2 = d_binary_mark d).
Proof.
  intros dec P. apply (ComposeCryptDomain.encrypt_save_load_decrypt_dom P);
    [exact md5_len16 | exact (concrete_with_aes_ok dec) | exact sha256_length | exact sha384_length | exact sha512_length].
Qed.

(* non-vacuity: C05's example document is in C01's domain [savable], outside the known class, has room for the
   encryption dictionary; under V2 / 128-bit RC4 (state and encrypted document computed by the executable model) the
   encrypted document is below 4 GiB in both formats; [savable_enc d1] and [known_deep d1 = false] FOLLOW
   (C05_encrypt_preserves_savable, not a test on d1); the empty password does not open it -- the load of the
   table-format file returns [reloaded XTable d1], still encrypted --, and "user" is a right password *)
Theorem C05_example_save_load_full :
  match ComposeCryptExample.ex_st, ComposeCryptExample.ex_d1 with
  | Some st, Some d1 =>
    try_from_version concrete ex_doc ex_v2 ComposeCryptExample.ex_rnd = Ok st /\
    doc_encrypt concrete st ex_doc ex_ivs = DOk d1 tt /\
    version_in_domain ex_v2 /\ max_id_ok ex_doc /\ SaveSpec.savable ex_doc /\ SaveSpec.known_deep ex_doc = false /\
    (d_max_id ex_doc + 3 < Model.Save.u32_mod)%N /\
    SaveSpec.small_file Model.Save.XTable d1 /\ SaveSpec.small_file Model.Save.XStream d1 /\
    ComposeCryptDomain.st_i64 st /\ SaveSpec.savable_enc d1 /\ SaveSpec.known_deep d1 = false /\
    LoaderCrypt.authenticate_password concrete d1 [] = Err D_IncorrectPassword /\
    right_password concrete d1 ex_v2 ex_user /\
    LoaderCrypt.load_crypt concrete (fun _ => false) (Model.Save.so_bytes (Model.Save.save Model.Save.XTable d1)) =
      LoaderCrypt.CLoad (Loader.LOk (SaveSpec.reloaded Model.Save.XTable d1) Model.Xref.XTTable)
  | _, _ => False
  end.
Proof. exact ComposeCryptExample.compose_example_dom. Qed.

Print Assumptions C05_rc4_involutive.
Print Assumptions C05_rc4_total.
Print Assumptions C05_pkcs5_unpad_pad.
Print Assumptions C05_cbc_dec_enc.
Print Assumptions C05_filter_rt.
Print Assumptions C05_aes_differs.
Print Assumptions C05_rc4_differs_partial.
Print Assumptions C05_object_rt.
Print Assumptions C05_object_rt_exact.
Print Assumptions C05_document_rt.
Print Assumptions C05_md5_length.
Print Assumptions C05_sha2_lengths.
Print Assumptions C05_document_rt_concrete.
Print Assumptions C05_document_rt_user_r4.
Print Assumptions C05_document_rt_owner_r4.
Print Assumptions C05_document_rt_owner_r6.
Print Assumptions C05_document_rt_user_r6.
Print Assumptions C05_plain_doc_exact.
Print Assumptions C05_try_from_encode_r4.
Print Assumptions C05_try_from_encode_r6.
Print Assumptions C05_crypt_filters_encode.
Print Assumptions C05_document_rt_any_state.
Print Assumptions C05_opened_objects_plain.
Print Assumptions C05_opened_objects_expanded.
Print Assumptions C05_document_objects_exact.
Print Assumptions C05_reject_leaves_unchanged.
Print Assumptions C05_aes_inverse.
Print Assumptions C05_object_rt_concrete.
Print Assumptions C05_example_rc4.
Print Assumptions C05_example_pkcs5.
Print Assumptions C05_example_document.
Print Assumptions C05_example_rt_hypotheses.
Print Assumptions C05_example_objstm.
Print Assumptions C05_encrypt_save_load_decrypt.
Print Assumptions C05_encrypt_save_load_decrypt_concrete.
Print Assumptions C05_decrypt_commutes_with_normal_form.
Print Assumptions C05_example_save_load.
Print Assumptions C05_load_attempt_without_encrypt.
Print Assumptions C05_encrypt_preserves_savable.
Print Assumptions C05_encrypt_save_load_decrypt_full.
Print Assumptions C05_encrypt_save_load_decrypt_full_concrete.
Print Assumptions C05_example_save_load_full.

(* ------------------------------------------------------------------------------------------
   Towards a size hypothesis on the PLAIN document only (what is proved, what is not: notes/C05.md "Round 7").
   [small_file xt d1] (the file written from the ENCRYPTED document is below 4 GiB) is still a hypothesis of
   C05_encrypt_save_load_decrypt_full.  The part of the comparison with the plain file that does not depend on the
   security handler is proved: a string of n bytes costs n + 2 .. 2 n + 2 bytes in the file as a literal string
   (parentheses + one escape per unbalanced parenthesis, backslash, CR) and exactly 2 n + 2 as a hexadecimal string.
   Hence NO bound of the form |save xt d1| <= 2 * |save xt d| + c holds: the empty string (2 bytes in the file)
   becomes a 32-byte AES ciphertext (IV + one padding block), 34 .. 66 bytes in the file; the honest bound is
   2 * |save xt d| + 64 * (number of strings) + 33 * (number of streams) + c, which needs an induction over
   encrypt_object for each crypt filter and is not proved.
   ------------------------------------------------------------------------------------------ *)
From LV Require Model.Writer Proofs.SaveSizeProofs.

Theorem C05_string_written_length_partial :
  forall s : list Byte.byte,
    (length s + 2 <= length (Writer.write_literal s) <= 2 * length s + 2)%nat /\
    length (Writer.write_hex s) = (2 * length s + 2)%nat.
Proof. exact SaveSizeProofs.string_written_length. Qed.
Print Assumptions C05_string_written_length_partial.
