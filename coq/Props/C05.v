(* Props/C05.v -- property C05: encrypt then decrypt restores every string and stream.
   Statements only; proofs live in Proofs/CryptoProofs*.v.   (rung 1 so far; object and document level follow) *)
From LV Require Import Base.Bytes Model.Obj Model.Crypto.Word Model.Crypto.RC4 Model.Crypto.PKCS5
  Model.Crypto.Handler Proofs.CryptoProofs Proofs.CryptoProofsFilter.

(* lopdf's RC4: decrypting what was encrypted under the same key gives the message back, for every key
   the constructor accepts (1..256 bytes; any other length panics = None) and every message *)
Theorem C05_rc4_involutive :
  forall key m c, rc4 key m = Some c -> rc4 key c = Some m.
Proof. exact rc4_involutive. Qed.

Theorem C05_rc4_total :
  forall key m, (1 <= length key <= 256)%nat -> exists c, rc4 key m = Some c /\ length c = length m.
Proof.
  intros key m H. destruct (rc4_some key m H) as [c E]. exists c. split; [exact E | exact (rc4_length _ _ _ E)].
Qed.

(* lopdf's PKCS#5 padding as driven by encrypt_padded_mut / decrypt_padded_mut *)
Theorem C05_pkcs5_unpad_pad : forall m, pkcs5_unpad (pkcs5_pad m) = Some m.
Proof. exact pkcs5_unpad_pad. Qed.

(* CBC over any block cipher whose decryption inverts its encryption on 16-byte blocks *)
Theorem C05_cbc_dec_enc :
  forall (E D : bytes -> bytes),
    (forall b, length b = 16%nat -> D (E b) = b) ->
    (forall b, length b = 16%nat -> length (E b) = 16%nat) ->
    forall iv bs, length iv = 16%nat -> Forall (fun b => length b = 16%nat) bs ->
      cbc_dec D iv (cbc_enc E iv bs) = bs.
Proof. exact cbc_dec_enc. Qed.

(* the four crypt filters (Identity, V2 = RC4, AESV2, AESV3): decrypt inverts encrypt, whatever the IV *)
Theorem C05_filter_rt :
  forall P f key pt ivs ct ivs',
    aes_ok P -> cf_encrypt P f key pt ivs = Ok (ct, ivs') -> cf_decrypt P f key ct = Ok pt.
Proof. exact filter_rt. Qed.

(* after AES encryption no string or stream equals its plaintext: the ciphertext is longer *)
Theorem C05_aes_differs :
  forall P f key pt ivs ct ivs',
    aes_ok P -> is_aes f = true -> cf_encrypt P f key pt ivs = Ok (ct, ivs') -> ct <> pt.
Proof.
  intros P f key pt ivs ct ivs' HP Hf H E. subst ct.
  destruct (aes_ciphertext_longer P f key pt ivs pt ivs' HP Hf H) as [L _]. lia.
Qed.

(* RC4: ciphertext = plaintext exactly when the key stream prefix is all zero.  That this does not
   happen for >= 16 bytes is a cryptographic fact (probability 2^-128), not a logical one: partial. *)
Theorem C05_rc4_differs_partial :
  forall key st m,
    rc4_new key = Some st ->
    ~ Forall (fun b => b = x00) (rc4_stream st 0 0 (length m)) ->
    rc4 key m <> Some m.
Proof. exact rc4_ciphertext_differs. Qed.

(* non-vacuity *)
Theorem C05_example_rc4 :
  rc4 (bs "Key") (bs "Plaintext") = Some [xbb; xf3; x16; xe8; xd9; x40; xaf; x0a; xd3] /\
  rc4 (bs "Key") [xbb; xf3; x16; xe8; xd9; x40; xaf; x0a; xd3] = Some (bs "Plaintext").
Proof. split; vm_compute; reflexivity. Qed.

Theorem C05_example_pkcs5 :
  pkcs5_pad (bs "0123456789abcdef") = bs "0123456789abcdef" ++ repeat x10 16 /\
  pkcs5_pad (bs "abc") = bs "abc" ++ repeat x0d 13.
Proof. split; vm_compute; reflexivity. Qed.

Print Assumptions C05_rc4_involutive.
Print Assumptions C05_rc4_total.
Print Assumptions C05_pkcs5_unpad_pad.
Print Assumptions C05_cbc_dec_enc.
Print Assumptions C05_filter_rt.
Print Assumptions C05_aes_differs.
Print Assumptions C05_rc4_differs_partial.
Print Assumptions C05_example_rc4.
Print Assumptions C05_example_pkcs5.
