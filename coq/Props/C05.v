(* Props/C05.v -- property C05: encrypt then decrypt restores every string and stream.
   Statements only; proofs live in Proofs/CryptoProofs*.v.
   [P : prims] bundles the third-party primitives (MD5, SHA-2, AES block functions); [aes_ok P] is the one
   law assumed of them: for 16- and 32-byte keys AES decryption inverts AES encryption on 16-byte blocks,
   which stay 16 bytes.  [C05_aes_inverse] proves that law for the Gallina AES the runner executes
   ([concrete]), so every theorem below also holds outright for [P := concrete]. *)
From LV Require Import Base.Bytes Model.Obj Model.Crypto.Word Model.Crypto.RC4 Model.Crypto.PKCS5
  Model.Crypto.Handler Proofs.CryptoProofs Proofs.CryptoProofsFilter Proofs.CryptoProofsObject
  Proofs.CryptoProofsDoc Proofs.CryptoProofsExamples Proofs.CryptoProofsAES Model.Crypto.Concrete.

(* lopdf's RC4: decrypting what was encrypted under the same key gives the message back, for every key
   the constructor accepts (1..256 bytes; any other length panics = None) and every message *)
Theorem C05_rc4_involutive :
  forall key m c, rc4 key m = Some c -> rc4 key c = Some m.
Proof. exact rc4_involutive. Qed.

Theorem C05_rc4_total :
  forall key m, (1 <= length key <= 256)%nat -> exists c, rc4 key m = Some c /\ length c = length m.
Proof.
  intros key m H. destruct (rc4_some key m H) as [c E]. exists c. split; [exact E | exact (rc4_length _ _ _ E)].
Qed.

(* lopdf's PKCS#5 padding as driven by encrypt_padded_mut / decrypt_padded_mut *)
Theorem C05_pkcs5_unpad_pad : forall m, pkcs5_unpad (pkcs5_pad m) = Some m.
Proof. exact pkcs5_unpad_pad. Qed.

(* CBC over any block cipher whose decryption inverts its encryption on 16-byte blocks *)
Theorem C05_cbc_dec_enc :
  forall (E D : bytes -> bytes),
    (forall b, length b = 16%nat -> D (E b) = b) ->
    (forall b, length b = 16%nat -> length (E b) = 16%nat) ->
    forall iv bs, length iv = 16%nat -> Forall (fun b => length b = 16%nat) bs ->
      cbc_dec D iv (cbc_enc E iv bs) = bs.
Proof. exact cbc_dec_enc. Qed.

(* the four crypt filters (Identity, V2 = RC4, AESV2, AESV3): decrypt inverts encrypt, whatever the IV *)
Theorem C05_filter_rt :
  forall P f key pt ivs ct ivs',
    aes_ok P -> cf_encrypt P f key pt ivs = Ok (ct, ivs') -> cf_decrypt P f key ct = Ok pt.
Proof. exact filter_rt. Qed.

(* after AES encryption no string or stream equals its plaintext: the ciphertext is longer *)
Theorem C05_aes_differs :
  forall P f key pt ivs ct ivs',
    aes_ok P -> is_aes f = true -> cf_encrypt P f key pt ivs = Ok (ct, ivs') -> ct <> pt.
Proof.
  intros P f key pt ivs ct ivs' HP Hf H E. subst ct.
  destruct (aes_ciphertext_longer P f key pt ivs pt ivs' HP Hf H) as [L _]. lia.
Qed.

(* RC4: ciphertext = plaintext exactly when the key stream prefix is all zero.  That this does not
   happen for >= 16 bytes is a cryptographic fact (probability 2^-128), not a logical one: partial. *)
Theorem C05_rc4_differs_partial :
  forall key st m,
    rc4_new key = Some st ->
    ~ Forall (fun b => b = x00) (rc4_stream st 0 0 (length m)) ->
    rc4 key m <> Some m.
Proof. exact rc4_ciphertext_differs. Qed.

(* decrypt_object inverts encrypt_object on EVERY object (strings nested in arrays and dictionaries,
   streams, per-stream Crypt overrides, the XRef / Metadata exemptions), whatever IVs were drawn; the
   result is the object with the /Length entries Stream::set_content writes ([norm_len]) ... *)
Theorem C05_object_rt :
  forall P st id o ivs o' ivs',
    aes_ok P -> encrypt_object P st id o ivs = Ok (o', ivs') -> decrypt_object P st id o' = Ok (norm_len st o).
Proof. intros P st id o ivs o' ivs' HP. apply object_rt. exact HP. Qed.

(* ... which is the object itself when its streams carry their own length as a direct integer *)
Theorem C05_object_rt_exact :
  forall P st id o ivs o' ivs',
    aes_ok P -> lengths_ok st o ->
    encrypt_object P st id o ivs = Ok (o', ivs') -> decrypt_object P st id o' = Ok o.
Proof. exact object_rt_exact. Qed.

(* Document level.  Domain: object ids at or below max_id (the invariant add_object relies on), no stale
   /Encrypt entry in the plain trailer, no /Type /ObjStm stream (decrypt_raw re-parses those: C08).
   Whenever the password authenticates on the encrypted document and key recovery ([decode]) yields the
   key / filters / EncryptMetadata that encrypted it, decrypt_raw returns Ok with: every object restored
   (up to set_content's /Length), the trailer restored exactly (/Encrypt removed), the encryption
   dictionary object removed, max_id one higher (add_object's increment is not undone).
   PARTIAL: the two hypotheses on authentication and key recovery are discharged per revision only by the
   correspondence runs so far (they hold on every generated case for user and owner passwords); their
   Coq proofs (auth_user_ok / auth_owner_ok of DESIGN 6 C05) are not done. *)
Theorem C05_document_rt_partial :
  forall P st d ivs d1 pw st',
    aes_ok P -> max_id_ok d -> dict_get (d_trailer d) K_Encrypt = None -> has_objstm (d_objects d) = false ->
    doc_encrypt P st d ivs = DOk d1 tt ->
    authenticate_raw_password P d1 pw = Ok tt ->
    decode P d1 pw = Ok st' -> st_equiv st st' ->
    doc_decrypt_raw P d1 pw =
      DOk {| d_version := d_version d; d_binary_mark := d_binary_mark d; d_trailer := d_trailer d;
             d_objects := norm_objs st (d_objects d); d_max_id := (d_max_id d + 1)%N |} st'.
Proof. exact doc_rt. Qed.

Theorem C05_document_objects_exact :
  forall st m, Forall (fun io => lengths_ok st (snd io)) m -> norm_objs st m = m.
Proof. exact norm_objs_id. Qed.

(* A password that does not authenticate is rejected with that error BEFORE anything is written:
   [DErr] is the outcome "Err, document unchanged". *)
Theorem C05_reject_leaves_unchanged :
  forall P d pw e, authenticate_raw_password P d pw = Err e -> doc_decrypt_raw P d pw = DErr e.
Proof. exact reject_leaves_unchanged. Qed.

(* The AES written from FIPS 197 (Model/Crypto/AES.v) is invertible: InvCipher (Cipher b) = b for every
   16- or 32-byte key and every 16-byte block (InvSubBytes / InvShiftRows / InvMixColumns / AddRoundKey
   inverses, induction over the round keys). *)
Theorem C05_aes_inverse : aes_ok concrete.
Proof. exact concrete_aes_ok. Qed.

(* hence, for the executable model, with no hypothesis at all: *)
Theorem C05_object_rt_concrete :
  forall st id o ivs o' ivs',
    encrypt_object concrete st id o ivs = Ok (o', ivs') -> decrypt_object concrete st id o' = Ok (norm_len st o).
Proof. intros st id o ivs o' ivs'. apply object_rt. exact concrete_aes_ok. Qed.

(* non-vacuity *)
Theorem C05_example_rc4 :
  rc4 (bs "Key") (bs "Plaintext") = Some [xbb; xf3; x16; xe8; xd9; x40; xaf; x0a; xd3] /\
  rc4 (bs "Key") [xbb; xf3; x16; xe8; xd9; x40; xaf; x0a; xd3] = Some (bs "Plaintext").
Proof. split; vm_compute; reflexivity. Qed.

(* a four-object document (catalog string, content stream, hexadecimal string nested in an array, empty
   string in a dictionary, Metadata stream) under V2/128-bit RC4 and under V4/AESV2 with EncryptMetadata
   false, run through the model with the executable primitives: the user AND the owner password
   authenticate, [decode] recovers key / filters / EncryptMetadata, objects and trailer come back, the
   ciphertext differed; another password is rejected with IncorrectPassword and [DErr] (unchanged) *)
Theorem C05_example_document :
  max_id_ok ex_doc /\ dict_get (d_trailer ex_doc) K_Encrypt = None /\ has_objstm (d_objects ex_doc) = false /\
  run_example ex_v2 ex_user = Some (true, true, true, true) /\
  run_example ex_v2 ex_owner = Some (true, true, true, true) /\
  run_example ex_v4 ex_user = Some (true, true, true, true) /\
  run_example ex_v4 ex_owner = Some (true, true, true, true) /\
  run_wrong ex_v2 (bs "guess") = Some (DErr D_IncorrectPassword) /\
  run_wrong ex_v4 (bs "guess") = Some (DErr D_IncorrectPassword).
Proof.
  destruct ex_hyps as [H1 [H2 H3]].
  exact (conj H1 (conj H2 (conj H3 (conj ex_v2_user (conj ex_v2_owner (conj ex_v4_user (conj ex_v4_owner
        (conj ex_v2_wrong ex_v4_wrong)))))))).
Qed.

Theorem C05_example_pkcs5 :
  pkcs5_pad (bs "0123456789abcdef") = bs "0123456789abcdef" ++ repeat x10 16 /\
  pkcs5_pad (bs "abc") = bs "abc" ++ repeat x0d 13.
Proof. split; vm_compute; reflexivity. Qed.

Print Assumptions C05_rc4_involutive.
Print Assumptions C05_rc4_total.
Print Assumptions C05_pkcs5_unpad_pad.
Print Assumptions C05_cbc_dec_enc.
Print Assumptions C05_filter_rt.
Print Assumptions C05_aes_differs.
Print Assumptions C05_rc4_differs_partial.
Print Assumptions C05_object_rt.
Print Assumptions C05_object_rt_exact.
Print Assumptions C05_document_rt_partial.
Print Assumptions C05_document_objects_exact.
Print Assumptions C05_reject_leaves_unchanged.
Print Assumptions C05_aes_inverse.
Print Assumptions C05_object_rt_concrete.
Print Assumptions C05_example_rc4.
Print Assumptions C05_example_pkcs5.
Print Assumptions C05_example_document.
