(* Props/C08.v -- property C08: loading is deterministic under every thread schedule.
   Statements only; proofs live in Proofs/SchedProofs.v, the model in Model/Sched.v.

   A schedule [s] of the parallel phase is: how the range of xref entries was cut into jobs ([s_chunks], any list of
   lengths), the order in which the atomic appends reached `object_streams` ([s_blocks]) and `zero_length_streams`
   ([s_zeros]); it is valid for a file when each task's append occurs exactly once ([sched_valid], stated with
   [Permutation]).  [file_wf] says the xref keys are strictly ascending, which holds of every BTreeMap iteration and is
   therefore no restriction on files. *)
From Coq Require Import Permutation.
From LV Require Import Base.Bytes Model.Obj Model.DocQ Model.Sched Proofs.SchedProofs.

(* (1) The property: under every schedule the parallel loader returns the document of the sequential loader --
   the same objects with the same contents, trailer, version and maximum id. *)
Theorem C08_par_eq_seq :
  forall f s, file_wf f -> sched_valid f s -> load_par s f = load_seq f.
Proof. exact par_eq_seq. Qed.

(* (2) hence any two schedules (any two numbers of threads, any two completion orders) agree *)
Theorem C08_schedule_independent :
  forall f s1 s2, file_wf f -> sched_valid f s1 -> sched_valid f s2 -> load_par s1 f = load_par s2 f.
Proof. intros f s1 s2 W V1 V2. rewrite (par_eq_seq f s1 W V1), (par_eq_seq f s2 W V2). reflexivity. Qed.

(* (3) the pass that reads the bodies of the zero-length streams does not depend on the order of its work list,
   for any objects and any buffer *)
Theorem C08_zero_len_commutes :
  forall buf zl zl' m, Permutation zl zl' -> zero_pass buf zl m = zero_pass buf zl' m.
Proof. exact zero_len_commutes. Qed.

(* (4) the merge forgets the order in which the blocks arrived (keys of blocks are xref keys, hence distinct) *)
Theorem C08_merge_perm_invariant :
  forall xc bl bl' base, NoDup (map fst bl) -> Permutation bl' bl -> merge xc bl' base = merge xc bl base.
Proof. exact merge_sched_invariant. Qed.

(* (5) inside one object stream, cutting the index into parallel chunks is irrelevant *)
Theorem C08_objstm_chunks_irrelevant :
  forall chunks ms, par_objstm_objects chunks ms = objstm_objects ms.
Proof. exact par_objstm_objects_eq. Qed.

(* (6) index lists used by the runner to enumerate schedules denote permutations *)
Theorem C08_permute_is_permutation :
  forall (p : list nat) (l : list block), Permutation p (seq 0 (length l)) -> Permutation (permute p l) l.
Proof. intros p l. apply permute_perm. Qed.

(* ---- the code before commits f28e935 and 44beb46 ([merge_pinned]: blocks merged in completion order) ---- *)
(* (7) conditional: when no object number has two different bodies, the old merge was order-independent too *)
Theorem C08_pinned_merge_perm_invariant :
  forall bl, blocks_agree bl -> forall bl' base, msorted base -> Permutation bl bl' ->
    merge_pinned bl' base = merge_pinned bl base.
Proof. exact merge_perm_invariant. Qed.

Theorem C08_pinned_par_eq_seq :
  forall f s, blocks_agree (blocks_of (outcomes f)) -> sched_valid f s -> load_par_pinned s f = load_seq_pinned f.
Proof. exact par_eq_seq_pinned. Qed.

(* (8) without that hypothesis the property was false: two valid schedules of one well-formed file, two documents
   (the file is props/c08.py witness_case(); replayed on the crate before the repair through hook H1) *)
Theorem C08_refuted_pinned :
  exists f s1 s2, file_wf f /\ sched_valid f s1 /\ sched_valid f s2 /\
                  load_par_pinned s1 f <> load_par_pinned s2 f.
Proof. exists w_file, w_s1, w_s2. destruct refuted_pinned as (W & V1 & V2 & _ & _ & D). auto. Qed.

(* non-vacuity of (1),(2): a well-formed file with a valid schedule that differs from the sequential order, whose
   blocks do NOT agree, loads to the expected objects; and the witness of (8) is repaired *)
Theorem C08_example :
  file_wf ex_file /\ sched_valid ex_file ex_sched /\
  s_blocks ex_sched <> blocks_of (outcomes ex_file) /\
  ~ blocks_agree (blocks_of (outcomes ex_file)) /\
  lookup (d_objects (load_par ex_sched ex_file)) (2, 0)%N = Some (OStream [(K_Length, OInt 5)] (bs "23456")) /\
  lookup (d_objects (load_par ex_sched ex_file)) (1, 0)%N = Some (OName (bs "Plain")) /\
  lookup (d_objects (load_par ex_sched ex_file)) (10, 0)%N = Some (OInt 5) /\
  lookup (d_objects (load_par ex_sched ex_file)) (11, 0)%N = Some (OBool true).
Proof. exact example_holds. Qed.

Theorem C08_example_witness_repaired :
  load_par w_s1 w_file = load_par w_s2 w_file /\
  lookup (d_objects (load_par w_s2 w_file)) (10, 0)%N = Some (OInt 1).
Proof. exact witness_repaired. Qed.

Print Assumptions C08_par_eq_seq.
Print Assumptions C08_schedule_independent.
Print Assumptions C08_zero_len_commutes.
Print Assumptions C08_merge_perm_invariant.
Print Assumptions C08_objstm_chunks_irrelevant.
Print Assumptions C08_permute_is_permutation.
Print Assumptions C08_pinned_merge_perm_invariant.
Print Assumptions C08_pinned_par_eq_seq.
Print Assumptions C08_refuted_pinned.
Print Assumptions C08_example.
Print Assumptions C08_example_witness_repaired.
