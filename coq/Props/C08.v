(* Props/C08.v -- property C08: loading is deterministic under every thread schedule.
   Statements only; proofs live in Proofs/SchedProofs.v, the model in Model/Sched.v.

   A schedule [s] of the parallel phase is: how the range of xref entries was cut into jobs ([s_chunks], any list of
   lengths), the order in which the atomic appends reached `object_streams` ([s_blocks]) and `zero_length_streams`
   ([s_zeros]); it is valid for a file when each task's append occurs exactly once ([sched_valid], stated with
   [Permutation]).  [file_wf] says the xref keys are strictly ascending, which holds of every BTreeMap iteration and is
   therefore no restriction on files. *)
From Coq Require Import Permutation.
From LV Require Import Base.Bytes Model.Obj Model.DocQ Model.Sched Proofs.SchedProofs.

(* (1) The property: under every schedule the parallel loader returns the document of the sequential loader --
   the same objects with the same contents, trailer, version and maximum id. *)
Theorem C08_par_eq_seq :
  forall f s, file_wf f -> sched_valid f s -> load_par s f = load_seq f.
Proof. exact par_eq_seq. Qed.

(* (2) hence any two schedules (any two numbers of threads, any two completion orders) agree *)
Theorem C08_schedule_independent :
  forall f s1 s2, file_wf f -> sched_valid f s1 -> sched_valid f s2 -> load_par s1 f = load_par s2 f.
Proof. intros f s1 s2 W V1 V2. rewrite (par_eq_seq f s1 W V1), (par_eq_seq f s2 W V2). reflexivity. Qed.

(* (3) the pass that reads the bodies of the zero-length streams does not depend on the order of its work list,
   for any objects and any buffer *)
Theorem C08_zero_len_commutes :
  forall buf zl zl' m, Permutation zl zl' -> zero_pass buf zl m = zero_pass buf zl' m.
Proof. exact zero_len_commutes. Qed.

(* (4) the merge forgets the order in which the blocks arrived (keys of blocks are xref keys, hence distinct) *)
Theorem C08_merge_perm_invariant :
  forall xc bl bl' base, NoDup (map fst bl) -> Permutation bl' bl -> merge xc bl' base = merge xc bl base.
Proof. exact merge_sched_invariant. Qed.

(* (5) inside one object stream, cutting the index into parallel chunks is irrelevant *)
Theorem C08_objstm_chunks_irrelevant :
  forall chunks ms, par_objstm_objects chunks ms = objstm_objects ms.
Proof. exact par_objstm_objects_eq. Qed.

(* (6) index lists used by the runner to enumerate schedules denote permutations *)
Theorem C08_permute_is_permutation :
  forall (p : list nat) (l : list block), Permutation p (seq 0 (length l)) -> Permutation (permute p l) l.
Proof. intros p l. apply permute_perm. Qed.

(* ---- the code before commits f28e935 and 44beb46 ([merge_pinned]: blocks merged in completion order) ---- *)
(* (7) conditional: when no object number has two different bodies, the old merge was order-independent too *)
Theorem C08_pinned_merge_perm_invariant :
  forall bl, blocks_agree bl -> forall bl' base, msorted base -> Permutation bl bl' ->
    merge_pinned bl' base = merge_pinned bl base.
Proof. exact merge_perm_invariant. Qed.

Theorem C08_pinned_par_eq_seq :
  forall f s, blocks_agree (blocks_of (outcomes f)) -> sched_valid f s -> load_par_pinned s f = load_seq_pinned f.
Proof. exact par_eq_seq_pinned. Qed.

(* (8) without that hypothesis the property was false: two valid schedules of one well-formed file, two documents
   (the file is props/c08.py witness_case(); replayed on the crate before the repair through hook H1) *)
Theorem C08_refuted_pinned :
  exists f s1 s2, file_wf f /\ sched_valid f s1 /\ sched_valid f s2 /\
                  load_par_pinned s1 f <> load_par_pinned s2 f.
Proof. exists w_file, w_s1, w_s2. destruct refuted_pinned as (W & V1 & V2 & _ & _ & D). auto. Qed.

(* non-vacuity of (1),(2): a well-formed file with a valid schedule that differs from the sequential order, whose
   blocks do NOT agree, loads to the expected objects; and the witness of (8) is repaired *)
Theorem C08_example :
  file_wf ex_file /\ sched_valid ex_file ex_sched /\
  s_blocks ex_sched <> blocks_of (outcomes ex_file) /\
  ~ blocks_agree (blocks_of (outcomes ex_file)) /\
  lookup (d_objects (load_par ex_sched ex_file)) (2, 0)%N = Some (OStream [(K_Length, OInt 5)] (bs "23456")) /\
  lookup (d_objects (load_par ex_sched ex_file)) (1, 0)%N = Some (OName (bs "Plain")) /\
  lookup (d_objects (load_par ex_sched ex_file)) (10, 0)%N = Some (OInt 5) /\
  lookup (d_objects (load_par ex_sched ex_file)) (11, 0)%N = Some (OBool true).
Proof. exact example_holds. Qed.

Theorem C08_example_witness_repaired :
  load_par w_s1 w_file = load_par w_s2 w_file /\
  lookup (d_objects (load_par w_s2 w_file)) (10, 0)%N = Some (OInt 1).
Proof. exact witness_repaired. Qed.

(* ---- encrypted files: the object streams are expanded after decryption, at the end of the load (Document::decrypt_raw) ---- *)
(* (9) the property for every file, encrypted or not: whatever decrypt_object and ObjectStream::new compute ([c]), and whether or
   not the empty password opens the file, the load under every schedule returns what the sequential load returns -- the same
   document or the same failure *)
Theorem C08_full_par_eq_seq :
  forall c f s, file_wf f -> sched_valid f s -> load_full_par c s f = load_full_seq c f.
Proof. exact full_par_eq_seq. Qed.

Theorem C08_full_schedule_independent :
  forall c f s1 s2, file_wf f -> sched_valid f s1 -> sched_valid f s2 -> load_full_par c s1 f = load_full_par c s2 f.
Proof. intros c f s1 s2 W V1 V2. rewrite (full_par_eq_seq c f s1 W V1), (full_par_eq_seq c f s2 W V2). reflexivity. Qed.

(* (10) the second merge follows the rules of the first: on the objects of a loaded document the expansion after decryption is the
   reader's merge (sorted by container number, the members the cross-reference table places in that container first, then the
   numbers still absent) applied to the blocks keyed by the object numbers of the object streams *)
Theorem C08_enc_expansion_as_reader :
  forall c f eid m, decrypt_all c eid (d_objects (load_seq f)) = Some m ->
    merge_in_order (f_compressed f) (expand_blocks c m) (unstrip m) = merge (f_compressed f) (expand_blocks c m) (unstrip m).
Proof. exact enc_load_expansion_as_reader. Qed.

(* (11) and that merge does not depend on the order in which the blocks arrive when the object streams have distinct numbers *)
Theorem C08_enc_expansion_perm_invariant :
  forall c xc m bl' base, msorted m -> NoDup (map fst (expand_blocks c m)) -> Permutation bl' (expand_blocks c m) ->
    merge xc bl' base = merge_in_order xc (expand_blocks c m) base.
Proof. exact enc_expansion_perm_invariant. Qed.

(* non-vacuity of (9),(10): an encrypted file that the empty password opens, two object streams holding object 10 with different
   bodies, the cross-reference stream placing it in the second; a schedule that cuts the entries in three *)
Theorem C08_enc_example :
  file_wf xe_file /\ sched_valid xe_file xe_sched /\
  load_full_par xe_crypt xe_sched xe_file = load_full_seq xe_crypt xe_file /\
  lookup (lres_objects (load_full_seq xe_crypt xe_file)) (1, 0)%N = Some (ODict [(bs "Lang", OStr (bs "en-US") false)]) /\
  lookup (lres_objects (load_full_seq xe_crypt xe_file)) (2, 0)%N = Some (OStream xe_os (bs "c2")) /\
  lookup (lres_objects (load_full_seq xe_crypt xe_file)) (10, 0)%N = Some (OInt 2) /\
  lookup (lres_objects (load_full_seq xe_crypt xe_file)) (11, 0)%N = Some (OName (bs "A")) /\
  lookup (lres_objects (load_full_seq xe_crypt xe_file)) (12, 0)%N = None /\
  lookup (lres_objects (load_full_seq xe_crypt xe_file)) (12, 2)%N = Some (OName (bs "New")) /\
  lookup (lres_objects (load_full_seq xe_crypt xe_file)) (5, 0)%N = None /\
  lres_trailer (load_full_seq xe_crypt xe_file) = [(bs "Size", OInt 13); (bs "ID", OArr []); (bs "Root", ORef 1 0)].
Proof. exact enc_example_holds. Qed.

(* the expansion as it was before /repo 959d50f on the same file: object 10 from the first object stream, and generation 0 of
   object 12 loaded beside generation 2 -- not what the reader does with the same file when it is not encrypted *)
Theorem C08_enc_old_expansion_differs :
  lookup (lres_objects (decrypt_doc_old xe_crypt (load_seq xe_file))) (10, 0)%N = Some (OInt 1) /\
  lookup (lres_objects (decrypt_doc_old xe_crypt (load_seq xe_file))) (12, 0)%N = Some (OName (bs "Old")).
Proof. exact enc_old_expansion_differs. Qed.

Print Assumptions C08_par_eq_seq.
Print Assumptions C08_schedule_independent.
Print Assumptions C08_zero_len_commutes.
Print Assumptions C08_merge_perm_invariant.
Print Assumptions C08_objstm_chunks_irrelevant.
Print Assumptions C08_permute_is_permutation.
Print Assumptions C08_pinned_merge_perm_invariant.
Print Assumptions C08_pinned_par_eq_seq.
Print Assumptions C08_refuted_pinned.
Print Assumptions C08_example.
Print Assumptions C08_example_witness_repaired.
Print Assumptions C08_full_par_eq_seq.
Print Assumptions C08_full_schedule_independent.
Print Assumptions C08_enc_expansion_as_reader.
Print Assumptions C08_enc_expansion_perm_invariant.
Print Assumptions C08_enc_example.
Print Assumptions C08_enc_old_expansion_differs.
