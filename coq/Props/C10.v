(* Props/C10.v -- property C10: renumbering objects preserves the document graph.
   Statements only; proofs live in Proofs/RenumberProofs{Map,Trav,TravO,,Dense,Page,Iter,Top,Main,Merge}.v.

   Vocabulary (Spec/RenumberSpec.v, written from the property text and ISO 32000-1 7.3.10):
     rename_o a o      the object o with every reference id replaced by its image under a; a reference WITHOUT an
                       image is written as the null object
     live m rho id     Some (rho id) when id names an object of m, None otherwise
     denote m o        what the value o denotes in m: a reference denotes the object it names, or the null object
                       (7.3.10: a reference to an undefined object is a reference to the null object)
     live_or m rho np  the same for bookmark targets (ids, not objects): rho p when p names an object, else np
     reach tr m id     id is the target of a reference reachable from the trailer (whether or not it names an object)
     sorted_keys m     representation invariant of BTreeMap (keys strictly increasing); every decoded document has it
     fits start d      start + n <= 2^32: the numbers start .. start+n-1 exist in u32
     KnownClass        the class of the FIXED finding C10/dangling-in-range: some reachable reference or bookmark
                       target names no object and its NUMBER lies in [start, start+n).  No theorem about the current
                       code carries it as a hypothesis; it delimits where the code before the repair failed. *)
From LV Require Import Base.Bytes Model.Obj Model.DocQ Model.PageTree Model.Traverse Model.Renumber Model.RenumberV0 Model.RenumberV1
  Spec.RenumberSpec Proofs.RenumberProofsTrav Proofs.RenumberProofsTravO Proofs.RenumberProofsDense Proofs.RenumberProofsTop
  Proofs.RenumberProofsMain Proofs.RenumberProofsMerge.
From LV Require Import Model.Save Model.Xref Model.Loader Proofs.ObjectRtProofs Spec.SaveSpec Proofs.RenumberProofsLoad.

(* (1) Renumbering from ANY start value that fits terminates normally and changes identifiers only -- for EVERY
   document (no hypothesis on dangling references any more): there is a renaming rho, one-to-one on the ids
   that name objects and onto the ids that name objects afterwards, under which the trailer and every
   reachable object are the originals with references renamed, where a reference that names no object is
   written as what it denotes, the null object (conjuncts 3-4); an object that is not reachable (only a
   bookmark points to it) is moved unchanged (5); every bookmark target that names an object is renamed by
   rho, one that names no object becomes the "no page" id np, whose number is 0 and which names no object
   afterwards (6-8, 16).  Hence: the reachable ids afterwards are exactly the images of the reachable ids that
   name objects and no reachable reference is dangling (11-12); every reference that resolved to an object
   resolves to the same content (13); a reference that resolved to nothing denoted the null object and IS the
   null object afterwards (14) -- in one statement, what a reachable reference denotes afterwards is what it
   denoted before, renamed (15); page order is unchanged (17).  Both passes are covered. *)
Theorem C10_renumber_iso :
  forall start d,
    sorted_keys (d_objects (base d)) -> fits start d ->
    exists d' rho,
      renumber_objects_with start d = Done d' /\
      let m := d_objects (base d) in let tr := d_trailer (base d) in
      let m' := d_objects (base d') in let tr' := d_trailer (base d') in
      let a := live m rho in
      let np := no_page start (map fst m) in
      inj_on (has_obj m) rho /\
      (forall x, has_obj m' x <-> exists id, has_obj m id /\ x = rho id) /\
      tr' = rename_dict_o a tr /\
      (forall id, reach tr m id -> has_obj m id -> lookup m' (rho id) = option_map (rename_o a) (lookup m id)) /\
      (forall id, has_obj m id -> ~ reach tr m id -> lookup m' (rho id) = lookup m id) /\
      bm_table d' = renumber_bookmarks_with (live_or m rho np) (bm_table d) /\
      ~ has_obj m' np /\ fst np = 0%N /\
      bookmarks d' = bookmarks d /\ max_bookmark_id d' = max_bookmark_id d /\
      (forall x, reach tr' m' x <-> exists id, reach tr m id /\ has_obj m id /\ x = rho id) /\
      closed tr' m' /\
      (forall id o, reach tr m id -> lookup m id = Some o -> lookup m' (rho id) = Some (rename_o a o)) /\
      (forall id, lookup m id = None -> rename_o a (ref_obj id) = ONull) /\
      (forall id, reach tr m id -> denote m' (rename_o a (ref_obj id)) = rename_o a (denote m (ref_obj id))) /\
      (forall id, In id (bm_targets d) -> lookup m id = None -> In np (bm_targets d') /\ lookup m' np = None) /\
      page_iter (base d') = map rho (page_iter (base d)) /\
      d_version (base d') = d_version (base d) /\ d_binary_mark (base d') = d_binary_mark (base d).
Proof. exact renumber_iso. Qed.

(* (2) Afterwards the object numbers are start, start+1, ..., start+n-1 (generations kept, in key order) and
   max_id is the last one; for a document without objects max_id is the id before the first one that
   would be assigned (0 for start 0). *)
Theorem C10_renumber_dense :
  forall start d,
    sorted_keys (d_objects (base d)) -> fits start d ->
    exists d',
      renumber_objects_with start d = Done d' /\
      length (d_objects (base d')) = length (d_objects (base d)) /\
      map fst (map fst (d_objects (base d'))) = nums_from start (length (d_objects (base d))) /\
      map snd (map fst (d_objects (base d'))) = map snd (map fst (d_objects (base d))) /\
      sorted_keys (d_objects (base d')) /\
      (d_objects (base d) <> [] -> d_max_id (base d') = last (map fst (map fst (d_objects (base d')))) 0%N) /\
      (d_objects (base d) <> [] -> d_max_id (base d') = (start + N.of_nat (length (d_objects (base d))) - 1)%N) /\
      (d_objects (base d) = [] -> d_max_id (base d') = if (start =? 0)%N then 0%N else (start - 1)%N).
Proof. exact renumber_dense_all. Qed.

(* (3) "from 1": renumber_objects() is the start = 1 instance, and it fits unless there are 2^32 objects *)
Theorem C10_renumber_objects :
  forall d, renumber_objects d = renumber_objects_with 1 d /\
            (fits 1 d <-> (N.of_nat (length (d_objects (base d))) <= 4294967295)%N).
Proof. intro d. split; [apply renumber_objects_is_with_1 | apply fits_1]. Qed.

(* (4) The u32 hypothesis is a domain restriction, not a weakening: when the numbers do not fit the call
   panics (repaired code: an `expect` with a message instead of an arithmetic overflow). *)
Theorem C10_fits_necessary :
  forall start d,
    sorted_keys (d_objects (base d)) -> (start <= U32_MAX)%N -> d_objects (base d) <> [] -> ~ fits start d ->
    renumber_objects_with start d = Panic.
Proof. exact renumber_panics. Qed.

(* (5) The class of the fixed finding, in words; closed documents (every reachable reference and bookmark target
   names an object) are outside it for every start value. *)
Theorem C10_KnownClass_spec :
  forall start d,
    KnownClass start d = true <->
    exists x, (reach (d_trailer (base d)) (d_objects (base d)) x \/ In x (bm_targets d)) /\
              ~ has_obj (d_objects (base d)) x /\
              (start <= fst x < start + N.of_nat (length (d_objects (base d))))%N.
Proof. exact KnownClass_spec. Qed.

Theorem C10_closed_outside_class :
  forall start d,
    closed (d_trailer (base d)) (d_objects (base d)) -> (forall x, In x (bm_targets d) -> has_obj (d_objects (base d)) x) ->
    KnownClass start d = false.
Proof. exact closed_not_known. Qed.

(* (6) The property was REFUTED on the code before the repair of C10/dangling-in-range (model RenumberV1 = the text
   Model/Renumber.v had, validated against that crate by rounds 1-2).  Objects {1,2,3,4,9}, the catalog holds the
   dangling `5 0 R`: the old code leaves it as `5 0 R`, and number 5 is given to old object 9, so a reference that
   resolved to nothing resolves to an unrelated object. *)
Theorem C10_dangling_v1_refuted :
  exists d', renumber_objects_with_v1 1 ex_dangling = Done d' /\
    KnownClass 1 ex_dangling = true /\
    reach (d_trailer (base ex_dangling)) (d_objects (base ex_dangling)) (5, 0)%N /\
    lookup (d_objects (base ex_dangling)) (5, 0)%N = None /\
    holds_ref (d_objects (base ex_dangling)) (1, 0)%N (bs "Gone") = Some (ORef 5 0) /\
    holds_ref (d_objects (base d')) (1, 0)%N (bs "Gone") = Some (ORef 5 0) /\
    lookup (d_objects (base d')) (5, 0)%N = lookup (d_objects (base ex_dangling)) (9, 0)%N /\
    lookup (d_objects (base d')) (5, 0)%N <> None.
Proof. exact dangling_refuted. Qed.

(* (6a) the same input on the repaired code: the reference is the null object afterwards *)
Theorem C10_dangling_repaired :
  exists d', renumber_objects_with 1 ex_dangling = Done d' /\
    holds_ref (d_objects (base d')) (1, 0)%N (bs "Gone") = Some ONull /\
    lookup (d_objects (base d')) (5, 0)%N = lookup (d_objects (base ex_dangling)) (9, 0)%N /\
    d_trailer (base d') = [(K_Root, ORef 1 0); (bs "Nine", ORef 5 0)]%N.
Proof. exact dangling_repaired. Qed.

(* (6b) bookmark targets: start 0, bookmarks with the pages (0,0) and (2,0) that name no object: the old code leaves
   (0,0), which then names the object numbered 0; the repaired code writes the "no page" id, here (0,1) because the
   object numbered 0 has generation 0 *)
Theorem C10_dangling_bookmark_v1_refuted :
  exists d0 d1, renumber_objects_with_v1 0 ex_bm0 = Done d0 /\ renumber_objects_with 0 ex_bm0 = Done d1 /\
    map (fun kb => bm_page (snd kb)) (bm_table ex_bm0) = [(0,0); (7,0); (2,0)]%N /\
    lookup (d_objects (base ex_bm0)) (0,0)%N = None /\
    map (fun kb => bm_page (snd kb)) (bm_table d0) = [(0,0); (1,0); (2,0)]%N /\
    lookup (d_objects (base d0)) (0,0)%N <> None /\
    map (fun kb => bm_page (snd kb)) (bm_table d1) = [(0,1); (1,0); (0,1)]%N /\
    lookup (d_objects (base d1)) (0,1)%N = None.
Proof. exact dangling_bookmark_refuted. Qed.

(* (7) The mechanism named in the anchors: traverse_objects terminates within trav_fuel (the out-of-fuel value
   is never produced), visits exactly the ids reachable along renamed references, each once, and applies
   the action to every reference of the trailer and of each visited object exactly once. *)
Theorem C10_traverse_once :
  forall f tr m fuel,
    trav_fuel tr m <= fuel ->
    exists m' refs,
      traverse_objects f fuel tr m = Some (rename_dict f tr, m', refs) /\
      NoDup refs /\
      (forall x, In x refs <-> reachf f tr m x) /\
      map fst m' = map fst m /\
      (forall x, reachf f tr m x -> lookup m' x = option_map (rename f) (lookup m x)) /\
      (forall x, ~ reachf f tr m x -> lookup m' x = lookup m x).
Proof. exact traverse_spec. Qed.

(* (7a) the same for the action of the dense pass, which may overwrite a reference with the null object ([f] gives
   [None]): such a reference is not recorded and not followed *)
Theorem C10_traverse_once_o :
  forall f tr m fuel,
    trav_fuel tr m <= fuel ->
    exists m' refs,
      traverse_objects_o f fuel tr m = Some (rename_dict_o f tr, m', refs) /\
      NoDup refs /\
      (forall x, In x refs <-> reachfo f tr m x) /\
      map fst m' = map fst m /\
      (forall x, reachfo f tr m x -> lookup m' x = option_map (rename_o f) (lookup m x)) /\
      (forall x, ~ reachfo f tr m x -> lookup m' x = lookup m x).
Proof. exact traverse_o_spec. Qed.

(* (8) non-vacuity of (1)/(2): a document with two pages out of id order (so that the page-order pass runs), a
   non-zero generation, bookmarks, an unreachable object and a dangling reference (the document is not
   closed) meets the hypotheses; both passes do work; the dangling `77 0 R` of the trailer is null afterwards. *)
Theorem C10_example :
  sorted_keys (d_objects (base ex_swap)) /\ fits 1 ex_swap /\
  ~ closed (d_trailer (base ex_swap)) (d_objects (base ex_swap)) /\
  dict_get (d_trailer (base ex_swap)) (bs "Far") = Some (ORef 77 0) /\
  page_iter (base ex_swap) = [(8,1); (3,0)]%N /\
  exists d', renumber_objects_with 1 ex_swap = Done d' /\
    map fst (d_objects (base d')) = [(1,0); (2,0); (3,0); (4,0); (5,1)]%N /\
    page_iter (base d') = [(3,0); (5,1)]%N /\
    bm_targets d' = [(3,0); (5,1); (5,1)]%N /\
    dict_get (d_trailer (base d')) (bs "Far") = Some ONull /\
    d_max_id (base d') = 5%N.
Proof. exact ex_swap_main. Qed.

(* (9) The property was REFUTED on the pinned code (model RenumberV0, validated against the pinned crate before
   the repairs; each theorem also shows the repaired model on the same input).
   (9a) fixed d448977: bookmark targets renamed one pair at a time -- after a swap of two pages all three
        bookmarks name the same page *)
Theorem C10_bookmarks_v0_refuted :
  exists d0 d1, renumber_objects_with_v0 1 ex_swap0 = Done d0 /\ renumber_objects_with 1 ex_swap0 = Done d1 /\
    map (fun kb => bm_page (snd kb)) (bm_table ex_swap0) = [(5,0); (3,0); (3,0)]%N /\
    map (fun kb => bm_page (snd kb)) (bm_table d0) = [(4,0); (4,0); (4,0)]%N /\
    map (fun kb => bm_page (snd kb)) (bm_table d1) = [(3,0); (4,0); (4,0)]%N /\
    page_iter (base d1) = [(3,0); (4,0)]%N.
Proof. exact bookmarks_v0_refuted. Qed.

(* (9b) fixed 96237ff: a page listed twice -- an object is lost *)
Theorem C10_page_twice_v0_refuted :
  exists d0 d1, renumber_objects_with_v0 1 ex_twice = Done d0 /\ renumber_objects_with 1 ex_twice = Done d1 /\
    length (d_objects (base ex_twice)) = 4 /\ length (d_objects (base d0)) = 3 /\ length (d_objects (base d1)) = 4.
Proof. exact page_twice_v0_refuted. Qed.

(* (9c) fixed 280c026: pages of different generations collide -- an object is lost *)
Theorem C10_page_generations_v0_refuted :
  exists d0 d1, renumber_objects_with_v0 1 ex_gens = Done d0 /\ renumber_objects_with 1 ex_gens = Done d1 /\
    length (d_objects (base ex_gens)) = 6 /\ length (d_objects (base d0)) = 5 /\ length (d_objects (base d1)) = 6.
Proof. exact page_generations_v0_refuted. Qed.

(* (9d) fixed 4a66b94: start 0 on a document without objects, and assigning u32::MAX, panicked *)
Theorem C10_u32_v0_refuted :
  renumber_objects_with_v0 0 ex_empty = Panic /\
  renumber_objects_with_v0 4294967295 ex_one = Panic /\
  (exists d', renumber_objects_with 0 ex_empty = Done d' /\ d_max_id (base d') = 0%N) /\
  (exists d', renumber_objects_with 4294967295 ex_one = Done d' /\
              map fst (d_objects (base d')) = [(4294967295, 0)]%N /\ d_max_id (base d') = 4294967295%N).
Proof. exact u32_v0_refuted. Qed.

(* (10) The page counter `i: i32` of renumber_objects_with (one `i += 1` per distinct page, overflow-checked) is part
   of the model the correspondence runs (renumber_objects_with_i32).  page_iter yields at most one id per object, so
   below 2^31 objects the counter is exact and theorems (1)-(4) are about the code as it is; with more than i32::MAX
   distinct pages the call panics before it changes anything. *)
Theorem C10_page_counter :
  forall start d,
    ((N.of_nat (length (d_objects (base d))) <= I32_MAX)%N ->
     renumber_objects_with_i32 start d = renumber_objects_with start d) /\
    ((I32_MAX < N.of_nat (length (dedup_oids [] (page_iter (base d)))))%N -> renumber_objects_with_i32 start d = Panic) /\
    length (dedup_oids [] (page_iter (base d))) <= length (d_objects (base d)).
Proof.
  intros start d. split; [apply page_counter|]. split; [apply page_counter_panics|].
  pose proof (dedup_length (page_iter (base d)) []). pose proof (page_iter_length (base d)). lia.
Qed.

(* (11) Composition with C01 (save / load round trip).  [writable]: the part of C01's domain [savable] that does not
   speak about object numbers or max_id (binary mark, version, generations <= 65535, objects and trailer well formed,
   no Prev / Encrypt).  Renumbering a writable document from start >= 1 (two spare numbers below 2^32) gives a document
   in C01's domain -- even when the old numbering was not (one number under several generations) -- and keeps it outside
   C01's nesting class; hence renumber ; save ; load returns the renumbered document, in either cross-reference format. *)
Theorem C10_renumber_savable :
  forall start d,
    sorted_keys (d_objects (base d)) -> (1 <= start)%N ->
    (start + N.of_nat (length (d_objects (base d))) + 1 < u32_mod)%N ->
    writable (base d) ->
    exists d', renumber_objects_with start d = Done d' /\ savable (base d') /\
               (known_deep (base d) = false -> known_deep (base d') = false).
Proof. exact renumber_savable. Qed.

Theorem C10_renumber_save_load :
  forall xt start d,
    sorted_keys (d_objects (base d)) -> (1 <= start)%N ->
    (start + N.of_nat (length (d_objects (base d))) + 1 < u32_mod)%N ->
    writable (base d) -> known_deep (base d) = false ->
    exists d', renumber_objects_with start d = Done d' /\
      (small_file xt (base d') -> cycles_fit xt (base d') ->
       load (so_bytes (save xt (base d'))) = LOk (reloaded xt (base d')) (xtype_of xt) /\
       same_doc (base d') (reloaded xt (base d'))).
Proof. exact renumber_save_load. Qed.

Theorem C10_savable_is_writable : forall d, savable d -> writable d.
Proof. exact savable_writable. Qed.

(* non-vacuity of (11): ex_gens (number 5 under generations 0 and 1, pages out of id order) is writable but NOT savable;
   renumbered from 1 it is savable and the saved file loads back as the renumbered document *)
Theorem C10_save_load_example :
  writable (base ex_gens) /\ ~ savable (base ex_gens) /\ known_deep (base ex_gens) = false /\
  exists d', renumber_objects_with 1 ex_gens = Done d' /\ savable (base d') /\
    map fst (d_objects (base d')) = [(1,0); (2,0); (3,0); (4,1); (5,0); (6,0)]%N /\
    load (so_bytes (save XTable (base d'))) = LOk (reloaded XTable (base d')) XTTable /\
    same_doc (base d') (reloaded XTable (base d')).
Proof. exact ex_gens_save_load. Qed.

(* (12) The README merge example: each document is renumbered from the previous document's max_id + 1 (the first from
   s >= 1) and the objects are collected in one map (BTreeMap::extend).  The second start value is s + n1, the two
   number ranges are [s, s+n1) and [s+n1, s+n1+n2): no number occurs in both documents; the union is sorted, its keys
   are the keys of the first document followed by those of the second, its numbers are s .. s+n1+n2-1; every object of
   either document is in the union unchanged; and the graph reachable from either trailer in the union is exactly the
   graph reachable in its own document -- no reference of one document resolves into the other (this needs that no
   reachable reference is dangling after renumbering, which the repair of dangling-in-range provides: before it, a
   dangling `k 0 R` of the first document would resolve to an object of the second one). *)
Theorem C10_merge_disjoint :
  forall s d1 d2,
    sorted_keys (d_objects (base d1)) -> sorted_keys (d_objects (base d2)) -> (1 <= s)%N ->
    (s + N.of_nat (length (d_objects (base d1))) + N.of_nat (length (d_objects (base d2))) <= 4294967296)%N ->
    exists d1' d2',
      renumber_objects_with s d1 = Done d1' /\
      renumber_objects_with (d_max_id (base d1') + 1) d2 = Done d2' /\
      let n1 := length (d_objects (base d1)) in let n2 := length (d_objects (base d2)) in
      let m1 := d_objects (base d1') in let m2 := d_objects (base d2') in
      let U := insert_all m2 m1 in
      (d_max_id (base d1') + 1 = s + N.of_nat n1)%N /\
      numbers m1 = nums_from s n1 /\ numbers m2 = nums_from (s + N.of_nat n1) n2 /\
      (forall x y, has_obj m1 x -> has_obj m2 y -> fst x <> fst y) /\
      sorted_keys U /\ map fst U = map fst m1 ++ map fst m2 /\ numbers U = nums_from s (n1 + n2) /\
      (forall x, has_obj m1 x -> lookup U x = lookup m1 x) /\
      (forall x, has_obj m2 x -> lookup U x = lookup m2 x) /\
      (forall x, reach (d_trailer (base d1')) U x <-> reach (d_trailer (base d1')) m1 x) /\
      (forall x, reach (d_trailer (base d2')) U x <-> reach (d_trailer (base d2')) m2 x) /\
      (n2 <> 0%nat -> (d_max_id (base d2') = s + N.of_nat n1 + N.of_nat n2 - 1)%N).
Proof. exact merge_two. Qed.

Theorem C10_merge_example :
  sorted_keys (d_objects (base ex_swap)) /\ sorted_keys (d_objects (base ex_dangling)) /\
  exists d1' d2',
    renumber_objects_with 1 ex_swap = Done d1' /\
    renumber_objects_with (d_max_id (base d1') + 1) ex_dangling = Done d2' /\
    map fst (insert_all (d_objects (base d2')) (d_objects (base d1'))) =
      [(1,0); (2,0); (3,0); (4,0); (5,1); (6,0); (7,0); (8,0); (9,0); (10,0)]%N /\
    d_trailer (base d2') = [(K_Root, ORef 6 0); (bs "Nine", ORef 10 0)]%N /\
    page_iter (base d1') = [(3,0); (5,1)]%N /\ page_iter (base d2') = [(8,0); (9,0)]%N.
Proof. exact merge_example. Qed.

Print Assumptions C10_renumber_iso.
Print Assumptions C10_renumber_dense.
Print Assumptions C10_renumber_objects.
Print Assumptions C10_fits_necessary.
Print Assumptions C10_KnownClass_spec.
Print Assumptions C10_closed_outside_class.
Print Assumptions C10_dangling_v1_refuted.
Print Assumptions C10_dangling_repaired.
Print Assumptions C10_dangling_bookmark_v1_refuted.
Print Assumptions C10_traverse_once.
Print Assumptions C10_traverse_once_o.
Print Assumptions C10_example.
Print Assumptions C10_bookmarks_v0_refuted.
Print Assumptions C10_page_twice_v0_refuted.
Print Assumptions C10_page_generations_v0_refuted.
Print Assumptions C10_u32_v0_refuted.
Print Assumptions C10_page_counter.
Print Assumptions C10_renumber_savable.
Print Assumptions C10_renumber_save_load.
Print Assumptions C10_savable_is_writable.
Print Assumptions C10_save_load_example.
Print Assumptions C10_merge_disjoint.
Print Assumptions C10_merge_example.
