(* Props/C10.v -- property C10: renumbering objects preserves the document graph.
   placeholder: rung 1 (dense pass only); the full theorem set replaces this file. *)
From LV Require Import Base.Bytes Model.Obj Model.DocQ Model.PageTree Model.Traverse Model.Renumber Model.RenumberV0
  Spec.RenumberSpec Proofs.RenumberProofsDense Proofs.RenumberProofsTop.

Theorem C10_dense_pass_iso_partial :
  forall start d,
  sorted_keys (d_objects (base d)) -> fits start d -> KnownClass start d = false ->
  exists d' rho,
    dense_pass start d = Done d' /\
    inj_on (used d) rho /\
    d_trailer (base d') = rename_dict rho (d_trailer (base d)) /\
    (forall id, reach (d_trailer (base d)) (d_objects (base d)) id ->
                lookup (d_objects (base d')) (rho id) = option_map (rename rho) (lookup (d_objects (base d)) id)) /\
    (forall id, used d id -> ~ reach (d_trailer (base d)) (d_objects (base d)) id ->
                lookup (d_objects (base d')) (rho id) = lookup (d_objects (base d)) id) /\
    bm_table d' = renumber_bookmarks_with rho (bm_table d) /\
    map fst (d_objects (base d')) = dense_ids (map fst (d_objects (base d))) start /\
    d_max_id (base d') = dense_max d start /\
    (forall x, reach (d_trailer (base d')) (d_objects (base d')) x <->
               exists id, reach (d_trailer (base d)) (d_objects (base d)) id /\ x = rho id) /\
    bookmarks d' = bookmarks d /\ d_version (base d') = d_version (base d) /\ d_binary_mark (base d') = d_binary_mark (base d).
Proof. exact dense_pass_iso. Qed.

Print Assumptions C10_dense_pass_iso_partial.
