(* Props/C09.v -- property C09: stream filters decode as specified; compression is lossless.
   Statements only; proofs live in Proofs/FilterProofs{Png,A85,Dict,Stream,Doc}.v.

   Model: Model/{A85,Png,StreamFilt}.v (the code after five repairs), Model/FiltersPinned.v (the code before).
   Specification: Spec/{A85Spec,PngSpec,StreamSpec}.v (ISO 32000-1 7.4.3, PNG 1.2 section 6, ISO 32000-1 7.3.8.2 /
   7.4.4), sharing no definition with the model.

   THIRD PARTY.  flate2 (zlib) and weezl (LZW) are not modelled.  They appear as the universally quantified
   functions [inflate], [lzw e] (what the decoders leave in the output buffer) and [deflate]; whatever a theorem
   needs to know about them is a hypothesis written out in its statement.  In the decoding theorems "enc is a
   zlib / LZW stream for payload" is by definition "the third-party decoder returns payload for enc", so those
   theorems speak about lopdf's own code around the decoders: parameter routing, predictor, ASCII85, chaining.

   Section (7) removes the oracle from the DEFINITION of a zlib / LZW stream: Spec/LzwSpec.v is an executable LZW
   codec (ISO 32000-1 7.4.4.2, EarlyChange 0/1, clear-table when full or sooner) proved lossless for every byte
   string (C09_lzw_decode_encode), Spec/Inflate.v an executable RFC 1950/1951 decoder (stored, fixed and dynamic
   Huffman blocks, Adler-32) proved to invert the stored-block encoder (C09_inflate_stored).  "enc is a zlib / LZW
   stream for payload" then means "the standard's decoder returns payload", and what is still ASSUMED of the crates is
   written as the three predicates of Spec/StreamCodecSpec.v:
     implements_inflate inflate, implements_lzw lzw  (the crates' decoders agree with the Gallina decoders wherever
     those succeed),  valid_zlib_output deflate c    (flate2's compressor writes a zlib stream for c);
   all three are differential-tested against the extracted Gallina codecs on every run (cases lzwrt/lzwdec/zrt/zdec).

   [dict_wf d] = the keys of d are pairwise distinct; the Rust type IndexMap guarantees it. *)
From LV Require Import Base.Bytes Model.Obj Gen.Filters Model.A85 Model.Png Model.StreamFilt Model.FiltersPinned
  Spec.A85Spec Spec.PngSpec Spec.StreamSpec Spec.StreamCodecSpec
  Proofs.FilterProofsPng Proofs.FilterProofsA85 Proofs.FilterProofsDict Proofs.FilterProofsStream Proofs.FilterProofsDoc
  Proofs.FilterProofsCodec.
From LV Require Spec.LzwSpec Spec.Inflate Spec.ZlibStoredSpec Proofs.LzwProofs Proofs.InflateProofs.

(* ================= (1) PNG predictors ================= *)

(* all 2^24 (left, above, upper-left) triples, by arithmetic *)
Theorem C09_paeth_eq_spec :
  forall l a ul, val (paeth l a ul) = PaethPredictor (val l) (val a) (val ul).
Proof. exact paeth_eq_spec. Qed.

(* the five numbers in front of a row select the five filter types *)
Theorem C09_filter_types :
  forall tn, valid_type tn -> exists t, ftype_of_N tn = Some t /\ tnum t = tn.
Proof.
  intros tn H. destruct (ftype_of_N_valid tn H) as [t Ht]. exists t. split; [exact Ht|].
  symmetry. apply ftype_of_N_tnum. exact Ht.
Qed.

(* every filter type, every bytes-per-pixel > 0, every row and previous row: decode_row inverts the PNG encoder *)
Theorem C09_decode_row_encode_row :
  forall t bpp prior raw,
    0 < bpp -> length prior = length raw ->
    decode_row t (N.of_nat bpp) prior (encode_row (tnum t) bpp prior raw) = Ok raw.
Proof. exact decode_row_encode_row. Qed.

(* on ANY input row (not only encoder output) the result satisfies the reconstruction equations of the PNG
   reference decoder, and those equations have only one solution *)
Theorem C09_decode_row_is_reference_decoding :
  forall t bpp prior filt raw,
    0 < bpp -> length prior = length filt ->
    decode_row t (N.of_nat bpp) prior filt = Ok raw ->
    Recon (tnum t) bpp prior filt raw /\ forall raw', Recon (tnum t) bpp prior filt raw' -> raw' = raw.
Proof.
  intros t bpp prior filt raw Hb Hl H. pose proof (decode_row_Recon t bpp prior filt raw Hb Hl H) as R.
  split; [exact R|]. intros raw' R'. exact (Recon_unique _ _ _ _ _ _ Hb R' R).
Qed.

(* a whole frame: any number of rows, any mixture of filter types *)
Theorem C09_decode_frame_encode_frame :
  forall bpp ppr types rows,
    0 < bpp ->
    (N.of_nat (bpp * ppr) <= USIZE_MAX)%N ->
    length types = length rows ->
    Forall valid_type types ->
    Forall (fun r => length r = bpp * ppr) rows ->
    decode_frame (encode_frame types bpp (bpp * ppr) rows) (N.of_nat bpp) (N.of_nat ppr) = Ok (concat rows).
Proof. exact decode_frame_encode_frame. Qed.

(* Predictor 10..15, any Columns >= 1, any Colors >= 1, BitsPerComponent 8 or 16, absent entries defaulted as in
   table 8: decode_frame is called with the geometry of the standard *)
Theorem C09_predictor_params :
  forall p pp data,
    legal_pp pp -> parms_describe (Some p) pp ->
    decompress_predictor data (Some p) =
      decode_frame data (N.of_nat (bytes_per_pixel pp)) (N.of_nat (Z.to_nat (pp_columns pp))) /\
    bytes_per_row pp = bytes_per_pixel pp * Z.to_nat (pp_columns pp) /\ 0 < bytes_per_pixel pp.
Proof.
  intros p pp data L D. split; [exact (predictor_params p pp data L D)|].
  destruct (geometry pp L) as (G0 & G1 & _). split; assumption.
Qed.

(* Predictor absent or 1: the data is passed through *)
Theorem C09_predictor_absent :
  forall p data, int_parm p P_Predictor 1 = 1%Z -> decompress_predictor data p = Ok data.
Proof. exact predictor_absent. Qed.

(* ================= (2) ASCII85 ================= *)

(* every byte string, i.e. every number of full groups followed by every partial final group *)
Theorem C09_a85_decode_encode :
  forall data, A85.decode (A85Spec.encode data ++ EOD) = Ok data.
Proof. exact a85_decode_encode. Qed.

(* every well-formed text: white space (ISO 32000-1 table 1) anywhere in the body, EOD, then anything *)
Theorem C09_a85_agrees :
  forall data text, a85_text data text -> A85.decode text = Ok data.
Proof. exact a85_agrees. Qed.

(* beyond the standard: a missing EOD marker is tolerated *)
Theorem C09_a85_missing_eod :
  forall data body,
    filter (fun b => negb (is_white b)) body = A85Spec.encode data -> A85.decode body = Ok data.
Proof. exact a85_missing_eod. Qed.

(* ================= (3) Filter / DecodeParms plumbing and whole chains ================= *)

(* both parameter forms: one dictionary, or an array parallel to the filters (null = no parameters) *)
Theorem C09_decode_parms_forms :
  forall d i, params_for d i = spec_params (dict_get d P_DecodeParms) i.
Proof. exact params_for_spec. Qed.

Theorem C09_filter_entry :
  forall d o names, dict_get d P_Filter = Some o -> filter_entry names o -> filters d = Ok names.
Proof. exact filters_spec. Qed.

(* one stage: FlateDecode / LZWDecode (EarlyChange 0, 1 or absent) with or without PNG predictor, ASCII85Decode *)
Theorem C09_stage_decodes :
  forall inflate lzw st p data enc,
    encodes_stage inflate lzw st data enc -> stage_parms_ok st p ->
    decode_one inflate lzw (stage_name st) p enc = Ok data.
Proof. exact stage_decodes. Qed.

(* every chain (of any length >= 1) over the three filters, every legal parameter set, both parameter forms,
   every byte string: the decoded content is the data the reference encoders started from *)
Theorem C09_chain_decodes :
  forall inflate lzw stages d content plain fo,
    stages <> [] ->
    dict_get d P_Filter = Some fo -> filter_entry (map stage_name stages) fo ->
    (forall i st, nth_error stages i = Some st -> stage_parms_ok st (spec_params (dict_get d P_DecodeParms) i)) ->
    encodes_chain inflate lzw stages plain content ->
    decompressed_content inflate lzw {| s_dict := d; s_content := content |} = Ok plain /\
    get_plain_content inflate lzw {| s_dict := d; s_content := content |} = Ok plain.
Proof. exact chain_decodes. Qed.

(* the model's fuel (frame_go) never runs out, so no theorem silently excludes inputs *)
Theorem C09_no_fuel :
  forall inflate lzw s, decompressed_content inflate lzw s <> Fuel.
Proof. exact decompressed_content_no_fuel. Qed.

(* an empty Filter array (no filter at all): the plain content is the content *)
Theorem C09_plain_empty_filters :
  forall inflate lzw s,
    dict_get (s_dict s) P_Filter = Some (OArr []) -> get_plain_content inflate lzw s = Ok (s_content s).
Proof. exact plain_empty_filters. Qed.

(* non-vacuity: ASCII85 around Flate with Predictor 12 / Columns 2, rows of types Up and Average, parameters as a
   parallel array [null, << >>]; and the single-filter stream with the parameters as one dictionary *)
Theorem C09_example_chain_array :
  ex_stages <> [] /\
  dict_get ex_dict_array P_Filter = Some (OArr (map OName (map stage_name ex_stages))) /\
  (forall i st, nth_error ex_stages i = Some st -> stage_parms_ok st (spec_params (dict_get ex_dict_array P_DecodeParms) i)) /\
  encodes_chain ex_inflate ex_lzw ex_stages (concat ex_rows) ex_content /\
  concat ex_rows = [x01; x02; x03; x05].
Proof. exact ex_array_hyps. Qed.

Theorem C09_example_chain_dict :
  dict_get ex_dict_single P_Filter = Some (OName N_FlateDecode) /\
  stage_parms_ok (SFlate (Some ex_pred)) (spec_params (dict_get ex_dict_single P_DecodeParms) 0) /\
  encodes_chain ex_inflate ex_lzw [SFlate (Some ex_pred)] (concat ex_rows) ex_zlib.
Proof. exact ex_single_hyps. Qed.

(* ================= (4) compression, Length ================= *)

Theorem C09_length_after_set_content :
  forall s c, s_content (set_content s c) = c /\ length_ok (set_content s c).
Proof. intros s c. destruct (set_content_spec s c) as (H1 & H2 & _). split; assumption. Qed.

Theorem C09_length_after_set_plain_content :
  forall s c,
    s_content (set_plain_content s c) = c /\ length_ok (set_plain_content s c) /\
    (dict_wf (s_dict s) -> unfiltered (set_plain_content s c)).
Proof.
  intros s c. destruct (set_plain_content_spec s c) as (H1 & H2 & H3).
  split; [exact H1|]. split; [exact H2|]. intro W. apply H3. exact W.
Qed.

(* compress either leaves the stream alone or sets Length to the new content length *)
Theorem C09_length_after_compress :
  forall deflate s, compress deflate s = s \/ length_ok (compress deflate s).
Proof. exact compress_length. Qed.

Theorem C09_length_after_decompress :
  forall inflate lzw s s',
    decompress inflate lzw s = Ok s' ->
    decompressed_content inflate lzw s = Ok (s_content s') /\ length_ok s' /\
    (dict_wf (s_dict s) -> unfiltered s' /\ get_plain_content inflate lzw s' = Ok (s_content s')).
Proof. exact decompress_spec. Qed.

(* whatever the compressor returns, the stream never becomes longer *)
Theorem C09_compress_never_longer :
  forall deflate s, length (s_content (compress deflate s)) <= length (s_content s).
Proof. exact compress_never_longer. Qed.

(* compressing and decoding again returns the original bytes; the two facts assumed about flate2 concern the
   content of this one stream *)
Theorem C09_compress_lossless :
  forall inflate lzw deflate s,
    dict_wf (s_dict s) ->
    inflate (deflate (s_content s)) = s_content s -> deflate (s_content s) <> [] ->
    get_plain_content inflate lzw (compress deflate s) = get_plain_content inflate lzw s.
Proof. exact compress_lossless. Qed.

Theorem C09_compress_unfiltered_lossless :
  forall inflate lzw deflate s,
    dict_wf (s_dict s) -> dict_get (s_dict s) P_Filter = None ->
    inflate (deflate (s_content s)) = s_content s -> deflate (s_content s) <> [] ->
    get_plain_content inflate lzw (compress deflate s) = Ok (s_content s).
Proof. exact compress_unfiltered_lossless. Qed.

(* non-vacuity: a stream that IS compressed (and carries a stale DecodeParms) under a codec satisfying the laws *)
Theorem C09_example_compress :
  dict_wf (s_dict stale_stream) /\ dict_get (s_dict stale_stream) P_Filter = None /\
  toy_inflate (toy_deflate (s_content stale_stream)) = s_content stale_stream /\
  toy_deflate (s_content stale_stream) <> [] /\
  get_plain_content toy_inflate ex_lzw (compress toy_deflate stale_stream) = Ok (s_content stale_stream) /\
  compress toy_deflate stale_stream <> stale_stream.
Proof.
  destruct compress_pinned_refuted as (H1 & H2 & H3 & H4 & _). destruct compress_witness_repaired as (H5 & H6).
  repeat split; assumption.
Qed.

(* Document::compress and Document::decompress, object by object *)
Theorem C09_document_compress :
  forall inflate lzw deflate nocomp m,
    Forall2 (compressed_obj inflate lzw deflate nocomp) m (doc_compress deflate nocomp m).
Proof. exact doc_compress_spec. Qed.

Theorem C09_document_decompress :
  forall inflate lzw m m',
    doc_decompress inflate lzw m = Ok m' -> Forall2 (decompressed_obj inflate lzw) m m'.
Proof. exact doc_decompress_spec. Qed.

(* ================= (5) the names and defaults read from the source are those of the standard ================= *)

Theorem C09_names_agree :
  K_Filter = P_Filter /\ K_DecodeParms_ = P_DecodeParms /\ K_Length = P_Length /\
  F_FLATE = N_FlateDecode /\ F_LZW = N_LZWDecode /\ F_A85 = N_ASCII85Decode /\ COMPRESS_FILTER = N_FlateDecode /\
  K_Predictor = P_Predictor /\ K_COLUMNS = P_Columns /\ K_COLORS = P_Colors /\ K_BITS = P_BitsPerComponent /\
  K_EarlyChange = P_EarlyChange /\
  (PRED_DEFAULT = 1 /\ PRED_LO = 10 /\ PRED_HI = 15 /\ COLUMNS_DEFAULT = 1 /\ COLORS_DEFAULT = 1 /\ BITS_DEFAULT = 8)%Z /\
  EARLY_CHANGE_DEFAULT = true.
Proof. exact names_agree. Qed.

(* ================= (6) the pinned tree violated the property in five ways (all repaired in /repo) ================= *)

(* f51f21b: Average predictor, row [8; 19] over [10; 20], one byte per pixel, came back as [8; 23] *)
Theorem C09_avg_pinned_refuted :
  exists prior raw, length prior = length raw /\
    decode_row_v0 FAvg 1 prior (encode_row 3 1 prior raw) = Ok [x08; x17] /\ raw = [x08; x13].
Proof. exact avg_pinned_refuted. Qed.

(* c049d3a: a group denoting 2^32 panicked (add with overflow); now it is an error value *)
Theorem C09_a85_overflow_pinned_refuted :
  decode_v0 (bs "s8W-""~>") = Panic /\ A85.decode (bs "s8W-""~>") = Err EA85.
Proof. split; [exact a85_overflow_pinned_panics | exact a85_overflow_is_error]. Qed.

(* efed7db: a NUL inside well-formed ASCII85 text silently ended the data *)
Theorem C09_a85_nul_pinned_refuted :
  exists data text, a85_text data text /\ decode_v0 text = Ok (firstn 5 data) /\ firstn 5 data <> data.
Proof. exact a85_nul_pinned_refuted. Qed.

(* c3c22fe: DecodeParms as a parallel array was ignored, the predictor silently skipped *)
Theorem C09_parms_array_pinned_refuted :
  decompressed_content_v0 ex_inflate ex_lzw {| s_dict := ex_dict_array; s_content := ex_content |} = Ok ex_payload /\
  ex_payload <> concat ex_rows.
Proof. exact parms_array_pinned_refuted. Qed.

(* fcb7fe1: compress kept a stale DecodeParms, which the new FlateDecode filter then obeyed: 25 bytes became 20 *)
Theorem C09_compress_pinned_refuted :
  dict_wf (s_dict stale_stream) /\ dict_get (s_dict stale_stream) P_Filter = None /\
  toy_inflate (toy_deflate (s_content stale_stream)) = s_content stale_stream /\
  toy_deflate (s_content stale_stream) <> [] /\
  decompressed_content_v0 toy_inflate ex_lzw (compress_v0 toy_deflate stale_stream) = Ok (repeat x00 20) /\
  repeat x00 20 <> s_content stale_stream.
Proof. exact compress_pinned_refuted. Qed.

(* the same witnesses on the repaired code *)
Theorem C09_witnesses_repaired :
  decode_row FAvg 1 [x0a; x14] (encode_row 3 1 [x0a; x14] [x08; x13]) = Ok [x08; x13] /\
  A85.decode nul_witness_text = Ok nul_witness_data.
Proof. split; [exact avg_witness_repaired | exact a85_nul_repaired]. Qed.

(* ================= (7) the codecs themselves: LZW and zlib written from the standards ================= *)

(* bit packing: codes that fit the width of their position (9..12 bits, a function of the number of codes since the
   last clear-table marker and of EarlyChange) are read back unchanged up to the EOD marker, whatever follows *)
Theorem C09_lzw_unpack_pack :
  forall ec cs k rest, LzwSpec.fits ec k cs -> In LzwSpec.EOD cs ->
    LzwSpec.unpack ec k (LzwSpec.width ec k) 0 (LzwSpec.pack ec k cs ++ rest) = LzwSpec.cut cs.
Proof. exact LzwProofs.unpack_pack. Qed.

(* every byte string, both EarlyChange values: the LZW decoder inverts the encoder (which clears its table when
   it is full, 4096 codes) *)
Theorem C09_lzw_decode_encode :
  forall ec data, LzwSpec.lzw_decode ec (LzwSpec.lzw_encode ec data) = Some data.
Proof. exact LzwProofs.lzw_decode_encode. Qed.

(* "it may do so sooner": the same for an encoder that clears at any table size up to 4096 *)
Theorem C09_lzw_decode_encode_any_clearing_point :
  forall limit ec data, (limit <= LzwSpec.TABLE_MAX)%N ->
    LzwSpec.lzw_decode ec (LzwSpec.lzw_encode_lim limit ec data) = Some data.
Proof. exact LzwProofs.lzw_decode_encode_lim. Qed.

(* every byte string, every block size 1..65535: the RFC 1950/1951 decoder inverts the stored-block encoder
   (header, LEN/NLEN, several blocks, Adler-32 modulo 65521) *)
Theorem C09_inflate_stored :
  forall data, Inflate.inflate (Inflate.deflate_stored data) = Some data.
Proof. exact InflateProofs.inflate_stored. Qed.

Theorem C09_inflate_stored_any_block_size :
  forall k data, Inflate.inflate (ZlibStoredSpec.zlib_stored k data) = Some data.
Proof. exact InflateProofs.inflate_zlib_stored. Qed.

(* one stage / every chain, the Flate and LZW stages being streams that the STANDARDS' decoders read as the payload
   (Spec/StreamCodecSpec.v); of the third-party decoders only agreement with those decoders is assumed *)
Theorem C09_stage_decodes_std :
  forall inflate lzw, implements_inflate inflate -> implements_lzw lzw ->
  forall st p data enc,
    encodes_stage_std st data enc -> stage_parms_ok st p ->
    decode_one inflate lzw (stage_name st) p enc = Ok data.
Proof. exact stage_decodes_std. Qed.

Theorem C09_chain_decodes_std :
  forall inflate lzw, implements_inflate inflate -> implements_lzw lzw ->
  forall stages d content plain fo,
    stages <> [] ->
    dict_get d P_Filter = Some fo -> filter_entry (map stage_name stages) fo ->
    (forall i st, nth_error stages i = Some st -> stage_parms_ok st (spec_params (dict_get d P_DecodeParms) i)) ->
    encodes_chain_std stages plain content ->
    decompressed_content inflate lzw {| s_dict := d; s_content := content |} = Ok plain /\
    get_plain_content inflate lzw {| s_dict := d; s_content := content |} = Ok plain.
Proof. exact chain_decodes_std. Qed.

(* the chains written by the reference encoders: ASCII85 text, LZW with any clearing point, stored-block zlib with
   any block size, PNG prediction in front of either.  Here lzw_decode (lzw_encode x) = x and
   inflate (zlib_stored x) = x are THEOREMS (above), no longer laws assumed of an oracle *)
Theorem C09_chain_decodes_reference_encoders :
  forall inflate lzw, implements_inflate inflate -> implements_lzw lzw ->
  forall stages d content plain fo,
    stages <> [] ->
    dict_get d P_Filter = Some fo -> filter_entry (map stage_name stages) fo ->
    (forall i st, nth_error stages i = Some st -> stage_parms_ok st (spec_params (dict_get d P_DecodeParms) i)) ->
    encoded_chain_ref stages plain content ->
    decompressed_content inflate lzw {| s_dict := d; s_content := content |} = Ok plain /\
    get_plain_content inflate lzw {| s_dict := d; s_content := content |} = Ok plain.
Proof. exact chain_decodes_ref. Qed.

(* lopdf's filter code run on the Gallina codecs: nothing at all is assumed about third-party code *)
Theorem C09_chain_decodes_gallina_codecs :
  forall stages d content plain fo,
    stages <> [] ->
    dict_get d P_Filter = Some fo -> filter_entry (map stage_name stages) fo ->
    (forall i st, nth_error stages i = Some st -> stage_parms_ok st (spec_params (dict_get d P_DecodeParms) i)) ->
    encoded_chain_ref stages plain content ->
    decompressed_content gallina_inflate gallina_lzw {| s_dict := d; s_content := content |} = Ok plain /\
    get_plain_content gallina_inflate gallina_lzw {| s_dict := d; s_content := content |} = Ok plain.
Proof. exact chain_decodes_gallina. Qed.

(* non-vacuity: ASCII85 around LZW (EarlyChange 0) around Flate with Predictor 12 / Columns 2, 29 bytes written by
   the three Gallina encoders, parameters [null << /EarlyChange 0 >> << /Predictor 12 /Columns 2 >>] *)
Theorem C09_example_chain_gallina :
  gx_stages <> [] /\
  dict_get gx_dict P_Filter = Some (OArr (map OName (map stage_name gx_stages))) /\
  (forall i st, nth_error gx_stages i = Some st -> stage_parms_ok st (spec_params (dict_get gx_dict P_DecodeParms) i)) /\
  encoded_chain_ref gx_stages (concat ex_rows) gx_content /\
  concat ex_rows = [x01; x02; x03; x05] /\ length gx_content = 29.
Proof. exact gx_hyps. Qed.

(* compress then decode: all that is asked of flate2's compressor is that its output is a zlib stream for the
   content (by the RFC decoder); "a zlib stream is never empty" is now a consequence *)
Theorem C09_compress_lossless_valid_zlib :
  forall inflate lzw, implements_inflate inflate ->
  forall deflate s,
    dict_wf (s_dict s) -> valid_zlib_output deflate (s_content s) ->
    get_plain_content inflate lzw (compress deflate s) = get_plain_content inflate lzw s.
Proof. intros inflate lzw H. exact (compress_lossless_std inflate lzw H). Qed.

(* a stored-block compressor: no assumption about the compressor is left (such a compressor never makes the content
   shorter, so lopdf keeps the stream as it is: the statement holds, but it is the trivial branch of compress) *)
Theorem C09_compress_lossless_stored :
  forall inflate lzw, implements_inflate inflate ->
  forall k s,
    dict_wf (s_dict s) ->
    get_plain_content inflate lzw (compress (ZlibStoredSpec.zlib_stored k) s) = get_plain_content inflate lzw s.
Proof. intros inflate lzw H. exact (compress_lossless_stored inflate lzw H). Qed.

Print Assumptions C09_paeth_eq_spec.
Print Assumptions C09_filter_types.
Print Assumptions C09_decode_row_encode_row.
Print Assumptions C09_decode_row_is_reference_decoding.
Print Assumptions C09_decode_frame_encode_frame.
Print Assumptions C09_predictor_params.
Print Assumptions C09_predictor_absent.
Print Assumptions C09_a85_decode_encode.
Print Assumptions C09_a85_agrees.
Print Assumptions C09_a85_missing_eod.
Print Assumptions C09_decode_parms_forms.
Print Assumptions C09_filter_entry.
Print Assumptions C09_stage_decodes.
Print Assumptions C09_chain_decodes.
Print Assumptions C09_no_fuel.
Print Assumptions C09_plain_empty_filters.
Print Assumptions C09_example_chain_array.
Print Assumptions C09_example_chain_dict.
Print Assumptions C09_length_after_set_content.
Print Assumptions C09_length_after_set_plain_content.
Print Assumptions C09_length_after_compress.
Print Assumptions C09_length_after_decompress.
Print Assumptions C09_compress_never_longer.
Print Assumptions C09_compress_lossless.
Print Assumptions C09_compress_unfiltered_lossless.
Print Assumptions C09_example_compress.
Print Assumptions C09_document_compress.
Print Assumptions C09_document_decompress.
Print Assumptions C09_names_agree.
Print Assumptions C09_avg_pinned_refuted.
Print Assumptions C09_a85_overflow_pinned_refuted.
Print Assumptions C09_a85_nul_pinned_refuted.
Print Assumptions C09_parms_array_pinned_refuted.
Print Assumptions C09_compress_pinned_refuted.
Print Assumptions C09_witnesses_repaired.
Print Assumptions C09_lzw_unpack_pack.
Print Assumptions C09_lzw_decode_encode.
Print Assumptions C09_lzw_decode_encode_any_clearing_point.
Print Assumptions C09_inflate_stored.
Print Assumptions C09_inflate_stored_any_block_size.
Print Assumptions C09_stage_decodes_std.
Print Assumptions C09_chain_decodes_std.
Print Assumptions C09_chain_decodes_reference_encoders.
Print Assumptions C09_chain_decodes_gallina_codecs.
Print Assumptions C09_example_chain_gallina.
Print Assumptions C09_compress_lossless_valid_zlib.
Print Assumptions C09_compress_lossless_stored.
