(* Props/C09.v -- placeholder while the proofs are being written *)
From LV Require Import Base.Bytes Model.A85 Model.Png Model.StreamFilt.
Theorem C09_placeholder : True.
Proof. exact I. Qed.
Print Assumptions C09_placeholder.
