(* Props/C13.v -- property C13: read-only queries are total on arbitrary object graphs.
   Statements only; proofs live in Proofs/QueryProofs.v, QueryProofsWalk.v, QueryV0Proofs.v.
   The model (Model/Query.v) follows the code after the seven repairs listed there; the unrepaired walkers
   are Model/QueryV0.v and the C13_..._refuted theorems state what was wrong with them.
   [o] "returns" means: (exists v, o = Ok v) \/ o = Err -- neither Panic nor OutOfFuel. *)
From LV Require Import Base.Bytes Model.Obj Model.DocQ Model.PageTree Model.Utf Model.Query Model.QueryV0
  Gen.Consts Gen.QueryC Proofs.QueryProofs Proofs.QueryProofsWalk Proofs.QueryV0Proofs Proofs.QueryReal Proofs.QueryRealText.
From LV Require Model.Toc Model.A85 Model.StreamFilt Model.CMap Spec.StreamCodecSpec Proofs.QueryRealFilt.

(* (1) dereference, as the counting loop it is, returns within DEREF_LIMIT + 2 iterations on every graph
   (reference cycles, dangling references), and is the limit-recursive function used by the other models. *)
Theorem C13_dereference_total :
  forall m o fuel, fuel_deref <= fuel ->
    ((exists v, deref_loop fuel m 0 None o = Ok v) \/ deref_loop fuel m 0 None o = Err) /\
    deref_loop fuel m 0 None o = of_opt (dereference m o).
Proof.
  intros m o fuel H. rewrite (deref_loop_total m fuel o H). split; [|reflexivity].
  apply returns_iff. apply returns_of_opt.
Qed.

Theorem C13_get_object_total :
  forall m id,
    ((exists v, q_get_object m id = Ok v) \/ q_get_object m id = Err) /\
    ((exists v, q_get_dictionary m id = Ok v) \/ q_get_dictionary m id = Err).
Proof.
  intros m id. rewrite q_get_object_eq, q_get_dictionary_eq.
  split; apply returns_iff; apply returns_of_opt.
Qed.

Theorem C13_catalog_total :
  forall d, (exists v, q_catalog d = Ok v) \/ q_catalog d = Err.
Proof. intro d. rewrite q_catalog_eq. apply returns_iff. apply returns_of_opt. Qed.

(* (2) get_page_contents never fails and its Contents loop ends within DEREF_LIMIT + 1 iterations;
   get_page_content returns for every filter decoder that returns. *)
Theorem C13_get_page_contents_total :
  forall m pid fuel, fuel_contents <= fuel -> exists l, get_page_contents fuel m pid = Ok l.
Proof. exact get_page_contents_total. Qed.

Theorem C13_get_page_content_total :
  forall (decomp : dict -> bytes -> option bytes) m pid fuel,
    fuel_contents <= fuel -> exists b, get_page_content decomp fuel m pid = Ok b.
Proof. exact get_page_content_total. Qed.

(* (3) get_page_resources / get_page_fonts: the Parent walk ends within |objects| + 2 steps (visited set) *)
Theorem C13_get_page_resources_total :
  forall m pid fuel, fuel_resources m <= fuel ->
    (exists v, get_page_resources fuel m pid = Ok v) \/ get_page_resources fuel m pid = Err.
Proof. intros m pid fuel H. apply returns_iff. apply get_page_resources_total. exact H. Qed.

Theorem C13_get_page_fonts_total :
  forall m pid fuel, fuel_resources m <= fuel ->
    (exists v, get_page_fonts fuel m pid = Ok v) \/ get_page_fonts fuel m pid = Err.
Proof. intros m pid fuel H. apply returns_iff. apply get_page_fonts_total. exact H. Qed.

(* (4) get_pages: the size hints and the allocation request of collect() are bounded by the number of
   objects whatever the Count entries say (enumeration itself is C12_total). *)
Theorem C13_get_pages_alloc_bounded :
  forall d, (get_pages_alloc d <= N.max 4 (N.of_nat (length (d_objects d)) + 1))%N /\
            (let '(h0, y, h1) := hint_probe d in
             (fst h0 <= snd h0 <= N.of_nat (length (d_objects d)))%N /\
             (fst h1 <= snd h1 <= N.of_nat (length (d_objects d)))%N) /\
            snd (fst (hint_probe d)) = hd_error (page_iter d).
Proof.
  intro d. split; [apply get_pages_alloc_bounded|]. split; [apply hint_probe_bounded | apply hint_probe_first].
Qed.

(* the upper bound size_hint promises is one, from every iterator state and on every graph: never more ids are
   yielded than promised (std adapters such as Filter::count rely on it) *)
Theorem C13_size_hint_upper_sound :
  (forall m limit kids stack,
     (N.of_nat (length (iter limit m kids stack)) <= snd (size_hint m limit kids stack))%N) /\
  (forall d, (N.of_nat (length (page_iter d)) <= snd (fst (fst (hint_probe d))))%N).
Proof. split; [exact size_hint_upper_sound | exact hint_upper_sound]. Qed.

(* (5) annotations, images, get_dict_in_dict, get_font_encoding are compositions of the total accessors:
   their models are option-valued functions (no loop, no fuel, no panic site after e154731). *)
Theorem C13_page_queries_return :
  forall m pid font node k,
    (exists r, get_page_annotations m pid = r) /\ (exists r, get_page_images m pid = r) /\
    (exists r, get_dict_in_dict m node k = r) /\ (exists r, get_font_encoding m font = r).
Proof. intros. repeat split; eexists; reflexivity. Qed.

(* (6) get_named_destinations on ANY tree of ANY graph returns within |objects| + 1 nested calls: every
   recursive call spends one unit of the kid budget (and the depth stays below NAME_TREE_DEPTH_LIMIT). *)
Theorem C13_get_named_destinations_total :
  forall m tree nm fuel, fuel_nd m <= fuel ->
    (exists v, snd (get_named_destinations fuel m tree nm) = Ok v) \/ snd (get_named_destinations fuel m tree nm) = Err.
Proof. intros m tree nm fuel H. apply returns_iff. apply get_named_destinations_total. exact H. Qed.

(* (7) get_outlines / get_toc on ANY graph (cyclic First/Next, ill-typed, dangling, direct dictionaries nested
   in one another) return with fuel (|objects| + 1) * (hmax + 1) + 1, hmax = the deepest nesting of an object:
   measure = reference budget * (hmax + 1) + nesting height of the current node. *)
Theorem C13_get_outlines_total :
  forall d fuel, fuel_toc (d_objects d) <= fuel ->
    (exists v, snd (get_outlines fuel d) = Ok v) \/ snd (get_outlines fuel d) = Err.
Proof. intros d fuel H. apply returns_iff. apply get_outlines_total. exact H. Qed.

Theorem C13_get_toc_total :
  forall d fuel, fuel_toc (d_objects d) <= fuel ->
    (exists v, get_toc fuel d = Ok v) \/ get_toc fuel d = Err.
Proof. intros d fuel H. apply returns_iff. apply get_toc_total. exact H. Qed.

(* (8) extract_text / extract_text_chunks: the graph part (page lookup, fonts, encodings, content) returns for
   every filter decoder and every content/text decoder that return (those are C04/C09/C14/C15/C16 ground). *)
Theorem C13_extract_text_chunks_total :
  forall (decomp : dict -> bytes -> option bytes)
         (text_of : list (bytes * enc_class) -> bytes -> option (list (option ustring))) d ns fuel,
    fuel_text (d_objects d) <= fuel ->
    Forall (fun o => (exists v, o = Ok v) \/ o = Err) (extract_text_chunks decomp text_of fuel d ns).
Proof.
  intros decomp text_of d ns fuel H. eapply Forall_impl; [|apply extract_text_chunks_total; exact H].
  intros o Ho. apply returns_iff. exact Ho.
Qed.

(* ---- what was wrong before the repairs (Model/QueryV0.v), each with a 3-4 object witness ---- *)

(* get_pages: a Pages sibling with a huge Count made collect() panic (capacity overflow), three of them made
   size_hint's sum overflow, and a merely large one made it request 2^45 + 1 entries for a 4-object file *)
Theorem C13_get_pages_refuted :
  (exists d, fst (get_pages_v0 d) = Panic PCapacity) /\
  (exists d, fst (get_pages_v0 d) = Panic POverflow) /\
  (exists d, length (d_objects d) = 4 /\ snd (get_pages_v0 d) = 35184372088833%N) /\
  (exists d ub, hint_upper_v0 d = Ok ub /\ (ub < N.of_nat (length (page_iter d)))%N).
Proof.
  split; [|split; [|split]]; [| | |exists w_count_zero, 0%N; destruct v0_hint_upper_wrong as [H1 H2]; rewrite H2; split; [exact H1 | reflexivity]].
  - exists w_count_huge; exact v0_get_pages_capacity.
  - exists w_count_sum; exact v0_get_pages_overflow.
  - exists w_count_alloc. destruct v0_get_pages_alloc as [H1 H2]. split; assumption.
Qed.

(* get_toc / get_outlines: index panic on `Dest []`; TRUE divergence (no fuel suffices) on an item whose Next or
   First is itself *)
Theorem C13_get_toc_refuted :
  (exists d n, get_toc_v0 n d = Panic PIndex) /\
  (exists d, forall n, get_toc_v0 n d = OutOfFuel /\ snd (get_outlines_v0 n d) = OutOfFuel) /\
  (exists d, forall n, get_toc_v0 n d = OutOfFuel /\ snd (get_outlines_v0 n d) = OutOfFuel).
Proof.
  split; [exists w_dest_empty, 8; exact v0_toc_index|].
  split.
  - exists w_next_self. intro n. split; [apply v0_toc_diverges | apply v0_next_self_diverges].
  - exists w_first_self. intro n. split; [apply v0_toc_diverges | apply v0_first_self_diverges].
Qed.

(* get_named_destinations: unwrap on a missing D, unwrap on a non-string key, index on a short array, true
   divergence (unbounded recursion) on a Kids cycle *)
Theorem C13_get_named_destinations_refuted :
  (exists m tree, snd (nd_walk_v0 4 m tree []) = Panic PUnwrap) /\
  (exists m tree, snd (nd_walk_v0 4 m tree []) = Panic PIndex) /\
  (exists m tree, forall n nm, nd_walk_v0 n m tree nm = (nm, OutOfFuel)).
Proof.
  destruct v0_nd_panics as [H1 [_ [H3 _]]].
  split; [eexists; eexists; exact H1|]. split; [eexists; eexists; exact H3|].
  eexists; eexists. exact v0_nd_kids_diverges.
Qed.

Theorem C13_get_page_images_refuted :
  exists m pid, get_page_images_v0 m pid = Panic PIndex.
Proof. eexists; eexists. exact v0_images_index. Qed.

(* the repaired queries return on every one of those witnesses *)
Theorem C13_witnesses_repaired :
  get_pages_alloc w_count_huge = 4%N /\ get_pages_alloc w_count_sum = 4%N /\ get_pages_alloc w_count_alloc = 4%N /\
  get_toc (fuel_toc (d_objects w_dest_empty)) w_dest_empty = Ok ([], 0%N) /\
  get_toc (fuel_toc (d_objects w_next_self)) w_next_self = Err /\
  get_toc (fuel_toc (d_objects w_first_self)) w_first_self = Err /\
  snd (get_named_destinations (fuel_nd (nd_objs tree_kids_self [])) (nd_objs tree_kids_self []) tree_kids_self []) = Err /\
  get_page_images w_img_objs (2, 0)%N = None.
Proof.
  destruct fixed_get_pages_alloc as [A [B [C _]]]. destruct fixed_outlines_return as [D [E F]].
  destruct fixed_nd_return as [_ [_ [_ G]]].
  repeat split; try assumption; exact fixed_images_return.
Qed.

(* non-vacuity: a graph with a reference cycle and a Parent cycle on which the queries return values and errors *)
Theorem C13_example_cycles :
  q_dereference w_cycles (ORef 1 0) = Err /\
  q_get_object w_cycles (1, 0)%N = Err /\
  get_page_contents fuel_contents w_cycles (3, 0)%N = Ok [] /\
  get_page_resources (fuel_resources w_cycles) w_cycles (3, 0)%N = Err /\
  get_page_resources (fuel_resources w_cycles) w_cycles (4, 0)%N = Err /\
  get_page_resources (fuel_resources w_cycles) w_cycles (1, 0)%N = Ok (None, []).
Proof. exact example_cycles. Qed.

(* ---- (9) the content-reading queries with lopdf's REAL stages (composition with C09 / C04) ----
   (2) and (8) above take Stream::decompressed_content as an option-valued function: a type in which a panic cannot be
   written.  Proofs/QueryReal.v restates the queries over OUTCOME-valued stages ([get_page_content_x dx]: a Panic /
   OutOfFuel of the stage is the answer of the query, see C13_example_stage_panic_propagates) and instantiates the stage
   with [decomp_real inflate lzw]: C09's value model of lopdf's filter chain (Model/StreamFilt.v) run side by side with
   C04's site-explicit models of ASCII85 and the PNG predictor (Model/SafeFilt.v), around the two third-party decoders
   [inflate] (flate2 ZlibDecoder::read_to_end) and [lzw] (weezl decode_all) -- Coq functions, i.e. assumed to RETURN
   (what they return is irrelevant here; lopdf swallows their errors).  That is the only third-party fact left. *)

(* Stream::decompressed_content answers a value or an error on every stream: never Panic (new: the one site of the value
   model, png::decode_row's previous[i], always sees rows of equal length), never Fuel (C09_no_fuel) *)
Theorem C13_decompressed_content_returns :
  forall (inflate : bytes -> bytes) (lzw : bool -> bytes -> bytes) s,
    (exists data, StreamFilt.decompressed_content inflate lzw s = A85.Ok data) \/
    (exists e, StreamFilt.decompressed_content inflate lzw s = A85.Err e).
Proof. exact QueryRealFilt.decompressed_content_returns. Qed.

(* the chain with C04's panic sites explicit IS that value chain (C04_a85_no_panic, C04_predictor_no_panic,
   C04_a85_terminates, C04_predictor_terminates discharge every site check) *)
Theorem C13_filter_sites_never_fire :
  forall (inflate : bytes -> bytes) (lzw : bool -> bytes -> bytes) s,
    QueryRealFilt.decompressed_sites inflate lzw s =
      QueryRealFilt.sres_of_res (StreamFilt.decompressed_content inflate lzw s) /\
    ((exists data, QueryRealFilt.decompressed_sites inflate lzw s = QueryRealFilt.SiteOk data) \/
     QueryRealFilt.decompressed_sites inflate lzw s = QueryRealFilt.SiteErr).
Proof.
  intros. split; [apply QueryRealFilt.decompressed_sites_eq | apply QueryRealFilt.decompressed_sites_returns].
Qed.

(* the adapter between the two monads: a stage that returns makes the lifted query equal to Query's on the forgotten stage *)
Theorem C13_get_page_content_adapter :
  forall (dx : dict -> bytes -> out bytes),
    (forall sd c, (exists v, dx sd c = Ok v) \/ dx sd c = Err) ->
    forall fuel m pid, get_page_content_x dx fuel m pid = get_page_content (forget_d dx) fuel m pid.
Proof. intros dx H fuel m pid. apply get_page_content_x_eq. intros sd c. apply returns_iff. apply H. Qed.

(* get_page_content on ANY object graph, with the real filter code, for ANY pair of decoders that return: Ok -- no Panic,
   no OutOfFuel -- with the explicit fuel DEREF_LIMIT + 1 (the filter models' own fuel is internal: |data| rows); and the
   value is the one Query.get_page_content computes on the runner's instantiation of [decomp] *)
Theorem C13_get_page_content_total_real :
  forall (inflate : bytes -> bytes) (lzw : bool -> bytes -> bytes) m pid fuel,
    fuel_contents <= fuel ->
    (exists b, get_page_content_x (decomp_real inflate lzw) fuel m pid = Ok b) /\
    get_page_content_x (decomp_real inflate lzw) fuel m pid = get_page_content (decomp_opt inflate lzw) fuel m pid.
Proof. exact get_page_content_total_real. Qed.

(* the same with the Gallina decoders of C09 (Spec/Inflate.v, Spec/LzwSpec.v) in place of flate2 / weezl: nothing assumed *)
Theorem C13_get_page_content_total_gallina :
  forall m pid fuel, fuel_contents <= fuel ->
    exists b, get_page_content_x (decomp_real StreamCodecSpec.gallina_inflate StreamCodecSpec.gallina_lzw) fuel m pid = Ok b.
Proof. intros m pid fuel H. apply (get_page_content_total_real _ _ m pid fuel H). Qed.

(* non-vacuity of the lifted model: a stage that panics / runs out of fuel makes the query answer just that *)
Theorem C13_example_stage_panic_propagates :
  get_page_content_x (fun _ _ => Panic POverflow) fuel_contents ex_content_objs (1, 0)%N = Panic POverflow /\
  get_page_content_x (fun _ _ => OutOfFuel) fuel_contents ex_content_objs (1, 0)%N = OutOfFuel /\
  get_page_content_x (decomp_real (fun _ => []) (fun _ _ => [])) fuel_contents ex_content_objs (1, 0)%N = Ok ex_content_plain.
Proof. exact example_stage_panic_propagates. Qed.

(* ---- (10) extract_text / extract_text_chunks with the real text stage (composition with C04 / C14 / C15 / C16) ----
   [text_of_real] (Proofs/QueryRealText.v) = get_encoding_from_to_unicode_cmap (get_plain_content through the real filter
   chain, the CMap grammar of Model/CMapParser.v, lopdf's from_sections), Content::decode (Model/Parser.v [decode_content]),
   the Tf / Tj / TJ / ET loop with collect_text, and decode_text (one-byte tables with the `expect`; the ToUnicode loop),
   every component able to answer Panic / OutOfFuel, C04's site-explicit models of the two decoders beside the value models.
   Used: C04_content_no_panic, C04_content_terminates (fuel |content| + 2), C15_parser_stream_fuel_sufficient,
   C04_one_byte_tables_no_panic (via table_ok of every shipped table), C04_cmap_text_no_panic (via from_sections_ok), and (9).
   Third-party code that stays a function, i.e. is assumed to RETURN, nothing else:
     inflate, lzw      flate2 ZlibDecoder::read_to_end, weezl decode_all
     utf16be_bom       encoding_rs UTF_16BE.decode, reached only for /Encoding UniGB-UCS2-H / UniGB-UTF16-H
     other_sections    nom on a ToUnicode CMap whose CIDSystemInfo dictionary holds a value other than a name, a short integer or a
                       literal string without parentheses / backslashes inside (Model/CMapParser.v
                       answers PUnmodelled there): the sections it finds or a parse error; they then go through the real
                       from_sections, so decode_text's sites stay covered.
   Hence `_partial` for the last item only: that corner of the CMap GRAMMAR is not modelled; everything of lopdf's own
   (filters, from_sections, get, the loops, the tables, the operation loop) is. *)

(* the text stage alone: a value or an error for every content and every encoding list get_font_encoding can produce *)
Theorem C13_text_stage_returns_partial :
  forall (inflate : bytes -> bytes) (lzw : bool -> bytes -> bytes) (utf16be_bom : bytes -> ustring)
         (other_sections : bytes -> option (list CMap.csection)) m fonts content,
    let o := text_of_real inflate lzw utf16be_bom other_sections (fst (page_encodings m fonts)) content in
    (exists v, o = Ok v) \/ o = Err.
Proof.
  intros. apply returns_iff. apply text_of_real_returns. apply page_encodings_shipped.
Qed.

(* extract_text_chunks on ANY document, ANY page numbers: every entry is a value or an error -- no Panic, no OutOfFuel -- with
   the explicit fuel max (DEREF_LIMIT + 1) (|objects| + 2); and the entries are those of Query.extract_text_chunks on the
   two stages with their outcome forgotten *)
Theorem C13_extract_text_chunks_total_real_partial :
  forall (inflate : bytes -> bytes) (lzw : bool -> bytes -> bytes) (utf16be_bom : bytes -> ustring)
         (other_sections : bytes -> option (list CMap.csection)) d ns fuel,
    fuel_text (d_objects d) <= fuel ->
    Forall (fun o => (exists v, o = Ok v) \/ o = Err)
      (extract_text_chunks_x (decomp_real inflate lzw) (text_of_real inflate lzw utf16be_bom other_sections) fuel d ns) /\
    extract_text_chunks_x (decomp_real inflate lzw) (text_of_real inflate lzw utf16be_bom other_sections) fuel d ns =
      extract_text_chunks (forget_d (decomp_real inflate lzw))
                          (forget_t (text_of_real inflate lzw utf16be_bom other_sections)) fuel d ns.
Proof.
  intros inflate lzw u os d ns fuel H. destruct (extract_text_chunks_total_real inflate lzw u os d ns fuel H) as [H1 H2].
  split; [|exact H2]. eapply Forall_impl; [|exact H1]. intros o Ho. apply returns_iff. exact Ho.
Qed.

(* extract_text (all fragments in page order, `?` on each) on ANY document and ANY page numbers: a value or an error *)
Theorem C13_extract_text_total_real_partial :
  forall (inflate : bytes -> bytes) (lzw : bool -> bytes -> bytes) (utf16be_bom : bytes -> ustring)
         (other_sections : bytes -> option (list CMap.csection)) d ns fuel,
    fuel_text (d_objects d) <= fuel ->
    let o := extract_text_x (decomp_real inflate lzw) (text_of_real inflate lzw utf16be_bom other_sections) fuel d ns in
    (exists v, o = Ok v) \/ o = Err.
Proof. intros. apply returns_iff. apply extract_text_total_real. assumption. Qed.

(* the adapter for the text stage: stages that return (the text stage only on encodings that can occur) make the lifted
   query equal to Query's *)
Theorem C13_extract_text_adapter :
  forall (dx : dict -> bytes -> out bytes) (tx : list (bytes * enc_class) -> bytes -> out (list (option ustring))),
    (forall sd c, (exists v, dx sd c = Ok v) \/ dx sd c = Err) ->
    (forall encs content, Forall enc_shipped encs -> (exists v, tx encs content = Ok v) \/ tx encs content = Err) ->
    forall fuel d ns, extract_text_chunks_x dx tx fuel d ns = extract_text_chunks (forget_d dx) (forget_t tx) fuel d ns.
Proof.
  intros dx tx H1 H2 fuel d ns. apply extract_text_chunks_x_eq.
  - intros sd c. apply returns_iff. apply H1.
  - intros encs content Hs. apply returns_iff. apply H2. exact Hs.
Qed.

(* non-vacuity: a page with a WinAnsi font and an Identity-H font whose ToUnicode CMap parses; page 2 does not exist *)
Theorem C13_example_real_text :
  extract_text_chunks_x (decomp_real (fun _ => []) (fun _ _ => []))
      (text_of_real (fun _ => []) (fun _ _ => []) (fun _ => []) (fun _ => None))
      (fuel_text (d_objects ex_real_doc)) ex_real_doc [1%N; 2%N]
  = [Ok (O, [Some [72; 105]; Some [97; 98; 99; 32; 65533; 32; 10]]%N); Err].
Proof. exact example_real_text. Qed.

Theorem C13_example_real_extract_text :
  extract_text_x (decomp_real (fun _ => []) (fun _ _ => []))
      (text_of_real (fun _ => []) (fun _ _ => []) (fun _ => []) (fun _ => None))
      (fuel_text (d_objects ex_real_doc)) ex_real_doc [1%N]
  = Ok [72; 105; 97; 98; 99; 32; 65533; 32; 10]%N /\
  extract_text_x (decomp_real (fun _ => []) (fun _ _ => []))
      (text_of_real (fun _ => []) (fun _ _ => []) (fun _ => []) (fun _ => None))
      (fuel_text (d_objects ex_real_doc)) ex_real_doc [1%N; 2%N] = Err.
Proof. exact example_real_extract_text. Qed.

Print Assumptions C13_dereference_total.
Print Assumptions C13_get_object_total.
Print Assumptions C13_catalog_total.
Print Assumptions C13_get_page_contents_total.
Print Assumptions C13_get_page_content_total.
Print Assumptions C13_get_page_resources_total.
Print Assumptions C13_get_page_fonts_total.
Print Assumptions C13_get_pages_alloc_bounded.
Print Assumptions C13_size_hint_upper_sound.
Print Assumptions C13_page_queries_return.
Print Assumptions C13_get_named_destinations_total.
Print Assumptions C13_get_outlines_total.
Print Assumptions C13_get_toc_total.
Print Assumptions C13_extract_text_chunks_total.
Print Assumptions C13_get_pages_refuted.
Print Assumptions C13_get_toc_refuted.
Print Assumptions C13_get_named_destinations_refuted.
Print Assumptions C13_get_page_images_refuted.
Print Assumptions C13_witnesses_repaired.
Print Assumptions C13_example_cycles.
Print Assumptions C13_decompressed_content_returns.
Print Assumptions C13_filter_sites_never_fire.
Print Assumptions C13_get_page_content_adapter.
Print Assumptions C13_get_page_content_total_real.
Print Assumptions C13_get_page_content_total_gallina.
Print Assumptions C13_example_stage_panic_propagates.
Print Assumptions C13_text_stage_returns_partial.
Print Assumptions C13_extract_text_chunks_total_real_partial.
Print Assumptions C13_extract_text_adapter.
Print Assumptions C13_example_real_text.
Print Assumptions C13_extract_text_total_real_partial.
Print Assumptions C13_example_real_extract_text.
