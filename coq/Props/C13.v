(* Props/C13.v -- property C13: read-only queries are total on arbitrary object graphs.
   Statements only; proofs live in Proofs/QueryProofs*.v.   (placeholder marker: rungs 2-3 still to come)
   [o] "returns" means: (exists v, o = Ok v) \/ o = Err -- neither Panic nor OutOfFuel. *)
From LV Require Import Base.Bytes Model.Obj Model.DocQ Model.PageTree Model.Query Gen.Consts Gen.QueryC
  Proofs.QueryProofs.

(* (1) dereference, as the counting loop it is, returns within DEREF_LIMIT + 2 iterations on every graph
   (reference cycles, dangling references), and is the limit-recursive function used by the other models. *)
Theorem C13_dereference_total :
  forall m o fuel, fuel_deref <= fuel ->
    ((exists v, deref_loop fuel m 0 None o = Ok v) \/ deref_loop fuel m 0 None o = Err) /\
    deref_loop fuel m 0 None o = of_opt (dereference m o).
Proof.
  intros m o fuel H. rewrite (deref_loop_total m fuel o H). split; [|reflexivity].
  apply returns_iff. apply returns_of_opt.
Qed.

Theorem C13_get_object_total :
  forall m id,
    ((exists v, q_get_object m id = Ok v) \/ q_get_object m id = Err) /\
    ((exists v, q_get_dictionary m id = Ok v) \/ q_get_dictionary m id = Err).
Proof.
  intros m id. rewrite q_get_object_eq, q_get_dictionary_eq.
  split; apply returns_iff; apply returns_of_opt.
Qed.

Theorem C13_catalog_total :
  forall d, (exists v, q_catalog d = Ok v) \/ q_catalog d = Err.
Proof. intro d. rewrite q_catalog_eq. apply returns_iff. apply returns_of_opt. Qed.

(* (2) get_page_contents never fails and its Contents loop ends within DEREF_LIMIT + 1 iterations;
   get_page_content returns for every filter decoder that returns. *)
Theorem C13_get_page_contents_total :
  forall m pid fuel, fuel_contents <= fuel -> exists l, get_page_contents fuel m pid = Ok l.
Proof. exact get_page_contents_total. Qed.

Theorem C13_get_page_content_total :
  forall (decomp : dict -> bytes -> option bytes) m pid fuel,
    fuel_contents <= fuel -> exists b, get_page_content decomp fuel m pid = Ok b.
Proof. exact get_page_content_total. Qed.

(* (3) get_page_resources / get_page_fonts: the Parent walk ends within |objects| + 2 steps (visited set) *)
Theorem C13_get_page_resources_total :
  forall m pid fuel, fuel_resources m <= fuel ->
    (exists v, get_page_resources fuel m pid = Ok v) \/ get_page_resources fuel m pid = Err.
Proof. intros m pid fuel H. apply returns_iff. apply get_page_resources_total. exact H. Qed.

Theorem C13_get_page_fonts_total :
  forall m pid fuel, fuel_resources m <= fuel ->
    (exists v, get_page_fonts fuel m pid = Ok v) \/ get_page_fonts fuel m pid = Err.
Proof. intros m pid fuel H. apply returns_iff. apply get_page_fonts_total. exact H. Qed.

(* (4) get_pages: the size hints and the allocation request of collect() are bounded by the number of
   objects whatever the Count entries say (enumeration itself is C12_total). *)
Theorem C13_get_pages_alloc_bounded :
  forall d, (get_pages_alloc d <= N.max 4 (N.of_nat (length (d_objects d)) + 1))%N /\
            (let '(h0, y, h1) := hint_probe d in
             (h0 <= N.of_nat (length (d_objects d)))%N /\ (h1 <= N.of_nat (length (d_objects d)))%N) /\
            snd (fst (hint_probe d)) = hd_error (page_iter d).
Proof.
  intro d. split; [apply get_pages_alloc_bounded|]. split; [apply hint_probe_bounded | apply hint_probe_first].
Qed.

Print Assumptions C13_dereference_total.
Print Assumptions C13_get_object_total.
Print Assumptions C13_catalog_total.
Print Assumptions C13_get_page_contents_total.
Print Assumptions C13_get_page_content_total.
Print Assumptions C13_get_page_resources_total.
Print Assumptions C13_get_page_fonts_total.
Print Assumptions C13_get_pages_alloc_bounded.
